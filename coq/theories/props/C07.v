(** Property C07 — argument type checking agrees with the component-model subtype relation.
    This file holds only statements; every proof is [exact <lemma>] (or a short composition of lemmas).

    Vocabulary: [types] = model of [wac_types::Types] (Types.v); [is_subtype]/[check]/[run_checks] = model of
    [SubtypeChecker] (Checker.v); [unfold] = arena-free tree of a kind; [SubCM] = declarative component-model
    subtyping on trees, resource-free fragment (SubSpec.v, DESIGN A.5); [Sub eq] = the same rules plus
    "resources are compared by the name of their alias-resolved definition" (what the checker does);
    [decides r P] = r is [Ok] and P holds, or r is [Err _] and P does not hold (so never Panic / OutOfFuel).

    Resource half of the property ("accepting all of one provider's matching exports implies the instantiation
    validates") is out of model scope: it needs the reference validator's generative treatment of resources. *)
From WacV Require Import Str Types C07Flags Checker SubSpec CheckerEq SubSpecProofs CheckerValue CheckerProofs CheckerTheorems.

(** 0. The specification printed by the driver decides the declarative relation; on value types the relation
       is equality of trees (invariance). *)
Theorem spec_decision_procedure : forall a b, sub_b a b = true <-> SubCM a b.
Proof. exact sub_b_iff. Qed.
Print Assumptions spec_decision_procedure.

Theorem value_subtyping_is_equality : forall a b, VSub eq a b <-> a = b.
Proof. exact VSub_eq_iff. Qed.
Print Assumptions value_subtyping_is_equality.

(** 1. Sufficient fuel: in a well-formed collection with a ranking (acyclicity), every well-formed kind has a tree
       as soon as the fuel exceeds its rank. *)
Theorem sufficient_fuel : forall t r, wf_types t r ->
  forall g k, kind_ok t k -> (krank r k < g)%nat -> exists tr, unfold g t k = Some tr.
Proof. exact unfold_total. Qed.
Print Assumptions sufficient_fuel.

(** 2. algo_iff_declarative.  Full statement:

         forall at bt ra rb a b F, wf_types at ra -> wf_types bt rb -> (same tag -> same collection) ->
           kind_ok at a -> kind_ok bt b -> krank ra a < F -> krank rb b < F ->
           exists ta tb, unfold F at a = Some ta /\ unfold F bt b = Some tb /\
             (resfree ta -> resfree tb -> (check F at a bt b = Ok tt <-> SubCM ta tb)).

       While checker.rs compares [page_size_log2] as an [Option] ([psl_default_normalised = false]) it is FALSE of the
       faithful model and of the code (replayed on every run: known finding "memory-default-page-size"): a memory type
       that spells out the default page size (Some 16) and one that does not (None) are rejected in both directions
       although they are the same core type. *)
Theorem algo_iff_declarative_refuted : psl_default_normalised = false ->
  exists at_ bt a b ta tb,
    unfold 3 at_ a = Some ta /\ unfold 3 bt b = Some tb /\ resfree ta = true /\ resfree tb = true /\
    SubCM ta tb /\ SubCM tb ta /\
    check 3 at_ a bt b = Err EMemPage /\ check 3 bt b at_ a = Err EMemPage.
Proof.
  intro Hf. destruct (algo_iff_declarative_refuted_witness Hf) as [H1 [H2 [ta [tb [U1 [U2 [R1 [R2 [S1 S2]]]]]]]]].
  exists pz_tA, pz_tB, (KModule (mkid 1 0)), (KModule (mkid 2 0)), ta, tb. repeat split; assumption.
Qed.
Print Assumptions algo_iff_declarative_refuted.

(** PARTIAL.  What holds, on acyclic well-formed collections (two separate ones, or one and the same):
    - the checker never panics or runs out of fuel and decides [SubX];
    - SOUNDNESS at full strength: for resource-free kinds everything it accepts is in the component-model relation;
    - COMPLETENESS under [pages_ok]: nothing at all once the source normalises the default page size
      ([psl_default_normalised = true]: then this IS the full statement); until then the precise scope is "no memory
      type of either collection spells out the default page size" ([canon_types]).  Nothing else is missing. *)
Theorem algo_iff_declarative_partial : forall at_ bt ra rb a b F,
  wf_types at_ ra -> wf_types bt rb -> (t_tag at_ = t_tag bt -> at_ = bt) ->
  kind_ok at_ a -> kind_ok bt b -> (krank ra a < F)%nat -> (krank rb b < F)%nat ->
  exists ta tb, unfold F at_ a = Some ta /\ unfold F bt b = Some tb /\
                decides (check F at_ a bt b) (SubX ta tb) /\
                (resfree ta = true -> resfree tb = true ->
                 (check F at_ a bt b = Ok tt -> SubCM ta tb) /\
                 (pages_ok at_ -> pages_ok bt -> SubCM ta tb -> check F at_ a bt b = Ok tt)).
Proof. exact algo_iff_declarative_wf. Qed.
Print Assumptions algo_iff_declarative_partial.

(** 3. verdict_indep_of_variance (and of the memo): the accept/reject verdict is the same whatever the variance stack
       and whatever memo satisfying the invariant the checker starts from.  (In this code an inverted check is always
       accompanied by swapped arguments at the call site; the stack only selects the wording of diagnostics.) *)
Theorem verdict_indep_of_variance : forall at_ bt, (t_tag at_ = t_tag bt -> at_ = bt) ->
  nodup_types at_ -> nodup_types bt ->
  forall g F s s' a b ta tb, (g <= F)%nat ->
    memo_ok at_ bt (cache s) -> memo_ok at_ bt (cache s') ->
    unfold g at_ a = Some ta -> unfold g bt b = Some tb ->
    verdict (is_subtype F s at_ a bt b) = verdict (is_subtype F s' at_ a bt b).
Proof. exact verdict_indep_of_variance_and_memo. Qed.
Print Assumptions verdict_indep_of_variance.

(** 4. memo_sound: if every cached pair is a true pair ([memo_ok]), the checker with that memo decides the same relation
       as a fresh checker, the memo after the call still holds only true pairs, only grows, and the variance stack is
       restored on acceptance. *)
Theorem memo_sound : forall at_ bt, (t_tag at_ = t_tag bt -> at_ = bt) ->
  nodup_types at_ -> nodup_types bt ->
  forall g F s a b ta tb, (g <= F)%nat -> memo_ok at_ bt (cache s) ->
    unfold g at_ a = Some ta -> unfold g bt b = Some tb ->
    decides (fst (is_subtype F s at_ a bt b)) (SubX ta tb) /\
    memo_ok at_ bt (cache (snd (is_subtype F s at_ a bt b))) /\
    incl (cache s) (cache (snd (is_subtype F s at_ a bt b))) /\
    (fst (is_subtype F s at_ a bt b) = Ok tt -> ks (snd (is_subtype F s at_ a bt b)) = ks s).
Proof. exact is_subtype_decides. Qed.
Print Assumptions memo_sound.

(** ... and over any history of checks sharing one checker (what plug.rs, targets.rs and the graph's
    [type_check_cache] do), among any family of collections with pairwise distinct arenas: every verdict equals the
    verdict of a fresh checker, in particular it does not depend on the order of the preceding checks. *)
Theorem memo_never_changes_a_verdict : forall (E : types -> Prop),
  (forall t1 t2, E t1 -> E t2 -> t_tag t1 = t_tag t2 -> t1 = t2) -> (forall t, E t -> nodup_types t) ->
  forall g F, (g <= F)%nat ->
  forall l s, cache_ok E (cache s) -> Forall (check_in E g) l ->
    map is_ok (fst (run_checks F s l))
    = map (fun c => is_ok (check F (fst (fst c)) (snd (fst c)) (fst (snd c)) (snd (snd c)))) l
    /\ cache_ok E (cache (snd (run_checks F s l))).
Proof. exact run_checks_sound. Qed.
Print Assumptions memo_never_changes_a_verdict.

(** 5. sub_refl_copies: two kinds with the same tree (independently built copies, in different collections or in
       the same one) are accepted, in both directions. *)
Theorem sub_refl_copies : forall at_ bt, (t_tag at_ = t_tag bt -> at_ = bt) -> nodup_types at_ -> nodup_types bt ->
  forall g F a b t, (g <= F)%nat -> unfold g at_ a = Some t -> unfold g bt b = Some t ->
  check F at_ a bt b = Ok tt.
Proof. exact refl_copies. Qed.
Print Assumptions sub_refl_copies.

(** 6. sub_trans: across three collections. *)
Theorem sub_trans : forall at_ bt ct,
  (t_tag at_ = t_tag bt -> at_ = bt) -> (t_tag bt = t_tag ct -> bt = ct) -> (t_tag at_ = t_tag ct -> at_ = ct) ->
  nodup_types at_ -> nodup_types bt -> nodup_types ct ->
  forall g F a b c ta tb tc, (g <= F)%nat ->
    unfold g at_ a = Some ta -> unfold g bt b = Some tb -> unfold g ct c = Some tc ->
    check F at_ a bt b = Ok tt -> check F bt b ct c = Ok tt -> check F at_ a ct c = Ok tt.
Proof. exact trans3. Qed.
Print Assumptions sub_trans.

(** Non-vacuity: a concrete pair of well-formed ranked collections; instance {f,g} is accepted where {f} is expected,
    not conversely; the specification agrees. *)
Definition c07_f : str := [102]. Definition c07_g : str := [103].
Definition c07_tA : types :=
  mktypes 1 [] [] [mkfunc [] None false]
          [mkif None [] [(c07_f, KFunc (mkid 1 0))]; mkif None [] [(c07_f, KFunc (mkid 1 0)); (c07_g, KFunc (mkid 1 0))]] [] [].
Definition c07_tB : types :=
  mktypes 2 [] [] [mkfunc [] None false] [mkif None [] [(c07_f, KFunc (mkid 2 0))]] [] [].
Definition c07_rk : ranking := mkrank (fun _ => O) (fun _ => O) (fun _ => O) (fun _ => 1%nat) (fun _ => O).

Example c07_nonvacuous :
  wf_types c07_tA c07_rk /\ wf_types c07_tB c07_rk /\
  check 3 c07_tA (KInstance (mkid 1 1)) c07_tB (KInstance (mkid 2 0)) = Ok tt /\
  check 3 c07_tB (KInstance (mkid 2 0)) c07_tA (KInstance (mkid 1 1)) = Err EInstMissing /\
  (exists ta tb, unfold 3 c07_tA (KInstance (mkid 1 1)) = Some ta /\ unfold 3 c07_tB (KInstance (mkid 2 0)) = Some tb /\
                 sub_b ta tb = true /\ sub_b tb ta = false).
Proof.
  assert (Hnd1 : NoDup [c07_f]) by (constructor; [intros [] | constructor]).
  assert (Hnd2 : NoDup [c07_f; c07_g]).
  { constructor; [intros [H|[]]; discriminate H | constructor; [intros [] | constructor]]. }
  split; [|split; [|split; [|split]]].
  - split.
    + intros [|i] d H; discriminate H.
    + intros [|i] x H; discriminate H.
    + intros [|[|i]] f H; try discriminate H. injection H as <-. split; [constructor | intros v []].
    + intros [|[|[|i]]] x H; try discriminate H; injection H as <-; (split; [assumption|]);
        intros k Hin; cbn in Hin; repeat destruct Hin as [<-|Hin]; try destruct Hin; cbn; repeat split; auto.
    + intros [|i] x H; discriminate H.
    + intros [|i] x H; discriminate H.
  - split.
    + intros [|i] d H; discriminate H.
    + intros [|i] x H; discriminate H.
    + intros [|[|i]] f H; try discriminate H. injection H as <-. split; [constructor | intros v []].
    + intros [|[|i]] x H; try discriminate H; injection H as <-; (split; [assumption|]);
        intros k Hin; cbn in Hin; repeat destruct Hin as [<-|Hin]; try destruct Hin; cbn; repeat split; auto.
    + intros [|i] x H; discriminate H.
    + intros [|i] x H; discriminate H.
  - vm_compute. reflexivity.
  - vm_compute. reflexivity.
  - eexists. eexists. split; [vm_compute; reflexivity|]. split; [vm_compute; reflexivity|]. split; vm_compute; reflexivity.
Qed.

(** * Full statement on the current tree.
    [psl_default_normalised] is GENERATED from checker.rs on every run (tools/gen/gen_c07_flags.py). Since the repair
    4ea555f it is [true], so [pages_ok] holds for every collection and theorem 2 holds at FULL strength as written in
    its comment: for resource-free kinds of well-formed acyclic collections the checker accepts exactly the
    component-model subtype pairs.  A change that brings the [Option] comparison back regenerates the flag as [false]
    and this proof no longer checks. *)
Theorem algo_iff_declarative : forall at_ bt ra rb a b F,
  wf_types at_ ra -> wf_types bt rb -> (t_tag at_ = t_tag bt -> at_ = bt) ->
  kind_ok at_ a -> kind_ok bt b -> (krank ra a < F)%nat -> (krank rb b < F)%nat ->
  exists ta tb, unfold F at_ a = Some ta /\ unfold F bt b = Some tb /\
                (resfree ta = true -> resfree tb = true -> (check F at_ a bt b = Ok tt <-> SubCM ta tb)).
Proof.
  intros at_ bt ra rb a b F Wa Wb Ht Ka Kb Ra Rb.
  destruct (algo_iff_declarative_partial at_ bt ra rb a b F Wa Wb Ht Ka Kb Ra Rb) as [ta [tb [Ua [Ub [_ H]]]]].
  exists ta, tb. split; [exact Ua|]. split; [exact Ub|]. intros Fa Fb. destruct (H Fa Fb) as [S C].
  split; [exact S|]. apply C; left; reflexivity.
Qed.
Print Assumptions algo_iff_declarative.
