(** Property C03 — output imports/exports are exactly those implied; implicit imports are shared.
    Statements only. The comparison of the REAL import/export sections with [spec_imports] /
    [spec_export_names] / [spec_import_needs] (extracted) is done by ./check C03 on every run. *)
From Coq Require Import List.
From WacV Require Import Str Semver Names Graph Wiring WiringSpec EncodeModel WiringSim WiringCorrect AggProofs WiringWitness WiringImportsSpec.
From WacV Require ValidEncInv ValidFinal.
Import ListNotations.
Local Open Scope nat_scope.

(** the aggregator's name bookkeeping ([TypeAggregator::aggregate] / [canonical_import_name], name level):
    for EVERY order in which import requirements are aggregated, each requirement is answered by ONE
    entry (one import per semver track), named for the highest version among all aggregated names of
    the track, carrying the sort the requirement asked for *)
Theorem canonical_is_highest_on_track : forall L a nm s iid,
  agg_run agg_empty L = Some a -> In (nm, s, iid) L ->
  let c := canonical_name a nm in
  In c (map (fun x : str * sort * option str => fst (fst x)) L) /\ compat c nm = true /\
  (forall n s' i', In (n, s', i') L -> compat n nm = true -> higher c n = false) /\
  exists x, In x (a_imps a) /\ ae_name x = c /\ ae_sort x = s /\
            (forall y, In y (a_imps a) -> compat (ae_name y) nm = true -> y = x).
Proof. exact AggProofs.canonical_is_highest_on_track. Qed.
Print Assumptions canonical_is_highest_on_track.

(** the specification's canonical name does not depend on the order in which names are listed *)
Theorem canon_order_independent : forall names names' q,
  (forall x, In x names <-> In x names') -> canon_in names q = canon_in names' q.
Proof. exact AggProofs.canon_in_set. Qed.
Print Assumptions canon_order_independent.

(** the exported names and sorts of the model encoder's output are exactly the designated export names
    (every type definition is among them) with the sort of the designated node — for every emission
    order and every type-encoder behaviour; side conditions as for C02 [wiring_correct] plus two clauses
    of the C06 graph invariant (definitions are exported; exports designate live nodes) *)
Theorem exports_spec : forall e u g dc tau ord st names w,
  EncInv e u g -> topo_orderb g ord = true ->
  encode_with_order e u g dc tau ord = ROk (st, names) ->
  (forall p, In p (e_dedup st) -> fst p = snd p) ->
  decode_wiring names (e_log st) = Some w ->
  (forall n, In n ord -> is_def g n = true -> exists nm, In (nm, n) (exports g)) ->
  (forall nm n, In (nm, n) (exports g) -> live g n = true) ->
  forall nm s, In (nm, s) (map export_sig (w_exports w)) <-> In (nm, s) (spec_export_names e g).
Proof. exact WiringCorrect.exports_spec. Qed.
Print Assumptions exports_spec.

(** for EVERY graph built through the API the side conditions about the graph hold ([EncInv] incl. "a definition
    has one export name": [export(definition, other_name)] renames the definition, C01 [defs_single_reachable]):
    the exports of the output are exactly the export map of the graph, with no exception for definitions *)
Theorem exports_spec_reachable : forall e u ops dc tau ord st names w,
  ValidEncInv.UnivOK e u ->
  topo_orderb (run u ops) ord = true ->
  encode_with_order e u (run u ops) dc tau ord = ROk (st, names) ->
  (forall p, In p (e_dedup st) -> fst p = snd p) ->
  decode_wiring names (e_log st) = Some w ->
  forall nm s, In (nm, s) (map export_sig (w_exports w)) <-> In (nm, s) (spec_export_names e (run u ops)).
Proof. exact ValidFinal.exports_spec_reachable. Qed.
Print Assumptions exports_spec_reachable.

(** regression instance of the repaired defect ([define_type foo; export(foo, bar)], replayed on the real code on
    every run): the export map is [bar -> the definition] alone and the output exports exactly that *)
Theorem exports_spec_renamed_definition :
  exports (run w_universe ops_def_two_names) = [(6%N, 0)] /\
  exists w, encoded ops_def_two_names true = Some (w, w, []) /\ length (w_exports w) = 1.
Proof. exact def_renamed_instance. Qed.
Print Assumptions exports_spec_renamed_definition.

(** the import items the model encoder emits itself ([simports]: all [IImport] items; the type encoder's
    imports of [use]d interfaces are [IDepImport] items) are exactly [spec_imports]: the canonical name of every
    explicit import and of every unsatisfied argument, with its sort, plus (dependencies imported) one
    component import per instantiated package — for every emission order and every type-encoder behaviour.
    A requirement may instead be answered by an interface that is already imported under the same name
    (recorded in [e_dedup]); a requirement answered by a DIFFERENTLY named import is excluded by the side
    condition, and is a known finding of the real code. *)
Theorem imports_spec : forall e u g dc tau ord st names,
  EncInv e u g -> topo_orderb g ord = true ->
  encode_with_order e u g dc tau ord = ROk (st, names) ->
  (forall p, In p (e_dedup st) -> fst p = snd p) ->
  (forall nm s, In (nm, s) (simports (e_log st)) -> In (nm, s) (spec_imports e u g dc ord)) /\
  (forall nm s, In (nm, s) (spec_imports e u g dc ord) -> In (nm, s) (simports (e_log st)) \/ In (nm, nm) (e_dedup st)).
Proof. exact WiringImportsSpec.imports_spec_topo. Qed.
Print Assumptions imports_spec.

(** what [decode_imports] (run on the real logs by ./check C03) reports with flag [false] is [simports] *)
Theorem decode_imports_are_simports : forall l d d', decode_from d l = Some d' ->
  forall nm s, In (nm, s, false) (d_imports d') <-> In (nm, s, false) (d_imports d) \/ In (nm, s) (simports l).
Proof. exact WiringImportsSpec.decode_imports_simports. Qed.
Print Assumptions decode_imports_are_simports.

Theorem imports_spec_interface_id_dedup_refuted :
  match encoded ops_dedup true with
  | Some (dec, spec, dd) => dd <> [] /\ dec <> spec
  | None => False
  end.
Proof. pose proof dedup_refutes as H. destruct (encoded ops_dedup true) as [[[dec spec] dd]|]; auto. destruct H as [-> H]. split; [discriminate | exact H]. Qed.
Print Assumptions imports_spec_interface_id_dedup_refuted.
