(** Property C14: no input crashes the front end; diagnostics point inside the source.
    Statements only; proofs live in [proofs/NoPanic*.v] (lexer, parser, depth) and [proofs/Graph*.v].

    The model is the one of C12 ([model/Lexer.v], [model/Parser.v], tied to [lexer.rs] / [ast*.rs] by the
    C12 correspondence and again by the C14 one): every [unwrap] / [assert!] / [unreachable!] of the
    lexer and parser is an explicit outcome there -- [LPanic] (the [unwrap] in [Lexer::comments]),
    [PPanic 1] ([lexer.next().unwrap()] after a peek), [PPanic 2] ([assert!(!types.is_empty())]),
    [PPanic 3] (string [strip_prefix/strip_suffix .unwrap()]), [PPanic 4] ([s.find('/').unwrap()]),
    [PPanic 9] ([assert!(lexer.next().is_none())]), an empty attempt list in an [Expected*] error
    ([Lookahead::error]: [unreachable!] / [attempts[0].unwrap()]) -- and recursion is on explicit fuel
    ([LFuel], [PFuel]).

    What a model cannot exhibit -- exhaustion of the machine stack, allocation failure, non-termination
    inside wasmparser / wit-component / miette -- is NOT claimed here; it is the business of the
    supervised search harness ([harness/src/bin/c14.rs]). [depth_unbounded] is the model-level form of
    the stack-overflow finding. The resolver ([resolution.rs]), the package decoder ([package.rs]) and
    the encoder ([encoding.rs]) are not modelled for this property: their panics are found (and were
    found) by the search only; the graph layer is covered by the C06 theorems restated at the end. *)
From Coq Require Import String.
From WacV Require Import Str StrLit Token Lexer LexTables LexImpl Semver Ast Parser.
From WacV Require Import NoPanicLexer NoPanicSpans NoPanicParser NoPanicTop NoPanicDepth NoPanicDepthBound NoPanicPkgPath.
From WacV Require Import Graph GraphInv GraphSteps GraphTheorems GraphLive GraphRank.
From Coq Require Import Lia.
Local Open Scope nat_scope.

(* ------------------------------------------------------------------ lexer *)

(** [lexer_total]: for EVERY source text the lexer (screening, token rules, comment and doc-comment
    scanners, with the fuel [length src + 2] it gives itself) returns a finite stream in which
      - every item is a token, a lexer error or the not-modelled marker -- never the panic item (the
        [unwrap] in [Lexer::comments] is unreachable), never the out-of-fuel item;
      - progress: every token consumes at least one byte;
      - every token's text is the slice of the source at its span; spans of tokens, of the doc comments
        attached to them and of the lexer error lie inside the source on character boundaries;
      - only the last item can be an error / the marker.
    ([item_wf] also records the shape facts used by the parser: a string token is quoted, a package
    path contains [/], package tokens are ASCII.) *)
Theorem lexer_total src :
  Forall (item_wf src) (lex impl_cfg src) /\
  (forall t, In (LTok t) (lex impl_cfg src) -> (1 <= slen (tsp t))%N /\ span_ok src (tsp t)) /\
  (forall pre it post, lex impl_cfg src = pre ++ it :: post -> post <> [] -> exists t, it = LTok t).
Proof.
  pose proof (lex_wf impl_cfg src impl_tables_sane) as Hwf. split; [exact Hwf|]. split.
  - intros t Hin. rewrite Forall_forall in Hwf. specialize (Hwf _ Hin). split.
    + pose proof (item_wf_progress _ _ Hwf). lia.
    + now apply item_wf_span.
  - intros pre it post. unfold lex. destruct (screen impl_cfg src) as [[x sp]|].
    + intros H Hp. destruct pre as [|y pre]; cbn in H; inversion H; [congruence|]. destruct pre; discriminate.
    + apply lex_loop_stops.
Qed.
Print Assumptions lexer_total.

(** A good span is in bounds: [off + len <= |src|] (in bytes). *)
Theorem span_ok_in_bounds src sp : span_ok src sp -> (off sp + slen sp <= byte_len src)%N.
Proof. apply NoPanicLexer.span_ok_in_bounds. Qed.
Print Assumptions span_ok_in_bounds.

(* ------------------------------------------------------------------ parser *)

(** [parse_never_panics]: for EVERY source text, [Document::parse] (the model, with the fuel
    [length tokens + 1] it gives itself) does not end in any of the panic outcomes and does not run out
    of fuel. The remaining outcomes are a tree, an error, or the not-modelled marker (reached only when
    the lexer met a lexeme of the class the C12 model excludes, see [parse_returns_partial]). *)
Theorem parse_never_panics src :
  match parse_document impl_flags impl_cfg src with PPanic _ | PFuel => False | _ => True end.
Proof. exact (parse_never_panics_lemma src). Qed.
Print Assumptions parse_never_panics.

(** The fuel bound in general form: for any environment under the implementation's flags, any
    well-formed stream [ts] and ANY fuel above [length ts] the document parser neither panics nor runs
    out of fuel (so [length tokens + k] suffices for every [k >= 1]). *)
Theorem parser_fuel_suffices src e um ts :
  dv e = impl_flags -> wf src um ts -> length ts < fuel e ->
  match parse_document_items e ts with PPanic _ | PFuel => False | _ => True end.
Proof.
  intros Hd Hwf Hf. pose proof (parse_document_items_good src e Hd um ts Hwf Hf) as H.
  destruct (parse_document_items e ts); cbn [NoPanicParser.outcome] in H; auto.
Qed.
Print Assumptions parser_fuel_suffices.

(** [parse_returns_partial]. FULL statement: for every text the result is [Ok tree] (all tokens
    consumed) or [Err e]. PROVED for every text on which the lexer does not report the not-modelled
    marker; MISSING: the lexemes [a:b:], [a:b-], [re-] (a package name or keyword prefix directly followed
    by a dangling separator), where the C12 model does not predict the automaton generated by logos and
    the parser model answers [PUnmodelled] (those inputs are exercised by the search harness only). *)
Theorem parse_returns_partial src :
  ~ has_unmodelled (lex impl_cfg src) ->
  (exists doc, parse_document impl_flags impl_cfg src = POk doc []) \/
  (exists x, parse_document impl_flags impl_cfg src = PErr x /\ perror_span x <> None).
Proof. exact (parse_total_lemma src). Qed.
Print Assumptions parse_returns_partial.

(** Every [Expected] / [ExpectedEither] / [ExpectedMultiple] error lists at least one token. *)
Theorem expected_tokens_nonempty src at_ found sp :
  parse_document impl_flags impl_cfg src = PErr (PE_Expected at_ found sp) -> at_ <> [].
Proof. exact (expected_nonempty_lemma src at_ found sp). Qed.
Print Assumptions expected_tokens_nonempty.

(** The one slice of the parser that [Parser.v] models as a total function rather than as a panic outcome,
    [&s[slash + 1..at]] in [PackagePath::parse]: on every package-path token the lexer can produce the first
    [/] exists and lies at least two characters before the first [@] (if any), so the slice bounds are
    ordered and the [find('/').unwrap()] succeeds. *)
Theorem package_path_slice_never_panics src t :
  In (LTok t) (lex impl_cfg src) -> tk t = TPackagePath ->
  exists slash, find_char c_slash (ttext t) = Some slash /\
    match find_char c_atsign (ttext t) with Some at_ => S (S slash) <= at_ | None => True end.
Proof. exact (package_path_slice_never_panics_lemma src t). Qed.
Print Assumptions package_path_slice_never_panics.

(* ------------------------------------------------------------------ spans *)

(** [spans_in_bounds] (property text, full strength): every span carried by a node of a returned tree
    (identifiers, strings, package names/paths, compound nodes, doc comments: [document_spans]) or by a
    returned error -- the errors reported at the end of the input ([found = None], the rule of
    [Lexer::span]) included -- has both ends on character boundaries of the source ([span_ok]), hence
    satisfies [off + len <= |src|] ([span_ok_in_bounds] above). Every error of the implementation's
    grammar carries a span. *)
Theorem spans_in_bounds src :
  match parse_document impl_flags impl_cfg src with
  | POk d _ => Forall (span_ok src) (document_spans d)
  | PErr x => exists sp, perror_span x = Some sp /\ span_ok src sp
  | _ => True
  end.
Proof. exact (spans_lemma src). Qed.
Print Assumptions spans_in_bounds.

(** The rule itself: [Lexer::span] applied to a span whose ends are character boundaries yields a span
    whose ends are character boundaries -- the whole character holding the byte before the span when the
    span touches the end of the source, the empty span (0,0) when the source is empty. *)
Theorem lexer_span_in_bounds src start stop :
  boundary src start -> boundary src stop -> (start <= stop)%N -> span_ok src (lexer_span src start stop).
Proof. exact (lexer_span_ok src start stop). Qed.
Print Assumptions lexer_span_in_bounds.

(** Regression of the former finding [end-of-input-span] (the byte-counting rule [start - 1], length 1):
    (1) on the empty source the error span is now (0,0) (was (0,1): outside the source); (2) on
    [package a:b // \u00e9] (17 bytes) it is now (15,2), the whole two-byte character (was (16,1): inside
    it). Both texts are fixed cases of [./check C14] and must pass there. *)
Theorem eof_span_witnesses_in_bounds :
  (exists x, parse_document impl_flags impl_cfg w_empty = PErr x /\
             perror_span x = Some {| off := 0; slen := 0 |} /\ span_ok w_empty {| off := 0; slen := 0 |}) /\
  (exists x, parse_document impl_flags impl_cfg w_midchar = PErr x /\
             perror_span x = Some {| off := 15; slen := 2 |} /\ span_ok w_midchar {| off := 15; slen := 2 |} /\
             (15 + 2 <= byte_len w_midchar)%N).
Proof. exact eof_witnesses_in_bounds. Qed.
Print Assumptions eof_span_witnesses_in_bounds.

(* ------------------------------------------------------------------ recursion depth *)

(** [depth_unbounded]: the parser has no depth guard. For every [d] there is a source of [2d + 20]
    characters that is accepted and whose tree nests more than [d] expressions; each level is one
    activation of the mutually recursive [Expr::parse] / [PrimaryExpr::parse] / [NestedExpr::parse]
    ([parse_expr_f] consumes one unit of fuel per level). On the real code this is the stack overflow
    found by the search (known finding [deep-nesting-stack-overflow]). *)
Theorem depth_unbounded :
  forall d, exists src, length src <= 2 * d + 20 /\
                        rec_depth (parse_document impl_flags impl_cfg src) >= d.
Proof.
  intros d. exists (deep_src d). split; [rewrite deep_src_length; lia|].
  destruct (deep_parse d) as (doc & E & Hd). rewrite E, Hd. lia.
Qed.
Print Assumptions depth_unbounded.

(** [rec_depth] measures recursion: an expression of nesting depth [n] is never returned by the
    expression parser with fewer than [n] units of recursion fuel, i.e. with fewer than [n] nested
    activations of [Expr::parse]. *)
Theorem depth_is_recursion_depth e f ts x r :
  parse_expr_f f e ts = POk x r -> expr_depth x <= f.
Proof. exact (parse_expr_f_depth e f ts x r). Qed.
Print Assumptions depth_is_recursion_depth.

(* ------------------------------------------------------------------ graph layer (C06) *)

(** The composition-graph operations ([graph.rs], model [Graph.v]): under the invariant no operation
    reaches one of the bookkeeping panics ([assert!(inserted)], [assert!(removed)], "node should be an
    instantiation", "unexpected edge", dead node in a name map, missing export/import/definition), *)
Theorem graph_ops_no_bookkeeping_panic : forall u s o,
  Inv u s ->
  snd (step u s o) <> OPanic PSatInsert /\ snd (step u s o) <> OPanic PSatRemove /\
  snd (step u s o) <> OPanic PNotInstantiation /\ snd (step u s o) <> OPanic PUnexpectedEdge /\
  snd (step u s o) <> OPanic PDeadNodeInMap /\ snd (step u s o) <> OPanic PExportMissing /\
  snd (step u s o) <> OPanic PImportMissing /\ snd (step u s o) <> OPanic PDefinedMissing.
Proof. exact step_no_bookkeeping_panic. Qed.
Print Assumptions graph_ops_no_bookkeeping_panic.

(** and after ANY history of operations an operation on live identifiers does not panic at all. *)
Theorem graph_ops_no_panic_live : forall u ops o,
  UniverseWF u -> LiveOp u (run u ops) o -> forall p, snd (step u (run u ops) o) <> OPanic p.
Proof. exact step_no_panic_live. Qed.
Print Assumptions graph_ops_no_panic_live.

(* ------------------------------------------------------------------ non-vacuity *)

(** A document with doc comments, multi-byte text, versions, nested types and expressions is accepted
    and all its 31 spans satisfy the (executable form of the) span predicate; a truncated one is rejected
    with an in-source span. *)
Definition w_rich : str :=
  L"/// top" ++ [10%N] ++ L"package a:b@1.0.0 targets c:d/e; /* " ++ [233%N; 26085%N] ++
  L" */ import f: func(x: list<tuple<u8, option<string>>>) -> result<_, s32>; " ++
  L"/** doc */ let y = new g:h { f, ""k"": (f), ... }.z[""w""]; export y as ""q"";".

Example rich_document_spans :
  match parse_document impl_flags impl_cfg w_rich with
  | POk d [] => length (document_spans d) = 31 /\ forallb (span_okb w_rich) (document_spans d) = true
  | _ => False
  end.
Proof. vm_compute. split; reflexivity. Qed.

Example truncated_document_error :
  parse_document impl_flags impl_cfg (L"package a:b; let x = new c:d { a: ]") =
  PErr (PE_Expected [TNewKeyword; TOpenParen; TIdent] (Some TCloseBracket) {| off := 34; slen := 1 |}).
Proof. vm_compute. reflexivity. Qed.
