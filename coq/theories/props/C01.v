(** Property C01 — every encoded composition is a valid component; no late validation failures.
    PARTIAL: validity of a component is decided by the component-model validator, which is not modelled in Coq
    (wasmparser::Validator is the oracle of ./check C01, run on every real output). What is proved here is that the
    causes of a post-hoc failure that the models of the graph API ([model/Graph.v]) and of the structural encoder
    ([model/EncodeModel.v]) can express do not occur: dangling or ill-sorted indexes, missing / duplicated / extra
    instantiation arguments, arguments that were never type checked, stale or missing export names.
    Statements only; every proof is [exact <lemma>]. *)
From Coq Require Import List Arith Bool NArith Permutation.
From WacV Require Import Str Graph Wiring WiringSpec EncodeModel ValidSpec GraphInv WiringDecode WiringSim WiringCorrect
  ValidArgs ValidEncInv ValidComplete ValidFinal ValidNoPanic ValidWitness.
Import ListNotations.
Local Open Scope nat_scope.

(** 1. Every index in an instantiate / alias / export item of a log that decodes refers to an EARLIER item of the
       right sort (restated from C02), and every log the model encoder emits for a reachable graph decodes
       (clause 1 and 2 of [no_late_failure_partial] below). *)
Theorem structural_indices_in_scope : forall names l w pre it post,
  decode_wiring names l = Some w -> l = pre ++ it :: post ->
  match it with
  | IInstantiate c args => c < cnt SComponent pre /\ forall nm s i, In (nm, s, i) args -> i < cnt s pre
  | IInstanceFromExports ex => forall nm s i, In (nm, s, i) ex -> i < cnt s pre
  | IAliasExport i _ _ => i < cnt SInstance pre
  | IExport _ s i => i < cnt s pre
  | _ => True
  end.
Proof. intros names l w pre it post D. apply WiringDecode.in_scope_spec. exact (WiringDecode.decode_scoped names l w D). Qed.
Print Assumptions structural_indices_in_scope.

(** 2. History invariant: after ANY sequence of API operations (accepted or rejected, including removals and
       unregistrations) every explicit argument edge was accepted by the subtype oracle for the import it designates,
       and it designates an import of the package its target instantiates. *)
Theorem arguments_type_checked : forall u ops e i,
  In e (edges (run u ops)) -> ek e = EArg i ->
  exists sn tn imps nm k,
    get_node (run u ops) (esrc e) = Some sn /\ get_node (run u ops) (etgt e) = Some tn /\
    inst_imports u (run u ops) tn = Some imps /\ nth_error imps i = Some (nm, k) /\
    u_sub u (nitem sn) k = true.
Proof. exact reach_args_checked. Qed.
Print Assumptions arguments_type_checked.

Theorem arguments_type_checked_step : forall u s o, Inv u s -> ArgsChecked u s -> ArgsChecked u (fst (step u s o)).
Proof. exact step_args_checked. Qed.
Print Assumptions arguments_type_checked_step.

(** the executable form evaluated on every model graph by ./check C01 *)
Theorem args_checked_decides : forall u g, args_checked_b u g = true <-> ArgsChecked u g.
Proof. exact args_checked_b_spec. Qed.
Print Assumptions args_checked_decides.

(** 3. Each instantiation passes EXACTLY one argument per import of the instantiated package: the indexes satisfied by
       explicit argument edges and the indexes left to implicit imports are disjoint and together are all imports ... *)
Theorem instantiation_complete : forall u ops n nd sat imps,
  get_node (run u ops) n = Some nd -> nk nd = NInst sat -> inst_imports u (run u ops) nd = Some imps ->
  Permutation (explicit_idx (run u ops) n ++ implicit_idx sat (length imps)) (seq 0 (length imps)) /\
  (forall i, In i (explicit_idx (run u ops) n) -> ~ In i (implicit_idx sat (length imps))).
Proof. intros u ops n nd sat imps. apply (idx_complete_checked u (run u ops) n nd sat imps (GraphTheorems.reach_inv u ops) (reach_args_checked u ops)). Qed.
Print Assumptions instantiation_complete.

(** ... so the instantiate item the specification (and, by C02, the encoder) emits carries the import names of the
    package, each exactly once ([same_names]: equal multiplicities for every name) *)
Theorem instantiation_complete_names : forall e u ops dc ord n nd sat imps,
  get_node (run u ops) n = Some nd -> nk nd = NInst sat -> inst_imports u (run u ops) nd = Some imps ->
  exists args, spec_inst e u (run u ops) dc ord n = WInst (comp_prov e (run u ops) dc n) args /\
    same_names (map arg_name args) (map (fun x : name * kid => nstr e (fst x)) imps).
Proof. intros e u ops dc ord n nd sat imps. apply (spec_inst_complete_checked e u (run u ops) dc ord n nd sat imps (GraphTheorems.reach_inv u ops) (reach_args_checked u ops)). Qed.
Print Assumptions instantiation_complete_names.

Theorem same_names_decides : forall a b, same_namesb a b = true <-> same_names a b.
Proof. exact same_namesb_spec. Qed.
Print Assumptions same_names_decides.

(** for every topological emission order and every behaviour of the type encoder: the instantiate items of the model
    encoder's output are the specified ones and each passes exactly the imports of its component
    ([inst_complete_b] is the predicate ./check C01 evaluates on the decoded REAL logs) *)
Theorem encoded_instantiations_complete : forall e u g dc tau ord st names w,
  EncInv e u g -> Inv u g -> ArgsChecked u g -> PkgIdent e u ->
  topo_orderb g ord = true ->
  encode_with_order e u g dc tau ord = ROk (st, names) ->
  (forall p, In p (e_dedup st) -> fst p = snd p) ->
  decode_wiring names (e_log st) = Some w ->
  w_insts w = map (spec_inst e u g dc ord) (filter (is_inst g) ord) /\ inst_complete_b e u w = true.
Proof. exact ValidFinal.encoded_instantiations_complete. Qed.
Print Assumptions encoded_instantiations_complete.

(** 4. The side condition [EncInv] of C02 [wiring_correct] holds of every reachable graph, given how a universe is built
       ([UnivOK]). That no type definition is exported under a second name ([DefsSingle]) holds of every reachable graph
       since [export(definition, other_name)] renames the definition (repaired finding C02-def-extra-export-name;
       [defs_single_reachable], from the history invariant [GraphDefExport.DefExp]). [KindInv] is the other history
       invariant behind it. *)
Theorem kind_inv_reachable : forall u ops, KindInv u (run u ops).
Proof. exact reach_kind_inv. Qed.
Print Assumptions kind_inv_reachable.

Theorem defs_single_reachable : forall u ops, DefsSingle (run u ops).
Proof. exact reach_defs_single. Qed.
Print Assumptions defs_single_reachable.

Theorem enc_inv_reachable : forall e u ops,
  UnivOK e u -> EncInv e u (run u ops).
Proof. exact ValidEncInv.enc_inv_reachable. Qed.
Print Assumptions enc_inv_reachable.

(** 5. FULL statement (not provable here): "whenever [CompositionGraph::encode] returns bytes they are accepted by the
       component-model validator, and encode never returns ValidationFailure for a graph reachable through accepted
       operations". PROVED PART: for every reachable graph, every topological emission order, both dependency modes and
       every behaviour of the type encoder, if the model encoder succeeds then its log decodes (no dangling or
       ill-sorted index), every instantiate item passes exactly the imports of its component (no missing, duplicated or
       extra argument), every argument edge satisfies the subtype oracle, and the exported names are exactly the names
       of the graph's export map, all of which designate live nodes (no stale export name).
       MISSING: the type-level content of the output (TypeEncoder: type definitions, `use` aliases, dependency imports,
       component types, resources) and the validator's own rules — searched by ./check C01 against the reference
       validator, not proved; and that the model encoder never reaches one of its three INDEX-bookkeeping panics
       (node index missing / set twice, encoded import missing), which needs the topological-order argument
       (all other panics are excluded by [encoder_panics_classified] below). *)
Theorem no_late_failure_partial : forall e u ops dc tau ord st names,
  UnivOK e u -> PkgIdent e u ->
  topo_orderb (run u ops) ord = true ->
  encode_with_order e u (run u ops) dc tau ord = ROk (st, names) ->
  (forall p, In p (e_dedup st) -> fst p = snd p) ->
  exists w,
    decode_wiring names (e_log st) = Some w /\
    log_in_scope [] (e_log st) = true /\
    inst_complete_b e u w = true /\
    args_checked_b u (run u ops) = true /\
    (forall nm s, In (nm, s) (map export_sig (w_exports w)) <-> In (nm, s) (spec_export_names e (run u ops))) /\
    (forall nm n, In (nm, n) (exports (run u ops)) -> live (run u ops) n = true).
Proof. exact no_late_failure_reachable. Qed.
Print Assumptions no_late_failure_partial.

(** 6. The model encoder's graph-consistency panics (instantiation without package, unexpected edge into an
       instantiation, argument index that is no import, alias without source / of a non-instance / of a missing
       export, definition without name, dead or import node in the emission order) are unreachable for graphs built
       through the API: what remains are the three index-bookkeeping sites and [XBadNode] as the model's rendering of a
       failed merge of an EXPLICIT import (a documented error, ImportTypeMergeConflict, in the current code). *)
Theorem encoder_node_panics_classified : forall e u g dc tau st n s,
  Inv u g -> GraphAlias.AliasInv u g -> KindInv u g -> ArgsChecked u g ->
  live g n = true -> is_import g n = false ->
  enc_node e u g dc tau st n = RErr (EPanic s) -> bookkeeping_site s = true.
Proof. exact enc_node_panics_classified. Qed.
Print Assumptions encoder_node_panics_classified.

Theorem encoder_panics_classified : forall e u ops dc tau ord s,
  (forall n, In n ord -> live (run u ops) n = true) ->
  encode_with_order e u (run u ops) dc tau ord = RErr (EPanic s) ->
  bookkeeping_site s = true \/
  (s = XBadNode /\ exists a0 impl, resolve_implicit e u (run u ops) = ROk (a0, impl) /\
     resolve_explicit e (run u ops) a0 (filter (is_import (run u ops)) ord) = RErr (EPanic XBadNode)).
Proof. exact encode_panics_classified_reachable. Qed.
Print Assumptions encoder_panics_classified.

Theorem encoder_bad_node_is_import_merge : forall e u g dc tau ord,
  Inv u g -> GraphAlias.AliasInv u g -> KindInv u g -> ArgsChecked u g ->
  (forall n, In n ord -> live g n = true) ->
  encode_with_order e u g dc tau ord = RErr (EPanic XBadNode) ->
  exists a n nd nm, In n ord /\ get_node g n = Some nd /\ nk nd = NImport nm /\
    agg_add a (nstr e nm) (we_sort e (nitem nd)) (we_iid e (nitem nd)) = AggKindMismatch.
Proof. exact encode_bad_node_is_import_merge. Qed.
Print Assumptions encoder_bad_node_is_import_merge.

(** Non-vacuity: a concrete universe and history (incl. an instantiation that is removed again together with the
    argument it fed) satisfying every hypothesis of [no_late_failure_partial]; the model encoder succeeds in both
    dependency modes with two complete instantiate items and two exports. *)
Example no_late_failure_nonvacuous :
  UnivOK v_env v_universe /\ PkgIdent v_env v_universe /\ DefsSingle (run v_universe v_ops) /\
  v_run true = Some (2, 2, true, true) /\ v_run false = Some (2, 2, true, true) /\
  args_checked_b v_universe (run v_universe v_ops) = true.
Proof. exact (conj v_univ_ok (conj v_pkg_ident (conj v_defs_single v_encodes))). Qed.
