(** Property C20 — registry resolution returns the right content for every requested key.
    Statements only; proofs are in proofs/RegistryProofs.v.

    Model: model/Registry.v ([resolve valid_name reg keys sched], where [sched] is the order in which
    the spawned download tasks complete).  Specification: spec/RegistrySpec.v ([Resolve_spec], written
    from the property text; [spec_check] is its executable form, proved equivalent below and evaluated
    on the real resolver's observations on every run).

    FINDING.  The property is stated "no matter how many requested keys share a name".  That part is
    FALSE of the faithful model [resolve] of the code as found: it collects the keys into a table indexed
    by package NAME (a later key with the same name overwrites version and span, keeping the first
    position) and tags each download with its TABLE position, but stores the downloaded content under
    [keys.get_index(tag)], a position in the ORIGINAL key list.  With keys [a@1.0.0; a@2.0.0; b] the
    answer is {a@1.0.0 -> content of a@2.0.0, a@2.0.0 -> content of b} and key b is dropped
    ([resolve_shared_name_refuted]; replayed on the real resolver by the correspondence).
    The full-strength statement is therefore kept in comments and the theorems below carry the
    hypothesis [no_shared_name keys], except [error_attributed] and [resolve_never_panics], which hold
    at full strength.

    REPAIRED in /repo by commit 4b151d2 (one table entry per requested key): the current code follows
    [resolve_fixed] (the correspondence decides on every run which of the two models the implementation
    follows, and anything but [resolve_fixed] is a violation now that the repair is recorded as `fixed`);
    the [fixed_*] theorems below state the property at FULL strength, without [no_shared_name], for it.
    The as-found model [resolve] and its theorems are kept so that a return of the defect is recognised
    and replayed with the witness of [resolve_shared_name_refuted]. *)
From Coq Require Import Permutation.
From WacV Require Import Str Ord Semver Registry RegistrySpec RegistryProofs.

(** 1. For ALL completion orders of the download tasks the answer is the specified one.

    Full strength (false, see [resolve_shared_name_refuted]):
      forall valid_name reg keys sched, wf_reg reg -> wf_keys keys ->
        Permutation sched (tasks_of valid_name keys) ->
        Resolve_spec valid_name reg keys (resolve valid_name reg keys sched).                       *)
Theorem resolve_any_completion_order : forall valid_name reg keys sched,
  wf_reg reg -> wf_keys keys -> no_shared_name keys ->
  Permutation sched (tasks_of valid_name keys) ->
  Resolve_spec valid_name reg keys (resolve valid_name reg keys sched).
Proof. intros v r k s W WK NS P. exact (resolve_distinct_names v r W k s WK NS P). Qed.
Print Assumptions resolve_any_completion_order.

(** The full-strength statement is refuted: a registry and a key set with two keys of one name for
    which EVERY completion order gives an answer the specification rejects. *)
Definition v_ (a b c : N) : version := {| major := a; minor := b; patch := c; pre := []; build := [] |}.
Definition w_reg : registry :=
  [ ([97], [(v_ 1 0 0, Released 1); (v_ 2 0 0, Released 2)]);      (* a: 1.0.0 -> c1, 2.0.0 -> c2 *)
    ([98], [(v_ 0 1 0, Released 3)]) ].                             (* b: 0.1.0 -> c3 *)
Definition w_keys : keys_t :=
  [ (([97], Some (v_ 1 0 0)), 10); (([97], Some (v_ 2 0 0)), 20); (([98], None), 30) ].
Definition all_valid (_ : str) : bool := true.

Ltac solve_nodup := repeat (constructor; [cbn; intuition discriminate|]); constructor.

Lemma w_reg_wf : wf_reg w_reg.
Proof.
  split; [solve_nodup|]. intros n rels [E|[E|[]]]; injection E as <- <-; solve_nodup.
Qed.

Theorem resolve_shared_name_refuted :
  exists valid_name reg keys,
    wf_reg reg /\ wf_keys keys /\
    (exists sched, Permutation sched (tasks_of valid_name keys)) /\
    forall sched, Permutation sched (tasks_of valid_name keys) ->
      ~ Resolve_spec valid_name reg keys (resolve valid_name reg keys sched).
Proof.
  exists all_valid, w_reg, w_keys. split; [exact w_reg_wf|]. split; [unfold wf_keys; cbn; solve_nodup|].
  split; [eexists; apply Permutation_refl|].
  intros sched P S. apply (spec_check_iff _ _ w_reg_wf) in S.
  apply Permutation_sym in P. vm_compute in P. apply Permutation_length_2_inv in P.
  destruct P as [-> | ->]; vm_compute in S; discriminate S.
Qed.
Print Assumptions resolve_shared_name_refuted.

(** What the model answers on the witness (both completion orders): key 0 holds the content of
    a@2.0.0 (c2), key 1 holds the content of b (c3), key 2 (b) is absent. *)
Example shared_name_witness_value :
  resolve all_valid w_reg w_keys (tasks_of all_valid w_keys)
    = ROk [ (([97], Some (v_ 1 0 0)), 2); (([97], Some (v_ 2 0 0)), 3) ] /\
  resolve all_valid w_reg w_keys (rev (tasks_of all_valid w_keys))
    = ROk [ (([97], Some (v_ 2 0 0)), 3); (([97], Some (v_ 1 0 0)), 2) ].
Proof. split; vm_compute; reflexivity. Qed.

(** 2. No key is silently dropped and every key holds the content it is owed.

    Full strength (false by the same witness): the same without [no_shared_name keys]. *)
Theorem no_key_dropped : forall valid_name reg keys sched m,
  wf_reg reg -> wf_keys keys -> no_shared_name keys ->
  Permutation sched (tasks_of valid_name keys) ->
  resolve valid_name reg keys sched = ROk m ->
  forall k s, In (k, s) keys -> exists c, In (k, c) m /\ KeyOutcome valid_name reg (k, s) (KOk c).
Proof.
  intros v r k s m W WK NS P R. apply (spec_no_key_dropped v r k m).
  rewrite <- R. exact (resolve_distinct_names v r W k s WK NS P).
Qed.
Print Assumptions no_key_dropped.

(** 3. A reported error is the error owed to one of the requesting keys, with that key's name,
       version and span.  Full strength: holds for key sets with shared names too. *)
Theorem error_attributed : forall valid_name reg keys sched e,
  Permutation sched (tasks_of valid_name keys) ->
  resolve valid_name reg keys sched = RErr e ->
  exists k s, In (k, s) keys /\ KeyOutcome valid_name reg (k, s) (KErr e).
Proof.
  intros v r k s e P R. apply (error_attributed_full v r k s e); [|exact R].
  intros t It. exact (Permutation_in _ P It).
Qed.
Print Assumptions error_attributed.

(** ... and a key that is owed an error makes the whole resolution fail (part of
    [resolve_any_completion_order]; false with shared names: [a@9.9.9; a@1.0.0] succeeds). *)
Theorem error_reported : forall valid_name reg keys sched k s e,
  wf_reg reg -> wf_keys keys -> no_shared_name keys ->
  Permutation sched (tasks_of valid_name keys) ->
  In (k, s) keys -> KeyOutcome valid_name reg (k, s) (KErr e) ->
  exists e', resolve valid_name reg keys sched = RErr e'.
Proof.
  intros v r keys sched k s e W WK NS P I O.
  exact (spec_error_reported v r W keys _ k s e (resolve_distinct_names v r W keys sched WK NS P) I O).
Qed.
Print Assumptions error_reported.

(** 4. The order in which the keys were requested (and, again, the completion orders) do not change
       the answer: same map, or an error in both cases (each attributed by [error_attributed]).

    Full strength (false: [a@1.0.0; a@2.0.0] and [a@2.0.0; a@1.0.0] give different maps). *)
Theorem request_order_indep : forall valid_name reg keys keys' sched sched',
  wf_reg reg -> wf_keys keys -> no_shared_name keys -> Permutation keys keys' ->
  Permutation sched (tasks_of valid_name keys) -> Permutation sched' (tasks_of valid_name keys') ->
  same_answer (resolve valid_name reg keys sched) (resolve valid_name reg keys' sched').
Proof. intros v r k k' s s' W WK NS PK P P'. exact (request_order_indep_distinct v r W k k' s s' WK NS PK P P'). Qed.
Print Assumptions request_order_indep.

(** 5. None of the [unwrap]/[assert_eq!] in [resolve] can fail (full strength). *)
Theorem resolve_never_panics : forall valid_name reg keys sched,
  Permutation sched (tasks_of valid_name keys) -> resolve valid_name reg keys sched <> RPanic.
Proof. exact RegistryProofs.resolve_never_panics. Qed.
Print Assumptions resolve_never_panics.

(** 6. The repaired algorithm ([resolve_fixed]: one task per key, hooks/fix-c20-shared-name.patch)
       satisfies every statement above at FULL strength — no hypothesis on shared names.  These are
       the theorems that apply when the correspondence finds that the working tree implements the
       repaired algorithm. *)
Theorem fixed_resolve_any_completion_order : forall valid_name reg keys sched,
  wf_reg reg -> wf_keys keys ->
  Permutation sched (tasks_of_fixed valid_name keys) ->
  Resolve_spec valid_name reg keys (resolve_fixed valid_name reg keys sched).
Proof. intros v r k s W WK P. exact (fixed_meets_spec v r W k s WK P). Qed.
Print Assumptions fixed_resolve_any_completion_order.

Theorem fixed_no_key_dropped : forall valid_name reg keys sched m,
  wf_reg reg -> wf_keys keys ->
  Permutation sched (tasks_of_fixed valid_name keys) ->
  resolve_fixed valid_name reg keys sched = ROk m ->
  forall k s, In (k, s) keys -> exists c, In (k, c) m /\ KeyOutcome valid_name reg (k, s) (KOk c).
Proof.
  intros v r k s m W WK P R. apply (spec_no_key_dropped v r k m).
  rewrite <- R. exact (fixed_meets_spec v r W k s WK P).
Qed.
Print Assumptions fixed_no_key_dropped.

Theorem fixed_error_attributed : forall valid_name reg keys sched e,
  Permutation sched (tasks_of_fixed valid_name keys) ->
  resolve_fixed valid_name reg keys sched = RErr e ->
  exists k s, In (k, s) keys /\ KeyOutcome valid_name reg (k, s) (KErr e).
Proof.
  intros v r k s e P R. apply (RegistryProofs.fixed_error_attributed v r k s e); [|exact R].
  intros t It. exact (Permutation_in _ P It).
Qed.
Print Assumptions fixed_error_attributed.

Theorem fixed_error_reported : forall valid_name reg keys sched k s e,
  wf_reg reg -> wf_keys keys ->
  Permutation sched (tasks_of_fixed valid_name keys) ->
  In (k, s) keys -> KeyOutcome valid_name reg (k, s) (KErr e) ->
  exists e', resolve_fixed valid_name reg keys sched = RErr e'.
Proof.
  intros v r keys sched k s e W WK P I O.
  exact (spec_error_reported v r W keys _ k s e (fixed_meets_spec v r W keys sched WK P) I O).
Qed.
Print Assumptions fixed_error_reported.

Theorem fixed_request_order_indep : forall valid_name reg keys keys' sched sched',
  wf_reg reg -> wf_keys keys -> Permutation keys keys' ->
  Permutation sched (tasks_of_fixed valid_name keys) -> Permutation sched' (tasks_of_fixed valid_name keys') ->
  same_answer (resolve_fixed valid_name reg keys sched) (resolve_fixed valid_name reg keys' sched').
Proof. intros v r k k' s s' W WK PK P P'. exact (RegistryProofs.fixed_request_order_indep v r W k k' s s' WK PK P P'). Qed.
Print Assumptions fixed_request_order_indep.

Theorem fixed_never_panics : forall valid_name reg keys sched,
  Permutation sched (tasks_of_fixed valid_name keys) -> resolve_fixed valid_name reg keys sched <> RPanic.
Proof. exact RegistryProofs.fixed_never_panics. Qed.
Print Assumptions fixed_never_panics.

(** On the refutation witness the repaired algorithm answers as specified. *)
Example fixed_on_witness :
  resolve_fixed all_valid w_reg w_keys (rev (tasks_of_fixed all_valid w_keys))
    = ROk [ (([98], None), 3); (([97], Some (v_ 2 0 0)), 2); (([97], Some (v_ 1 0 0)), 1) ].
Proof. vm_compute. reflexivity. Qed.

(** 7. The executable check evaluated on the real resolver's observations IS the specification. *)
Theorem spec_check_is_spec : forall valid_name reg keys r, wf_reg reg ->
  (spec_check valid_name reg keys r = true <-> Resolve_spec valid_name reg keys r).
Proof. intros v r k x W. exact (spec_check_iff v r W k x). Qed.
Print Assumptions spec_check_is_spec.

(** Non-vacuity: a registry and three keys with distinct names (exact version, unversioned with a
    yanked and a pre-release above the latest, exact version) meet every hypothesis; the tasks
    complete in reverse order; every key gets the content it is owed. *)
Definition nv_reg : registry :=
  [ ([97], [(v_ 1 0 0, Released 1); (v_ 2 0 0, Released 2)]);
    ([98], [(v_ 0 1 0, Released 3); (v_ 0 3 0, Yanked);
            ({| major := 0; minor := 4; patch := 0; pre := [114;99]; build := [] |}, Released 9);
            (v_ 0 2 0, Released 4)]);
    ([99], [(v_ 5 0 0, Released 5)]) ].
Definition nv_keys : keys_t :=
  [ (([97], Some (v_ 2 0 0)), 10); (([98], None), 20); (([99], Some (v_ 5 0 0)), 30) ].
Example resolve_nonvacuous :
  wf_reg nv_reg /\ wf_keys nv_keys /\ no_shared_name nv_keys /\
  Permutation (rev (tasks_of all_valid nv_keys)) (tasks_of all_valid nv_keys) /\
  length (tasks_of all_valid nv_keys) = 3%nat /\
  resolve all_valid nv_reg nv_keys (rev (tasks_of all_valid nv_keys))
    = ROk [ (([99], Some (v_ 5 0 0)), 5); (([98], None), 4); (([97], Some (v_ 2 0 0)), 2) ] /\
  resolve all_valid nv_reg (nv_keys ++ [(([100], None), 40)]) (tasks_of all_valid (nv_keys ++ [(([100], None), 40)]))
    = RErr (EPackageDoesNotExist [100] 40).
Proof.
  split.
  { split; [solve_nodup|]. intros n rels [E|[E|[E|[]]]]; injection E as <- <-; solve_nodup. }
  split; [unfold wf_keys; cbn; solve_nodup|].
  split; [unfold no_shared_name; cbn; solve_nodup|].
  split; [apply Permutation_sym, Permutation_rev|].
  repeat split; vm_compute; reflexivity.
Qed.
