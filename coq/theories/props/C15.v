(** Property C15 — semver-compatible name matching is the semver track relation; highest wins.
    This file holds only statements; every proof is [exact <lemma>]. *)
From Coq Require Import Permutation.
From WacV Require Import Str Ord Semver Names NamesSpec SemverProofs SemverText NamesProofs NameMapProofs.

(** 1. Two names are compatible exactly when identical, or same base before [@] and both release
       versions on one track (same major > 0; same 0.minor with minor > 0; never 0.0.x / pre-release;
       build metadata ignored because [track_of] does not look at it). *)
Theorem compat_iff : forall a b, compat a b = true <-> Compat_spec a b.
Proof. exact compat_iff. Qed.
Print Assumptions compat_iff.

Theorem compat_equivalence :
  (forall a, compat a a = true) /\ (forall a b, compat a b = compat b a) /\
  (forall a b c, compat a b = true -> compat b c = true -> compat a c = true).
Proof. exact (conj compat_refl (conj compat_sym compat_trans)). Qed.
Print Assumptions compat_equivalence.

(** 2. "Highest" is well defined: the version order is total, and distinct version texts denote
       distinct versions. *)
Theorem version_order_total : total_cmp cmp_version.
Proof. exact cmp_version_total. Qed.
Print Assumptions version_order_total.

Theorem version_text_injective : forall t1 t2 v,
  parse_version t1 = Some v -> parse_version t2 = Some v -> t1 = t2.
Proof. exact parse_version_inj. Qed.
Print Assumptions version_text_injective.

(** 3. The map: after any history of inserts, an exact match wins ... *)
Theorem nm_get_exact : forall (ops : list (str * N)) n x,
  In (n, x) (accepted ops) -> nm_get (nm_build ops) n = Some x.
Proof. intros ops n x H. rewrite nm_get_spec. exact (spec_get_exact ops n x H). Qed.
Print Assumptions nm_get_exact.

(** ... otherwise the entry with the highest version on the requested track ... *)
Theorem nm_get_highest : forall (ops : list (str * N)) q x,
  find_exact q (accepted ops) = None -> nm_get (nm_build ops) q = Some x ->
  exists n v, In (n, x) (accepted ops) /\ same_track n q = true /\ version_of n = Some v /\
    forall n' x' v', In (n', x') (accepted ops) -> same_track n' q = true -> version_of n' = Some v' ->
                     cmp_version v' v <> Gt.
Proof. intros ops q x H1 H2. rewrite nm_get_spec in H2. exact (spec_get_highest ops q x H1 H2). Qed.
Print Assumptions nm_get_highest.

(** ... and nothing is returned only when no entry is identical or on the track. *)
Theorem nm_get_none : forall (ops : list (str * N)) q,
  nm_get (nm_build ops) q = None ->
  forall n x, In (n, x) (accepted ops) -> n <> q /\ same_track n q = false.
Proof. intros ops q H. rewrite nm_get_spec in H. exact (spec_get_none ops q H). Qed.
Print Assumptions nm_get_none.

(** 4. Never an entry from another name or track. *)
Theorem never_other_track : forall (ops : list (str * N)) q x,
  nm_get (nm_build ops) q = Some x -> exists n, In (n, x) ops /\ compat n q = true.
Proof.
  intros ops q x H. rewrite nm_get_spec in H.
  destruct (find_exact q (accepted ops)) as [y|] eqn:E.
  - unfold spec_get in H. rewrite E in H. injection H as ->.
    rewrite find_exact_im_get in E. apply im_get_in in E.
    exists q. split; [now apply accepted_incl | apply compat_refl].
  - destruct (spec_get_highest ops q x E H) as [n [v [I [S _]]]].
    exists n. split; [now apply accepted_incl|].
    rewrite compat_is_spec_b. unfold compat_spec_b. rewrite S. apply orb_true_r.
Qed.
Print Assumptions never_other_track.

(** 5. Insertion order is irrelevant. *)
Theorem nm_order_indep : forall (ops ops' : list (str * N)) q,
  Permutation ops ops' -> NoDup (map fst ops) ->
  nm_get (nm_build ops) q = nm_get (nm_build ops') q.
Proof. intros ops ops' q P ND. rewrite !nm_get_spec. exact (spec_get_order_indep ops ops' q P ND). Qed.
Print Assumptions nm_order_indep.

(** Non-vacuity: concrete names meet the hypotheses ("a:b/c@0.2.1+meta" style). *)
Definition s_ (l : list N) : str := l.
Definition n_abc_021m : str := [97;58;98;47;99;64;48;46;50;46;49;43;109].   (* a:b/c@0.2.1+m *)
Definition n_abc_020  : str := [97;58;98;47;99;64;48;46;50;46;48].         (* a:b/c@0.2.0 *)
Definition n_abc_029  : str := [97;58;98;47;99;64;48;46;50;46;57].         (* a:b/c@0.2.9 *)
Definition n_abc_030  : str := [97;58;98;47;99;64;48;46;51;46;48].         (* a:b/c@0.3.0 *)
Example compat_nonvacuous :
  compat n_abc_021m n_abc_020 = true /\ compat n_abc_020 n_abc_030 = false /\
  nm_get (nm_build [(n_abc_020, 0); (n_abc_021m, 1); (n_abc_030, 2)]) n_abc_029 = Some 1 /\
  nm_get (nm_build [(n_abc_021m, 1); (n_abc_030, 2); (n_abc_020, 0)]) n_abc_029 = Some 1 /\
  find_exact n_abc_029 (accepted [(n_abc_020, 0); (n_abc_021m, 1); (n_abc_030, 2)]) = None.
Proof. vm_compute. repeat split. Qed.
