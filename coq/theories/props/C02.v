(** Property C02 — statements only (filled in below as the proofs land). *)
From WacV Require Import Wiring.
Theorem decode_empty : decode_wiring nil nil = Some {| w_insts := nil; w_exports := nil; w_comps := nil; w_names := nil |}.
Proof. reflexivity. Qed.
Print Assumptions decode_empty.
