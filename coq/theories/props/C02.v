(** Property C02 — encoded wiring is exactly the composition graph. Statements only.

    [decode_wiring] is run (extracted) on the item log that an independent section reader extracts from
    the REAL output of [CompositionGraph::encode]; [wiring_spec] is computed from the composition
    graph alone; ./check C02 compares them for every generated composition (translation validation).
    The theorems below are about [decode_wiring] itself and about the model of the structural encoder
    ([EncodeModel.encode_with_order]), which is tied to the code on every run (replaying the real
    type-encoder items it must reproduce the real item log exactly). *)
From Coq Require Import List.
From WacV Require Import Str Graph Wiring WiringSpec EncodeModel WiringDecode WiringSim WiringCorrect WiringWitness.
Import ListNotations.
Local Open Scope nat_scope.

(** (a) a log that decodes has no dangling or ill-sorted structural index
        (also C01 [structural_indices_in_scope]) *)
Theorem decode_scoped : forall names l w, decode_wiring names l = Some w -> log_in_scope [] l = true.
Proof. exact WiringDecode.decode_scoped. Qed.
Print Assumptions decode_scoped.

Theorem structural_indices_in_scope : forall l pre it post,
  log_in_scope [] l = true -> l = pre ++ it :: post ->
  match it with
  | IInstantiate c args => c < cnt SComponent pre /\ forall nm s i, In (nm, s, i) args -> i < cnt s pre
  | IInstanceFromExports ex => forall nm s i, In (nm, s, i) ex -> i < cnt s pre
  | IAliasExport i _ _ => i < cnt SInstance pre
  | IExport _ s i => i < cnt s pre
  | _ => True
  end.
Proof. exact WiringDecode.in_scope_spec. Qed.
Print Assumptions structural_indices_in_scope.

(** (b) for EVERY valid topological emission order [ord] and EVERY behaviour [tau] of the type encoder
    (it may append any well-scoped type-level items), whenever the model encoder succeeds its log decodes
    to exactly the wiring the graph specifies: every instantiation once, its package's component, every
    argument name bound to the designated explicit import / export of the designated instance /
    implicit import of the canonical name, every export bound to the designated item, one embedded
    component per package, name-section entries resolved to the realising items.
    Side conditions: [EncInv] (consequences of the C06 graph invariant and of how the universe is built,
    incl. "a definition has one export name") and "no import request was answered by a differently named
    import" — both are needed for the faithful model of the current code, see the two [_refuted] theorems. *)
Theorem wiring_correct : forall e u g dc tau ord st names,
  EncInv e u g -> topo_orderb g ord = true ->
  encode_with_order e u g dc tau ord = ROk (st, names) ->
  (forall p, In p (e_dedup st) -> fst p = snd p) ->
  option_map (erase_defs (def_names e g)) (decode_wiring names (e_log st)) = Some (wiring_spec e u g dc ord).
Proof. exact WiringCorrect.wiring_correct. Qed.
Print Assumptions wiring_correct.

Theorem each_package_once : forall e u g dc tau ord st names w,
  EncInv e u g -> topo_orderb g ord = true ->
  encode_with_order e u g dc tau ord = ROk (st, names) ->
  (forall p, In p (e_dedup st) -> fst p = snd p) ->
  decode_wiring names (e_log st) = Some w ->
  w_comps w = (if dc then map (we_digest e) (pkgs_in_order g ord) else []) /\
  NoDup (pkgs_in_order g ord) /\
  (forall p, In p (pkgs_in_order g ord) <-> exists n, In n ord /\ is_inst g n = true /\ node_pkg g n = Some p).
Proof. exact WiringCorrect.each_package_once. Qed.
Print Assumptions each_package_once.

(** non-vacuity: a concrete composition (two instantiations of one package sharing an implicit import, an
    alias of the first passed to the second, an export, a name, a definition) for which the model encoder
    succeeds in both dependency modes and the decoded wiring IS the specified one *)
Example wiring_correct_nonvacuous :
  exists w, encoded ops_good true = Some (w, w, []) /\ length (w_insts w) = 2 /\ length (w_exports w) = 2
            /\ encoded ops_good false = match encoded ops_good false with Some (a, _, d) => Some (a, a, d) | None => None end
            /\ encoded ops_good false <> None.
Proof. exact good_instance. Qed.

(** The unconditional statement is FALSE of the faithful model of the current code (and of the code:
    witnesses replayed on every run, see KNOWN-FINDING lines of ./check C02):
    - a definition exported under a second name: only the last name is encoded;
    - an explicit import whose interface id is also imported implicitly is answered by that import. *)
Theorem wiring_correct_multi_named_definition_refuted :
  match encoded ops_def_two_names true with
  | Some (dec, spec, dd) => dd = [] /\ dec <> spec
  | None => False
  end.
Proof. exact def_two_names_refutes. Qed.
Print Assumptions wiring_correct_multi_named_definition_refuted.

Theorem wiring_correct_interface_id_dedup_refuted :
  match encoded ops_dedup true with
  | Some (dec, spec, dd) => dd <> [] /\ dec <> spec
  | None => False
  end.
Proof. pose proof dedup_refutes as H. destruct (encoded ops_dedup true) as [[[dec spec] dd]|]; auto. destruct H as [-> H]. split; [discriminate | exact H]. Qed.
Print Assumptions wiring_correct_interface_id_dedup_refuted.
