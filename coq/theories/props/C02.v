(** Property C02 — encoded wiring is exactly the composition graph. Statements only.

    [decode_wiring] is run (extracted) on the item log that an independent section reader extracts from
    the REAL output of [CompositionGraph::encode]; [wiring_spec] is computed from the composition
    graph alone; ./check C02 compares them for every generated composition (translation validation).
    The theorems below are about [decode_wiring] itself and about the model of the structural encoder
    ([EncodeModel.encode_with_order]), which is tied to the code on every run (replaying the real
    type-encoder items it must reproduce the real item log exactly). *)
From Coq Require Import List.
From WacV Require Import Str Graph Wiring WiringSpec EncodeModel WiringDecode WiringSim WiringCorrect WiringWitness.
Import ListNotations.
Local Open Scope nat_scope.

(** (a) a log that decodes has no dangling or ill-sorted structural index
        (also C01 [structural_indices_in_scope]) *)
Theorem decode_scoped : forall names l w, decode_wiring names l = Some w -> log_in_scope [] l = true.
Proof. exact WiringDecode.decode_scoped. Qed.
Print Assumptions decode_scoped.

Theorem structural_indices_in_scope : forall l pre it post,
  log_in_scope [] l = true -> l = pre ++ it :: post ->
  match it with
  | IInstantiate c args => c < cnt SComponent pre /\ forall nm s i, In (nm, s, i) args -> i < cnt s pre
  | IInstanceFromExports ex => forall nm s i, In (nm, s, i) ex -> i < cnt s pre
  | IAliasExport i _ _ => i < cnt SInstance pre
  | IExport _ s i => i < cnt s pre
  | _ => True
  end.
Proof. exact WiringDecode.in_scope_spec. Qed.
Print Assumptions structural_indices_in_scope.

(** (b) for EVERY valid topological emission order [ord] and EVERY behaviour [tau] of the type encoder
    (it may append any well-scoped type-level items), whenever the model encoder succeeds its log decodes
    to exactly the wiring the graph specifies: every instantiation once, its package's component, every
    argument name bound to the designated explicit import / export of the designated instance /
    implicit import of the canonical name, every export bound to the designated item, one embedded
    component per package, name-section entries resolved to the realising items.
    Side conditions: [EncInv] (consequences of the C06 graph invariant and of how the universe is built,
    incl. "a definition has one export name"; DERIVED for every graph built through the API, see (c6)
    [wiring_correct_reachable]) and "no import request was answered by a differently named
    import" — needed for the faithful model of the current code, see the [_refuted] theorem. *)
Theorem wiring_correct : forall e u g dc tau ord st names,
  EncInv e u g -> topo_orderb g ord = true ->
  encode_with_order e u g dc tau ord = ROk (st, names) ->
  (forall p, In p (e_dedup st) -> fst p = snd p) ->
  option_map (erase_defs (def_names e g)) (decode_wiring names (e_log st)) = Some (wiring_spec e u g dc ord).
Proof. exact WiringCorrect.wiring_correct. Qed.
Print Assumptions wiring_correct.

Theorem each_package_once : forall e u g dc tau ord st names w,
  EncInv e u g -> topo_orderb g ord = true ->
  encode_with_order e u g dc tau ord = ROk (st, names) ->
  (forall p, In p (e_dedup st) -> fst p = snd p) ->
  decode_wiring names (e_log st) = Some w ->
  w_comps w = (if dc then map (we_digest e) (pkgs_in_order g ord) else []) /\
  NoDup (pkgs_in_order g ord) /\
  (forall p, In p (pkgs_in_order g ord) <-> exists n, In n ord /\ is_inst g n = true /\ node_pkg g n = Some p).
Proof. exact WiringCorrect.each_package_once. Qed.
Print Assumptions each_package_once.

(** non-vacuity: a concrete composition (two instantiations of one package sharing an implicit import, an
    alias of the first passed to the second, an export, a name, a definition) for which the model encoder
    succeeds in both dependency modes and the decoded wiring IS the specified one *)
Example wiring_correct_nonvacuous :
  exists w, encoded ops_good true = Some (w, w, []) /\ length (w_insts w) = 2 /\ length (w_exports w) = 2
            /\ encoded ops_good false = match encoded ops_good false with Some (a, _, d) => Some (a, a, d) | None => None end
            /\ encoded ops_good false <> None.
Proof. exact good_instance. Qed.

(** A definition exported under another name is RENAMED ([CompositionGraph::export] after its repair: the
    previous name leaves the export map), so "a definition has one export name" holds of every graph built through
    the API (C01 [defs_single_reachable]) and the general statement is (c6) [wiring_correct_reachable] below, without
    an exception for definitions. The former counterexample ([define_type foo; export(foo, bar)], replayed on the
    real code on every run) as a regression instance: the export map is [bar -> the definition] alone and the
    decoded wiring IS the specified one. *)
Theorem wiring_correct_renamed_definition :
  exports (run w_universe ops_def_two_names) = [(6%N, 0)] /\
  exists w, encoded ops_def_two_names true = Some (w, w, []) /\ length (w_exports w) = 1.
Proof. exact def_renamed_instance. Qed.
Print Assumptions wiring_correct_renamed_definition.

(** The statement without the second side condition is FALSE of the faithful model of the current code (and of the
    code: witness replayed on every run, see the KNOWN-FINDING line of ./check C02): an explicit import whose
    interface id is also imported implicitly is answered by that import. *)

Theorem wiring_correct_interface_id_dedup_refuted :
  match encoded ops_dedup true with
  | Some (dec, spec, dd) => dd <> [] /\ dec <> spec
  | None => False
  end.
Proof. pose proof dedup_refutes as H. destruct (encoded ops_dedup true) as [[[dec spec] dd]|]; auto. destruct H as [-> H]. split; [discriminate | exact H]. Qed.
Print Assumptions wiring_correct_interface_id_dedup_refuted.

(** * The emission order: theorems about the MODEL of [CompositionGraphEncoder::toposort]
    ([EncodeModel.topo_phase1] = the reverse-index DFS with an explicit stack; [ToposortPhase2.phase2] = the
    second phase as coded: petgraph's [Dfs::next] over [Reversed(graph)], [move_to] per element, the [cycle] flag).
    They discharge the hypothesis [topo_orderb g ord = true] of [wiring_correct] for the order the model of the code
    computes, for every graph satisfying the C06 invariant. (Per run, ./check C02 still compares the order observed in
    the real output with the model's.) *)
From Coq Require Import Permutation.
From WacV Require Import GraphInv WiringOrder ToposortDfs ToposortPhase1 ToposortPhase2 ToposortMain.

(** (c1) phase one enumerates exactly the live nodes, each once; the fuel of the model suffices (any larger fuel
    gives the same answer, i.e. the out-of-fuel exit is never taken); it fails only at a self loop *)
Theorem toposort_phase1_perm : forall u g, Inv u g ->
  (forall f, dfs_fuel g <= f -> topo_phase1_fuel g f = topo_phase1 g) /\
  (forall ord, topo_phase1 g = Some ord -> Permutation ord (node_ids g) /\ NoDup ord) /\
  (topo_phase1 g = None -> exists e, In e (edges g) /\ esrc e = etgt e).
Proof. exact ToposortMain.toposort_phase1_perm. Qed.
Print Assumptions toposort_phase1_perm.

(** (c2) acyclic graph (alias, argument and dependency edges alike; argument edges can close cycles, so this is a
    hypothesis): the order is a topological order and the second phase, as coded, reports no cycle *)
Theorem toposort_acyclic_is_topo : forall u g, Inv u g -> ~ has_cycle g ->
  exists ord, toposort g = Some ord /\ topo_orderb g ord = true /\ Topo g ord /\ toposort_full g = inl ord.
Proof. exact ToposortMain.toposort_acyclic_is_topo. Qed.
Print Assumptions toposort_acyclic_is_topo.

Theorem toposort_ranked_is_topo : forall u g rk, Inv u g -> RankedBy g rk ->
  exists ord, toposort g = Some ord /\ topo_orderb g ord = true /\ Topo g ord /\ toposort_full g = inl ord.
Proof. exact ToposortMain.toposort_ranked_is_topo. Qed.
Print Assumptions toposort_ranked_is_topo.

(** (c3) success implies acyclicity and the hypothesis of [wiring_correct]; a cycle is always reported; the order
    check by which [EncodeModel.toposort] renders the second phase agrees with the second phase as coded *)
Theorem toposort_cycle_detected : forall u g, Inv u g ->
  (forall ord, toposort g = Some ord -> topo_orderb g ord = true /\ ~ has_cycle g /\ RankedBy g (fun n => index_of n ord)) /\
  (toposort g = None <-> has_cycle g) /\
  toposort g = match toposort_full g with inl ord => Some ord | inr _ => None end.
Proof. exact ToposortMain.toposort_cycle_detected. Qed.
Print Assumptions toposort_cycle_detected.

(** (c4) [wiring_correct] for the order the two-phase model of the code returns, and for [encode_model] itself *)
Theorem wiring_correct_real_order : forall e u g dc tau ord st names,
  Inv u g -> EncInv e u g -> toposort_full g = inl ord ->
  encode_with_order e u g dc tau ord = ROk (st, names) ->
  (forall p, In p (e_dedup st) -> fst p = snd p) ->
  option_map (erase_defs (def_names e g)) (decode_wiring names (e_log st)) = Some (wiring_spec e u g dc ord).
Proof. exact ToposortMain.wiring_correct_real_order. Qed.
Print Assumptions wiring_correct_real_order.

Theorem wiring_correct_encode_model : forall e u g dc tau st names,
  Inv u g -> EncInv e u g ->
  encode_model e u g dc tau = ROk (st, names) ->
  (forall p, In p (e_dedup st) -> fst p = snd p) ->
  exists ord, toposort_full g = inl ord /\ Permutation ord (node_ids g) /\ ~ has_cycle g /\
    option_map (erase_defs (def_names e g)) (decode_wiring names (e_log st)) = Some (wiring_spec e u g dc ord).
Proof. exact ToposortMain.wiring_correct_encode_model. Qed.
Print Assumptions wiring_correct_encode_model.

Theorem encode_model_cycle : forall e u g dc tau, Inv u g -> has_cycle g -> encode_model e u g dc tau = RErr ECycle.
Proof. exact ToposortMain.encode_model_cycle. Qed.
Print Assumptions encode_model_cycle.

(** (c5) FULL statement of the comment on [toposort] ("... resulting in the returned topologically-sorted set to be
    in index order for independent nodes"):
      forall g ord a b, toposort g = Some ord -> live a -> live b -> a < b -> ~ reach a b -> ~ reach b a ->
                        index_of a ord < index_of b ord.
    It is FALSE of the faithful model (a defect of the comment, not of property C02): instantiations 0, 1, 2, an
    alias 3 of an export of 2 passed as argument to 0; the order is 1, 2, 3, 0 although 0 and 1 are independent.
    The true weaker statements are proved for C16 (proofs/ToposortOrder.v). *)
Theorem toposort_index_order_for_independent_refuted :
  exists ops a b ord, let g := run w_universe ops in
    toposort_full g = inl ord /\ live g a = true /\ live g b = true /\ a < b /\
    ~ reach g a b /\ ~ reach g b a /\ index_of b ord < index_of a ord.
Proof. exact ToposortMain.index_order_refuted. Qed.
Print Assumptions toposort_index_order_for_independent_refuted.

(** (c6) end to end over API histories: for EVERY graph built through the API (C06 [reach_inv]; [EncInv] from C01
    [enc_inv_reachable], which needs no hypothesis about definitions any more), whenever the model of [encode], its own [toposort] included, succeeds, the log decodes to the
    wiring specified for the order [toposort] computed (a permutation of the live nodes; the graph is acyclic); a graph
    with a cycle gets the cycle error *)
From WacV Require Import ValidSpec ValidEncInv ToposortReach.
Theorem wiring_correct_reachable : forall e u ops dc tau st names,
  UnivOK e u ->
  encode_model e u (run u ops) dc tau = ROk (st, names) ->
  (forall p, In p (e_dedup st) -> fst p = snd p) ->
  exists ord, toposort_full (run u ops) = inl ord /\ Permutation ord (node_ids (run u ops)) /\ ~ has_cycle (run u ops) /\
    option_map (erase_defs (def_names e (run u ops))) (decode_wiring names (e_log st))
    = Some (wiring_spec e u (run u ops) dc ord).
Proof. exact ToposortReach.wiring_correct_reachable. Qed.
Print Assumptions wiring_correct_reachable.

Theorem encode_reachable_cycle : forall e u ops dc tau,
  has_cycle (run u ops) -> encode_model e u (run u ops) dc tau = RErr ECycle.
Proof. exact ToposortReach.encode_reachable_cycle. Qed.
Print Assumptions encode_reachable_cycle.

(** non-vacuity of the cycle clauses: a reachable graph with a cycle (an instantiation receives an alias of its own
    export); phase one enumerates it, phase two as coded answers [Err(0)], the encoder model answers the cycle error *)
Example toposort_cycle_detected_nonvacuous :
  let g := run w_universe ops_cycle in
  has_cycle g /\ topo_phase1 g = Some [1; 0] /\ toposort_full g = inr (Some 0) /\ toposort g = None /\
  encode_model w_env w_universe g true w_tau = RErr ECycle.
Proof. exact cycle_instance. Qed.
