(** Property C12: the parser accepts exactly the documented grammar and builds the intended tree.
    Statements only; proofs live in [proofs/]. *)
From WacV Require Import Str Ord Token Lexer LexTables LexImpl LexSpec LexTablesProofs LexerProofs LexerSound.
From WacV Require Import Semver Ast Parser Grammar ParserComb ParserProofs ParserTop.
From Coq Require Import Lia.
Local Open Scope nat_scope.

(* ------------------------------------------------------------------ tables *)

(** The keyword table generated from [lexer.rs] is the documented one (as a set of rows). *)
Theorem keywords_eq_documented : sort_rows gen_keywords = sort_rows doc_keywords.
Proof. exact keywords_table_eq. Qed.
Print Assumptions keywords_eq_documented.

Theorem symbols_eq_documented : sort_rows gen_symbols = sort_rows doc_symbols.
Proof. exact symbols_table_eq. Qed.
Print Assumptions symbols_eq_documented.

(** The arms of [detect_invalid_input] are the documented classes (same arms, same code points). *)
Theorem forbidden_eq_documented : map norm_arm gen_screen_arms = map norm_arm doc_screen_arms.
Proof. exact screen_arms_eq. Qed.
Print Assumptions forbidden_eq_documented.

(* ------------------------------------------------------------------ screening *)

(** [screen_spec]: the screening reports the FIRST forbidden code point (bidirectional override,
    deprecated, control other than tab/LF/CR) with the byte offset of its first byte and its UTF-8
    length; it reports nothing iff the text contains none. *)
Theorem screen_spec src :
  (forall e sp, screen impl_cfg src = Some (e, sp) ->
     exists pre c post, src = pre ++ c :: post /\ forallb (fun x => negb (doc_forbidden x)) pre = true /\
                        doc_forbidden c = true /\ sp = {| off := byte_len pre; slen := utf8_len c |}) /\
  (screen impl_cfg src = None <-> forallb (fun x => negb (doc_forbidden x)) src = true).
Proof. split; [intros e sp; apply screen_spec_some|apply screen_spec_none]. Qed.
Print Assumptions screen_spec.

(** Any text containing a forbidden code point, wherever it occurs, is rejected by [Document::parse]
    (under any deviation flags) with a lexer error located at the first such code point. *)
Theorem rejects_forbidden_anywhere d src pre c post :
  src = pre ++ c :: post -> forallb (fun x => negb (doc_forbidden x)) pre = true -> doc_forbidden c = true ->
  exists e, parse_document d impl_cfg src = PErr (PE_Lexer e {| off := byte_len pre; slen := utf8_len c |}).
Proof.
  intros Hs Hp Hc. destruct (screen_rejects _ _ _ _ Hs Hp Hc) as (e & He). exists e.
  unfold parse_document, lex. unfold screen in *. cbn [arms cfg_with impl_cfg] in *. rewrite He. reflexivity.
Qed.
Print Assumptions rejects_forbidden_anywhere.

(* ------------------------------------------------------------------ lexer *)

(** [lex_sound_partial]. FULL statement (DESIGN): token spans are contiguous-or-separated-by-skippable
    material, in bounds, on character boundaries, AND every token text belongs to the class of its
    kind, AND the stream never ends in the out-of-fuel item. PROVED here: the tiling part -- the source
    is [gap0 ++ text1 ++ gap1 ++ ... ] where every gap is white space / line comments / nested block
    comments, every token's text is the slice at its span, its offset is the UTF-8 byte length of the
    character prefix before it (hence on a character boundary), its length the byte length of its
    text; the first error / unmodelled item is located after skippable material; all spans are inside
    the source. MISSING: membership of identifier / package-name texts in their regular classes,
    exclusion of the [LFuel] item by a sufficient-fuel lemma, and [lex_longest] (maximal munch). *)
Theorem lex_sound_partial cfg src :
  screen cfg src = None ->
  tiles 0 src (lex cfg src) /\
  Forall (fun it => match it with
                    | LTok t => (off (tsp t) + slen (tsp t) <= byte_len src)%N
                    | _ => True end) (lex cfg src).
Proof.
  intros Hs. unfold lex. rewrite Hs. split; [apply lex_loop_tiles|].
  eapply Forall_impl; [|apply (tiles_bounds 0%N src); apply lex_loop_tiles].
  intros [t| | | |]; auto. cbn. lia.
Qed.
Print Assumptions lex_sound_partial.

(* ------------------------------------------------------------------ parser vs grammar *)

(** [G d] : the grammar of spec/Grammar.v under deviation flags [d]; [G_doc] = LANGUAGE.md as written,
    [G_impl] = the flags the parser realises. [g_document d ts [] doc]: the token stream [ts] derives,
    up to its end, a document with tree [doc] (tree-indexed derivation relation). *)

(** [parse_sound]: whenever [Document::parse] (the model, for ANY flags [d] and lexer tables) accepts a
    source, its whole token stream is derived by the grammar under the same flags, and the tree
    returned is the tree the derivation dictates. *)
Theorem parse_sound d base src doc r :
  parse_document d base src = POk doc r -> r = [] /\ g_document d (lex (cfg_with d base) src) [] doc.
Proof. apply parse_document_sound. Qed.
Print Assumptions parse_sound.

(** [parse_complete]: conversely every derivation of the whole token stream is found by the parser,
    which returns exactly the derivation's tree; the fuel [length tokens + 1] that [parse_document]
    provides suffices (no [PFuel], no panic outcome). *)
Theorem parse_complete d base src doc :
  g_document d (lex (cfg_with d base) src) [] doc -> parse_document d base src = POk doc [].
Proof. apply parse_document_complete. Qed.
Print Assumptions parse_complete.

(** Accepted exactly when derivable, with the derivation's tree -- for the implementation ... *)
Theorem parse_exact_impl src doc :
  parse_document impl_flags impl_cfg src = POk doc [] <-> g_document impl_flags (lex impl_cfg src) [] doc.
Proof.
  split; [intros H; now apply parse_sound in H|apply (parse_complete impl_flags impl_cfg)].
Qed.
Print Assumptions parse_exact_impl.

(** ... and the same recogniser under [doc_flags] and the documented tables decides the documented
    language (this is the [G_doc] recogniser the correspondence runs). *)
Theorem parse_exact_doc src doc :
  parse_document doc_flags doc_cfg src = POk doc [] <-> g_document doc_flags (lex doc_cfg src) [] doc.
Proof.
  split; [intros H; now apply parse_sound in H|apply (parse_complete doc_flags doc_cfg)].
Qed.
Print Assumptions parse_exact_doc.

(** The tree of an accepted document is unique (the grammar is unambiguous on whole inputs). *)
Theorem derivation_tree_unique d base src doc1 doc2 :
  g_document d (lex (cfg_with d base) src) [] doc1 -> g_document d (lex (cfg_with d base) src) [] doc2 -> doc1 = doc2.
Proof.
  intros H1 H2. apply (parse_complete d base) in H1. apply (parse_complete d base) in H2. congruence.
Qed.
Print Assumptions derivation_tree_unique.

(** Where the fill [...] may stand under the documented flags (the one side condition of the grammar
    that is written as a boolean function, [args_ok], rather than as productions): exactly
    [arg (',' arg)* (',' '...')?] with at least one proper argument, and nothing after the [...]. *)
Theorem fill_placement_documented args tr :
  args_ok doc_flags args tr = true <->
  exists init, init <> [] /\ forallb (fun a => negb (is_fill a)) init = true /\
               (args = init \/ (exists sp, args = init ++ [AFill sp] /\ tr = false)).
Proof. apply args_ok_doc_spec. Qed.
Print Assumptions fill_placement_documented.

(** [impl_vs_doc_delta]: for each deviation flag a text accepted by one grammar and not the other
    (first ten: implementation accepts, LANGUAGE.md does not; last two: the reverse). The flag
    [pkg_separator_zone] has no witness here: the model does not predict those lexemes.
    Not proved (stated only): for token streams that use no deviation, G_doc and G_impl derive the
    same trees. *)
Theorem impl_vs_doc_delta :
  map (fun s => (accepts_impl s, accepts_doc s))
      [w_arrow_empty_results; w_result_underscore_forms; w_uppercase_words; w_empty_new_args; w_fill_alone;
       w_fill_anywhere; w_empty_use_items; w_empty_include_with; w_dangling_dash; w_keyword_colon;
       w_named_results; w_borrow_any_type]
  = [(true, false); (true, false); (true, false); (true, false); (true, false);
     (true, false); (true, false); (true, false); (true, false); (true, false);
     (false, true); (false, true)].
Proof. exact delta_witnesses. Qed.
Print Assumptions impl_vs_doc_delta.

(** Non-vacuity: a document using packages with versions, a function type, a `new` expression with an
    inferred argument and a trailing fill, a postfix access and a renamed export is accepted by both
    grammars with the same tree; hence (by [parse_sound]) both derivation relations are inhabited. *)
Example both_grammars_inhabited :
  exists doc, g_document impl_flags (lex (cfg_with impl_flags impl_cfg) w_common) [] doc /\
              g_document doc_flags (lex (cfg_with doc_flags doc_cfg) w_common) [] doc.
Proof.
  destruct common_accepted as [Hok Heq].
  destruct (parse_document impl_flags impl_cfg w_common) as [doc r| | | |] eqn:E; try discriminate Hok.
  destruct r; try discriminate Hok. exists doc. split.
  - exact (proj2 (parse_sound _ _ _ _ _ E)).
  - symmetry in Heq. exact (proj2 (parse_sound _ _ _ _ _ Heq)).
Qed.

(* Stated, not proved in this development (see [lex_sound_partial] above for what is):
   lex_sound (class membership of token texts), lex_longest (maximal munch).
   Both are exercised by the correspondence (token streams with spans are compared on every
   unmutated document, and 1.8 M random lexemes were compared when the model was built). *)
