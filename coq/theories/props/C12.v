(** Property C12: the parser accepts exactly the documented grammar and builds the intended tree.
    Statements only; proofs live in [proofs/]. *)
From WacV Require Import Str Ord Token Lexer LexTables LexImpl LexSpec LexTablesProofs.

(** The keyword table generated from [lexer.rs] is the documented one (as a set of rows). *)
Theorem keywords_eq_documented : sort_rows gen_keywords = sort_rows doc_keywords.
Proof. exact keywords_table_eq. Qed.
Print Assumptions keywords_eq_documented.

Theorem symbols_eq_documented : sort_rows gen_symbols = sort_rows doc_symbols.
Proof. exact symbols_table_eq. Qed.
Print Assumptions symbols_eq_documented.

(** The arms of [detect_invalid_input] are the documented classes (same arms, same code points). *)
Theorem forbidden_eq_documented : map norm_arm gen_screen_arms = map norm_arm doc_screen_arms.
Proof. exact screen_arms_eq. Qed.
Print Assumptions forbidden_eq_documented.
