(** Property C12: the parser accepts exactly the documented grammar and builds the intended tree.
    Statements only; proofs live in [proofs/]. *)
From WacV Require Import Str Ord Token Lexer LexTables LexImpl LexSpec LexTablesProofs LexerProofs LexerSound.
From WacV Require Import Semver Ast Parser Grammar ParserComb ParserProofs ParserTop.
From Coq Require Import Lia.
Local Open Scope nat_scope.

(* ------------------------------------------------------------------ tables *)

(** The keyword table generated from [lexer.rs] is the documented one (as a set of rows). *)
Theorem keywords_eq_documented : sort_rows gen_keywords = sort_rows doc_keywords.
Proof. exact keywords_table_eq. Qed.
Print Assumptions keywords_eq_documented.

Theorem symbols_eq_documented : sort_rows gen_symbols = sort_rows doc_symbols.
Proof. exact symbols_table_eq. Qed.
Print Assumptions symbols_eq_documented.

(** The arms of [detect_invalid_input] are the documented classes (same arms, same code points). *)
Theorem forbidden_eq_documented : map norm_arm gen_screen_arms = map norm_arm doc_screen_arms.
Proof. exact screen_arms_eq. Qed.
Print Assumptions forbidden_eq_documented.

(* ------------------------------------------------------------------ screening *)

(** [screen_spec]: the screening reports the FIRST forbidden code point (bidirectional override,
    deprecated, control other than tab/LF/CR) with the byte offset of its first byte and its UTF-8
    length; it reports nothing iff the text contains none. *)
Theorem screen_spec src :
  (forall e sp, screen impl_cfg src = Some (e, sp) ->
     exists pre c post, src = pre ++ c :: post /\ forallb (fun x => negb (doc_forbidden x)) pre = true /\
                        doc_forbidden c = true /\ sp = {| off := byte_len pre; slen := utf8_len c |}) /\
  (screen impl_cfg src = None <-> forallb (fun x => negb (doc_forbidden x)) src = true).
Proof. split; [intros e sp; apply screen_spec_some|apply screen_spec_none]. Qed.
Print Assumptions screen_spec.

(** Any text containing a forbidden code point, wherever it occurs, is rejected by [Document::parse]
    (under any deviation flags) with a lexer error located at the first such code point. *)
Theorem rejects_forbidden_anywhere d src pre c post :
  src = pre ++ c :: post -> forallb (fun x => negb (doc_forbidden x)) pre = true -> doc_forbidden c = true ->
  exists e, parse_document d impl_cfg src = PErr (PE_Lexer e {| off := byte_len pre; slen := utf8_len c |}).
Proof.
  intros Hs Hp Hc. destruct (screen_rejects _ _ _ _ Hs Hp Hc) as (e & He). exists e.
  unfold parse_document, lex. unfold screen in *. cbn [arms cfg_with impl_cfg] in *. rewrite He. reflexivity.
Qed.
Print Assumptions rejects_forbidden_anywhere.

(* ------------------------------------------------------------------ lexer *)

(** [lex_sound_partial]. FULL statement (DESIGN): token spans are contiguous-or-separated-by-skippable
    material, in bounds, on character boundaries, AND every token text belongs to the class of its
    kind, AND the stream never ends in the out-of-fuel item. PROVED here: the tiling part -- the source
    is [gap0 ++ text1 ++ gap1 ++ ... ] where every gap is white space / line comments / nested block
    comments, every token's text is the slice at its span, its offset is the UTF-8 byte length of the
    character prefix before it (hence on a character boundary), its length the byte length of its
    text; the first error / unmodelled item is located after skippable material; all spans are inside
    the source. MISSING: membership of identifier / package-name texts in their regular classes,
    exclusion of the [LFuel] item by a sufficient-fuel lemma, and [lex_longest] (maximal munch). *)
Theorem lex_sound_partial cfg src :
  screen cfg src = None ->
  tiles 0 src (lex cfg src) /\
  Forall (fun it => match it with
                    | LTok t => (off (tsp t) + slen (tsp t) <= byte_len src)%N
                    | _ => True end) (lex cfg src).
Proof.
  intros Hs. unfold lex. rewrite Hs. split; [apply lex_loop_tiles|].
  eapply Forall_impl; [|apply (tiles_bounds 0%N src); apply lex_loop_tiles].
  intros [t| | | |]; auto. cbn. lia.
Qed.
Print Assumptions lex_sound_partial.

(* ------------------------------------------------------------------ parser vs grammar *)

(** [G d] : the grammar of spec/Grammar.v under deviation flags [d]; [G_doc] = LANGUAGE.md as written,
    [G_impl] = the flags the parser realises. [g_document d ts [] doc]: the token stream [ts] derives,
    up to its end, a document with tree [doc] (tree-indexed derivation relation). *)

(** [parse_sound]: whenever [Document::parse] (the model, for ANY flags [d] and lexer tables) accepts a
    source, its whole token stream is derived by the grammar under the same flags, and the tree
    returned is the tree the derivation dictates. *)
Theorem parse_sound d base src doc r :
  parse_document d base src = POk doc r -> r = [] /\ g_document d (lex (cfg_with d base) src) [] doc.
Proof. apply parse_document_sound. Qed.
Print Assumptions parse_sound.

(** [parse_complete]: conversely every derivation of the whole token stream is found by the parser,
    which returns exactly the derivation's tree; the fuel [length tokens + 1] that [parse_document]
    provides suffices (no [PFuel], no panic outcome). *)
Theorem parse_complete d base src doc :
  g_document d (lex (cfg_with d base) src) [] doc -> parse_document d base src = POk doc [].
Proof. apply parse_document_complete. Qed.
Print Assumptions parse_complete.

(** Accepted exactly when derivable, with the derivation's tree -- for the implementation ... *)
Theorem parse_exact_impl src doc :
  parse_document impl_flags impl_cfg src = POk doc [] <-> g_document impl_flags (lex impl_cfg src) [] doc.
Proof.
  split; [intros H; now apply parse_sound in H|apply (parse_complete impl_flags impl_cfg)].
Qed.
Print Assumptions parse_exact_impl.

(** ... and the same recogniser under [doc_flags] and the documented tables decides the documented
    language (this is the [G_doc] recogniser the correspondence runs). *)
Theorem parse_exact_doc src doc :
  parse_document doc_flags doc_cfg src = POk doc [] <-> g_document doc_flags (lex doc_cfg src) [] doc.
Proof.
  split; [intros H; now apply parse_sound in H|apply (parse_complete doc_flags doc_cfg)].
Qed.
Print Assumptions parse_exact_doc.

(** The tree of an accepted document is unique (the grammar is unambiguous on whole inputs). *)
Theorem derivation_tree_unique d base src doc1 doc2 :
  g_document d (lex (cfg_with d base) src) [] doc1 -> g_document d (lex (cfg_with d base) src) [] doc2 -> doc1 = doc2.
Proof.
  intros H1 H2. apply (parse_complete d base) in H1. apply (parse_complete d base) in H2. congruence.
Qed.
Print Assumptions derivation_tree_unique.

(** Where the fill [...] may stand under the documented flags (the one side condition of the grammar
    that is written as a boolean function, [args_ok], rather than as productions): exactly
    [arg (',' arg)* (',' '...')?] with at least one proper argument, and nothing after the [...]. *)
Theorem fill_placement_documented args tr :
  args_ok doc_flags args tr = true <->
  exists init, init <> [] /\ forallb (fun a => negb (is_fill a)) init = true /\
               (args = init \/ (exists sp, args = init ++ [AFill sp] /\ tr = false)).
Proof. apply args_ok_doc_spec. Qed.
Print Assumptions fill_placement_documented.

(** [impl_vs_doc_delta]: for each deviation flag a text accepted by one grammar and not the other
    (first ten: implementation accepts, LANGUAGE.md does not; last two: the reverse). The flag
    [pkg_separator_zone] has no witness here: the model does not predict those lexemes.
    Not proved (stated only): for token streams that use no deviation, G_doc and G_impl derive the
    same trees. *)
Theorem impl_vs_doc_delta :
  map (fun s => (accepts_impl s, accepts_doc s))
      [w_arrow_empty_results; w_result_underscore_forms; w_uppercase_words; w_empty_new_args; w_fill_alone;
       w_fill_anywhere; w_empty_use_items; w_empty_include_with; w_dangling_dash; w_keyword_colon;
       w_named_results; w_borrow_any_type]
  = [(true, false); (true, false); (true, false); (true, false); (true, false);
     (true, false); (true, false); (true, false); (true, false); (true, false);
     (false, true); (false, true)].
Proof. exact delta_witnesses. Qed.
Print Assumptions impl_vs_doc_delta.

(** Non-vacuity: a document using packages with versions, a function type, a `new` expression with an
    inferred argument and a trailing fill, a postfix access and a renamed export is accepted by both
    grammars with the same tree; hence (by [parse_sound]) both derivation relations are inhabited. *)
Example both_grammars_inhabited :
  exists doc, g_document impl_flags (lex (cfg_with impl_flags impl_cfg) w_common) [] doc /\
              g_document doc_flags (lex (cfg_with doc_flags doc_cfg) w_common) [] doc.
Proof.
  destruct common_accepted as [Hok Heq].
  destruct (parse_document impl_flags impl_cfg w_common) as [doc r| | | |] eqn:E; try discriminate Hok.
  destruct r; try discriminate Hok. exists doc. split.
  - exact (proj2 (parse_sound _ _ _ _ _ E)).
  - symmetry in Heq. exact (proj2 (parse_sound _ _ _ _ _ Heq)).
Qed.

(* Stated, not proved in this development (see [lex_sound_partial] above for what is):
   lex_sound (class membership of token texts), lex_longest (maximal munch).
   Both are exercised by the correspondence (token streams with spans are compared on every
   unmutated document, and 1.8 M random lexemes were compared when the model was built). *)

(* The note above is superseded: class membership, the fuel/unmodelled items, maximal munch and
   re-lexing stability are proved below (proofs/LexerClass{A..G}.v, spec/LexClasses.v). *)
From WacV Require Import LexClasses LexerClassC LexerClassD LexerClassE LexerClassF LexerClassG GrammarMono.

(* ================================================================== lexer: classes, fuel, maximal munch, re-lexing *)

(** The theorems below are stated for [cfg_with d base]: any deviation flags [d] over any tables
    [base] that are, as sets of rows, the documented tables ([tables_ok]) -- in particular the lexer of
    the implementation ([impl_cfg = cfg_with impl_flags impl_cfg]) and the documented lexer
    ([cfg_with doc_flags doc_cfg]). The class predicates ([token_class], [rule_class], [follow_ok],
    [unmodelled_at]) are the boolean predicates of spec/LexClasses.v, written from LANGUAGE.md. *)
Theorem lex_tables_ok : tables_ok impl_cfg /\ tables_ok doc_cfg /\ cfg_with impl_flags impl_cfg = impl_cfg.
Proof. split; [exact tables_ok_impl|split; [exact tables_ok_doc|reflexivity]]. Qed.
Print Assumptions lex_tables_ok.

(** [lex_token_classes]: the text of every token the lexer emits is in the class of its kind:
    Ident: [%]? word (- word)* with lower-case words (and upper-case words under [uppercase_words]),
    not a keyword (unless [keyword_colon]), or such an id followed by one [-] under [dangling_dash];
    keyword and punctuation tokens: exactly the one text of the documented table; String: a double
    quote, no double quote inside, a double quote; PackageName: id (: id)+ (@ version)?; PackagePath:
    id (: id)+ (/ id)+ (@ version)?, version being [0-9]+ (. [0-9a-zA-Z+-]+)* . *)
Theorem lex_token_classes d base src :
  tables_ok base ->
  Forall (fun it => match it with LTok t => token_class d (tk t) (ttext t) = true | _ => True end)
         (lex (cfg_with d base) src).
Proof. intros H. now apply lex_token_classes_proof. Qed.
Print Assumptions lex_token_classes.

(** [lex_no_fuel_item]: with the fuel [lex] gives itself the stream never contains the out-of-fuel
    item nor the panic item ([unwrap] in [Lexer::comments]); the unmodelled item [LUnmodelled] is
    emitted only under the flag [pkg_separator_zone] and only at a position of the source where the
    remaining input satisfies the decidable predicate [unmodelled_at] (a package name directly followed
    by a dangling [-]/[:], or a keyword prefix directly followed by a dangling [-]); a source outside
    the zone [unmodelled_zone] never yields it. *)
Theorem lex_no_fuel_item d base src :
  tables_ok base ->
  ~ In LFuel (lex (cfg_with d base) src) /\ ~ In LPanic (lex (cfg_with d base) src) /\
  (forall sp, In (LUnmodelled sp) (lex (cfg_with d base) src) ->
     pkg_separator_zone d = true /\
     exists pre s1, src = pre ++ s1 /\ sp = {| off := byte_len pre; slen := 0 |} /\ unmodelled_at d s1 = true) /\
  (unmodelled_zone d src = false -> forall sp, ~ In (LUnmodelled sp) (lex (cfg_with d base) src)).
Proof. intros H. now apply lex_no_fuel_item_proof. Qed.
Print Assumptions lex_no_fuel_item.

(** The zone is exact at a token start: [scan_token] answers "unmodelled" iff the flag is set and the
    remaining input is in the zone. (Only the "only if" half is needed above.) *)
Theorem unmodelled_only_in_zone d base fuel s :
  tables_ok base -> length s < fuel -> scan_token (cfg_with d base) fuel s = ScanUnmodelled ->
  pkg_separator_zone d = true /\ unmodelled_at d s = true.
Proof. intros H. now apply scan_token_unmodelled. Qed.
Print Assumptions unmodelled_only_in_zone.

(** [lex_sound] (full): tiling + bounds ([lex_sound_partial]) AND class membership AND no fuel / panic
    item AND the unmodelled item only inside the zone. *)
Theorem lex_sound d base src :
  tables_ok base -> screen (cfg_with d base) src = None ->
  let items := lex (cfg_with d base) src in
  tiles 0 src items /\
  Forall (fun it => match it with
                    | LTok t => (off (tsp t) + slen (tsp t) <= byte_len src)%N /\ token_class d (tk t) (ttext t) = true
                    | LFuel | LPanic => False
                    | LUnmodelled sp => pkg_separator_zone d = true /\ unmodelled_zone d src = true
                    | LErr _ _ => True
                    end) items.
Proof.
  intros Ht Hs items. destruct (lex_sound_partial (cfg_with d base) src Hs) as [Htile Hb]. split; [exact Htile|].
  pose proof (lex_token_classes d base src Ht) as Hc. destruct (lex_no_fuel_item d base src Ht) as (Hf & Hp & Hu & Hz).
  apply Forall_forall. intros it Hin. rewrite Forall_forall in Hb, Hc. specialize (Hb _ Hin). specialize (Hc _ Hin).
  destruct it as [t|e sp|sp| |].
  - split; [exact Hb|exact Hc].
  - exact I.
  - split; [exact (proj1 (Hu _ Hin))|]. destruct (unmodelled_zone d src) eqn:E; [reflexivity|]. exfalso. exact (Hz eq_refl _ Hin).
  - exact (Hp Hin).
  - exact (Hf Hin).
Qed.
Print Assumptions lex_sound.

(** [lex_longest] (maximal munch), part 1 -- holds for ALL flags: for every token, at the remaining
    input [s1] where it was produced, no prefix of [s1] longer than the token's text is a lexeme of
    any token rule (Ident, String, PackageName, PackagePath, any keyword, any punctuation). *)
Theorem lex_longest d base src :
  tables_ok base ->
  Forall (fun it => match it with
                    | LTok t => exists pre s1, src = pre ++ s1 /\ off (tsp t) = byte_len pre /\
                                  ttext t = firstn (length (ttext t)) s1 /\
                                  forall m k', length (ttext t) < m <= length s1 -> rule_class d k' (firstn m s1) = false
                    | _ => True end) (lex (cfg_with d base) src).
Proof. intros H. now apply lex_longest_proof. Qed.
Print Assumptions lex_longest.

(** [lex_longest], part 2 -- without the two artefacts of the generated automaton the emitted text IS
    a lexeme of its own rule and an Ident token is never a keyword (keywords have priority): together
    with part 1, every token is the longest lexeme at its position, of the highest-priority rule. *)
Theorem lex_longest_munch d base src :
  tables_ok base -> dangling_dash d = false -> keyword_colon d = false ->
  Forall (fun it => match it with
                    | LTok t => rule_class d (tk t) (ttext t) = true /\ (tk t = TIdent -> is_keyword_text (ttext t) = false)
                    | _ => True end) (lex (cfg_with d base) src).
Proof. intros H. now apply lex_munch_proof. Qed.
Print Assumptions lex_longest_munch.

(** ... and with them it is false of the implementation's lexer. [dangling_dash]: the Ident token
    [foo-] is a lexeme of NO rule (the longest lexeme at that position is [foo]). *)
Theorem lex_longest_dash_refuted :
  exists src t, In (LTok t) (lex impl_cfg src) /\ tk t = TIdent /\
                forallb (fun k => negb (rule_class impl_flags k (ttext t))) all_tokens = true /\
                rule_class impl_flags TIdent (firstn 3 (ttext t)) = true.
Proof. exact dash_refuted. Qed.
Print Assumptions lex_longest_dash_refuted.

(** [keyword_colon]: the Ident token [record] (before a colon) is a keyword: priority is violated. *)
Theorem lex_priority_kwcolon_refuted :
  exists src t, In (LTok t) (lex impl_cfg src) /\ tk t = TIdent /\ rule_class impl_flags TRecordKeyword (ttext t) = true.
Proof. exact kwcolon_refuted. Qed.
Print Assumptions lex_priority_kwcolon_refuted.

(** [relex_stable]: if [scan_token] produced kind [k] and length [n] at some remaining input [s] (any
    position of any source), then on the token's text followed by ANY [rest] that satisfies the follow
    condition of the class ([follow_ok]: one or two characters of lookahead; no condition at all for
    strings) it produces the same kind and length. *)
Theorem relex_stable d base fuel s k n fuel' rest :
  tables_ok base -> length s < fuel -> scan_token (cfg_with d base) fuel s = ScanTok k n ->
  follow_ok d k (firstn n s) rest = true -> length (firstn n s ++ rest) < fuel' ->
  scan_token (cfg_with d base) fuel' (firstn n s ++ rest) = ScanTok k n.
Proof. intros H. now apply relex_stable_scan. Qed.
Print Assumptions relex_stable.

(** The same for [lex]: the text of a token of the stream, followed by such a [rest], lexes to that
    token first (at offset 0, without doc comments). *)
Theorem relex_stable_lex d base src t rest :
  tables_ok base -> In (LTok t) (lex (cfg_with d base) src) ->
  follow_ok d (tk t) (ttext t) rest = true -> at_token (ttext t ++ rest) = true ->
  screen (cfg_with d base) (ttext t ++ rest) = None ->
  exists tl, lex (cfg_with d base) (ttext t ++ rest) =
             LTok {| tk := tk t; tsp := {| off := 0; slen := byte_len (ttext t) |}; ttext := ttext t; tdocs := [] |} :: tl.
Proof. intros H. now apply relex_lex_proof. Qed.
Print Assumptions relex_stable_lex.

(* ================================================================== grammar: outside the deviations *)

(** Every deviation flag only ADDS productions ([flags_le]: flag-wise implication on the nine flags
    that guard productions). *)
Theorem grammar_monotone d1 d2 ts r doc : flags_le d1 d2 -> g_document d1 ts r doc -> g_document d2 ts r doc.
Proof. intros H. now apply (g_document_mono d1 d2 H). Qed.
Print Assumptions grammar_monotone.

(** [impl_vs_doc_agree_outside_deviations]: a token stream that is derivable without using any
    deviation ([core_flags]: all flags off, the productions LANGUAGE.md and the parser share) is
    derivable in G_doc and in G_impl, each derives exactly one tree from it, and it is the same tree. *)
Theorem impl_vs_doc_agree_outside_deviations ts doc :
  g_document core_flags ts [] doc ->
  g_document doc_flags ts [] doc /\ g_document impl_flags ts [] doc /\
  (forall doc', g_document doc_flags ts [] doc' -> doc' = doc) /\
  (forall doc', g_document impl_flags ts [] doc' -> doc' = doc).
Proof. apply agree_outside_deviations. Qed.
Print Assumptions impl_vs_doc_agree_outside_deviations.

(** Non-vacuity of the lexer theorems: on the document [w_common] (and on texts from the known-findings
    witnesses) the lexer emits more than ten tokens, none of them an error, and for EVERY token the follow
    condition of [relex_stable] holds of the text that actually follows it in the source -- under the
    implementation's flags and under the documented ones. *)
Definition follow_all (d : deviations) (cfg : lexcfg) (src : str) : bool :=
  forallb (fun it => match it with
                     | LTok t => follow_ok d (tk t) (ttext t) (skipn (N.to_nat (off (tsp t) + slen (tsp t))) src)
                     | _ => false end) (lex cfg src).
Example relex_hypotheses_hold :
  follow_all impl_flags impl_cfg w_common = true /\ follow_all doc_flags (cfg_with doc_flags doc_cfg) w_common = true /\
  follow_all impl_flags impl_cfg w_dangling_dash = true /\ follow_all impl_flags impl_cfg w_keyword_colon = true /\
  follow_all impl_flags impl_cfg w_uppercase_words = true /\
  (10 <? length (lex impl_cfg w_common))%nat = true.
Proof. vm_compute. repeat split. Qed.

(** The zone is exact: at a position where a token starts, the lexer answers "unmodelled" if and only
    if the flag is set and the remaining input satisfies [unmodelled_at]. *)
From WacV Require Import LexerClassH.
Theorem unmodelled_zone_exact d base fuel s :
  tables_ok base -> length s < fuel ->
  (scan_token (cfg_with d base) fuel s = ScanUnmodelled <-> pkg_separator_zone d = true /\ unmodelled_at d s = true).
Proof. intros H. now apply scan_token_unmodelled_iff. Qed.
Print Assumptions unmodelled_zone_exact.

(* Stated, not proved: the SOURCE-level form of [impl_vs_doc_agree_outside_deviations] -- if every token of
   [lex (cfg_with impl_flags impl_cfg) src] is in its class under [core_flags] (no upper-case word, no dangling
   dash, no keyword used as identifier) and the stream contains no [LUnmodelled], then
   [lex (cfg_with doc_flags doc_cfg) src] is the same stream (hence, with the theorem above, both parsers
   return the same tree). The ingredients are here ([lex_longest] and [lex_token_classes] for both
   configurations give: same longest lexeme at every position); what is missing is the monotonicity of the
   classes in the lexical flags and the pairwise disjointness of the rule classes (to conclude "same kind").
   [lex_sound_partial] above is kept as first stated; [lex_sound] is its full form. *)
