(** Property C06 — the graph API stays consistent over every operation history.
    Statements only; every proof is [exact <lemma>]. The model is [model/Graph.v] (it mirrors
    [crates/wac-graph/src/graph.rs] and is compared with it step by step by [./check C06]); the
    invariant [Inv] is defined in [proofs/GraphInv.v]:

      - free slots are dead, in range and listed once;
      - every edge joins two live nodes; an argument edge targets an instantiation, an instantiation
        has only argument edges coming in;
      - the satisfied set of an instantiation is duplicate free and contains index [i] exactly when
        exactly one incoming argument edge carries [i], otherwise there is none ([count_arg]);
      - [exports] has distinct names, points to live nodes and contains the export name of every node;
      - [imports] has distinct names and lists exactly the live import nodes under their names;
      - [defined] lists live definition nodes and every definition node is listed;
      - the package identifier of a node is live, an instantiation has one and its package description
        is available; free package slots are empty and listed once. *)
From Coq Require Import List Arith Bool NArith.
From WacV Require Import Graph GraphInv GraphPrims GraphSteps GraphRemove GraphUnreg GraphTheorems GraphLive GraphAcyclic GraphRank
  GraphAlias GraphExact GraphFrame GraphQueries GraphDefExport.
Import ListNotations.

(** 1. The invariant holds initially, is preserved by every operation whatever its outcome, hence holds
       after every history. *)
Theorem inv_empty : forall u, Inv u empty_graph.
Proof. exact inv_empty. Qed.
Print Assumptions inv_empty.

Theorem step_inv : forall u s o, Inv u s -> Inv u (fst (step u s o)).
Proof. exact step_inv. Qed.
Print Assumptions step_inv.

Theorem reach_inv : forall u ops, Inv u (run u ops).
Proof. exact reach_inv. Qed.
Print Assumptions reach_inv.

(** 2. In a consistent state no operation reaches one of the bookkeeping panics (the
       [assert!]/[unwrap]/[panic!] sites that the maps, edges and satisfied sets agree). *)
Theorem step_no_bookkeeping_panic : forall u s o,
  Inv u s ->
  snd (step u s o) <> OPanic PSatInsert /\ snd (step u s o) <> OPanic PSatRemove /\
  snd (step u s o) <> OPanic PNotInstantiation /\ snd (step u s o) <> OPanic PUnexpectedEdge /\
  snd (step u s o) <> OPanic PDeadNodeInMap /\ snd (step u s o) <> OPanic PExportMissing /\
  snd (step u s o) <> OPanic PImportMissing /\ snd (step u s o) <> OPanic PDefinedMissing.
Proof. exact step_no_bookkeeping_panic. Qed.
Print Assumptions step_no_bookkeeping_panic.

Theorem step_panics_classified : forall u s o p,
  Inv u s -> snd (step u s o) = OPanic p ->
  p = PInvalidNodeId \/ p = PInvalidPackageId \/ p = PBadUniverse \/ p = POutOfFuel.
Proof. exact step_panics_classified. Qed.
Print Assumptions step_panics_classified.

(** 3. Removal leaves no trace. (That the arguments the node satisfied are unsatisfied again is the
       [inv_sat_exact] clause of [Inv u s'], which holds by [step_inv].) *)
Theorem remove_no_trace : forall u s n s',
  Inv u s -> remove_node s n = (s', OUnit) ->
  live s' n = false /\ (forall e, In e (edges s') -> esrc e <> n /\ etgt e <> n) /\
  (forall nm, ~ In (nm, n) (exports s')) /\ (forall nm, ~ In (nm, n) (imports s')) /\
  (forall t, ~ In (t, n) (defined s')).
Proof. exact remove_no_trace. Qed.
Print Assumptions remove_no_trace.

Theorem remove_only_removes : forall u s n s',
  Inv u s -> remove_node s n = (s', OUnit) ->
  (forall m, live s' m = true -> live s m = true) /\ (forall e, In e (edges s') -> In e (edges s)).
Proof. exact remove_only_removes. Qed.
Print Assumptions remove_only_removes.

Theorem unregister_no_trace : forall u s id s',
  Inv u s -> unregister s id = (s', OUnit) ->
  get_pkg s' id = None /\
  forall n nd, get_node s n = Some nd -> npkg nd = Some id ->
    live s' n = false /\ (forall e, In e (edges s') -> esrc e <> n /\ etgt e <> n) /\
    (forall nm, ~ In (nm, n) (exports s')) /\ (forall nm, ~ In (nm, n) (imports s')) /\
    (forall t, ~ In (t, n) (defined s')).
Proof. exact unregister_no_trace. Qed.
Print Assumptions unregister_no_trace.

(** 4. No call with live identifiers panics. [LiveOp u s o]: every node identifier in [o] is an occupied
       slot, every package identifier is current (and, for [Instantiate], its description is in the
       universe), universe indexes are in range. [Acyclic s]: some rank function increases along every
       alias and dependency edge; it is what bounds the recursion of [remove_node] (the model's fuel
       [S (length (nodes s))] then suffices, and the node is still there after its dependants went). *)
Theorem step_no_panic_live_acyclic : forall u s o,
  Inv u s -> Acyclic s -> LiveOp u s o -> forall p, snd (step u s o) <> OPanic p.
Proof. exact step_no_panic_live_acyclic. Qed.
Print Assumptions step_no_panic_live_acyclic.

(** Acyclicity is itself a fact about every reachable state, as soon as the type table of the universe
    is well founded: [UniverseWF u] says that a definable type refers only to definable types of smaller
    index or to itself (true of every [Types] arena, which is built bottom-up). *)
Theorem reach_acyclic : forall u ops, UniverseWF u -> Acyclic (run u ops).
Proof. exact reach_acyclic. Qed.
Print Assumptions reach_acyclic.

Theorem step_no_panic_live : forall u ops o,
  UniverseWF u -> LiveOp u (run u ops) o -> forall p, snd (step u (run u ops) o) <> OPanic p.
Proof. exact step_no_panic_live. Qed.
Print Assumptions step_no_panic_live.

(** 5. Documented errors: an error outcome implies the stated precondition (and, for the name clashes,
       conversely). *)
Theorem documented_errors_export : forall u s n e x,
  snd (step u s (Export n e)) = OErr x ->
  (exists m, x = ExportAlreadyExists m /\ alist_get N.eqb (exports s) e = Some m) \/
  (x = InvalidExportName /\ alist_get N.eqb (exports s) e = None /\ u_export_name_ok u e = false).
Proof. exact export_errors. Qed.
Print Assumptions documented_errors_export.

Theorem export_exists_iff : forall u s n e m,
  snd (step u s (Export n e)) = OErr (ExportAlreadyExists m) <-> alist_get N.eqb (exports s) e = Some m.
Proof. exact export_exists_iff. Qed.
Print Assumptions export_exists_iff.

Theorem documented_errors_import : forall u s nm k x,
  snd (step u s (Import nm k)) = OErr x ->
  (exists n, x = ImportAlreadyExists n /\ alist_get N.eqb (imports s) nm = Some n) \/
  (x = InvalidImportName /\ alist_get N.eqb (imports s) nm = None /\ u_import_name_ok u nm = false).
Proof. exact import_errors. Qed.
Print Assumptions documented_errors_import.

Theorem import_exists_node : forall u s nm k n,
  Inv u s -> snd (step u s (Import nm k)) = OErr (ImportAlreadyExists n) ->
  exists nd, get_node s n = Some nd /\ nk nd = NImport nm.
Proof. exact import_exists_node. Qed.
Print Assumptions import_exists_node.

Theorem documented_errors_define_type : forall u s nm t x,
  snd (step u s (DefineType nm t)) = OErr x ->
  exists td, nth_error (u_tys u) t = Some td /\
  ((x = TypeAlreadyDefined /\ exists n, In (t, n) (defined s)) \/
   (x = CannotDefineResource /\ td_res td = true) \/
   (x = ExportConflict /\ In nm (map fst (exports s))) \/
   (x = InvalidExternName /\ u_import_name_ok u nm = false)).
Proof. exact define_type_errors. Qed.
Print Assumptions documented_errors_define_type.

Theorem documented_errors_unexport : forall u s n x,
  snd (step u s (Unexport n)) = OErr x ->
  x = MustExportDefinition /\ exists nd, get_node s n = Some nd /\ nk nd = NDef.
Proof. intros u. exact unexport_errors. Qed.
Print Assumptions documented_errors_unexport.

Theorem documented_errors_alias : forall u s n e x,
  snd (step u s (Alias n e)) = OErr x ->
  exists nd, get_node s n = Some nd /\
  ((x = NodeIsNotAnInstance /\ u_inst_exports u (nitem nd) = None) \/
   (x = InstanceMissingExport /\ exists ex, u_inst_exports u (nitem nd) = Some ex /\ get_full ex e 0 = None)).
Proof. exact alias_errors. Qed.
Print Assumptions documented_errors_alias.

Theorem documented_errors_set_arg : forall u s inst a arg x,
  snd (step u s (SetArg inst a arg)) = OErr x ->
  exists nd, get_node s inst = Some nd /\
  ((x = NodeIsNotAnInstantiation /\ forall sat, nk nd <> NInst sat) \/
   exists imps, inst_imports u s nd = Some imps /\
     ((x = InvalidArgumentName /\ get_full imps a 0 = None) \/
      exists index expected, get_full imps a 0 = Some (index, expected) /\
        ((x = ArgumentAlreadyPassed /\
          exists e, In e (edges s) /\ etgt e = inst /\ ek e = EArg index /\ esrc e <> arg) \/
         (x = ArgumentTypeMismatch /\ exists an, get_node s arg = Some an /\ u_sub u (nitem an) expected = false)))).
Proof. exact set_arg_errors. Qed.
Print Assumptions documented_errors_set_arg.

Theorem import_exists_iff : forall u s nm k n,
  k < length (u_lkinds u) ->
  (snd (step u s (Import nm k)) = OErr (ImportAlreadyExists n) <-> alist_get N.eqb (imports s) nm = Some n).
Proof. exact import_exists_iff. Qed.
Print Assumptions import_exists_iff.

Theorem unexport_def_iff : forall u s n,
  snd (step u s (Unexport n)) = OErr MustExportDefinition <-> exists nd, get_node s n = Some nd /\ nk nd = NDef.
Proof. intros u. exact unexport_def_iff. Qed.
Print Assumptions unexport_def_iff.

Theorem define_type_defined_iff : forall u s nm t,
  t < length (u_tys u) ->
  (snd (step u s (DefineType nm t)) = OErr TypeAlreadyDefined <-> exists n, In (t, n) (defined s)).
Proof. exact define_type_defined_iff. Qed.
Print Assumptions define_type_defined_iff.

Theorem infallible_ops : forall u s o x,
  snd (step u s o) = OErr x ->
  match o with
  | Unregister _ | Instantiate _ | SetName _ _ | RemoveNode _ => False
  | _ => True
  end.
Proof. exact infallible_ops. Qed.
Print Assumptions infallible_ops.

(** 6. Alias nodes ([AliasInv], [proofs/GraphAlias.v]): every alias edge runs from a live node whose
       kind has instance exports to a live alias node of the same package, its index selects an export
       whose kind is the one recorded in the alias node; every alias node has such an edge. It holds
       after every history, so the alias-source query answers for exactly the alias nodes. *)
Theorem step_alias_inv : forall u s o, Inv u s -> AliasInv u s -> AliasInv u (fst (step u s o)).
Proof. exact step_alias_inv. Qed.
Print Assumptions step_alias_inv.

Theorem reach_alias_inv : forall u ops, AliasInv u (run u ops).
Proof. exact reach_alias_inv. Qed.
Print Assumptions reach_alias_inv.

Theorem alias_source_reflects : forall u s n,
  Inv u s -> AliasInv u s ->
  match get_node s n with
  | Some nd =>
      match nk nd with
      | NAlias => exists src i nm, get_alias_source u s n = Some (src, nm) /\ live s src = true /\
                                   In {| esrc := src; etgt := n; ek := EAlias i |} (edges s)
      | _ => get_alias_source u s n = None
      end
  | None => get_alias_source u s n = None
  end.
Proof. exact alias_source_reflects. Qed.
Print Assumptions alias_source_reflects.

(** 7. Queries: the node list is the set of live slots; the satisfied set of an instantiation is the set
       of indexes on its incoming argument edges; the export map and the export names of the nodes agree;
       arguments and imports are listed from the surviving edges and nodes. *)
Theorem node_ids_live : forall s n, In n (node_ids s) <-> live s n = true.
Proof. exact node_ids_live. Qed.
Print Assumptions node_ids_live.

Theorem sat_iff_edge : forall u s n nd sat,
  Inv u s -> get_node s n = Some nd -> nk nd = NInst sat ->
  forall i, In i sat <-> exists e, In e (edges s) /\ etgt e = n /\ ek e = EArg i.
Proof. exact sat_iff_edge. Qed.
Print Assumptions sat_iff_edge.

Theorem exports_reflect : forall u s,
  Inv u s ->
  (forall nm n, alist_get N.eqb (exports s) nm = Some n -> live s n = true) /\
  (forall n nd nm, get_node s n = Some nd -> nexport nd = Some nm -> alist_get N.eqb (exports s) nm = Some n).
Proof. exact exports_reflect. Qed.
Print Assumptions exports_reflect.

(** a type definition is exported under exactly ONE name, the one its node records (and is encoded with):
    [export(definition, other_name)] renames the definition. History invariant [DefExp] ([proofs/GraphDefExport.v]):
    preserved by every operation, hence after every history the entries of the export map that designate a
    definition are exactly its export name. (Any other node may be exported under several names.) *)
Theorem step_def_exp : forall u s o, Inv u s -> DefExp s -> DefExp (fst (step u s o)).
Proof. exact step_def_exp. Qed.
Print Assumptions step_def_exp.

Theorem definition_export_exact : forall u ops nm n nd,
  get_node (run u ops) n = Some nd -> nk nd = NDef ->
  (In (nm, n) (exports (run u ops)) <-> nexport nd = Some nm).
Proof. exact definition_export_exact. Qed.
Print Assumptions definition_export_exact.

(** what [export] does to the export map: the new entry is appended; the previous name of a DEFINITION leaves
    the map ([shift_remove]: the order of the other entries is kept), nothing else changes *)
Theorem export_map_after : forall u s n e nd,
  Inv u s -> get_node s n = Some nd -> snd (step u s (Export n e)) = OUnit ->
  exports (fst (step u s (Export n e))) =
    match nk nd, nexport nd with
    | NDef, Some previous => filter (fun p => negb (N.eqb (fst p) previous)) (exports s)
    | _, _ => exports s
    end ++ [(e, n)].
Proof. exact export_map_after. Qed.
Print Assumptions export_map_after.

(** the arguments of [n]: one per incoming argument edge, the source is live and the index satisfied *)
Theorem get_args_spec : forall u s n nm src,
  Inv u s ->
  (In (nm, src) (get_args u s n) <->
   exists nd sat imps e i k,
     get_node s n = Some nd /\ nk nd = NInst sat /\ inst_imports u s nd = Some imps /\
     In e (edges s) /\ etgt e = n /\ esrc e = src /\ ek e = EArg i /\ nth_error imps i = Some (nm, k) /\
     In i sat /\ live s src = true).
Proof. exact get_args_spec. Qed.
Print Assumptions get_args_spec.

(** [imports()]: the explicit imports are the import nodes; an argument of an instantiation is listed as
    an implicit import exactly when no argument edge supplies it *)
Theorem list_imports_explicit : forall u s nm k n,
  In (nm, k, Some n) (list_imports u s) <-> exists nd, get_node s n = Some nd /\ nk nd = NImport nm /\ nitem nd = k.
Proof. exact list_imports_explicit. Qed.
Print Assumptions list_imports_explicit.

Theorem list_imports_implicit : forall u s nm k,
  Inv u s ->
  (In (nm, k, None) (list_imports u s) <->
   exists n nd sat imps i,
     get_node s n = Some nd /\ nk nd = NInst sat /\ inst_imports u s nd = Some imps /\
     nth_error imps i = Some (nm, k) /\ ~ exists e, In e (edges s) /\ etgt e = n /\ ek e = EArg i).
Proof. exact list_imports_implicit. Qed.
Print Assumptions list_imports_implicit.

(** 8. Exactly the node and its alias/dependency descendants disappear ([reach s n m]: a path of alias
       and dependency edges of [s] from [n] to [m]), and nothing else changes ([Frame s s'],
       [proofs/GraphFrame.v]: surviving nodes keep package, kind, name and export name, an instantiation
       may only lose satisfied indexes; [edges], [exports], [imports], [defined] keep exactly the entries
       whose nodes survive; the package table is untouched). Likewise for [unregister]. *)
Theorem remove_exact : forall u s n s',
  Inv u s -> remove_node s n = (s', OUnit) ->
  forall m, live s' m = true <-> (live s m = true /\ ~ reach s n m).
Proof. exact remove_exact. Qed.
Print Assumptions remove_exact.

Theorem remove_frame : forall u s n s', Inv u s -> remove_node s n = (s', OUnit) -> Frame s s'.
Proof. exact remove_frame. Qed.
Print Assumptions remove_frame.

Theorem unregister_frame : forall s id s',
  unregister s id = (s', OUnit) ->
  (forall m, live s' m = true <-> live s m = true /\ node_pkg_is s id m = false) /\
  (forall m, live s' m = true -> orel nrel5 (get_node s m) (get_node s' m)) /\
  (forall e, In e (edges s') <-> In e (edges s) /\ node_pkg_is s id (esrc e) = false /\ node_pkg_is s id (etgt e) = false) /\
  (forall x, In x (exports s') <-> In x (exports s) /\ node_pkg_is s id (snd x) = false) /\
  (forall x, In x (imports s') <-> In x (imports s) /\ node_pkg_is s id (snd x) = false) /\
  (forall x, In x (defined s') <-> In x (defined s) /\ node_pkg_is s id (snd x) = false) /\
  (forall id', fst id' <> fst id -> get_pkg s' id' = get_pkg s id').
Proof. exact unregister_frame. Qed.
Print Assumptions unregister_frame.

(** Non-vacuity: a concrete universe (literal tables) and a history that exercises slot reuse, the
    "set argument, remove its source, set it again" interleaving, a base type defined after its
    dependant, unregistration, and the documented panic on a dead package identifier. *)
Definition ex_u : universe := {|
  u_inst_exports := fun k => if N.eqb k 10 then Some [(1%N, 20%N)] else if N.eqb k 11 then Some [] else None;
  u_pkgs := [ {| pd_inst := 10%N; pd_imports := [] |}; {| pd_inst := 11%N; pd_imports := [(2%N, 20%N)] |} ];
  u_tys := [ {| td_res := false; td_kind := 30%N; td_deps := [] |};
             {| td_res := false; td_kind := 31%N; td_deps := [0; 1] |} ];
  u_lkinds := [20%N];
  u_sub := N.eqb;
  u_import_name_ok := fun _ => true;
  u_export_name_ok := fun _ => true |}.

Fixpoint trace (u : universe) (s : gstate) (ops : list op) : list outcome :=
  match ops with
  | [] => []
  | o :: r => snd (step u s o) :: trace u (fst (step u s o)) r
  end.

Definition ex_ops : list op :=
  [Register 0; Register 1; Instantiate (0,0); Instantiate (1,0); Alias 0 1%N; SetArg 1 2%N 2; Export 2 5%N;
   DefineType 6%N 1; DefineType 7%N 0; RemoveNode 0; Instantiate (0,0); Alias 0 1%N; SetArg 1 2%N 2;
   RemoveNode 4; Unregister (1,0); Instantiate (1,0)].

Definition sat_of (s : gstate) (n : nat) : option (list nat) :=
  match get_node s n with Some nd => match nk nd with NInst sat => Some sat | _ => None end | None => None end.

Example history_nonvacuous :
  trace ex_u empty_graph ex_ops =
    [OPkg (0, 0); OPkg (1, 0); ONode 0; ONode 1; ONode 2; OUnit; OUnit; ONode 3; ONode 4; OUnit;
     ONode 0; ONode 2; OUnit; OUnit; OUnit; OPanic PInvalidPackageId] /\
  (* before / after [RemoveNode 0]: the argument of node 1 is satisfied, then unsatisfied again *)
  sat_of (run ex_u (firstn 9 ex_ops)) 1 = Some [0] /\
  edges (run ex_u (firstn 9 ex_ops)) =
    [{| esrc := 4; etgt := 3; ek := EDep |}; {| esrc := 2; etgt := 1; ek := EArg 0 |};
     {| esrc := 0; etgt := 2; ek := EAlias 0 |}] /\
  sat_of (run ex_u (firstn 10 ex_ops)) 1 = Some [] /\
  exports (run ex_u (firstn 10 ex_ops)) = [(7%N, 4); (6%N, 3)] /\
  free_nodes (run ex_u (firstn 10 ex_ops)) = [0; 2] /\
  (* the end: one instantiation and its alias survive *)
  node_ids (run ex_u ex_ops) = [0; 2] /\ defined (run ex_u ex_ops) = [] /\
  get_pkg (run ex_u ex_ops) (1, 0) = None.
Proof. vm_compute. repeat split. Qed.

Example universe_nonvacuous : UniverseWF ex_u.
Proof.
  intros t td d H Hin _. destruct t as [|[|t]]; cbn in H.
  - injection H as <-. destruct Hin.
  - injection H as <-. cbn in Hin. destruct Hin as [<-|[<-|[]]]; auto.
  - destruct t; discriminate.
Qed.

(** not yet proved (see DESIGN.md C06): [still_encodes] (the link to C02/C14 - the encoder is not
    modelled here), and the converse direction of the remaining error preconditions (proved: the two
    name clashes, [TypeAlreadyDefined], [MustExportDefinition]). *)
