(** Property C06 — statements only. (placeholder until the invariant proofs land) *)
From WacV Require Import Graph.
Theorem empty_graph_has_no_nodes : node_ids empty_graph = nil.
Proof. reflexivity. Qed.
Print Assumptions empty_graph_has_no_nodes.
