(** Property C10 — plugging satisfies every matchable socket import and re-exports the socket.
    Statements only; proofs are in proofs/PlugProofs.v (general) and proofs/PlugWitness.v (witnesses).

    Model: model/Plug.v ([plug pu s plugs socket], the control flow of crates/wac-graph/src/plug.rs over
    the graph operations of model/Graph.v).  Specification: spec/PlugSpec.v, the property's sentence
    read IMPORT-first ([offer], [suppliers], [spec_plug]; [supplied_by], [stays_import], [reexported],
    [not_instantiated] say what the result graph's queries must answer).

    plug.rs works EXPORT-first (for every plug export: the import of exactly that name, else the first
    semver-compatible import; then one pair per socket import, exact name preferred -- repair 7db12e7).
    The two readings agree under ONE hypothesis, and only under it:

      [socket_tracks_distinct]  the socket imports no two names on one semver track.

    Before repair 7db12e7 a second hypothesis was needed (no plug exports two names on one track): a
    single plug exporting a:b/c@0.2.0 and a:b/c@0.2.1 into a socket importing a:b/c@0.2.0 collided with
    itself (ArgumentAlreadyPassed).  With the per-import dedupe modelled in [plug_pairs] the theorems no
    longer need it; [pre_repair_pairs_collided] records the historical witness.

    FINDINGS (each [_refuted] theorem is a concrete case, replayed on the real [wac_graph::plug] by the
    correspondence, corpus/C10/cases.txt):
      - socket imports a:b/c@0.2.0 and a:b/c@0.2.1, the plug exports only a:b/c@0.2.1: the import
        a:b/c@0.2.0 stays unsatisfied although the plug exports a compatible item under a
        semver-compatible name ([plug_supplies_spec_socket_tracks_refuted]);
      - socket imports a:b/c@0.2.0 (incompatible type) and a:b/c@0.2.1 (compatible), the plug exports
        a:b/c@0.2.0: the exact-name import shadows the compatible neighbour, "no plugging happened"
        ([no_plug_iff_socket_tracks_refuted]);
      - two plugs each exporting exactly one of the socket's two same-track imports: wired by exact
        name although, read import-first, both plugs offer an item for each import
        ([ambiguous_plugs_fail_socket_tracks_refuted]; a divergence of the per-plug reading only).

    The remaining hypotheses are not about the readings: [plug_case] says the graph is blank (nothing
    built yet; packages registered), the package ids resolve, and the IndexMap key lists have no
    duplicates / the socket's export names are valid extern names (facts of the per-case universe,
    which is computed by the real implementation and validated by the correspondence). *)
From Coq Require Import List Arith NArith.
From WacV Require Import Str Names Graph Plug PlugSpec PlugProofs PlugWitness.
Import ListNotations.
Local Open Scope nat_scope.

Section C10.
  Variable pu : puniverse.
  Variable s : gstate.
  Variable plugs : list pkgid.
  Variable socket : pkgid.
  Variables imps sx : list item.
  Variable pls : list (list item).
  Let sup := suppliers (pu_name_text pu) (u_sub pu) pls.
  Let res := plug pu s plugs socket.

  (** 1. After a successful plug every socket import with a supplier is an argument of the socket
         instantiation, supplied by the alias of that plug's export; every other socket import is
         still an import of the result (and success means no import has two suppliers).

      Full strength (without the track hypothesis) is FALSE: see the refutations below. *)
  Theorem plug_supplies_spec :
    plug_case pu s plugs socket imps sx pls -> socket_tracks_distinct pu imps ->
    snd res = POk -> forall m t, In (m, t) imps ->
      match sup (m, t) with
      | [] => stays_import pu (fst res) 0 m t
      | [(k, e)] => exists p, nth_error plugs k = Some p /\ supplied_by pu (fst res) 0 m p e
      | _ => False
      end.
  Proof. intros C H1. exact (supplies_spec pu s plugs socket imps sx pls C H1). Qed.

  (** 2. every socket export is exported under its own name *)
  Theorem plug_reexports_socket :
    plug_case pu s plugs socket imps sx pls -> socket_tracks_distinct pu imps ->
    snd res = POk -> forall x k, In (x, k) sx -> reexported pu (fst res) 0 x.
  Proof. intros C H1. exact (reexports_socket pu s plugs socket imps sx pls C H1). Qed.

  (** 3. a plug that supplies nothing is not instantiated (no node of the result belongs to it) *)
  Theorem idle_plug_not_instantiated :
    plug_case pu s plugs socket imps sx pls -> socket_tracks_distinct pu imps ->
    snd res = POk -> forall p, p <> socket ->
      (forall k, nth_error plugs k = Some p -> forall i, In i imps -> forall e, ~ In (k, e) (sup i)) ->
      not_instantiated (fst res) p.
  Proof. intros C H1. exact (idle_not_instantiated pu s plugs socket imps sx pls C H1). Qed.

  (** 4. "no plugging happened" exactly when no socket import could be supplied *)
  Theorem no_plug_iff :
    plug_case pu s plugs socket imps sx pls -> socket_tracks_distinct pu imps ->
    (snd res = PNoPlugHappened <-> forall i, In i imps -> sup i = []).
  Proof. intros C H1. exact (no_plug_iff_ pu s plugs socket imps sx pls C H1). Qed.

  (** 5. two plugs offering for one import: the operation fails (ArgumentAlreadyPassed) ... *)
  Theorem ambiguous_plugs_fail :
    plug_case pu s plugs socket imps sx pls -> socket_tracks_distinct pu imps ->
    (exists i, In i imps /\ 2 <= length (sup i)) -> snd res = PGraphError ArgumentAlreadyPassed.
  Proof. intros C H1. exact (ambiguous_fail pu s plugs socket imps sx pls C H1). Qed.

  (** ... and that is the only way it fails; in particular it never panics *)
  Theorem plug_fails_only_when_ambiguous :
    plug_case pu s plugs socket imps sx pls -> socket_tracks_distinct pu imps ->
    forall e, snd res = PGraphError e -> e = ArgumentAlreadyPassed /\ exists i, In i imps /\ 2 <= length (sup i).
  Proof. intros C H1. exact (fails_only_if_ambiguous pu s plugs socket imps sx pls C H1). Qed.

  Theorem plug_never_panics :
    plug_case pu s plugs socket imps sx pls -> socket_tracks_distinct pu imps ->
    forall p, snd res <> PPanic p.
  Proof. intros C H1. exact (never_panics pu s plugs socket imps sx pls C H1). Qed.

  (** 6. the outcome class is the verdict of the executable specification (the one the driver prints
         and the check evaluates on the implementation's observation) *)
  Theorem plug_agrees_with_spec_verdict :
    plug_case pu s plugs socket imps sx pls -> socket_tracks_distinct pu imps ->
    match spec_plug (pu_name_text pu) (u_sub pu) imps pls with
    | VFail => snd res = PGraphError ArgumentAlreadyPassed
    | VNoPlug => snd res = PNoPlugHappened
    | VOk _ => snd res = POk
    end.
  Proof. intros C H1. exact (agrees_with_spec_verdict pu s plugs socket imps sx pls C H1). Qed.
End C10.
Print Assumptions plug_supplies_spec.
Print Assumptions plug_reexports_socket.
Print Assumptions idle_plug_not_instantiated.
Print Assumptions no_plug_iff.
Print Assumptions ambiguous_plugs_fail.
Print Assumptions plug_fails_only_when_ambiguous.
Print Assumptions plug_never_panics.
Print Assumptions plug_agrees_with_spec_verdict.

(** 7. The matching logic by itself: under the socket hypothesis the pair that the (repaired) loop
       keeps for a socket import is exactly the import-first offer; no hypothesis on the plug. *)
Theorem kept_pair_is_the_offer : forall text sub imps exps e m t,
  NoDup (map fst imps) -> tracks_distinct text (map fst imps) -> In (m, t) imps ->
  (In (e, m) (plug_pairs text sub imps exps) <-> offer text sub exps (m, t) = Some e).
Proof. exact pair_iff_offer. Qed.
Print Assumptions kept_pair_is_the_offer.

(** one pair per socket import: a plug never collides with itself *)
Theorem kept_pairs_have_distinct_targets : forall text sub imps exps,
  NoDup (map snd (plug_pairs text sub imps exps)).
Proof. intros. exact (proj1 (unique_pairs_spec _)). Qed.
Print Assumptions kept_pairs_have_distinct_targets.

(** 8. Without [socket_tracks_distinct] clause 1 is false: a successful plug after which an import
       that has exactly one supplier is not an argument of the socket. *)
Theorem plug_supplies_spec_socket_tracks_refuted :
  exists pu s plugs socket imps sx pls,
    plug_case pu s plugs socket imps sx pls /\
    snd (plug pu s plugs socket) = POk /\
    exists m t k e, In (m, t) imps /\ suppliers (pu_name_text pu) (u_sub pu) pls (m, t) = [(k, e)] /\
                    forall a, ~ In (m, a) (get_args pu (fst (plug pu s plugs socket)) 0).
Proof.
  exists w1, (w_state w1), [w_p1], w_socket, [(0%N, 0%N); (1%N, 0%N)], [(2%N, 0%N)], [[(1%N, 0%N)]].
  split; [exact w1_case|]. destruct w1_diverges as (A & B & C). split; [exact A|].
  exists 0%N, 0%N, 0, 1%N. split; [left; reflexivity|]. split; [exact B|exact C].
Qed.
Print Assumptions plug_supplies_spec_socket_tracks_refuted.

(** Without it clause 4 is false as well: an exact-name import of incompatible type shadows the
    compatible import on the same track; "no plugging happened" although an import has a supplier. *)
Theorem no_plug_iff_socket_tracks_refuted :
  exists pu s plugs socket imps sx pls,
    plug_case pu s plugs socket imps sx pls /\
    snd (plug pu s plugs socket) = PNoPlugHappened /\
    exists i, In i imps /\ suppliers (pu_name_text pu) (u_sub pu) pls i <> [].
Proof.
  exists w2, (w_state w2), [w_p1], w_socket, [(0%N, 1%N); (1%N, 0%N)], [(2%N, 0%N)], [[(0%N, 0%N)]].
  split; [exact w2_case|]. destruct w2_diverges as (A & B). split; [exact A|].
  exists (1%N, 0%N). split; [right; left; reflexivity|]. rewrite B. discriminate.
Qed.
Print Assumptions no_plug_iff_socket_tracks_refuted.

(** ... and clause 5: both plugs offer for each import (read per plug), yet the plug succeeds. *)
Theorem ambiguous_plugs_fail_socket_tracks_refuted :
  exists pu s plugs socket imps sx pls,
    plug_case pu s plugs socket imps sx pls /\
    (exists i, In i imps /\ 2 <= length (suppliers (pu_name_text pu) (u_sub pu) pls i)) /\
    snd (plug pu s plugs socket) = POk.
Proof.
  exists w4, (w_state w4), [w_p1; w_p2], w_socket, [(0%N, 0%N); (1%N, 0%N)], [(2%N, 0%N)], [[(0%N, 0%N)]; [(1%N, 0%N)]].
  split; [exact w4_case|]. destruct w4_diverges as (A & B). split; [|exact A].
  exists (0%N, 0%N). split; [left; reflexivity|]. rewrite B. apply le_n.
Qed.
Print Assumptions ambiguous_plugs_fail_socket_tracks_refuted.

(** 9. HISTORICAL (the algorithm before repair 7db12e7, i.e. wiring the raw pairs): one plug exporting
       two versions of one interface produced two pairs for the one socket import -- the second
       [set_instantiation_argument] failed with ArgumentAlreadyPassed although only one plug offers.
       The repaired loop keeps the exact-name pair and the very same case now succeeds, in agreement
       with the import-first reading (one supplier).  Regression: corpus case `C 2 5`. *)
Example pre_repair_pairs_collided :
  plug_case w3 (w_state w3) [w_p1] w_socket [(0%N, 0%N)] [(2%N, 0%N)] [[(0%N, 0%N); (1%N, 0%N)]] /\
  plug_matches (pu_name_text w3) (u_sub w3) [(0%N, 0%N)] [(0%N, 0%N); (1%N, 0%N)] = [(0%N, 0%N); (1%N, 0%N)] /\
  plug_pairs (pu_name_text w3) (u_sub w3) [(0%N, 0%N)] [(0%N, 0%N); (1%N, 0%N)] = [(0%N, 0%N)] /\
  snd (plug w3 (w_state w3) [w_p1] w_socket) = POk /\
  suppliers (pu_name_text w3) (u_sub w3) [[(0%N, 0%N); (1%N, 0%N)]] (0%N, 0%N) = [(0, 0%N)].
Proof.
  split; [exact w3_case|]. destruct w3_raw_pairs_collide as (A & B). destruct w3_repaired as (C & D). auto.
Qed.

(** Non-vacuity: a case satisfying every hypothesis in which the plug succeeds through the semver
    fallback and a second, idle plug is present. *)
Example c10_nonvacuous :
  plug_case w0 (w_state w0) [w_p1; w_p2] w_socket [(0%N, 0%N)] [(2%N, 0%N)] [[(1%N, 0%N)]; []] /\
  socket_tracks_distinct w0 [(0%N, 0%N)] /\
  snd (plug w0 (w_state w0) [w_p1; w_p2] w_socket) = POk /\
  suppliers (pu_name_text w0) (u_sub w0) [[(1%N, 0%N)]; []] (0%N, 0%N) = [(0, 1%N)].
Proof.
  split; [exact w0_case|]. split; [exact w0_socket_tracks|]. exact w0_ok.
Qed.
