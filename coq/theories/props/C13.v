(** Property C13: printing a parsed document and re-parsing it gives the same document; formatting is
    idempotent. Statements only; proofs live in [proofs/Printer*.v].

    Vocabulary ([spec/PrintSpec.v], [model/Printer.v]):
    - [print_pieces fx src d] / [print fx src d]: the model of [DocumentPrinter::document], as pieces
      (tokens, blanks, doc lines) / as text; [None] is the panic of a [source(span)] slice.
      [fx = repaired]: the printer with the three repairs of hooks/fix-c13-*.patch; [unrepaired]:
      the printer as it was.
    - [sn d]: [d] with every source position removed and every list of doc comments replaced by its
      non-empty trimmed lines ("identical up to source positions and doc-comment line splitting").
    - [items_of_pieces ps]: the token stream (kinds, texts, byte spans, doc comments) the pieces
      denote; [render_lex] is the statement that the lexer returns exactly it for [text_of ps].
    - [wf_document src d]: the leaves of [d] are what [src] has at their spans, and the lists the
      parser never leaves empty are not empty (what [Document::parse] guarantees of its own result). *)
From WacV Require Import Str Token Lexer LexTables LexImpl Semver Ast Parser Grammar ParserProofs.
From WacV Require Import Printer PrintSpec PrinterText PrinterProofs PrinterWf PrinterLex PrinterAll PrinterWitness.
From WacV Require Import PrinterScreen PrinterScan PrinterAdj PrinterRelex PrinterFull PrinterColon.

(* ------------------------------------------------------------------ what the parser guarantees *)

(** [parse_wf]: the tree [Document::parse] (model) returns is well-formed with respect to its source:
    every identifier, string, package name and package path is the text at its span (so that the
    printer's [source(span)] copies are these texts), and no variant/record/flags/enum/tuple is empty. *)
Theorem parse_wf src d r : parse_document impl_flags impl_cfg src = POk d r -> wf_document src d.
Proof. exact (parse_wf_impl src d r). Qed.
Print Assumptions parse_wf.

(** [print_no_panic]: the (repaired) printer does not panic on a parsed document (every
    [source(span)] slice is inside the text and on character boundaries). *)
Theorem print_no_panic src d r :
  parse_document impl_flags impl_cfg src = POk d r -> exists ps, print_pieces repaired src d = Some ps.
Proof. intros H. apply print_no_panic_wf. exact (parse_wf_impl src d r H). Qed.
Print Assumptions print_no_panic.

(* ------------------------------------------------------------------ token level *)

(** [print_tokens_roundtrip] (all node classes: value types, function types, type declarations,
    resources, interfaces, worlds, expressions with all four argument forms, statements, package
    directive with target, documents). For every document the parser accepts, the printer writes
    pieces [ps] whose token stream is parsed by the C12 parser model (any environment with the
    implementation's flags and fuel above the number of tokens) to a tree [d'] with [sn d' = sn d];
    and ([print_idempotent], token level) printing [d'] out of the printed text gives the same
    pieces again. *)
Theorem print_tokens_roundtrip src d r :
  parse_document impl_flags impl_cfg src = POk d r ->
  exists ps, print_pieces repaired src d = Some ps /\
    forall e, dv e = impl_flags -> (length (items_of_pieces ps) < fuel e)%nat ->
    exists d', parse_document_items e (items_of_pieces ps) = POk d' [] /\ sn d' = sn d /\
               print_pieces repaired (text_of ps) d' = Some ps.
Proof.
  intros H. pose proof (parse_wf_impl src d r H) as Hwf. destruct (print_no_panic_wf src d Hwf) as (ps & Hp).
  exists ps. split; [exact Hp|]. intros e He Hf. exact (print_tokens_roundtrip_parser src d ps e Hwf Hp He Hf).
Qed.
Print Assumptions print_tokens_roundtrip.

(** The same against the grammar of spec/Grammar.v: the printed tokens derive [d']. *)
Theorem print_tokens_derivable src d r :
  parse_document impl_flags impl_cfg src = POk d r ->
  exists ps d', print_pieces repaired src d = Some ps /\
                g_document impl_flags (items_of_pieces ps) [] d' /\ sn d' = sn d /\
                print_pieces repaired (text_of ps) d' = Some ps.
Proof.
  intros H. pose proof (parse_wf_impl src d r H) as Hwf. destruct (print_no_panic_wf src d Hwf) as (ps & Hp).
  destruct (print_tokens_roundtrip_derivation src d ps Hwf Hp) as (d' & H1 & H2 & H3). eauto 6.
Qed.
Print Assumptions print_tokens_derivable.

(* ------------------------------------------------------------------ lexing the printed text *)

(** [print_screen]: the printed text contains no forbidden code point (it consists of ASCII literals,
    blanks, line feeds, slices of the screened source, and doc-comment lines whose characters are
    source characters). *)
Theorem print_screen src d r ps :
  parse_document impl_flags impl_cfg src = POk d r -> print_pieces repaired src d = Some ps ->
  screen impl_cfg (text_of ps) = None.
Proof. exact (PrinterScreen.print_screen src d r ps). Qed.
Print Assumptions print_screen.

(** [render_lex]: for every parsed [d] with printed pieces [ps], the lexer returns for the printed
    text exactly the tokens the printer meant -- kinds, texts, byte spans and attached doc comments as
    [items_of_pieces] computes them: the printer always separates two tokens that could fuse.
    Ingredients (all proved): the layout half (blanks, line feeds, doc lines, doc-comment attachment,
    byte offsets, fuel: [PrinterLex]); screening ([print_screen]); every keyword / identifier / package
    copy is followed by a blank, a line feed or a punctuation character that cannot continue it
    ([PrinterAdj.adj_document], for ALL trees); every source-copied text, having been cut by
    [scan_token] out of the source ([PrinterLexFacts.lex_facts]), is cut again with the same kind when
    such a character follows ([PrinterScan.rescan_ident / rescan_string / rescan_pkg]: [%]-escapes,
    versions with pre-release/build parts, dangling-dash identifiers, a following [: ]); the printer's
    literals ([rescan_kw / rescan_sym]); and the lexer's keyword-before-colon artefact
    ([record: func()]): an identifier token spelled like a keyword is always directly followed by a
    colon token ([PrinterColon.lex_inv]), therefore sits in every derivation where the grammar has
    [id ':'], where the printer writes the colon directly after the copy ([PrinterColon.parsed_kwcb]). *)
Theorem render_lex src d r ps :
  parse_document impl_flags impl_cfg src = POk d r -> print_pieces repaired src d = Some ps ->
  lex impl_cfg (text_of ps) = items_of_pieces ps.
Proof.
  intros H Hp. apply (render_lex_full src d r ps H Hp). exact (parsed_kwcb src d r ps H Hp).
Qed.
Print Assumptions render_lex.

(* ------------------------------------------------------------------ text level *)

(** [print_roundtrip] = [print_parse_text] + [print_idempotent] at text level, FULL strength: for
    every document the parser (model) accepts, the (repaired) printer's text is accepted by
    [Document::parse] (model) with a tree equal to the original up to source positions and
    doc-comment line splitting, and printing that tree out of the printed text reproduces the text
    byte for byte. *)
Theorem print_roundtrip src d r :
  parse_document impl_flags impl_cfg src = POk d r ->
  RoundTrip repaired src d /\ Idempotent repaired src d.
Proof.
  intros H. destruct (print_no_panic_wf src d (parse_wf_impl src d r H)) as (ps & Hp).
  apply (print_roundtrip_full src d r ps H Hp). exact (parsed_kwcb src d r ps H Hp).
Qed.
Print Assumptions print_roundtrip.

(** [nothing_dropped]: what [sn]-equality says construct by construct -- the package directive keeps
    its target and its version, the statements are as many and of the same normal form. *)
Theorem nothing_dropped d d' :
  sn d' = sn d ->
  option_map sn_package_path (pd_targets (doc_directive d')) = option_map sn_package_path (pd_targets (doc_directive d)) /\
  pn_version (pd_package (doc_directive d')) = pn_version (pd_package (doc_directive d)) /\
  pn_string (pd_package (doc_directive d')) = pn_string (pd_package (doc_directive d)) /\
  map sn_statement (doc_statements d') = map sn_statement (doc_statements d) /\
  doc_norm (doc_docs d') = doc_norm (doc_docs d).
Proof.
  intros H.
  pose proof (f_equal doc_docs H) as H1. pose proof (f_equal doc_directive H) as H2.
  pose proof (f_equal doc_statements H) as H3. cbn [sn doc_docs doc_directive doc_statements] in H1, H2, H3.
  pose proof (f_equal pd_package H2) as H4. pose proof (f_equal pd_targets H2) as H5.
  cbn [sn_directive pd_package pd_targets] in H4, H5.
  pose proof (f_equal pn_version H4) as H6. pose proof (f_equal pn_string H4) as H7.
  cbn [sn_package_name pn_version pn_string] in H6, H7.
  repeat split; try assumption.
  unfold sn_docs in H1. clear -H1. revert H1. generalize (doc_norm (doc_docs d)) as b. generalize (doc_norm (doc_docs d')) as a.
  induction a as [|x a IH]; intros [|y b] E; cbn in E; try discriminate E; [reflexivity|].
  injection E as E1 E2. f_equal; auto.
Qed.
Print Assumptions nothing_dropped.

(* ------------------------------------------------------------------ the unrepaired printer *)

(** The three defects (each replayed on the real code by the check; repairs: hooks/fix-c13-*.patch). *)

(** `package a:b targets c:d/e;` is printed without the keyword: the text does not parse. *)
Theorem print_targets_refuted :
  exists src d, parse_document impl_flags impl_cfg src = POk d [] /\ ~ RoundTrip unrepaired src d.
Proof. exists w_targets. exact targets_refuted. Qed.
Print Assumptions print_targets_refuted.

(** `new c:d { ..., a }`: the fill loses its comma and comes back as the spread `...a`. *)
Theorem print_fill_refuted :
  exists src d, parse_document impl_flags impl_cfg src = POk d [] /\ ~ RoundTrip unrepaired src d.
Proof. exists w_fill. exact fill_refuted. Qed.
Print Assumptions print_fill_refuted.

(** A block doc comment with an interior blank line: the second print drops a line. *)
Theorem print_idempotent_refuted :
  exists src d, parse_document impl_flags impl_cfg src = POk d [] /\ ~ Idempotent unrepaired src d.
Proof. exists w_doc_blank. exact doc_blank_refuted. Qed.
Print Assumptions print_idempotent_refuted.

(** Non-vacuity: a document with a target, versions, [%] escapes, string names, all four argument
    forms ([...] first and last), a static method, a constructor, a use rename and an include-with
    list satisfies both halves of the property under the repaired printer. *)
Example all_constructs :
  exists d, parse_document impl_flags impl_cfg w_all = POk d [] /\ RoundTrip repaired w_all d /\ Idempotent repaired w_all d.
Proof. exact all_constructs_roundtrip. Qed.
