(** Property C11 — a [targets] verdict means the output really conforms to the world.
    This file holds only statements; every proof is an application of lemmas of proofs/TargetsProofs.v.

    Models (model/Targets.v): [resolve_target] = [AstResolver::validate_target] (resolution.rs),
    [standalone_target] = [wac_types::validate_target] (targets.rs).  Specification (spec/TargetsSpec.v):
    [Conforms d w c] and the three failure classes, for a name-matching discipline [d] (Exact / Semver).
    [sub] is the subtype oracle (C07), [promote] is [ItemKind::promote]; both are arbitrary here.
    [wf_pair]: tables are consistent (one kind per name: unique [IndexMap] keys; an interface listed both
    explicitly and through [use] is the same interface). *)
From WacV Require Import Str Ord Semver Names NamesSpec Types SubSpec Targets TargetsSpec.
From WacV Require Import TargetsProofs TargetsChecker TargetsCheckerProofs Checker CheckerTheorems.

(** 1. The resolution-time verdict is the declarative conformance WITH EXACT NAMES, and each diagnostic
       is raised exactly when its failure class is the first failure in the order "imports of the
       composition, then exports of the world". *)
Theorem resolve_target_spec :
  forall K (promote : K -> K) (sub : K -> K -> bool) (w : tworld K) (c : comp K), wf_pair w c ->
    (resolve_target promote sub w c = ROk <-> Conforms promote sub Exact w c) /\
    (forall n, resolve_target promote sub w c = RErr (ImportNotInTarget n) <->
               diag_import_not_in_target promote sub Exact w c n) /\
    (forall n, resolve_target promote sub w c = RErr (TargetMismatch EImport n) <->
               diag_import_mismatch promote sub Exact w c n) /\
    (forall n, resolve_target promote sub w c = RErr (MissingTargetExport n) <->
               diag_missing_export promote sub Exact w c n) /\
    (forall n, resolve_target promote sub w c = RErr (TargetMismatch EExport n) <->
               diag_export_mismatch promote sub Exact w c n).
Proof.
  intros K promote sub w c WF. split; [|split; [|split; [|split]]].
  - exact (resolve_ok_iff K promote sub w c WF).
  - exact (resolve_import_not_in_target K promote sub w c WF).
  - exact (resolve_import_mismatch K promote sub w c WF).
  - exact (resolve_missing_export K promote sub w c WF).
  - exact (resolve_export_mismatch K promote sub w c WF).
Qed.
Print Assumptions resolve_target_spec.

(** 2. The stand-alone check never panics (its two [unwrap]s are safe), its report consists of exactly
       the three failure classes under the SEMVER discipline (identical name, else the highest version
       on the name's track), and it answers Ok exactly on semver-conformance. *)
Theorem standalone_never_panics :
  forall K (promote : K -> K) (sub : K -> K -> bool) (w : tworld K) (c : comp K),
    standalone_target promote sub w c <> SPanic.
Proof. exact standalone_never_panics. Qed.
Print Assumptions standalone_never_panics.

Theorem standalone_target_spec :
  forall K (promote : K -> K) (sub : K -> K -> bool) (w : tworld K) (c : comp K), wf_pair w c ->
    exists r, standalone_target promote sub w c = SReport r /\
      (forall n, In n (r_not_in_target r) <-> in_not_in_target Semver w c n) /\
      (forall n, In n (r_missing r) <-> in_missing Semver w c n) /\
      (forall n, In n (map fst (r_mismatched r)) <-> in_mismatched promote sub Semver w c n) /\
      (report_ok r = true <-> Conforms promote sub Semver w c).
Proof.
  intros K promote sub w c WF.
  destruct (standalone_report K promote sub w c WF) as [r [E [H1 [H2 H3]]]].
  pose proof (standalone_ok_iff K promote sub w c WF) as OK. unfold standalone_ok in OK. rewrite E in OK.
  exists r. auto.
Qed.
Print Assumptions standalone_target_spec.

(** 3. "The same verdict is reached by the stand-alone check": FALSE of the faithful models.
       Full statement:  forall w c, wf_pair w c -> agree (resolve_target w c) (standalone_target w c).
       Witness: the composition imports [x:y/z@0.2.0], the world imports [x:y/z@0.2.1] (same kind). *)
Theorem verdicts_agree_refuted :
  exists (w : tworld N) (c : comp N),
    wf_pair w c /\
    resolve_target (fun k => k) N.eqb w c <> ROk /\
    standalone_ok (fun k => k) N.eqb w c = true /\
    ~ agree (resolve_target (fun k => k) N.eqb w c) (standalone_target (fun k => k) N.eqb w c).
Proof.
  exists w_refute, c_refute. destruct refute_facts as [R S]. split; [exact refute_wf|].
  unfold standalone_ok. rewrite R, S. split; [discriminate|]. split; [reflexivity|]. cbn. tauto.
Qed.
Print Assumptions verdicts_agree_refuted.

(** ... and TRUE as soon as no two distinct names of the pair lie on one semver track. *)
Theorem verdicts_agree_when_exact_names :
  forall K (promote : K -> K) (sub : K -> K -> bool) (w : tworld K) (c : comp K),
    wf_pair w c -> exact_names w c ->
    agree (resolve_target promote sub w c) (standalone_target promote sub w c).
Proof. exact agree_when_exact. Qed.
Print Assumptions verdicts_agree_when_exact_names.

(** 3b. The resolution-time check as repaired by hooks/fix-c11-semver-targets.patch (model
        [resolve_target_sv]: the same semver-aware lookups as the stand-alone check): it never panics, it
        is the conformance under the SEMVER discipline with the diagnostics in scan order, and then the
        two verdicts agree on EVERY well-formed pair.  (./check selects the model variant that matches the
        source tree it is run against.) *)
Theorem resolve_target_sv_spec :
  forall K (promote : K -> K) (sub : K -> K -> bool) (w : tworld K) (c : comp K), wf_pair w c ->
    exists v, resolve_target_sv promote sub w c = Some v /\
      (v = ROk <-> Conforms promote sub Semver w c) /\
      (forall n, v = RErr (ImportNotInTarget n) <-> diag_import_not_in_target promote sub Semver w c n) /\
      (forall n, v = RErr (TargetMismatch EImport n) <-> diag_import_mismatch promote sub Semver w c n) /\
      (forall n, v = RErr (MissingTargetExport n) <-> diag_missing_export promote sub Semver w c n) /\
      (forall n, v = RErr (TargetMismatch EExport n) <-> diag_export_mismatch promote sub Semver w c n).
Proof. exact resolve_sv_spec. Qed.
Print Assumptions resolve_target_sv_spec.

Theorem verdicts_agree_after_repair :
  forall K (promote : K -> K) (sub : K -> K -> bool) (w : tworld K) (c : comp K), wf_pair w c ->
    exists v, resolve_target_sv promote sub w c = Some v /\ agree v (standalone_target promote sub w c).
Proof. exact agree_sv. Qed.
Print Assumptions verdicts_agree_after_repair.

(** 4. Component-model subtyping.  Full statement of the property: for resource-free worlds the verdict
       coincides with the reference validator's subtyping between the output's component type and the
       world's.  Proved here: for ANY oracle deciding the declarative component-model relation [SubCM]
       (SubSpec.v; C07 relates the checker to it on the resource-free fragment), and a world whose items
       are not affected by [promote] (no type-level func/interface/world items: WIT worlds have none),
       the resolution-time verdict is Ok iff the component type (imports, exports) of the composition is
       a [SubCM]-subtype of the component type (imports incl. used interfaces, exports) of the world.
       Missing for the full statement: that the encoded output has exactly this component type (C03).
       The oracle hypothesis and the promote-stability hypothesis are REMOVED in 4b below
       ([target_iff_cm_subtype], [target_iff_cm_subtype_exact_names]); this oracle form is kept because it
       holds for any decision procedure of [SubCM] and for the unrepaired exact-name check. *)
Theorem target_iff_cm_subtype_partial :
  forall (sub : tree -> tree -> bool), (forall a b, sub a b = true <-> SubCM a b) ->
  forall (w : tworld tree) (c : comp tree), promote_stable w ->
    (resolve_target tree_promote sub w c = ROk <-> SubCM (comp_tree c) (world_tree w)).
Proof. exact target_iff_cm_subtype. Qed.
Print Assumptions target_iff_cm_subtype_partial.

(** 4b. The same WITHOUT an oracle: kinds are [Types.kind] of one collection [t], [promote] is
        [ItemKind::promote] ([kind_promote]), the subtype test is the checker model of property C07
        ([chk F t a b] = one check on a fresh checker), and the world/composition are denoted by their trees
        ([den] = [unfold]).  For resource-free pairs the repaired (semver-aware) resolution verdict is Ok exactly
        when the composition's component type is a component-model subtype of the world's with names matched
        up to the semver discipline ([TargetSub Semver]: every import of the composition is provided by the
        consulted import of the world at a [SubCM]-subtype, every export of the world by the consulted export of
        the composition; world items are [promote]d, so no promote-stability hypothesis is left).
        Remaining hypotheses, all about the inputs: [wf_types t r] (well-formed acyclic collection, C07),
        [pages_ok t] (C07's scope for completeness: the known "memory-default-page-size" finding), [wf_pair]
        (one kind per name), [good_pair'] (no dangling identifier, fuel above the ranks: [fuel_suffices] shows
        that such fuel exists), [resfree_pair] (the property's resource-free fragment). *)
Theorem target_iff_cm_subtype :
  forall t r F, wf_types t r -> forall (w : tworld kind) (c : comp kind),
    pages_ok t -> wf_pair w c -> good_pair' t r F w c -> resfree_pair t F w c ->
    (resolve_target_sv kind_promote (chk F t) w c = Some ROk <->
     TargetSub Semver (comp_imports_tree t F c) (mapv (den t F) (c_exports c))
                      (mapv (den t F) (wtable w)) (mapv (den t F) (tw_exports w))).
Proof. exact target_iff_cm. Qed.
Print Assumptions target_iff_cm_subtype.

(** ... which, when no two distinct names of the pair share a semver track, is literally the component-model
    rule [SubCM (component type of the composition) (component type of the world)]. *)
Theorem target_iff_cm_subtype_exact_names :
  forall t r F, wf_types t r -> forall (w : tworld kind) (c : comp kind),
    pages_ok t -> wf_pair w c -> good_pair' t r F w c -> resfree_pair t F w c -> exact_names w c ->
    (resolve_target_sv kind_promote (chk F t) w c = Some ROk <->
     SubCM (XComp (comp_imports_tree t F c) (mapv (den t F) (c_exports c)))
           (XComp (mapv tree_promote (mapv (den t F) (wtable w))) (mapv tree_promote (mapv (den t F) (tw_exports w))))).
Proof. exact target_iff_SubCM_exact. Qed.
Print Assumptions target_iff_cm_subtype_exact_names.

(** On the current tree [pages_ok] holds for every collection (C07's generated flag [psl_default_normalised] is [true]
    since the repair 4ea555f), so the hypothesis disappears. *)
Theorem target_iff_cm_subtype_current :
  forall t r F, wf_types t r -> forall (w : tworld kind) (c : comp kind),
    wf_pair w c -> good_pair' t r F w c -> resfree_pair t F w c ->
    (resolve_target_sv kind_promote (chk F t) w c = Some ROk <->
     TargetSub Semver (comp_imports_tree t F c) (mapv (den t F) (c_exports c))
                      (mapv (den t F) (wtable w)) (mapv (den t F) (tw_exports w))).
Proof. intros t r F W w c. apply (target_iff_cm_subtype t r F W w c). left. reflexivity. Qed.
Print Assumptions target_iff_cm_subtype_current.

Theorem fuel_suffices :
  forall t r (w : tworld kind) (c : comp kind),
    (forall n k, In (n, k) (wtable w ++ tw_exports w ++ c_exports c) -> kind_ok t k) ->
    (forall i, In i (c_imports c) -> kind_ok t (ikind i)) ->
    exists F0, forall F, (F0 <= F)%nat -> good_pair' t r F w c.
Proof. exact good_pair_fuel. Qed.
Print Assumptions fuel_suffices.

(** 4c. Why one fresh check per query is the right oracle, and the panic sites.  [resolve_target_full] threads ONE
        checker through both loops as the code does (memo shared, [invert] before the imports loop, [revert]
        after it) and evaluates [state.import_spans[&n]] inside the error closures.  Under the resolver's
        bookkeeping invariant at this abstraction ([spans_cover]: every explicit import node listed by
        [CompositionGraph::imports()] has a span) it never panics -- neither at the span index sites, nor at
        [revert], nor at the [unwrap]s, nor inside the checker, nor by lack of fuel -- and returns the verdict of
        the abstract model run with the oracle [chk].  (That [spans_cover] holds needs the resolver model:
        imports are created only by [import_statement], which inserts the span; ./check ties this to the
        source text.) *)
Theorem resolve_target_full_never_panics :
  forall t r F, wf_types t r -> forall spans (w : tworld kind) (c : compn),
    wf_pair w (erase c) -> good_pair t r F w c -> spans_cover spans c ->
    exists v, resolve_target_sv kind_promote (chk F t) w (erase c) = Some v /\
              resolve_target_full F t spans w c = OVerdict v.
Proof. exact resolve_full_eq. Qed.
Print Assumptions resolve_target_full_never_panics.

(** 5. The executable specification printed by the driver: [conforms_b] decides the declarative conformance;
       [spec_first] raises each diagnostic exactly when its failure class is first; the set printers
       enumerate the three classes; and [spec_first] coincides with the models. *)
Theorem spec_first_characterised :
  forall K (promote : K -> K) (sub : K -> K -> bool) d (w : tworld K) (c : comp K), wf_pair w c ->
    (spec_first promote sub d w c = ROk <-> Conforms promote sub d w c) /\
    (forall n, spec_first promote sub d w c = RErr (ImportNotInTarget n) <-> diag_import_not_in_target promote sub d w c n) /\
    (forall n, spec_first promote sub d w c = RErr (TargetMismatch EImport n) <-> diag_import_mismatch promote sub d w c n) /\
    (forall n, spec_first promote sub d w c = RErr (MissingTargetExport n) <-> diag_missing_export promote sub d w c n) /\
    (forall n, spec_first promote sub d w c = RErr (TargetMismatch EExport n) <-> diag_export_mismatch promote sub d w c n).
Proof. exact spec_first_spec. Qed.
Print Assumptions spec_first_characterised.

Theorem spec_sets_characterised :
  forall K (promote : K -> K) (sub : K -> K -> bool) d (w : tworld K) (c : comp K), wf_pair w c ->
    (forall n, In n (spec_not_in_target promote sub d w c) <-> in_not_in_target d w c n) /\
    (forall n, In n (spec_missing promote sub d w c) <-> in_missing d w c n) /\
    (forall n, In n (spec_mismatched promote sub d w c) <-> in_mismatched promote sub d w c n).
Proof. exact spec_sets_spec. Qed.
Print Assumptions spec_sets_characterised.

Theorem spec_first_is_the_model :
  forall K (promote : K -> K) (sub : K -> K -> bool) (w : tworld K) (c : comp K), wf_pair w c ->
    spec_first promote sub Exact w c = resolve_target promote sub w c /\
    resolve_target_sv promote sub w c = Some (spec_first promote sub Semver w c).
Proof.
  intros K promote sub w c WF. split.
  - exact (spec_first_exact_is_model K promote sub w c WF).
  - exact (spec_first_semver_is_model K promote sub w c WF).
Qed.
Print Assumptions spec_first_is_the_model.

Theorem conforms_b_decides :
  forall K (promote : K -> K) (sub : K -> K -> bool) d (w : tworld K) (c : comp K),
    conforms_b promote sub d w c = true <-> Conforms promote sub d w c.
Proof. exact conforms_b_iff. Qed.
Print Assumptions conforms_b_decides.

(** Non-vacuity: a well-formed pair with a used interface, two versions of one interface on a track and
    a mismatching export; the hypotheses of the theorems above are met and the verdicts are as stated. *)
Definition n_f : str := [102].                                           (* f *)
Definition n_abt_010 : str := [97;58;98;47;116;64;48;46;49;46;48].       (* a:b/t@0.1.0 *)
Definition n_xyz_029 : str := [120;58;121;47;122;64;48;46;50;46;57].     (* x:y/z@0.2.9 *)
Definition w_demo : tworld N :=
  mktworld [(n_abt_010, 7)] [(n_abt_010, 7); (n_xyz_020, 1); (n_xyz_029, 2)] [(n_f, 3)].
Definition c_demo : comp N := mkcomp [(n_xyz_021, 2, false); (n_abt_010, 7, true)] [(n_f, 3)].
Definition c_demo_bad : comp N := mkcomp [(n_abt_010, 7, true)] [(n_f, 4)].
Example targets_nonvacuous :
  consistent_b N.eqb (wtable w_demo) = true /\ consistent_b N.eqb (c_exports c_demo) = true /\
  (* semver: x:y/z@0.2.1 is answered by the highest version on the track, 0.2.9 (kind 2) *)
  standalone_ok (fun k => k) N.eqb w_demo c_demo = true /\
  conforms_b (fun k => k) N.eqb Semver w_demo c_demo = true /\
  resolve_target (fun k => k) N.eqb w_demo c_demo = RErr (ImportNotInTarget n_xyz_021) /\
  resolve_target_sv (fun k => k) N.eqb w_demo c_demo = Some ROk /\
  exact_names_b w_demo c_demo = false /\
  (* exact names: both checks agree *)
  exact_names_b w_demo c_demo_bad = true /\
  resolve_target (fun k => k) N.eqb w_demo c_demo_bad = RErr (TargetMismatch EExport n_f) /\
  standalone_target (fun k => k) N.eqb w_demo c_demo_bad = SReport (mkreport [] [] [(n_f, EExport)]) /\
  conforms_b (fun k => k) N.eqb Exact w_demo c_demo_bad = false.
Proof. vm_compute. repeat split. Qed.

(** Non-vacuity of the oracle-free statements: one collection with an interface {f}, a world importing it as
    [x:y/z@0.2.1] and a composition importing [x:y/z@0.2.0] through an explicit import node that has a span.
    All hypotheses hold; the threaded model answers Ok; without the span it is the span-index panic. *)
Definition c11_t : types :=
  mktypes 1 [] [] [mkfunc [] None false] [mkif None [] [([102], KFunc (mkid 1 0))]] [] [].
Definition c11_rk : ranking := mkrank (fun _ => O) (fun _ => O) (fun _ => O) (fun _ => 1%nat) (fun _ => O).
Definition c11_w : tworld kind := mktworld [] [(n_xyz_021, KType (TInterface (mkid 1 0)))] [].
Definition c11_c : compn := mkcompn [(n_xyz_020, KInstance (mkid 1 0), Some 7%nat)] [].
Definition c11_bad : compn := mkcompn [(n_f, KFunc (mkid 1 0), Some 7%nat)] [].
Example c11_concrete_nonvacuous :
  wf_types c11_t c11_rk /\ pages_ok c11_t /\ wf_pair c11_w (erase c11_c) /\
  good_pair c11_t c11_rk 3 c11_w c11_c /\ good_pair' c11_t c11_rk 3 c11_w (erase c11_c) /\
  resfree_pair c11_t 3 c11_w (erase c11_c) /\ spans_cover [7%nat] c11_c /\
  resolve_target_full 3 c11_t [7%nat] c11_w c11_c = OVerdict ROk /\
  resolve_target_full 3 c11_t [7%nat] c11_w c11_bad = OVerdict (RErr (ImportNotInTarget n_f)) /\
  resolve_target_full 3 c11_t [] c11_w c11_bad = OPanic (PSpanIndex 7).
Proof.
  assert (Hnd : NoDup [[102]]) by (constructor; [intros [] | constructor]).
  split; [|split; [|split; [|split; [|split; [|split; [|split; [|split; [|split]]]]]]]].
  - split.
    + intros [|i] d H; discriminate H.
    + intros [|i] x H; discriminate H.
    + intros [|[|i]] f H; try discriminate H. injection H as <-. split; [constructor | intros v []].
    + intros [|[|i]] x H; try discriminate H; injection H as <-; (split; [assumption|]);
        intros k Hin; cbn in Hin; repeat destruct Hin as [<-|Hin]; try destruct Hin; cbn; repeat split; auto.
    + intros [|i] x H; discriminate H.
    + intros [|i] x H; discriminate H.
  - right. intros [|i] m H; discriminate H.
  - split; cbn; [apply consistent_single | apply consistent_nil].
  - split.
    + intros n k [H|[]]. injection H as _ <-. split; [split; cbn; auto | cbn; auto].
    + intros n k node [H|[]]. injection H as _ <- _. split; [split; cbn; auto | cbn; auto].
  - split.
    + intros n k [H|[]]. injection H as _ <-. split; [split; cbn; auto | cbn; auto].
    + intros i [<-|[]]. split; [split; cbn; auto | cbn; auto].
  - split.
    + intros n k [H|[]]. injection H as _ <-. vm_compute. reflexivity.
    + intros i [<-|[]]. vm_compute. reflexivity.
  - intros n k node [H|[]]. injection H as _ _ <-. now left.
  - vm_compute. reflexivity.
  - vm_compute. reflexivity.
  - vm_compute. reflexivity.
Qed.
