(** Property C16 — composition is reproducible: same inputs, same bytes.
    This file holds only statements; every proof is [exact <lemma>].

    Structure of the argument.
    (1) Tie to the sources: the translator lists every order-observing use of a hash-ordered container; the
        generated list is included in the hand-classified list, is fully typed, and is empty for the front end.
    (2) For each classified site the claim is proved on a model in which the iteration order is an explicit
        argument / oracle: order-irrelevant sites are independent of it, order-relevant ones are refuted by a
        witness (each is a reported finding, replayed on the real code by the check).
    (3) Whole graph-API histories: final state and all results are independent of every oracle. *)
From Coq Require Import List NArith String Permutation.
From WacV Require Import Graph HashSiteTypes HashSites Determinism DeterminismSpec DeterminismProofs DeterminismInv.
From WacV Require Import Wiring WiringSpec EncodeModel EncodeOrder EncodeOrderProofs ToposortOrder.
Import ListNotations.

(** * 1. the tie *)
Theorem sites_all_modelled : every_site_classified found_sites.
Proof. exact sites_all_modelled. Qed.
Print Assumptions sites_all_modelled.

Theorem sites_all_resolved : forall s, In s found_sites -> s_res s = RHash.
Proof. exact sites_all_resolved. Qed.
Print Assumptions sites_all_resolved.

(** the lexer, the AST, the parser and the printer were scanned and contain no hash-ordered container at all *)
Theorem frontend_has_no_hash_iteration :
  (forall f, In f frontend_files -> In f scanned_files /\ is_frontend_file f = true) /\
  (forall s, In s found_sites -> is_frontend_file (s_file s) = false) /\
  (forall b, In b hash_bindings -> is_frontend_file (b_file b) = false).
Proof. exact frontend_has_no_hash_iteration. Qed.
Print Assumptions frontend_has_no_hash_iteration.

(** exactly three functions of the hand classification are order-relevant — all three describe the code AS FOUND,
    each has a [_refuted] theorem below, and each was repaired in /repo: see section 7 for the current tree *)
Theorem order_relevant_sites :
  order_relevant_functions =
  ["AstResolver::world_include"; "TypeAggregator::find_semver_compatible_interface"; "PlugCommand::exec"]%string.
Proof. reflexivity. Qed.
Print Assumptions order_relevant_sites.

(** * 2. graph API *)
(** (a) [unregister_package]: the two [retain]s over HashMaps *)
Theorem unregister_retains_order_indep : forall o1 o2 k1 k2 s id,
    valid_oracle o1 -> valid_oracle o2 -> unregister_with o1 k1 s id = unregister_with o2 k2 s id.
Proof. exact unregister_retains_order_indep. Qed.
Print Assumptions unregister_retains_order_indep.

Theorem retain_order_indep : forall (keep : nat * nat -> bool) l1 l2,
    Permutation l1 l2 -> Permutation (retain_visit keep l1) (retain_visit keep l2).
Proof. exact (@retain_order_indep (nat * nat)). Qed.
Print Assumptions retain_order_indep.

(** (b) [define_type] (code after 561c8ba): the sorted order is unique *)
Theorem define_type_order_indep : forall u s d1 d2 nm t,
    Permutation d1 d2 -> NoDup (map snd d1) -> define_type_with u s d1 nm t = define_type_with u s d2 nm t.
Proof. exact define_type_order_indep. Qed.
Print Assumptions define_type_order_indep.

(** ... and the hypothesis holds in every reachable state *)
Theorem defined_nodes_distinct : forall u ops o, valid_oracle o -> NoDup (map snd (defined (fst (run_with o u ops)))).
Proof. exact defined_nodes_distinct. Qed.
Print Assumptions defined_nodes_distinct.

(** the code before the fix: adjacency order (hence toposort, hence the bytes) followed the hash order *)
Theorem define_type_unsorted_refuted :
  exists u ops o1 o2, valid_oracle o1 /\ valid_oracle o2 /\
    edges (run_unsorted_from o1 u 0 empty_graph ops) <> edges (run_unsorted_from o2 u 0 empty_graph ops).
Proof. exact define_type_unsorted_refuted. Qed.
Print Assumptions define_type_unsorted_refuted.

(** (d) every history: full state (nodes, free lists, adjacency order, maps, package slots) and all results *)
Theorem history_oracle_indep : forall u, reproducible (fun o ops => run_with o u ops).
Proof. intros u o1 o2 H1 H2 ops. exact (history_oracle_indep u ops o1 o2 H1 H2). Qed.
Print Assumptions history_oracle_indep.

(** * 3. encoder *)
(** (c) the loop over the [explicit_imports] HashMap only fills [node_indexes] *)
Theorem encode_explicit_imports_order_indep : forall encoded canonical v1 v2 ni node,
    Permutation v1 v2 -> NoDup (map snd v1) ->
    ni_lookup (populate_node_indexes encoded canonical v1 ni) node =
    ni_lookup (populate_node_indexes encoded canonical v2 ni) node.
Proof. exact encode_explicit_imports_order_indep. Qed.
Print Assumptions encode_explicit_imports_order_indep.

(** * 4. type aggregator *)
Theorem redirect_update_order_indep : forall old new v1 v2 key,
    Permutation v1 v2 -> NoDup (map fst v1) ->
    alist_get N.eqb (redirect_visit old new v1) key = alist_get N.eqb (redirect_visit old new v2) key.
Proof. exact redirect_update_order_indep. Qed.
Print Assumptions redirect_update_order_indep.

(** Full statement wanted: [forall a, reachable a -> order_independent (find_track track key) (fun _ => True)] on
    [a_interfaces a].  Only the part under the side condition [track_consistent] holds; the side condition is
    NOT an invariant of [remap] ([remap_breaks_track_consistency]) and the full statement is false
    ([find_semver_compatible_interface_refuted]). *)
Theorem find_track_order_indep_partial : forall track key,
    order_independent (find_track track key) (track_consistent track).
Proof. intros track key l1 l2 Hc Hp. exact (find_track_order_indep track key l1 l2 Hc Hp). Qed.
Print Assumptions find_track_order_indep_partial.

Theorem remap_breaks_track_consistency :
  ~ track_consistent track_w (a_interfaces (fst (remap 5 src_w track_w (fun l => l) empty_agg 0))).
Proof. exact remap_breaks_track_consistency. Qed.
Print Assumptions remap_breaks_track_consistency.

Theorem find_semver_compatible_interface_refuted :
  exists src track o1 o2,
    (forall l, Permutation (o1 l) l) /\ (forall l, Permutation (o2 l) l) /\
    let a1 := fst (remap 5 src track o1 empty_agg 0) in
    let a2 := fst (remap 5 src track o2 empty_agg 0) in
    a1 = a2 /\ snd (remap 5 src track o1 a1 2) <> snd (remap 5 src track o2 a2 2).
Proof. exact find_semver_compatible_interface_refuted. Qed.
Print Assumptions find_semver_compatible_interface_refuted.

(** * 5. resolver diagnostics *)
Theorem world_include_missing_refuted : order_dependent missing_reported.
Proof. exact world_include_missing_refuted. Qed.
Print Assumptions world_include_missing_refuted.

(** the repair c407668 (first unused `with` item in source order) *)
Theorem world_include_missing_fixed_order_indep : forall with_items,
    order_independent (missing_reported_fixed with_items) (fun _ => True).
Proof. intros w r1 r2 _ Hp. exact (world_include_missing_fixed_order_indep w r1 r2 Hp). Qed.
Print Assumptions world_include_missing_fixed_order_indep.

(** * 6. `wac plug` as found (grouping in a HashMap; repaired by 415d296, see C19: CliTable.plug_grouping is now GroupInsertion) *)
Theorem plug_sequence_refuted : order_dependent plug_sequence.
Proof. exact plug_sequence_refuted. Qed.
Print Assumptions plug_sequence_refuted.

(** * non-vacuity: a reversing oracle is valid, and the history "three dependants, then their base type"
      produces three dependency edges out of the base type, in node order *)
Example rev_oracle_valid : valid_oracle rev_oracle.
Proof. split; intros; simpl; apply Permutation_sym, Permutation_rev. Qed.

Example base_after_dependants :
  let u := {| u_inst_exports := fun _ => None; u_pkgs := [];
              u_tys := [ {| td_res := false; td_kind := 0%N; td_deps := [] |};
                         {| td_res := false; td_kind := 1%N; td_deps := [0] |};
                         {| td_res := false; td_kind := 2%N; td_deps := [0] |};
                         {| td_res := false; td_kind := 3%N; td_deps := [0] |} ];
              u_lkinds := []; u_sub := fun _ _ => true; u_import_name_ok := fun _ => true; u_export_name_ok := fun _ => true |} in
  map (fun e => (esrc e, etgt e)) (edges (fst (run_with rev_oracle u [DefineType 1%N 1; DefineType 2%N 2; DefineType 3%N 3; DefineType 0%N 0])))
  = [(3, 2); (3, 1); (3, 0)].
Proof. vm_compute. reflexivity. Qed.

(** [resolve_imports] (fix 591363d): the `first` node reported by an ImportTypeMergeConflict for an explicit import is
    the minimum node index among the same-track entries of two HashMaps; it does not depend on their iteration order. *)
Theorem conflict_first_node_order_indep : forall compat v1 v1' v2 v2' dflt,
  Permutation v1 v1' -> Permutation v2 v2' ->
  conflict_first compat v1 v2 dflt = conflict_first compat v1' v2' dflt.
Proof. exact conflict_first_order_indep. Qed.
Print Assumptions conflict_first_node_order_indep.

(** * 7. the tree as it is now: every site the translator finds is order-irrelevant, and its reason is either a model
      function with an order-independence theorem (sections 2-4, 8) or the explicit by-inspection label DebugNotRendered *)
Theorem current_sites_order_irrelevant_and_justified :
  forall s, In s found_sites ->
    classes_of s <> [] /\ forall c, In c (classes_of s) -> class_is_relevant c = false /\ class_justified c = true.
Proof. exact current_sites_order_irrelevant_and_justified. Qed.
Print Assumptions current_sites_order_irrelevant_and_justified.

(** * 8. the encoder (structural model [EncodeModel] of C02/C03, here with oracles for every hash-ordered container
      that [CompositionGraphEncoder] consults: explicit_imports, instantiations, encoded, node_indexes, packages,
      implicit_args) *)
(** whatever the oracles do, the item log (definitions, imports, instantiations, aliases, exports, in order), the
    names section and the error are those of the structural encoder model *)
Theorem encode_oracle_model_agrees : forall e u g dc tau o,
    valid_eoracle o -> encode_o e u g dc tau o = summarize (encode_model e u g dc tau).
Proof. exact encode_o_canonical. Qed.
Print Assumptions encode_oracle_model_agrees.

(** (1) ... hence the same for any two oracles, including the payload (first, second) of the merge-conflict error *)
Theorem encode_order_oracle_indep : forall e u g dc tau o1 o2,
    valid_eoracle o1 -> valid_eoracle o2 -> encode_obs e u g dc tau o1 = encode_obs e u g dc tau o2.
Proof. exact encode_order_oracle_indep. Qed.
Print Assumptions encode_order_oracle_indep.

(** a representation oracle that merely permutes maps with distinct keys (what a HashMap is) answers alike *)
Theorem permuted_maps_answer_alike : forall st st',
    e_log st = e_log st' -> e_reg st = e_reg st' -> e_dedup st = e_dedup st' -> e_impl st = e_impl st' ->
    Permutation (e_nidx st) (e_nidx st') -> NoDup (map fst (e_nidx st)) ->
    Permutation (e_pkgs st) (e_pkgs st') -> NoDup (map fst (e_pkgs st)) -> est_equiv st st'.
Proof. exact permuted_state_equiv. Qed.
Print Assumptions permuted_maps_answer_alike.

(** ... and the premise holds for the encoder's own maps: when the model encoder succeeds, [node_indexes] and
    [packages] end with pairwise distinct keys (they only ever grow at the front, so also at every earlier moment) *)
Theorem encoder_maps_have_distinct_keys : forall e u g dc tau st ns,
    encode_model e u g dc tau = ROk (st, ns) -> maps_distinct st.
Proof. exact encoder_maps_have_distinct_keys. Qed.
Print Assumptions encoder_maps_have_distinct_keys.

(** (3) histories, then encoding *)
Theorem history_then_encode_oracle_indep : forall e u dc tau ops o1 o2 eo1 eo2,
    valid_oracle o1 -> valid_oracle o2 -> valid_eoracle eo1 -> valid_eoracle eo2 ->
    encode_obs e u (fst (run_with o1 u ops)) dc tau eo1 = encode_obs e u (fst (run_with o2 u ops)) dc tau eo2.
Proof. exact history_then_encode_oracle_indep. Qed.
Print Assumptions history_then_encode_oracle_indep.

(** * 9. what fixes the emission order ([toposort]) *)
(** (2) as planned -- "for nodes with no path between them the emission order is the node-index order" -- is FALSE
    (a dependant, an unrelated node, then the base type: the unrelated node 1 is emitted before node 0); the real
    encoder agrees (replayed by the check).  The property does not need it: the order is a function of the graph. *)
Theorem toposort_is_index_ordered_for_independent_nodes_refuted :
  exists g ord a b, toposort g = Some ord /\ In a (node_ids g) /\ In b (node_ids g) /\ a < b /\
                    ~ reach g a b /\ ~ reach g b a /\ before ord b a.
Proof. exact independent_nodes_index_order_refuted. Qed.
Print Assumptions toposort_is_index_ordered_for_independent_nodes_refuted.

(** what does hold: a node that no node of larger index reaches is emitted before every node of larger index *)
Theorem toposort_is_index_ordered_for_unreached_nodes : forall g ord a b,
    toposort g = Some ord -> In a (node_ids g) -> In b (node_ids g) -> a < b ->
    (forall c, In c (node_ids g) -> a < c -> ~ reach g c a) -> before ord a b.
Proof. exact toposort_unreached_before_larger. Qed.
Print Assumptions toposort_is_index_ordered_for_unreached_nodes.

(** many same-rank independent nodes: nodes without incoming edges come in index order *)
Theorem toposort_sources_in_index_order : forall g ord a b,
    toposort g = Some ord -> In a (node_ids g) -> In b (node_ids g) -> a < b ->
    (forall ed, In ed (edges g) -> etgt ed <> a) -> before ord a b.
Proof. exact sources_in_index_order. Qed.
Print Assumptions toposort_sources_in_index_order.

(** nothing defined after its dependants: the emission order is exactly the index order *)
Theorem toposort_forward_graph_in_index_order : forall g ord,
    toposort g = Some ord -> (forall ed, In ed (edges g) -> esrc ed < etgt ed) -> ord = node_ids g.
Proof. exact forward_graph_emitted_in_index_order. Qed.
Print Assumptions toposort_forward_graph_in_index_order.

(** non-vacuity of the encoder oracles: reversing every iteration is valid *)
Example rev_eoracle_valid :
  valid_eoracle {| eo_expl := @rev _; eo_expl_c := @rev _; eo_inst_c := @rev _; eo_encoded := fun l => l; eo_state := fun _ st => st |}.
Proof.
  repeat split; intros; cbn; try (apply Permutation_sym, Permutation_rev); reflexivity.
Qed.

(** * 7. On the current tree no order-observing site is order-relevant.
    [found_sites] is GENERATED from the sources on every run; the three order-relevant entries of the hand
    classification ([order_relevant_sites]) describe the code AS FOUND and were repaired (c407668 world_include,
    02411ca aggregator interface scan, 415d296 `wac plug` grouping): none of them occurs in the generated list any
    more, so every hash iteration that exists in the code today is classified order-irrelevant (with its theorem
    above, or its by-inspection label).  A change that brings one of them back regenerates the list and this
    proof no longer checks. *)
Definition class_of (s : site) : option class :=
  option_map snd (find (fun p => site_eqb s (fst p)) modelled).

Theorem no_found_site_is_order_relevant :
  forallb (fun s => match class_of s with Some c => negb (is_relevant c) | None => false end) found_sites = true.
Proof. vm_compute. reflexivity. Qed.
Print Assumptions no_found_site_is_order_relevant.
