(** Property C18 -- file-system dependency lookup follows the documented layout and precedence.
    Statements only; every proof is an application of a lemma of [FsResolveProofs].

    All theorems are about [resolve_one] (the model of [FileSystemPackageResolver::resolve] for one
    key) and quantify over EVERY file-system state (any function from paths to Absent/File/Dir),
    every key, every resolver configuration, both settings of the [wat] feature and every behaviour
    of the three library oracles (WAT assembly, WIT directory encoding, WIT file encoding).
    [key_wf] only says that the final path component (last name part / version text) is not empty.

    TWO models: [resolve_one] is fs.rs AS FOUND (sections 1-7 and the refutation below); [resolve_one_fixed] is
    fs.rs as it is NOW, after the repair d297b59 — the last part of this file proves the property for it at full
    strength ([fs_resolve_table]), and the correspondence of every run is against it. *)
From WacV Require Import Str FsResolve FsSpec FsResolveProofs.

Section C18.
  Variable wat_parse wit_dir_encode wit_file_encode : content -> option content.
  Notation resolve_one := (resolve_one wat_parse wit_dir_encode wit_file_encode).
  Notation spec := (spec wat_parse wit_dir_encode wit_file_encode).

  (** 1. The decision table.
      Full statement (the property as written):
        [forall wat fs cfg k, key_wf k -> resolve_one wat fs cfg k = spec wat fs cfg k].
      It is FALSE of the faithful model (see [fs_resolve_table_refuted] below).  What is proved is
      the table everywhere except in the one recorded situation [suffixed_dir_chosen] -- no explicit
      location applies, B is not a directory and the suffixed candidate the lookup settles on
      (B".wat", else B".wasm") is itself a directory -- and, for that situation, exactly what the
      code does instead ([fs_resolve_deviation_shape]). *)
  Theorem fs_resolve_table_partial : forall wat fs cfg k,
    key_wf k -> suffixed_dir_chosen wat fs cfg k = false ->
    resolve_one wat fs cfg k = spec wat fs cfg k.
  Proof. exact (table_partial wat_parse wit_dir_encode wit_file_encode). Qed.

  Theorem fs_resolve_deviation_shape : forall wat fs cfg k,
    key_wf k -> suffixed_dir_chosen wat fs cfg k = true ->
    exists p c, (p = suffixed cfg k s_wat \/ p = suffixed cfg k s_wasm) /\ fs p = Dir c /\
                resolve_one wat fs cfg k = wit_package wit_dir_encode p c.
  Proof. exact (deviation_shape wat_parse wit_dir_encode wit_file_encode). Qed.

  (** 2. The extension is appended: for a versioned reference whatever is loaded has a final
      component that starts with the WHOLE version text ("1.2.3", "1.2.3.wat" or "1.2.3.wasm"),
      and it sits at B, B".wat" or B".wasm". *)
  Theorem ext_appended_not_replaced : forall wat fs cfg k v src p b,
    k_version k = Some v -> v <> [] ->
    resolve_one wat fs cfg k = Loaded src p b ->
    last p [] = v \/ last p [] = v ++ ch_dot :: s_wat \/ last p [] = v ++ ch_dot :: s_wasm.
  Proof. exact (ext_appended wat_parse wit_dir_encode wit_file_encode). Qed.

  Theorem loaded_from_documented_location : forall wat fs cfg k src p b,
    key_wf k -> applicable_override cfg k = None ->
    resolve_one wat fs cfg k = Loaded src p b ->
    p = base cfg k \/ p = suffixed cfg k s_wat \/ p = suffixed cfg k s_wasm.
  Proof. exact (loaded_location wat_parse wit_dir_encode wit_file_encode). Qed.

  (** 3. Text is preferred when enabled (whatever is at B".wasm"), the binary is used otherwise. *)
  Theorem wat_preferred_when_enabled : forall fs cfg k c,
    key_wf k -> applicable_override cfg k = None ->
    is_dir fs (base cfg k) = false -> fs (suffixed cfg k s_wat) = File c ->
    resolve_one true fs cfg k = assembled wat_parse (suffixed cfg k s_wat) c.
  Proof. exact (wat_preferred wat_parse wit_dir_encode wit_file_encode). Qed.

  Theorem wasm_used_otherwise : forall wat fs cfg k c,
    key_wf k -> applicable_override cfg k = None ->
    is_dir fs (base cfg k) = false -> (wat = false \/ fs (suffixed cfg k s_wat) = Absent) ->
    fs (suffixed cfg k s_wasm) = File c ->
    resolve_one wat fs cfg k = Loaded SrcRaw (suffixed cfg k s_wasm) c.
  Proof. exact (wasm_otherwise wat_parse wit_dir_encode wit_file_encode). Qed.

  (** 4. A directory at B is read as a WIT package, whatever else exists. *)
  Theorem directory_is_wit_package : forall wat fs cfg k c,
    applicable_override cfg k = None -> fs (base cfg k) = Dir c ->
    resolve_one wat fs cfg k = wit_package wit_dir_encode (base cfg k) c.
  Proof. exact (dir_is_package wat_parse wit_dir_encode wit_file_encode). Qed.

  (** 5. Explicit locations: ignored for versioned references ... *)
  Theorem override_unversioned_only : forall wat fs cfg k v,
    k_version k = Some v ->
    resolve_one wat fs cfg k = resolve_one wat fs (without_overrides cfg) k.
  Proof. exact (override_versioned_ignored wat_parse wit_dir_encode wit_file_encode). Qed.

  (** ... used, and nothing else looked at, for unversioned ones ... *)
  Theorem override_used_when_unversioned : forall wat fs cfg k p c,
    applicable_override cfg k = Some p -> fs p = File c ->
    resolve_one wat fs cfg k = read_named_file wat_parse wit_file_encode wat p c.
  Proof. exact (override_used wat_parse wit_dir_encode wit_file_encode). Qed.

  (** ... and they must exist: no fall-back to the dependency directory, in either mode. *)
  Theorem override_must_exist : forall wat fs cfg k p,
    applicable_override cfg k = Some p -> (forall c, fs p <> File c) ->
    resolve_one wat fs cfg k = ErrResolution OverrideMissing.
  Proof. exact (override_missing wat_parse wit_dir_encode wit_file_encode). Qed.

  (** 6. The bytes returned are the bytes of the file found, or the encoding/assembly of what was
      found, at the path reported. *)
  Theorem bytes_are_file_bytes : forall wat fs cfg k src p b,
    resolve_one wat fs cfg k = Loaded src p b ->
    bytes_come_from wat_parse wit_dir_encode wit_file_encode fs src p b.
  Proof. exact (bytes_origin wat_parse wit_dir_encode wit_file_encode). Qed.

  (** 7. Missing packages: nothing at any candidate gives "skipped" or "unknown package" by mode,
      and these two outcomes occur in no other situation. *)
  Theorem missing_mode : forall wat fs cfg k,
    key_wf k -> applicable_override cfg k = None ->
    fs (base cfg k) = Absent -> (wat = true -> fs (suffixed cfg k s_wat) = Absent) ->
    fs (suffixed cfg k s_wasm) = Absent ->
    resolve_one wat fs cfg k = if error_on_unknown cfg then ErrUnknown else Skipped.
  Proof. exact (missing_all_absent wat_parse wit_dir_encode wit_file_encode). Qed.

  Theorem not_found_only_when_missing : forall wat fs cfg k,
    key_wf k -> not_found (resolve_one wat fs cfg k) = true ->
    resolve_one wat fs cfg k = (if error_on_unknown cfg then ErrUnknown else Skipped) /\
    applicable_override cfg k = None /\ is_dir fs (base cfg k) = false /\
    (wat = true -> fs (suffixed cfg k s_wat) = Absent) /\ fs (suffixed cfg k s_wasm) = Absent.
  Proof. exact (not_found_only_when_missing wat_parse wit_dir_encode wit_file_encode). Qed.
End C18.

Print Assumptions fs_resolve_table_partial.
Print Assumptions fs_resolve_deviation_shape.
Print Assumptions ext_appended_not_replaced.
Print Assumptions loaded_from_documented_location.
Print Assumptions wat_preferred_when_enabled.
Print Assumptions wasm_used_otherwise.
Print Assumptions directory_is_wit_package.
Print Assumptions override_unversioned_only.
Print Assumptions override_used_when_unversioned.
Print Assumptions override_must_exist.
Print Assumptions bytes_are_file_bytes.
Print Assumptions missing_mode.
Print Assumptions not_found_only_when_missing.

(** Concrete data for the refutation and the non-vacuity example. *)
Definition s_deps : str := [100; 101; 112; 115].                 (* deps *)
Definition s_foo : str := [102; 111; 111].                       (* foo *)
Definition s_bar : str := [98; 97; 114].                         (* bar *)
Definition s_foo_bar : str := s_foo ++ [ch_colon] ++ s_bar.      (* foo:bar *)
Definition s_123 : str := [49; 46; 50; 46; 51].                  (* 1.2.3 *)
Definition s_bar_wat : str := s_bar ++ [ch_dot] ++ s_wat.        (* bar.wat *)
Definition s_bar_wasm : str := s_bar ++ [ch_dot] ++ s_wasm.      (* bar.wasm *)
Definition s_123_wat : str := s_123 ++ [ch_dot] ++ s_wat.        (* 1.2.3.wat *)
Definition s_123_wasm : str := s_123 ++ [ch_dot] ++ s_wasm.      (* 1.2.3.wasm *)
Definition s_12_wasm : str := [49; 46; 50; 46; 119; 97; 115; 109]. (* 1.2.wasm *)
Definition cfg0 (m : bool) : config := {| root := [s_deps]; overrides := []; error_on_unknown := m |}.
(** oracles: assembling content c gives 1000 + c; encoding a WIT directory gives 2000 + c *)
Definition o_wat (c : content) : option content := Some (1000 + c).
Definition o_dir (c : content) : option content := Some (2000 + c).
Definition o_file (c : content) : option content := Some (3000 + c).

(** 1'. Refutation of the full table.  deps/foo/bar.wat is a DIRECTORY, deps/foo/bar.wasm is a
    component file.  The property says the ".wasm" file is used (there is no ".wat" file); the code
    loads the directory "bar.wat" as a WIT package.  Replayed on the real resolver by the
    correspondence (corpus/C18/cases.txt). *)
Theorem fs_resolve_table_refuted :
  exists wat fs cfg k,
    key_wf k /\
    spec o_wat o_dir o_file wat fs cfg k = Loaded SrcRaw [s_deps; s_foo; s_bar_wasm] 7 /\
    resolve_one o_wat o_dir o_file wat fs cfg k = Loaded SrcWitDir [s_deps; s_foo; s_bar_wat] 2005.
Proof.
  exists true,
    (fs_of_list [([s_deps; s_foo; s_bar_wat], Dir 5); ([s_deps; s_foo; s_bar_wasm], File 7)]),
    (cfg0 true), {| k_name := s_foo_bar; k_version := None |}.
  split; [vm_compute; discriminate | vm_compute; split; reflexivity].
Qed.
Print Assumptions fs_resolve_table_refuted.

(** Non-vacuity: a versioned reference with both "1.2.3.wat" and "1.2.3.wasm" present (and a decoy
    "1.2.wasm") loads the assembled text from "1.2.3.wat"; without the text file, the bytes of
    "1.2.3.wasm"; an explicit location is used for the unversioned reference only; a dangling
    explicit location is an error; nothing there is skipped or unknown by mode. *)
Definition fs1 : filesystem :=
  fs_of_list [([s_deps; s_foo; s_bar], Dir 1);
              ([s_deps; s_foo; s_bar; s_123_wat], File 2);
              ([s_deps; s_foo; s_bar; s_123_wasm], File 3);
              ([s_deps; s_foo; s_bar; s_12_wasm], File 4);
              ([s_foo; s_bar_wasm], File 9)].
Definition fs2 : filesystem :=
  fs_of_list [([s_deps; s_foo; s_bar; s_123_wasm], File 3); ([s_deps; s_foo; s_bar; s_12_wasm], File 4)].
Definition k_v : key := {| k_name := s_foo_bar; k_version := Some s_123 |}.
Definition k_u : key := {| k_name := s_foo_bar; k_version := None |}.
Definition cfg_ov (p : path) : config :=
  {| root := [s_deps]; overrides := [(s_foo_bar, p)]; error_on_unknown := true |}.

Example c18_nonvacuous :
  key_wf k_v /\ key_wf k_u /\
  suffixed_dir_chosen true fs1 (cfg0 true) k_v = false /\
  resolve_one o_wat o_dir o_file true fs1 (cfg0 true) k_v = Loaded SrcWat [s_deps; s_foo; s_bar; s_123_wat] 1002 /\
  resolve_one o_wat o_dir o_file false fs1 (cfg0 true) k_v = Loaded SrcRaw [s_deps; s_foo; s_bar; s_123_wasm] 3 /\
  resolve_one o_wat o_dir o_file true fs2 (cfg0 true) k_v = Loaded SrcRaw [s_deps; s_foo; s_bar; s_123_wasm] 3 /\
  resolve_one o_wat o_dir o_file true fs1 (cfg0 true) k_u = Loaded SrcWitDir [s_deps; s_foo; s_bar] 2001 /\
  resolve_one o_wat o_dir o_file true fs1 (cfg_ov [s_foo; s_bar_wasm]) k_u = Loaded SrcRaw [s_foo; s_bar_wasm] 9 /\
  resolve_one o_wat o_dir o_file true fs1 (cfg_ov [s_foo; s_bar_wasm]) k_v = Loaded SrcWat [s_deps; s_foo; s_bar; s_123_wat] 1002 /\
  resolve_one o_wat o_dir o_file true fs1 (cfg_ov [s_foo; s_bar_wat]) k_u = ErrResolution OverrideMissing /\
  resolve_one o_wat o_dir o_file true fs2 (cfg0 true) k_u = ErrUnknown /\
  resolve_one o_wat o_dir o_file true fs2 (cfg0 false) k_u = Skipped.
Proof. vm_compute. repeat split; discriminate. Qed.

(** * The repaired code (commit d297b59): the property at FULL strength.

    /repo's fs.rs now follows [resolve_one_fixed] (FsResolve.v): the correspondence of every run compares the real
    resolver with THIS model on every generated layout, and any difference is a violation.  For it the decision
    table holds for every well-formed key with no exception, and the clauses of the property sharpen accordingly
    (a directory at B".wat"/B".wasm" is not a package: it neither shadows the ".wasm" file nor counts as present).
    The as-found model [resolve_one] and its theorems above are kept so that a return of the defect is recognised
    ([fs_resolve_table_refuted]'s witness is a regression case of the check). *)
From WacV Require Import FsResolveFixed.

Section C18Fixed.
  Variable wat_parse wit_dir_encode wit_file_encode : content -> option content.
  Notation resolve_one := (resolve_one wat_parse wit_dir_encode wit_file_encode).
  Notation resolve_one_fixed := (resolve_one_fixed wat_parse wit_dir_encode wit_file_encode).
  Notation spec := (spec wat_parse wit_dir_encode wit_file_encode).

  (** 1. The decision table, as the property states it. *)
  Theorem fs_resolve_table : forall wat fs cfg k,
    key_wf k -> resolve_one_fixed wat fs cfg k = spec wat fs cfg k.
  Proof. exact (table_fixed wat_parse wit_dir_encode wit_file_encode). Qed.

  (** The repair changes nothing outside the recorded deviation. *)
  Theorem repair_is_conservative : forall wat fs cfg k,
    key_wf k -> suffixed_dir_chosen wat fs cfg k = false ->
    resolve_one_fixed wat fs cfg k = resolve_one wat fs cfg k.
  Proof. exact (fixed_eq_found wat_parse wit_dir_encode wit_file_encode). Qed.

  (** 2. Extension appended, never replaced; documented locations only. *)
  Theorem fixed_ext_appended_not_replaced : forall wat fs cfg k v src p b,
    k_version k = Some v -> v <> [] ->
    resolve_one_fixed wat fs cfg k = Loaded src p b ->
    last p [] = v \/ last p [] = v ++ ch_dot :: s_wat \/ last p [] = v ++ ch_dot :: s_wasm.
  Proof. exact (fixed_ext_appended wat_parse wit_dir_encode wit_file_encode). Qed.

  Theorem fixed_loaded_from_documented_location : forall wat fs cfg k src p b,
    key_wf k -> applicable_override cfg k = None ->
    resolve_one_fixed wat fs cfg k = Loaded src p b ->
    p = base cfg k \/ p = suffixed cfg k s_wat \/ p = suffixed cfg k s_wasm.
  Proof. exact (fixed_loaded_location wat_parse wit_dir_encode wit_file_encode). Qed.

  (** 3. Text preferred when enabled; the binary otherwise — also when B".wat" is a directory. *)
  Theorem fixed_wat_preferred_when_enabled : forall fs cfg k c,
    key_wf k -> applicable_override cfg k = None ->
    is_dir fs (base cfg k) = false -> fs (suffixed cfg k s_wat) = File c ->
    resolve_one_fixed true fs cfg k = assembled wat_parse (suffixed cfg k s_wat) c.
  Proof. exact (fixed_wat_preferred wat_parse wit_dir_encode wit_file_encode). Qed.

  Theorem fixed_wasm_used_otherwise : forall wat fs cfg k c,
    key_wf k -> applicable_override cfg k = None ->
    is_dir fs (base cfg k) = false -> (wat = false \/ is_file fs (suffixed cfg k s_wat) = false) ->
    fs (suffixed cfg k s_wasm) = File c ->
    resolve_one_fixed wat fs cfg k = Loaded SrcRaw (suffixed cfg k s_wasm) c.
  Proof. exact (fixed_wasm_otherwise wat_parse wit_dir_encode wit_file_encode). Qed.

  (** 4. A directory at B is a WIT package. *)
  Theorem fixed_directory_is_wit_package : forall wat fs cfg k c,
    applicable_override cfg k = None -> fs (base cfg k) = Dir c ->
    resolve_one_fixed wat fs cfg k = wit_package wit_dir_encode (base cfg k) c.
  Proof. exact (fixed_dir_is_package wat_parse wit_dir_encode wit_file_encode). Qed.

  (** 5. Explicit locations. *)
  Theorem fixed_override_unversioned_only : forall wat fs cfg k v,
    k_version k = Some v ->
    resolve_one_fixed wat fs cfg k = resolve_one_fixed wat fs (without_overrides cfg) k.
  Proof. exact (fixed_override_versioned_ignored wat_parse wit_dir_encode wit_file_encode). Qed.

  Theorem fixed_override_used_when_unversioned : forall wat fs cfg k p c,
    applicable_override cfg k = Some p -> fs p = File c ->
    resolve_one_fixed wat fs cfg k = read_named_file wat_parse wit_file_encode wat p c.
  Proof. exact (fixed_override_used wat_parse wit_dir_encode wit_file_encode). Qed.

  Theorem fixed_override_must_exist : forall wat fs cfg k p,
    applicable_override cfg k = Some p -> (forall c, fs p <> File c) ->
    resolve_one_fixed wat fs cfg k = ErrResolution OverrideMissing.
  Proof. exact (fixed_override_missing wat_parse wit_dir_encode wit_file_encode). Qed.

  (** 6. Bytes. *)
  Theorem fixed_bytes_are_file_bytes : forall wat fs cfg k src p b,
    resolve_one_fixed wat fs cfg k = Loaded src p b ->
    bytes_come_from wat_parse wit_dir_encode wit_file_encode fs src p b.
  Proof. exact (fixed_bytes_origin wat_parse wit_dir_encode wit_file_encode). Qed.

  (** 7. Skipped / unknown exactly when nothing is there, by mode. *)
  Theorem fixed_missing_mode : forall wat fs cfg k,
    key_wf k -> nothing_there wat fs cfg k ->
    resolve_one_fixed wat fs cfg k = if error_on_unknown cfg then ErrUnknown else Skipped.
  Proof. exact (fixed_missing wat_parse wit_dir_encode wit_file_encode). Qed.

  Theorem fixed_not_found_exactly_when_missing : forall wat fs cfg k,
    key_wf k ->
    (not_found (resolve_one_fixed wat fs cfg k) = true <-> nothing_there wat fs cfg k).
  Proof. exact (fixed_not_found_iff wat_parse wit_dir_encode wit_file_encode). Qed.
End C18Fixed.

Print Assumptions fs_resolve_table.
Print Assumptions repair_is_conservative.
Print Assumptions fixed_ext_appended_not_replaced.
Print Assumptions fixed_loaded_from_documented_location.
Print Assumptions fixed_wat_preferred_when_enabled.
Print Assumptions fixed_wasm_used_otherwise.
Print Assumptions fixed_directory_is_wit_package.
Print Assumptions fixed_override_unversioned_only.
Print Assumptions fixed_override_used_when_unversioned.
Print Assumptions fixed_override_must_exist.
Print Assumptions fixed_bytes_are_file_bytes.
Print Assumptions fixed_missing_mode.
Print Assumptions fixed_not_found_exactly_when_missing.

(** * One call, several keys ([resolve_all]): every key is answered as if it were requested alone. *)
Section C18All.
  Variable wat_parse wit_dir_encode wit_file_encode : content -> option content.
  Notation resolve_one_fixed := (resolve_one_fixed wat_parse wit_dir_encode wit_file_encode).
  Notation resolve_all := (resolve_all wat_parse wit_dir_encode wit_file_encode).

  Theorem keys_resolved_independently : forall wat fs cfg ks,
    forallb (fun k => negb (is_failure (resolve_one_fixed wat fs cfg k))) ks = true ->
    resolve_all wat fs cfg ks = map (resolve_one_fixed wat fs cfg) ks.
  Proof. exact (resolve_all_independent wat_parse wit_dir_encode wit_file_encode). Qed.

  Theorem first_failing_key_ends_the_call : forall wat fs cfg pre k post,
    forallb (fun k => negb (is_failure (resolve_one_fixed wat fs cfg k))) pre = true ->
    is_failure (resolve_one_fixed wat fs cfg k) = true ->
    resolve_all wat fs cfg (pre ++ k :: post) =
    map (resolve_one_fixed wat fs cfg) pre ++ [resolve_one_fixed wat fs cfg k].
  Proof. exact (resolve_all_first_failure wat_parse wit_dir_encode wit_file_encode). Qed.

  Theorem answer_is_standalone_answer : forall wat fs cfg ks i o,
    nth_error (resolve_all wat fs cfg ks) i = Some o ->
    exists k, nth_error ks i = Some k /\ o = resolve_one_fixed wat fs cfg k.
  Proof. exact (resolve_all_nth wat_parse wit_dir_encode wit_file_encode). Qed.
End C18All.

Print Assumptions keys_resolved_independently.
Print Assumptions first_failing_key_ends_the_call.
Print Assumptions answer_is_standalone_answer.

(** On the witness of [fs_resolve_table_refuted] the repaired code answers as the table says, and the non-vacuity
    cases of [c18_nonvacuous] are answered identically. *)
Example c18_fixed_nonvacuous :
  resolve_one_fixed o_wat o_dir o_file true
    (fs_of_list [([s_deps; s_foo; s_bar_wat], Dir 5); ([s_deps; s_foo; s_bar_wasm], File 7)])
    (cfg0 true) k_u = Loaded SrcRaw [s_deps; s_foo; s_bar_wasm] 7 /\
  resolve_one_fixed o_wat o_dir o_file true
    (fs_of_list [([s_deps; s_foo; s_bar_wasm], Dir 5)]) (cfg0 true) k_u = ErrUnknown /\
  resolve_one_fixed o_wat o_dir o_file true fs1 (cfg0 true) k_v = Loaded SrcWat [s_deps; s_foo; s_bar; s_123_wat] 1002 /\
  resolve_one_fixed o_wat o_dir o_file false fs1 (cfg0 true) k_v = Loaded SrcRaw [s_deps; s_foo; s_bar; s_123_wasm] 3 /\
  resolve_one_fixed o_wat o_dir o_file true fs1 (cfg0 true) k_u = Loaded SrcWitDir [s_deps; s_foo; s_bar] 2001 /\
  resolve_one_fixed o_wat o_dir o_file true fs1 (cfg_ov [s_foo; s_bar_wasm]) k_u = Loaded SrcRaw [s_foo; s_bar_wasm] 9 /\
  resolve_one_fixed o_wat o_dir o_file true fs1 (cfg_ov [s_foo; s_bar_wat]) k_u = ErrResolution OverrideMissing /\
  resolve_one_fixed o_wat o_dir o_file true fs2 (cfg0 false) k_u = Skipped.
Proof. vm_compute. repeat split. Qed.
