(** Property C04 — WAC documents compose what the language reference says they compose.
    Statements only; proofs are in proofs/ResolverProofs.v (see the header of each theorem). *)
From Coq Require Import List Arith NArith.
From WacV Require Import Str StrLit Token Lexer Names Ast Graph Resolver LangSpec ResolverProofs.
Import ListNotations.
Local Open Scope nat_scope.

Section C04.
  Variable u : runiverse.
  Variable self_name : str.

  (** 5. A [let] only names: after [let id = e;] the graph is the graph after evaluating [e], up to
         the debug name of [e]'s node; the scope gains exactly [id]. *)
  Theorem let_only_names id e st st' :
    let_statement u self_name id e st = inl (tt, st') ->
    exists item st1,
      eval_expr u self_name e st = inl (item, st1) /\
      same_but_name (rs_g st1) (rs_g st') item /\
      rs_scope st' = rs_scope st1 ++ [(id_string id, (item, off (id_span id)))].
  Proof. exact (let_only_names_proof u self_name id e st st'). Qed.
End C04.
Print Assumptions let_only_names.
