(** Property C04 — WAC documents compose what the language reference says they compose.
    Statements only; the proofs are in proofs/ResolverProofs.v (names, access, tables),
    proofs/ResolverNew.v (frames, the [new] expression), proofs/ResolverStmts.v (statements) and
    proofs/ResolverWitness.v (vm_compute witnesses).

    Model: model/Resolver.v, the statement/expression half of crates/wac-parser/src/resolution.rs over
    the C12 AST and the graph operations of model/Graph.v.  Specification: spec/LangSpec.v, LANGUAGE.md
    restated (binding rules per import of the instantiated package, the name rules, a reference
    evaluation to compositions of values).  Level: proof, PARTIAL --

      * type statements, inline interfaces, function types over declared types and the [targets] clause
        are out of scope (C05 / C11): the model answers [FUnsupported];
      * typing is the subtype oracle [u_sub]; package worlds, instance exports, interface ids come from
        the per-library universe computed by the real implementation;
      * the theorems are about each construct of the resolver (what a [new] binds, what an access
        selects, which name an import/export gets, what a [let] does, which diagnostic each
        ill-formedness class gets); the end-to-end statement "[resolve] and [LangSpec.denote] agree on
        every document" is NOT proved -- it is what the correspondence checks on every generated program
        (tools/props/c04.py evaluates [denote] on the implementation's own observation);
      * the argument edges of the graph are those of [Graph.set_arg] called once per table entry
        ([set_args]); the theorems speak about the table.

    Standing hypotheses: [nofree] (the graph has no freed node or package slot: the resolver starts from
    the empty graph and never removes anything), [scope_live] (local names denote live nodes), [NoDup] of
    the import names of the instantiated package (they are the keys of an IndexMap).

    DEVIATIONS of the implementation from the reference as written (each a flag of
    [LangSpec.deviations]; the theorems hold for [impl_flags_c04], the [_refuted] theorems show that
    they fail for [doc_flags]; both are replayed on the real resolver by corpus/C04/witness-src.txt):
      - [exact_name_first]: "exactly one import/export that has a path which ends with the name ->
        the path is used" -- the resolver uses the plain name when an import/export of exactly that
        name exists (inferred rule 3, named-argument identifiers, access expressions);
      - [export_spread_conflicts_error]: a spread export all of whose names are already exported is
        rejected ([SpreadExportNoEffect]); the reference only makes an instance without exports an
        error. *)
From Coq Require Import String List Arith NArith.
From WacV Require Import Str StrLit Token Lexer Semver Names Ast Graph Resolver LangSpec
  GraphInv GraphTheorems ResolverProofs ResolverNew ResolverStmts ResolverInv ResolverWitness
  ResolverSim ResolverSimExpr ResolverSimNew ResolverSimStmt ResolverSimObs ResolverWitness2.
From WacV Require Wiring WiringSpec EncodeModel WiringDecode ValidEncInv ResolverEndToEnd.
Import ListNotations.
Local Open Scope nat_scope.

Section C04.
  Variable u : runiverse.
  Variable self_name : str.

  (** * 1. argument binding *)

  (** 1a. The NAME of an argument.  An inferred argument [id] gets the name the four rules of the
      reference give, from the package path of the item's type ([instance_id]), the import name / the
      accessed export name the item came from ([node_source]) and the identifier; a named argument
      [id: e] the unique import path ending with [id], else [id]; ["s": e] exactly [s]. *)
  Theorem arg_name_spec :
    (forall imports id item st nm st',
       inferred_name u imports id item st = inl (nm, st') ->
       st' = st /\ exists nd, get_node (rs_g st) item = Some nd /\
         nm = infer_arg_name impl_flags_c04 (map fst imports) (id_string id)
                             (instance_id u (nitem nd)) (node_source u (rs_g st) item)) /\
    (forall (imports : list (str * kid)) a,
       named_name imports a = arg_name_of impl_flags_c04 (map fst imports) a).
  Proof. split; [exact (inferred_name_spec u)|exact named_name_spec]. Qed.

  (** 1b. The BINDING of every import.  After a successful [new pkg { args }]: with [t1] the table of
      the explicit (inferred and named) arguments, [recs] the spread arguments in order and [t2] the
      final table, every import [i] of the package is bound by the first applicable rule
      ([LangSpec.bind_import]): the explicit argument named [i]; else the first spread whose instance
      exports [i], through the graph's alias of that export; else nothing (an implicit import) when
      [...] is present; and no import is missing.  The arguments of the new instantiation in the
      resulting graph ([Graph.get_args]) are EXACTLY the entries of [t2]: every entry is an argument,
      and there is no other argument (the converse uses the graph invariant of C06, [GraphInv.Inv],
      which the resolver preserves because it only performs [Graph.step] operations). *)
  Theorem arg_binding_spec pkg args st inst st' :
    new_expr u self_name (eval_expr u self_name) pkg args st = inl (inst, st') ->
    nofree (rs_g st) -> Inv u (rs_g st) ->
    exists id pd t1 req recs t2,
      pkg_desc u (rs_g st') id = Some pd /\
      (forall nm n at_, im_get t2 nm = Some (n, at_) -> In (ru_intern u nm, n) (get_args u (rs_g st') inst)) /\
      (forall a src, In (a, src) (get_args u (rs_g st') inst) ->
         exists nm at_, In (nm, (src, at_)) t2 /\ a = ru_intern u nm) /\
      (NoDup (map fst (text_items u (pd_imports pd))) ->
        NoDup (map fst t1) /\ length t1 = length (filter is_explicit_arg args) /\
        req = negb (existsb is_fill_arg args) /\
        (forall pre sp post, args = pre ++ AFill sp :: post -> post = []) /\
        map sr_id recs = spread_idents args /\
        spreads_from u (map fst (text_items u (pd_imports pd))) t1 recs t2 /\
        (forall i, In i (map fst (text_items u (pd_imports pd))) ->
           match bind_import t1 (map to_src recs) (negb req) i with
           | BExplicit x => im_get t2 i = Some x
           | BSpread sp => exists n, im_get t2 i = Some (n, snd (sp_val sp)) /\ alias_witness u (fst (sp_val sp)) i n
           | BImplicit => im_get t2 i = None
           | BMissing => False
           end)).
  Proof.
    intros H NF HI. apply (new_expr_binding_exact u self_name (eval_expr u self_name) pkg args st inst st' H); auto.
    - apply Forall_forall. intros a _. destruct a; auto. apply mframe_eval_expr.
    - apply Forall_forall. intros a _. destruct a; auto. apply mpres_eval_expr. intros g o. apply step_inv.
  Qed.

  (** every graph the resolver returns is reachable by graph operations from the empty graph, hence
      satisfies the invariant of C06 *)
  Theorem resolved_graph_invariant d st : resolve u d = inl st -> reachable u (rs_g st) /\ Inv u (rs_g st).
  Proof. intros H. split; [exact (resolve_reachable u d st H)|exact (resolve_inv u d st H)]. Qed.

  (** * 2. spreads and fill *)

  (** 2a. One spread argument [...id] applied to the table [t]: it adds exactly the expected names its
      instance exports that are not yet in the table, in the package's import order, each bound to
      the alias of that export with the identifier's span; and at least one. *)
  Theorem spread_fill_spec id expected t st t' st' :
    spread_arg u id expected t st = inl (t', st') -> nofree (rs_g st) -> NoDup expected ->
    exists item at0 nd ex adds,
      im_get (rs_scope st) (id_string id) = Some (item, at0) /\ get_node (rs_g st) item = Some nd /\
      inst_exports u (nitem nd) = Some ex /\ t' = t ++ adds /\ map fst adds = spread_filter t ex expected /\
      adds <> [] /\
      Forall (fun p => snd (snd p) = off (id_span id) /\ alias_witness u item (fst p) (fst (snd p))) adds /\
      nofree (rs_g st') /\ rs_scope st' = rs_scope st /\ gframe (rs_g st) (rs_g st').
  Proof. exact (spread_arg_inl u id expected t st t' st'). Qed.

  (** 2b. [...] is accepted only as the last argument (and then switches the completeness check off);
      anywhere else it is rejected where it stands. *)
  Theorem fill_must_be_last :
    (forall evalf imports args t req st t' req' st',
       pass1 u evalf imports args t req st = inl ((t', req'), st') -> NoDup (map fst t) ->
       req' = (req && negb (existsb is_fill_arg args))%bool /\
       (forall pre sp post, args = pre ++ AFill sp :: post -> post = [])) /\
    (forall evalf imports sp b r t req st,
       pass1 u evalf imports (AFill sp :: b :: r) t req st = inr (FErr (EFillArgumentNotLast (off sp)))).
  Proof.
    split.
    - intros evalf imports args t req st t' req' st' H ND.
      destruct (pass1_inl u evalf imports args t req st t' req' st' H ND) as (_ & _ & A & B). auto.
    - exact (pass1_fill_not_last u).
  Qed.

  (** * 3. access expressions *)
  (** [e.id] / [e["name"]] succeed exactly on an instance that has the export the reference names
      ([access_name]: the unique export path ending with [id], else [id]; exactly ["name"]) and yield
      the graph's alias of that export; otherwise the operand is not an instance
      ([NotAnInstance{Access}] at the operand) or has no such export ([MissingInstanceExport] at the
      access). *)
  Theorem access_spec item pe parent st :
    (forall n st', eval_postfix u item pe parent st = inl (n, st') ->
       exists nd ex,
         get_node (rs_g st) item = Some nd /\ inst_exports u (nitem nd) = Some ex /\
         has_key ex (access_name pe (map fst ex)) = true /\
         alias u (rs_g st) item (ru_intern u (access_name pe (map fst ex))) = (rs_g st', ONode n) /\
         rs_scope st' = rs_scope st) /\
    (forall e, eval_postfix u item pe parent st = inr (FErr e) ->
       exists nd, get_node (rs_g st) item = Some nd /\
         match inst_exports u (nitem nd) with
         | None => e = ENotAnInstance OpAccess parent
         | Some ex => has_key ex (access_name pe (map fst ex)) = false /\
                      e = EMissingInstanceExport (access_name pe (map fst ex)) (off (postfix_span pe))
         end).
  Proof. split; [exact (access_spec_ok u item pe parent st)|exact (access_spec_err u item pe parent st)]. Qed.

  (** * 4. import and export names *)
  (** 4a. [export e;] exports the node of [e] under the package path of its instance type, else the
      import name, else the accessed export name; [export e as n;] under [n]. *)
  Theorem export_name_spec e opts st st' :
    nofree (rs_g st) -> scope_live st ->
    export_statement u self_name e opts st = inl (tt, st') ->
    match opts with
    | EONone =>
        exists item s1 nd nm,
          eval_expr u self_name e st = inl (item, s1) /\ get_node (rs_g s1) item = Some nd /\
          match instance_id u (nitem nd) with Some p => Some p | None => node_source u (rs_g s1) item end = Some nm /\
          export_ u (rs_g s1) item (ru_intern u nm) = (rs_g st', OUnit)
    | EORename n =>
        exists item s1,
          eval_expr u self_name e st = inl (item, s1) /\
          export_ u (rs_g s1) item (ru_intern u (extern_name_str n)) = (rs_g st', OUnit)
    | EOSpread _ => True
    end.
  Proof. exact (export_statement_name u self_name e opts st st'). Qed.

  (** 4b. [export e...;] exports every export of the instance whose name is not yet exported, under
      its own name, as the alias of that export, in the instance's export order (at least one). *)
  Theorem export_spread_name_spec e sp st st' :
    nofree (rs_g st) -> scope_live st ->
    export_statement u self_name e (EOSpread sp) st = inl (tt, st') ->
    exists item s1 ex adds,
      eval_expr u self_name e st = inl (item, s1) /\ is_instance_with u (rs_g s1) item ex /\
      (NoDup (map (ru_intern u) (map fst ex)) -> alias_nondef_b (rs_g s1) = true ->
       exports (rs_g st') = exports (rs_g s1) ++ adds /\ adds <> [] /\
       map fst adds = map (ru_intern u) (export_filter u (rs_g s1) (map fst ex)) /\
       Forall (fun p => exists nm, fst p = ru_intern u nm /\ alias_witness u item nm (snd p)) adds).
  Proof. exact (export_spread_spec u self_name e sp st st'). Qed.

  (** 4c. an import is made under the package path it names, else the local name; [as] renames *)
  Theorem import_name_spec id nm t st st' :
    import_statement u self_name id nm t st = inl (tt, st') ->
    exists name k s1 g2 n,
      import_name_of u st id nm t name /\
      import_ u (rs_g s1) (ru_intern u name) (N.to_nat (ru_promote u k)) = (g2, ONode n) /\
      register_name u id n {| rs_g := g2; rs_scope := rs_scope s1 |} = inl (tt, st').
  Proof. exact (import_statement_name u self_name id nm t st st'). Qed.

  (** * 5. A [let] only names: after [let id = e;] the graph is the graph after evaluating [e], up to
      the debug name of [e]'s node; the scope gains exactly [id]. *)
  Theorem let_only_names id e st st' :
    let_statement u self_name id e st = inl (tt, st') ->
    exists item st1,
      eval_expr u self_name e st = inl (item, st1) /\
      same_but_name (rs_g st1) (rs_g st') item /\
      rs_scope st' = rs_scope st1 ++ [(id_string id, (item, off (id_span id)))].
  Proof. exact (let_only_names_proof u self_name id e st st'). Qed.

  (** ... and evaluating an expression only extends the graph and leaves the scope alone *)
  Theorem expressions_only_extend e st item st' :
    eval_expr u self_name e st = inl (item, st') -> nofree (rs_g st) ->
    gframe (rs_g st) (rs_g st') /\ rs_scope st' = rs_scope st.
  Proof. exact (mframe_eval_expr u self_name e st item st'). Qed.

  (** * 6a. each ill-formedness class <-> its diagnostic, at the construct that detects it, with the
      START OF THE SPAN of the primary label (the reference says nothing about spans; the
      whole-document statement below, [illformed_rejected], is about the class and the name). *)
  Theorem illformed_rejected_at_construct :
    (* undefined name *)
    (forall id st, im_get (rs_scope st) (id_string id) = None <->
                   local_item id st = inr (FErr (EUndefinedName (id_string id) (off (id_span id))))) /\
    (* duplicate name *)
    (forall id n st, im_get (rs_scope st) (id_string id) <> None <->
                     register_name u id n st = inr (FErr (EDuplicateName (id_string id) (off (id_span id))))) /\
    (* duplicate argument *)
    (forall t nm item at_ st, has_key t nm = true <->
                              tbl_insert t nm item at_ st = inr (FErr (EDuplicateInstantiationArg nm at_))) /\
    (* missing argument: once the arguments are passed *)
    (forall evalf pkg args st id s0 pd t1 req s1 t2 s2 s3 inst s4 nm a,
       str_eqb (pn_name pkg) self_name = false ->
       resolve_package u (pn_name pkg) (pn_version pkg) (off (pn_span pkg)) st = inl (id, s0) ->
       pkg_desc u (rs_g s0) id = Some pd ->
       pass1 u evalf (text_items u (pd_imports pd)) args [] true s0 = inl ((t1, req), s1) ->
       pass2 u args (map fst (text_items u (pd_imports pd))) t1 s1 = inl (t2, s2) ->
       gop (fun g => instantiate u g id) s2 = inl (ONode inst, s3) ->
       set_args u inst t2 s3 = inl (tt, s4) ->
       (new_expr u self_name evalf pkg args st = inr (FErr (EMissingInstantiationArg nm a)) <->
        req = true /\ a = off (pn_span pkg) /\
        exists k, find (fun p => negb (has_key t2 (fst p))) (text_items u (pd_imports pd)) = Some (nm, k))) /\
    (* access on a non-instance *)
    (forall item pe parent st nd, get_node (rs_g st) item = Some nd ->
       forall a, eval_postfix u item pe parent st = inr (FErr (ENotAnInstance OpAccess a)) <->
                 inst_exports u (nitem nd) = None /\ a = parent) /\
    (* spread of a non-instance; ineffective spread *)
    (forall id expected t st item at0 nd,
       nofree (rs_g st) -> NoDup expected ->
       im_get (rs_scope st) (id_string id) = Some (item, at0) -> get_node (rs_g st) item = Some nd ->
       (forall a, spread_arg u id expected t st = inr (FErr (ENotAnInstance OpSpread a)) <->
                  inst_exports u (nitem nd) = None /\ a = off (id_span id)) /\
       (forall a, spread_arg u id expected t st = inr (FErr (ESpreadInstantiationNoMatch a)) <->
                  exists ex, inst_exports u (nitem nd) = Some ex /\ spread_filter t ex expected = [] /\ a = off (id_span id))) /\
    (* fill not last *)
    (forall evalf imports sp b r t req st,
       pass1 u evalf imports (AFill sp :: b :: r) t req st = inr (FErr (EFillArgumentNotLast (off sp)))) /\
    (* conflicting export *)
    (forall item nm at_ st,
       (forall n a, im_get (rs_scope st) nm = Some (n, a) -> get_node (rs_g st) n <> None) ->
       (export_item u item nm at_ st = inr (FErr (EDuplicateExternName XExport nm at_)) <->
        defines st nm = false /\ alist_get N.eqb (exports (rs_g st)) (ru_intern u nm) <> None)).
  Proof.
    split; [exact local_item_undefined|]. split; [exact (register_name_duplicate u)|].
    split; [exact tbl_insert_duplicate|]. split; [exact (new_expr_missing u self_name)|].
    split; [exact (access_not_instance_iff u)|]. split; [exact (spread_arg_errors u)|].
    split; [exact (pass1_fill_not_last u)|exact (export_item_conflict u)].
  Qed.
End C04.

(** * 6. Whole documents: the resolver model simulates the reference evaluation.

    [uok u K]: well-formedness of the universe (the name table is a bijection on the names in use, the
    [packages] map points into the package table, import names of a package are pairwise different,
    kinds are closed under the oracles and are indexes of [u_lkinds]).  [Rel u K st env vm]: the
    resolver state [st] DENOTES the composition [env], with [vm] the value of every node: every node
    has a kind-correct value (import / k-th instantiation / access of its source's value), the scope,
    the export map and the explicit imports are the denoted ones in order, and the argument edges of
    every instantiation node are exactly the bound imports of the denoted instantiation
    ([composition_observed] spells this out on the graph queries).

    For every document without a [targets] clause:
      - the reference denotes a composition  iff  the model resolves, and then the resulting state
        denotes that composition;
      - the reference makes the document ill-formed with class [c] (and name)  iff  the model rejects
        it, with a diagnostic of that class (and name) -- [FUnsupported] corresponding to
        [IOutOfScope] (type statements, inline interfaces, declared types in function types);
      - the model never panics. *)
Theorem document_simulation (u : runiverse) (K : kid -> Prop) (d : document) :
  uok u K -> pd_targets (doc_directive d) = None ->
  match resolve u d, denote impl_flags_c04 u d with
  | inl st, inl env => exists vm, Rel u K st env vm
  | inr f, inr i => fail_matches f i
  | _, _ => False
  end.
Proof. exact (resolve_simulates_denote u K d). Qed.

Theorem illformed_rejected (u : runiverse) (K : kid -> Prop) (d : document) :
  uok u K -> pd_targets (doc_directive d) = None ->
  (forall c, denote impl_flags_c04 u d = inr c <-> exists f, resolve u d = inr f /\ fail_matches f c) /\
  (forall e c, resolve u d = inr (FErr e) -> denote impl_flags_c04 u d = inr c -> class_of e = c) /\
  (forall p, resolve u d <> inr (FPanic p)) /\
  ((exists env, denote impl_flags_c04 u d = inl env) <-> (exists st, resolve u d = inl st)).
Proof.
  intros U NT. pose proof (resolve_simulates_denote u K d U NT) as S.
  destruct (resolve u d) as [st|f] eqn:E1, (denote impl_flags_c04 u d) as [env|i] eqn:E2; try (exfalso; exact S).
  - split; [intros c; split; [discriminate|intros (f & X & _); discriminate]|].
    split; [discriminate|]. split; [discriminate|]. split; eauto.
  - split.
    + intros c. split.
      * intros [= <-]. eauto.
      * intros (f' & [= <-] & M). destruct f as [e|p|w]; cbn in S, M; [congruence| |congruence]. destruct S.
    + split; [intros e c [= ->] [= <-]; exact S|]. split.
      * intros p [= ->]. exact S.
      * split; intros [x X]; discriminate.
Qed.

(** What "denotes" means on the queries of the resulting graph. *)
Theorem composition_observed (u : runiverse) (K : kid -> Prop) st env vm :
  uok u K -> Rel u K st env vm ->
  (* exports, in order *)
  Forall2 (fun a b => ru_text u (fst a) = fst b /\ nth_error vm (snd a) = Some (snd b)) (exports (rs_g st)) (se_exports env) /\
  (* explicit imports, in order *)
  Forall2 (fun a b => ru_text u (fst a) = fst b /\ nth_error vm (snd a) = Some (VImport (fst b)) /\
                      exists nd, get_node (rs_g st) (snd a) = Some nd /\ nk nd = NImport (fst a) /\ nitem nd = snd b)
          (rev (imports (rs_g st))) (se_imports env) /\
  (* alias nodes *)
  (forall k w e, nth_error vm k = Some (VAccess w e) ->
     exists src nm, get_alias_source u (rs_g st) k = Some (src, nm) /\ ru_text u nm = e /\ nth_error vm src = Some w) /\
  (* every denoted instantiation has a node ... *)
  (forall j, j < length (se_insts env) -> exists k, nth_error vm k = Some (VInst j)) /\
  (* ... whose arguments are exactly the bound imports, with the denoted values *)
  (forall k j si, nth_error vm k = Some (VInst j) -> nth_error (se_insts env) j = Some si ->
     exists pd id nd,
       nth_error (u_pkgs u) (si_pkg si) = Some pd /\ get_node (rs_g st) k = Some nd /\ npkg nd = Some id /\
       get_pkg (rs_g st) id = Some (si_pkg si) /\ nitem nd = pd_inst pd /\
       map fst (si_bindings si) = map fst (text_items u (pd_imports pd)) /\
       (forall a src, In (a, src) (get_args u (rs_g st) k) ->
          exists idx kd b v, nth_error (pd_imports pd) idx = Some (a, kd) /\
            nth_error (si_bindings si) idx = Some (ru_text u a, b) /\ binding_value (ru_text u a) b = Some v /\
            nth_error vm src = Some v) /\
       (forall idx a kd b, nth_error (pd_imports pd) idx = Some (a, kd) ->
          nth_error (si_bindings si) idx = Some (ru_text u a, b) ->
          match binding_value (ru_text u a) b with
          | Some v => exists src, In (a, src) (get_args u (rs_g st) k) /\ nth_error vm src = Some v /\
                        forall src', In (a, src') (get_args u (rs_g st) k) -> src' = src
          | None => forall src, ~ In (a, src) (get_args u (rs_g st) k)
          end)).
Proof.
  intros U R. split; [exact (obs_exports u K U st env vm R)|]. split; [exact (obs_imports u K U st env vm R)|].
  split; [exact (obs_alias u K st env vm R)|]. split; [exact (r_insts _ _ _ _ _ R)|exact (obs_args u K U st env vm R)].
Qed.

(** * 7. End to end with C01/C02.  For a document the resolver model accepts: the document denotes a
    composition, the resulting graph denotes it ([Rel]), and for every topological emission order and
    every behaviour of the type encoder, whenever the model of the structural encoder
    ([EncodeModel.encode_with_order], tied to the code by C02) succeeds, its log decodes to exactly the
    wiring of that graph ([WiringSpec.wiring_spec]: every instantiation once with its package's
    component, every argument bound to the designated item, every export bound to the designated
    item).  Side conditions as in C02 [wiring_correct]; its [EncInv] is discharged by C01
    [enc_inv_reachable] because the resolver's graphs are reachable and contain no type definition. *)
Theorem resolved_document_encodes_its_wiring (u : runiverse) K d e st dc tau ord stE names :
  uok u K -> pd_targets (doc_directive d) = None -> resolve u d = inl st ->
  ValidEncInv.UnivOK e u -> WiringSpec.topo_orderb (rs_g st) ord = true ->
  EncodeModel.encode_with_order e u (rs_g st) dc tau ord = EncodeModel.ROk (stE, names) ->
  (forall p, In p (EncodeModel.e_dedup stE) -> fst p = snd p) ->
  exists env vm,
    denote impl_flags_c04 u d = inl env /\ Rel u K st env vm /\
    option_map (Wiring.erase_defs (WiringSpec.def_names e (rs_g st))) (Wiring.decode_wiring names (EncodeModel.e_log stE))
      = Some (WiringSpec.wiring_spec e u (rs_g st) dc ord).
Proof. exact (ResolverEndToEnd.resolved_document_wiring u K d e st dc tau ord stE names). Qed.

(** * The reference as written is contradicted by the faithful model (findings) *)

(** 3-refuted. [p.f] where [p] exports both [f] and [x:y/f]: the reference as written selects the
    path [x:y/f] ("exactly one export with [f] as the final component of a path"), the resolver
    selects [f]. *)
Theorem access_spec_doc_refuted :
  exists (u : runiverse) (src : str),
    exported_alias u src = Some (Some (0, ru_intern u (L"f"))) /\
    denoted_exports doc_flags u src = Some (inl [(L"out", VAccess (VInst 0) (L"x:y/f"))]) /\
    denoted_exports impl_flags_c04 u src = Some (inl [(L"out", VAccess (VInst 0) (L"f"))]).
Proof.
  exists w_universe, w_access. split; [exact w_access_model|]. split; [exact w_access_doc|exact w_access_known].
Qed.

(** 4b-refuted. A spread export all of whose names are already exported: the reference as written
    creates no new export and makes only "no exports" an error; the resolver rejects the statement. *)
Theorem export_spread_doc_refuted :
  exists (u : runiverse) (src : str),
    (exists a, resolve_error u src = Some (FErr (ESpreadExportNoEffect a))) /\
    (exists l, denoted_exports doc_flags u src = Some (inl l)) /\
    denoted_exports impl_flags_c04 u src = Some (inr IIneffectiveSpread).
Proof.
  exists w_universe, w_spread2. split; [exact w_spread2_model|]. split; [eexists; exact w_spread2_doc|exact w_spread2_known].
Qed.

(** Non-vacuity: a program with an inferred, a spread, a named and a fill argument resolves in the
    model to the arguments the reference evaluation gives. *)
Example four_argument_forms :
  model_args w_universe w_args = Some [(3, [(1%N, 2); (0%N, 0)]); (4, [(1%N, 0)])].
Proof. exact w_args_model. Qed.

(** Non-vacuity of the simulation theorem: its hypotheses hold of a concrete universe (an injective name
    table: strings as positives), and it applies to the program with the four argument forms. *)
Example simulation_hypotheses_satisfiable : uok v_universe v_K.
Proof. exact v_uok. Qed.

Example simulation_instance :
  exists d, parse w_args = Some d /\
    exists st env vm, resolve v_universe d = inl st /\ denote impl_flags_c04 v_universe d = inl env /\
                      Rel v_universe v_K st env vm.
Proof. destruct v_parses as [d P]. exists d. split; [exact P|exact (v_instance d P)]. Qed.

Print Assumptions arg_name_spec.
Print Assumptions arg_binding_spec.
Print Assumptions resolved_graph_invariant.
Print Assumptions spread_fill_spec.
Print Assumptions fill_must_be_last.
Print Assumptions access_spec.
Print Assumptions export_name_spec.
Print Assumptions export_spread_name_spec.
Print Assumptions import_name_spec.
Print Assumptions let_only_names.
Print Assumptions expressions_only_extend.
Print Assumptions illformed_rejected_at_construct.
Print Assumptions document_simulation.
Print Assumptions illformed_rejected.
Print Assumptions composition_observed.
Print Assumptions resolved_document_encodes_its_wiring.
Print Assumptions access_spec_doc_refuted.
Print Assumptions export_spread_doc_refuted.
