(** C08 — placeholder while the proofs are being written. *)
From WacV Require Import Str Types Convert ConvertSpec.
