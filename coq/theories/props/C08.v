(** C08 — Decoding a package preserves its component type; re-encoding stays satisfiable.

    PARTIAL by design (DESIGN.md §5 C08, §10).  wasmparser's validator and its type information are external Rust
    code; they enter as data (the abstract type graph [Convert.vgraph], produced per component by an independent
    walk over the validator's type information).  The theorems are about the wac conversion logic — the model
    [Convert.from_graph] of [Package::from_bytes] / [TypeConverter] (cache, [owners], [resource_map],
    [use_or_own], self-ownership reset, [find_definitions]) — against the specification [ConvertSpec], which is
    written over that graph and the arena-free tree denotation [Types.unfold].

    Statements only; proofs in proofs/Convert{Proofs,Frame,Tree,Entity}.v. *)
From WacV Require Import Str Types Convert ConvertSpec ConvertProofs ConvertFrame ConvertTree ConvertEntity ConvertCache.

(** 1. The world lists exactly the component's imports and exports: same names, same order, item-wise the right
    kind; the instance type of the package is the export list.  (The hypotheses are the validator's guarantee that
    import names, and export names, are unique; without them [IndexMap] would collapse entries.) *)
Theorem convert_lists_exactly : forall hfuel fuel g t0 p t,
  NoDup (map fst (vg_imports g)) -> NoDup (map fst (vg_exports g)) ->
  from_graph hfuel fuel g t0 = COk (p, t) ->
  lists_exactly g t p.
Proof. exact lists_exactly_holds. Qed.
Print Assumptions convert_lists_exactly.

(** 2. Faithfulness on the resource-free fragment: every item of the world unfolds to EXACTLY the tree of the
    validator entity — function parameter names, order, result, async flag; every value-type constructor
    (primitive, record, variant, list, fixed-size list, tuple, flags, enum, option, result with each arm present
    or absent, future, stream); names and order of the items of nested instance and component types; core module
    types.  [spec_tree] is [None] below a resource ([own], [borrow], resource type items) and for [map] types, so
    nothing is claimed there: that is the [_partial].

    Full statement (not proved): the same with resources, each [own r] / [borrow r] denoting the resource of [r]
    up to the one-to-one renaming of [ConvertSpec.resources_agree] — see [resource_alias_spec] below. *)
Theorem convert_tree_faithful_partial : forall hfuel fuel g t0 p t,
  NoDup (map fst (vg_imports g)) -> NoDup (map fst (vg_exports g)) ->
  from_graph hfuel fuel g t0 = COk (p, t) ->
  exists w, get_world t (pk_ty p) = Some w /\
    Forall2 (fun a b => fst a = fst b /\ tree_faithful g t (snd a) (snd b)) (vg_imports g) (w_imports w) /\
    Forall2 (fun a b => fst a = fst b /\ tree_faithful g t (snd a) (snd b)) (vg_exports g) (w_exports w).
Proof. intros hfuel fuel g. exact (tree_faithful_holds g hfuel fuel). Qed.
Print Assumptions convert_tree_faithful_partial.

(** the boolean predicate that the correspondence driver evaluates on the REAL implementation's arenas implies
    the declarative statement of 1. *)
Theorem lists_exactly_b_implies : forall g t p, lists_exactly_b g t p = true -> lists_exactly g t p.
Proof. exact lists_exactly_b_sound. Qed.
Print Assumptions lists_exactly_b_implies.

(** 3. Cache consistency (model level).  Assume the validator's type graph is well founded ([ranked]: a rank that
    decreases along every reference — a type does not contain itself).  Then
    (a) every conversion step keeps the cache free of duplicate keys and retains every earlier entry unchanged
        ([later]): the cache is never overwritten;
    (b) whatever a conversion of a validator entity returned is exactly what ANY later conversion of the same entity
        returns, and that later conversion changes nothing: the same validator identifier always yields the same wac
        identifier (functions, defined types, instance types, component types, module types, resources).
    That distinct identifiers with equal trees yield tree-equal types is a corollary of 2. on the resource-free
    fragment (both unfold to the one tree).

    Not proved: the converse direction observed by the correspondence ([ids_one_to_one_b]: distinct validator
    identifiers get distinct wac identifiers) and the success of the joint traversal [walk_package]. *)
Theorem convert_cache_consistent : forall g rk, ranked g rk ->
  (forall hfuel fuel n e s k s',
     inv s -> c_entity hfuel fuel g n e s = COk (k, s') -> inv s' /\ later s s') /\
  (forall hfuel fuel fuel' n n' e s k s1 s2,
     c_entity (S hfuel) fuel g n e s = COk (k, s1) -> later s1 s2 ->
     c_entity (S hfuel) (S fuel') g n' e s2 = COk (k, s2)).
Proof.
  intros g rk HR. split.
  - intros hfuel fuel n e s k s'. exact (entity_later g rk HR hfuel fuel n e s k s').
  - intros hfuel fuel fuel' n n' e s k s1 s2. exact (entity_twice g hfuel fuel fuel' n n' e s k s1 s2).
Qed.
Print Assumptions convert_cache_consistent.

(** 4.-5. Stated, not proved; their executable forms are evaluated on every implementation observation by the
    correspondence ([walk_package], [ids_one_to_one_b], [resources_agree_b], [expected_uses] / [uses_agree_b]).

    use_synthesis_spec :
      ... -> expected_uses hfuel g (sites_of evs) [] [] = Some l /\ uses_agree t l
      (a `use` entry exists exactly for a type item whose referenced type goes back, through the validator's alias
       links, to an item first exported by another interface; it names that interface and the original item name,
       the latter only when it differs)

    resource_alias_spec_partial :
      ... -> res_pairs ufuel g t (maps_of evs) = Some l /\ resources_agree l
      (two converted resources have the same alias root iff the validator gives them the same resource)

    reencode_satisfiable : not stated in Coq (TypeEncoder is not modelled); tested against the reference validator
      for every generated component, see tools/props/c08.py. *)

(** Non-vacuity: a component importing [f: func(x: record { a: u8, b: option<string> }) -> result<_, u32>] under an
    interface name and re-exporting a type; the model converts it, the world has one import and one export, and
    the imported instance unfolds to the expected tree. *)
Definition n_r : str := [114].   Definition n_f : str := [102].   Definition n_a : str := [97].
Definition n_b : str := [98].   Definition n_x : str := [120].   Definition n_t : str := [116].
Definition n_abc : str := [97; 58; 98; 47; 99].                        (* "a:b/c" *)
Definition ex_empty : types := mktypes 1 [] [] [] [] [] [].
Definition ex_graph : vgraph :=
  (mkvg [ (NInst [(n_r, EType 1 2); (n_f, EFunc 4)], None);                          (* 0: instance { r, f } *)
          (NDef (WDRecord [(n_a, WPrim PU8); (n_b, WRef 3)]), None);                   (* 1: record *)
          (NDef (WDRecord [(n_a, WPrim PU8); (n_b, WRef 3)]), Some 1);                 (* 2: its exported copy *)
          (NDef (WDOption (WPrim PString)), None);                                      (* 3 *)
          (NFunc false [(n_x, WRef 2)] (Some (WRef 5)), None);                          (* 4 *)
          (NDef (WDResult None (Some (WPrim PU32))), None) ]                            (* 5 *)
        [(n_abc, EInstance 0)] [(n_t, EType 2 2)] [n_abc])%nat.

Definition ex_expected (r : cres (package * types)) : Prop :=
  match r with
  | COk (p, t) =>
    match get_world t (pk_ty p) with
    | Some w =>
      map fst (w_imports w) = [n_abc] /\ map fst (w_exports w) = [n_t] /\
      option_map (unfold 20 t) (option_map snd (hd_error (w_imports w))) =
      Some (spec_tree 20 ex_graph (EInstance 0%nat)) /\
      spec_tree 20 ex_graph (EInstance 0%nat) =
      Some (XInst [(n_r, XTValue (VTRecord [(n_a, VTPrim PU8); (n_b, VTOption (VTPrim PString))]));
                   (n_f, XFunc (mkft [(n_x, VTRecord [(n_a, VTPrim PU8); (n_b, VTOption (VTPrim PString))])]
                                     (Some (VTResult None (Some (VTPrim PU32)))) false))])
    | None => False
    end
  | _ => False
  end.
Example convert_nonvacuous : ex_expected (from_graph 20 20 ex_graph ex_empty).
Proof. vm_compute. repeat split. Qed.
