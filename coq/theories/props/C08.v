(** C08 — Decoding a package preserves its component type; re-encoding stays satisfiable.

    PARTIAL by design (DESIGN.md §5 C08, §10).  wasmparser's validator and its type information are external Rust
    code; they enter as data (the abstract type graph [Convert.vgraph], produced per component by an independent
    walk over the validator's type information).  The theorems are about the wac conversion logic — the model
    [Convert.from_graph] of [Package::from_bytes] / [TypeConverter] (cache, [owners], [resource_map],
    [use_or_own], self-ownership reset, [find_definitions]) — against the specification [ConvertSpec], which is
    written over that graph and the arena-free tree denotation [Types.unfold].

    Statements only; proofs in proofs/Convert{Proofs,Frame,Tree,Entity}.v. *)
From WacV Require Import Str Types Convert ConvertSpec ConvertProofs ConvertFrame ConvertTree ConvertEntity ConvertCache ConvertUses ConvertIds ConvertTotal ConvertPanic.

(** 1. The world lists exactly the component's imports and exports: same names, same order, item-wise the right
    kind; the instance type of the package is the export list.  (The hypotheses are the validator's guarantee that
    import names, and export names, are unique; without them [IndexMap] would collapse entries.) *)
Theorem convert_lists_exactly : forall hfuel fuel g t0 p t,
  NoDup (map fst (vg_imports g)) -> NoDup (map fst (vg_exports g)) ->
  from_graph hfuel fuel g t0 = COk (p, t) ->
  lists_exactly g t p.
Proof. exact lists_exactly_holds. Qed.
Print Assumptions convert_lists_exactly.

(** 2. Faithfulness on the resource-free fragment: every item of the world unfolds to EXACTLY the tree of the
    validator entity — function parameter names, order, result, async flag; every value-type constructor
    (primitive, record, variant, list, fixed-size list, tuple, flags, enum, option, result with each arm present
    or absent, future, stream); names and order of the items of nested instance and component types; core module
    types.  [spec_tree] is [None] below a resource ([own], [borrow], resource type items) and for [map] types, so
    nothing is claimed there: that is the [_partial].

    Full statement (not proved): the same with resources, each [own r] / [borrow r] denoting the resource of [r]
    up to the one-to-one renaming of [ConvertSpec.resources_agree] — see [resource_alias_spec] below. *)
Theorem convert_tree_faithful_partial : forall hfuel fuel g t0 p t,
  NoDup (map fst (vg_imports g)) -> NoDup (map fst (vg_exports g)) ->
  from_graph hfuel fuel g t0 = COk (p, t) ->
  exists w, get_world t (pk_ty p) = Some w /\
    Forall2 (fun a b => fst a = fst b /\ tree_faithful g t (snd a) (snd b)) (vg_imports g) (w_imports w) /\
    Forall2 (fun a b => fst a = fst b /\ tree_faithful g t (snd a) (snd b)) (vg_exports g) (w_exports w).
Proof. intros hfuel fuel g. exact (tree_faithful_holds g hfuel fuel). Qed.
Print Assumptions convert_tree_faithful_partial.

(** the boolean predicate that the correspondence driver evaluates on the REAL implementation's arenas implies
    the declarative statement of 1. *)
Theorem lists_exactly_b_implies : forall g t p, lists_exactly_b g t p = true -> lists_exactly g t p.
Proof. exact lists_exactly_b_sound. Qed.
Print Assumptions lists_exactly_b_implies.

(** 3. Cache consistency (model level).  Assume the validator's type graph is well founded ([ranked]: a rank that
    decreases along every reference — a type does not contain itself).  Then
    (a) every conversion step keeps the cache free of duplicate keys and retains every earlier entry unchanged
        ([later]): the cache is never overwritten;
    (b) whatever a conversion of a validator entity returned is exactly what ANY later conversion of the same entity
        returns, and that later conversion changes nothing: the same validator identifier always yields the same wac
        identifier (functions, defined types, instance types, component types, module types, resources).
    That distinct identifiers with equal trees yield tree-equal types is a corollary of 2. on the resource-free
    fragment (both unfold to the one tree).

    Not proved: the converse direction observed by the correspondence ([ids_one_to_one_b]: distinct validator
    identifiers get distinct wac identifiers) and the success of the joint traversal [walk_package]. *)
Theorem convert_cache_consistent : forall g rk, ranked g rk ->
  (forall hfuel fuel n e s k s',
     inv s -> c_entity hfuel fuel g n e s = COk (k, s') -> inv s' /\ later s s') /\
  (forall hfuel fuel fuel' n n' e s k s1 s2,
     c_entity (S hfuel) fuel g n e s = COk (k, s1) -> later s1 s2 ->
     c_entity (S hfuel) (S fuel') g n' e s2 = COk (k, s2)).
Proof.
  intros g rk HR. split.
  - intros hfuel fuel n e s k s'. exact (entity_later g rk HR hfuel fuel n e s k s').
  - intros hfuel fuel fuel' n n' e s k s1 s2. exact (entity_twice g hfuel fuel fuel' n n' e s k s1 s2).
Qed.
Print Assumptions convert_cache_consistent.

(** 3b. The other direction: two DISTINCT validator identifiers are never converted to the same [wac_types] slot
    (defined type, function type, interface, world, module type, resource -- an alias resource is a slot of its own).
    The handle value types [own r] / [borrow r] occupy no slot ([ent_slot = None]) and are the only shared values.
    [s] is the converter's final state ([conv_items] = the two loops of [from_bytes]). *)
Theorem convert_ids_injective : forall g hfuel fuel t0 imports exports s,
  conv_items hfuel fuel g t0 = COk (imports, exports, s) ->
  forall v1 v2 e1 e2 x, In (v1, e1) (cs_cache s) -> In (v2, e2) (cs_cache s) ->
    ent_slot e1 = Some x -> ent_slot e2 = Some x -> v1 = v2.
Proof. exact ids_injective. Qed.
Print Assumptions convert_ids_injective.

(** 4. Used-type provenance.  [cs_log s] is the ghost log of the converter: the type items (owner, name, referenced,
    created) in the order in which [use_or_own] met them.  The [uses] field of EVERY interface and world of the
    resulting collection is exactly what the first-owner rule [ConvertSpec.replay] computes from that ordered list, and
    the converter's [owners] table is the rule's origin table ([replay] spells out when an entry is created: the
    referenced type has an origin, through the validator's alias links or through a created identifier remembered
    earlier, and that origin is an interface other than the owner; original items, self-owned types and origins that are
    component types get no entry). *)
Theorem use_synthesis_spec : forall g hfuel fuel t0 imports exports s,
  uses_free t0 -> conv_items hfuel fuel g t0 = COk (imports, exports, s) ->
  exists st, replay hfuel g (map usite_of (cs_log s)) ust0 = Some st /\
             u_origins st = cs_owners s /\
             forall o x, slot_uses (cs_types s) o = Some x -> x = uses_for o (u_entries st).
Proof. intros g hfuel. exact (uses_replay g hfuel). Qed.
Print Assumptions use_synthesis_spec.

(** ... and every entry the rule produces is sound: it never points to the interface it is in, and it names an item
    (the original name, recorded only when it differs) that was ORIGINAL in the interface it points to: met when no
    identifier on the alias chain of its referenced type had an origin, i.e. the first owner. *)
Theorem use_entries_point_to_first_owner : forall fuel g sites st,
  replay fuel g sites ust0 = Some st ->
  forall o n i om, In (o, (n, (i, om))) (u_entries st) ->
    o <> OwIface i /\ original fuel g sites (OwIface i) (match om with Some x => x | None => n end).
Proof. exact replay_entries_sound. Qed.
Print Assumptions use_entries_point_to_first_owner.

(** 5. Resource identity and aliasing (as far as [resource_map] carries it): any two converted resources have alias
    roots, and the roots coincide iff the validator gives the two identifiers the same underlying resource
    ([AliasableResourceId::resource()]). *)
Theorem resource_alias_spec : forall g hfuel fuel t0 imports exports s,
  conv_items hfuel fuel g t0 = COk (imports, exports, s) ->
  forall v1 v2 r1 r2, In (v1, EnRes r1) (cs_cache s) -> In (v2, EnRes r2) (cs_cache s) ->
    exists rid1 rid2 root1 root2,
      rid_of_node g v1 = Some rid1 /\ rid_of_node g v2 = Some rid2 /\
      res_root 2 (cs_types s) r1 = Some root1 /\ res_root 2 (cs_types s) r2 = Some root2 /\
      (root1 = root2 <-> rid1 = rid2).
Proof. exact resources_identity. Qed.
Print Assumptions resource_alias_spec.

(** 6. Totality.
    (a) Fuel is an artefact: on a well-founded graph ([rk] decreases along every reference of a node, [pk] along every
        [peel_alias] link) with fuel above the ranks, the conversion never returns the out-of-fuel outcome. *)
Theorem conversion_never_out_of_fuel : forall g rk pk,
  ranked g rk -> (forall v p, peel_of g v = Some p -> (pk p < pk v)%nat) ->
  forall hfuel fuel t0,
    (forall v, (rk v < hfuel)%nat) -> (forall v, (pk v < hfuel)%nat) -> (forall v, (S (rk v) < fuel)%nat) ->
    conv_items hfuel fuel g t0 <> COutOfFuel.
Proof. exact conv_items_noof. Qed.
Print Assumptions conversion_never_out_of_fuel.

(** (b) Panics.  On a well-typed graph ([wt_graph_b]: every reference points to a node of the expected sort, item names
        are unique inside an instance type and inside the import / export list of a component type -- evaluated by the
        driver on every case) the conversion never indexes an arena out of range ([PBadIndex]), never finds an entry of
        the wrong kind in its cache ([PInvalidCached]) and never inserts an item twice ([PDupItem]); [mild] allows only
        [PDupOwner] and [PExpectedResource].

        PARTIAL.  Full statement: "... and returns a panic only in the situation of finding F1".  Missing:
        - [PExpectedResource] (a handle [own r] / [borrow r] met before the resource type item [r] was converted) is not
          excluded: it depends on the ORDER of the items, for which no graph predicate is given here; it was never
          observed (0 of > 46,000 generated components);
        - for [PDupOwner] the situation is characterised exactly on the run ([dup_owner_needs_shared_created] below) and
          by the decidable graph predicate [ConvertSpec.shares_created_b]; that the panic implies the graph predicate
          needs "every instance / component type node is converted at most once", which is not proved; the
          correspondence checks  panic <-> predicate  on every case (22 panics = 22 graphs with the predicate in 6,236). *)
Theorem conversion_panics_only_partial : forall g, wt_graph_b g = true ->
  forall hfuel fuel t0, mild (conv_items hfuel fuel g t0).
Proof. exact conv_items_mild. Qed.
Print Assumptions conversion_panics_only_partial.

(** (c) The dup-owner panic, exactly: [use_or_own] panics iff the referenced identifier has no origin on its alias chain
        while the created identifier already has one; and then (the [owners] table being the origin table of the type
        items met so far) an EARLIER type item has the same created identifier -- two type items sharing a created
        identifier is the situation of finding F1 (the validator's copies of an instance type). *)
Theorem dup_owner_needs_shared_created : forall hfuel g vn ow name rf cr s,
  log_ok g hfuel s -> use_or_own hfuel g vn ow name rf cr s = CPanic PDupOwner ->
  find_owner hfuel g (cs_owners s) rf = Some None /\ exists x, In x (cs_log s) /\ st_cr x = cr.
Proof. exact dup_owner_situation. Qed.
Print Assumptions dup_owner_needs_shared_created.

(** Not proved: that the joint traversal [walk_package] of the correspondence succeeds and visits the type items in
    the order of [cs_log] (the observational forms [ids_one_to_one_b], [resources_agree_b], [expected_uses] /
    [uses_agree_b] are evaluated on every implementation observation);
    reencode_satisfiable: not stated in Coq (TypeEncoder is not modelled); tested against the reference validator
    for every generated component, see tools/props/c08.py. *)

(** Non-vacuity: a component importing [f: func(x: record { a: u8, b: option<string> }) -> result<_, u32>] under an
    interface name and re-exporting a type; the model converts it, the world has one import and one export, and
    the imported instance unfolds to the expected tree. *)
Definition n_r : str := [114].   Definition n_f : str := [102].   Definition n_a : str := [97].
Definition n_b : str := [98].   Definition n_x : str := [120].   Definition n_t : str := [116].
Definition n_abc : str := [97; 58; 98; 47; 99].                        (* "a:b/c" *)
Definition ex_empty : types := mktypes 1 [] [] [] [] [] [].
Definition ex_graph : vgraph :=
  (mkvg [ (NInst [(n_r, EType 1 2); (n_f, EFunc 4)], None);                          (* 0: instance { r, f } *)
          (NDef (WDRecord [(n_a, WPrim PU8); (n_b, WRef 3)]), None);                   (* 1: record *)
          (NDef (WDRecord [(n_a, WPrim PU8); (n_b, WRef 3)]), Some 1);                 (* 2: its exported copy *)
          (NDef (WDOption (WPrim PString)), None);                                      (* 3 *)
          (NFunc false [(n_x, WRef 2)] (Some (WRef 5)), None);                          (* 4 *)
          (NDef (WDResult None (Some (WPrim PU32))), None) ]                            (* 5 *)
        [(n_abc, EInstance 0)] [(n_t, EType 2 2)] [n_abc])%nat.

Definition ex_expected (r : cres (package * types)) : Prop :=
  match r with
  | COk (p, t) =>
    match get_world t (pk_ty p) with
    | Some w =>
      map fst (w_imports w) = [n_abc] /\ map fst (w_exports w) = [n_t] /\
      option_map (unfold 20 t) (option_map snd (hd_error (w_imports w))) =
      Some (spec_tree 20 ex_graph (EInstance 0%nat)) /\
      spec_tree 20 ex_graph (EInstance 0%nat) =
      Some (XInst [(n_r, XTValue (VTRecord [(n_a, VTPrim PU8); (n_b, VTOption (VTPrim PString))]));
                   (n_f, XFunc (mkft [(n_x, VTRecord [(n_a, VTPrim PU8); (n_b, VTOption (VTPrim PString))])]
                                     (Some (VTResult None (Some (VTPrim PU32)))) false))])
    | None => False
    end
  | _ => False
  end.
Example convert_nonvacuous : ex_expected (from_graph 20 20 ex_graph ex_empty).
Proof. vm_compute. repeat split. Qed.
