(** Property C05 -- WIT declarations in WAC mean what WIT means.
    This file holds only statements; every proof is [exact <lemma>] (or a short composition of lemmas).

    Vocabulary.
    - [Decls.v] is the model of the declaration half of the resolver (arena entries); [WitDenote.v] is the
      environment-passing denotation of the same syntax into arena-free trees, written from WIT.md.
    - [uv t v tr], [un t r n], [uf t f ft], [uk t k tr] (DeclsProofsA): the value type / resource / function /
      kind unfolds in the arenas [t] to the tree ([exists fuel, unfold... fuel t _ = Some _]).
    - [aext t t']: every arena of [t'] extends the one of [t] (identifiers keep their meaning).
    - [rel_item t x s]: the scope entry [x : ty] of the resolver and the environment entry [s : sem] of the
      denotation are the same kind of thing and [x] unfolds to [s] (for an interface / world: same id, exports
      and imports related pointwise).  [Renv t scope env], [Rexts t exports items]: pointwise, same names, same order.
    - [Rloc], [Rwst]: the state of an interface / world body against the denotation's body.
    - [Rpk t pkgs penv]: same own package name; the tables of external packages are related by [Renv].
    - [flat t]: no export of an interface or world of [t] is an interface type, a world type or a component.
      Everything the resolver builds from a flat collection is flat ([resolver_keeps_flat]); the empty collection
      is flat.  It is what makes multi-segment paths into the own package unable to name an interface or world.

    Every simulation theorem has the shape: the resolver step returns [DOk] (no error, no panic, no fuel
    exhaustion, nothing unmodelled) => the arenas are extended, the denotation is defined, and the results are
    related in the new arenas. *)
From Coq Require Import String.
From WacV Require Import Str StrLit Types Decls WitDenote
     DeclsProofsA DeclsProofsB DeclsProofsF DeclsProofsC DeclsProofsD DeclsProofsE DeclsProofsR.
From WacV Require Ast.

(** 1. value_types_denote: a type expression that resolves denotes the tree its value type unfolds to. *)
Theorem value_types_denote : forall x cur t e v t',
  Renv t cur e -> resolve_ty cur t x = DOk (v, t') ->
  aext t t' /\ exists tr, den_ty e x = Some tr /\ uv t' v tr.
Proof. exact resolve_ty_sim. Qed.
Print Assumptions value_types_denote.

(** 2. type_decls_denote: records, variants, enums, flags and aliases (of values, resources and functions). *)
Theorem type_decls_denote : forall cur t e d x t',
  Renv t cur e -> plain_decl cur t d = DOk (x, t') ->
  aext t t' /\ exists s, den_plain e d = Some s /\ rel_item t' x s.
Proof. exact plain_decl_sim. Qed.
Print Assumptions type_decls_denote.

(** 3. func_types_denote: free functions, methods (implicit [self: borrow<r>]), statics, constructors
       (implicit result [own<r>]); [res = Some r] is the resource being declared, [rname] its name. *)
Theorem func_types_denote : forall cur t e ps rs k res rname i t',
  Renv t cur e -> (forall r, res = Some r -> un t r rname) ->
  func_type cur t ps rs k res = DOk (i, t') ->
  aext t t' /\ exists ft, den_func e (kmap k) rname ps rs = Some ft /\ uf t' i ft.
Proof. exact func_type_sim. Qed.
Print Assumptions func_types_denote.

Theorem func_type_refs_denote : forall cur t e r f t',
  Renv t cur e -> func_type_ref cur t r = DOk (f, t') ->
  aext t t' /\ exists ft, den_func_ref e r = Some ft /\ uf t' f ft.
Proof. exact func_type_ref_sim. Qed.
Print Assumptions func_type_refs_denote.

(** 4. borrow_in_result_rejected: a declared result type whose denotation contains a borrow is never accepted.
       (Which failure: see the second theorem -- once parameters and result type themselves resolve it is exactly
       [BorrowInResult], or [DFuel]; [DFuel] is excluded by the third theorem under the ranking invariant.) *)
Theorem borrow_in_result_rejected : forall cur t e ps y k res rname v,
  Renv t cur e -> (forall r, res = Some r -> un t r rname) -> den_ty e y = Some v -> has_borrow v = true ->
  forall r, func_type cur t ps (Ast.RLScalar y) k res <> DOk r.
Proof. exact borrow_rejected. Qed.
Print Assumptions borrow_in_result_rejected.

Theorem borrow_in_result_rejected_exact : forall cur t e ps y k res v params t1 vr t2,
  Renv t cur e -> den_ty e y = Some v -> has_borrow v = true -> (k = FMethod -> res <> None) ->
  params_go cur t (self_pre k res) ps = DOk (params, t1) -> resolve_ty cur t1 y = DOk (vr, t2) ->
  func_type cur t ps (Ast.RLScalar y) k res = DErr EBorrowInResult \/ func_type cur t ps (Ast.RLScalar y) k res = DFuel.
Proof. exact borrow_rejected_exact. Qed.
Print Assumptions borrow_in_result_rejected_exact.

(** ... and exactly [BorrowInResult] when the defined arena is ranked by creation order ([def_ranked]: every defined
    type refers to older slots only -- true of the empty collection and preserved by the resolver's [add_defined],
    see [value_types_keep_ranked]) and the value types in scope are in range ([scope_ok]). *)
Theorem borrow_in_result_rejected_ranked : forall cur t e ps y k res v params t1 vr t2,
  def_ranked t -> scope_ok t cur ->
  Renv t cur e -> den_ty e y = Some v -> has_borrow v = true -> (k = FMethod -> res <> None) ->
  params_go cur t (self_pre k res) ps = DOk (params, t1) -> resolve_ty cur t1 y = DOk (vr, t2) ->
  func_type cur t ps (Ast.RLScalar y) k res = DErr EBorrowInResult.
Proof. exact borrow_rejected_ranked. Qed.
Print Assumptions borrow_in_result_rejected_ranked.

Theorem contains_borrow_fuel_suffices : forall t v, def_ranked t -> vbounded t v -> cb_vt (cb_fuel t) t v <> None.
Proof. exact cb_fuel_suffices. Qed.
Print Assumptions contains_borrow_fuel_suffices.

Theorem value_types_keep_ranked : forall x cur t v t',
  def_ranked t -> scope_ok t cur -> resolve_ty cur t x = DOk (v, t') -> def_ranked t' /\ vbounded t' v.
Proof. exact resolve_ty_ranked. Qed.
Print Assumptions value_types_keep_ranked.

(** 5. method_names (arena level, no denotation): [resource r { ms }] adds the resource [r] (a fresh slot, no
       alias), binds and exports [r], then exports one function per member, in order, named [[constructor]r],
       [[method]r.m], [[static]r.m]; [member_fn_ok] says: a method's parameters are [self: borrow<r>] followed by
       the declared names, a static's and a constructor's are exactly the declared names (no [self]), and a
       constructor returns [own<r>]. *)
Theorem method_names : forall dup l i ms l',
  resource_decl dup l i ms = DOk l' ->
  let n := nm i in
  let r := mkid (t_tag (l_types l)) (length (t_resources (l_types l))) in
  frame (l_types l) (l_types l') /\
  get_res (l_types l') r = Some (mkres n None) /\
  l_cur l' = (n, TResource r) :: l_cur l /\ l_uses l' = l_uses l /\
  exists fs, l_exts l' = l_exts l ++ (n, KType (TResource r)) :: fs /\
             map fst fs = map (fun m => member_name n (member_key m) (member_kind m)) ms /\
             Forall2 (fun m kv => member_fn_ok (l_types l') r m (snd kv)) ms fs.
Proof. exact resource_decl_spec. Qed.
Print Assumptions method_names.

(** resources and the other item declarations inside a body against [den_decl] *)
Theorem item_decls_denote : forall dup l b d l',
  Rloc l b -> item_type_decl dup l d = DOk l' ->
  aext (l_types l) (l_types l') /\ exists b', den_decl b d = Some b' /\ Rloc l' b'.
Proof. exact item_type_decl_sim. Qed.
Print Assumptions item_decls_denote.

(** 6. use_spec (arena level): for every item the local name is bound to the SAME [ty] that the source interface
       exports under the original name (a resource or a value type), it is appended to the externs in order, the
       scope grows by exactly these bindings, the arenas do not change; the uses are inserted with [imap_set], which
       is an append under the invariant of resolver-built bodies (second theorem). *)
Theorem use_spec : forall iface x items l l',
  get_if (l_types l) iface = Some x -> use_items iface l items = DOk l' ->
  l_types l' = l_types l /\
  exists ys,
    Forall2 (fun it y => assoc (nm (Ast.ui_id it)) (i_exports x) = Some (KType y) /\ usable y /\
                         assoc (use_local it) (l_cur l') = Some y) items ys /\
    l_exts l' = l_exts l ++ map (fun p => (use_local (fst p), KType (snd p))) (combine items ys) /\
    l_cur l' = rev (map (fun p => (use_local (fst p), snd p)) (combine items ys)) ++ l_cur l /\
    l_uses l' = fold_left (fun u it => imap_set (use_local it) (use_rec iface it) u) items (l_uses l).
Proof. exact use_items_spec. Qed.
Print Assumptions use_spec.

Theorem use_spec_uses : forall iface items l l',
  (forall k, has k (l_uses l) = true -> has k (l_exts l) = true) ->
  use_items iface l items = DOk l' ->
  l_uses l' = l_uses l ++ map (fun it => (use_local it, use_rec iface it)) items /\
  (forall k, has k (l_uses l') = true -> has k (l_exts l') = true).
Proof. exact use_items_uses. Qed.
Print Assumptions use_spec_uses.

Theorem use_type_spec : forall root pkgs l u l',
  use_type root pkgs l u = DOk l' ->
  exists iface, use_source root pkgs (l_types l) (Ast.u_path u) = DOk iface /\ use_items iface l (Ast.u_items u) = DOk l'.
Proof. exact use_type_split. Qed.
Print Assumptions use_type_spec.

Theorem use_denotes : forall root pkgs genv penv l b u l',
  flat (l_types l) -> Renv (l_types l) root genv -> Rpk (l_types l) pkgs penv -> Rloc l b ->
  use_type root pkgs l u = DOk l' ->
  l_types l' = l_types l /\ exists b', den_use genv penv b u = Some b' /\ Rloc l' b'.
Proof. exact use_type_sim. Qed.
Print Assumptions use_denotes.

(** package paths: a path that the resolver resolves to an interface or world type (or a component) denotes the
    related item *)
Theorem package_paths_denote : forall t root pkgs genv penv pp k,
  flat t -> Renv t root genv -> Rpk t pkgs penv -> path_item root pkgs t pp = DOk k -> leafk k = false ->
  exists x s, k = KType x /\ den_path genv penv pp = Some s /\ rel_item t x s.
Proof. exact path_item_sim. Qed.
Print Assumptions package_paths_denote.

(** 7. interface_denotes *)
Theorem interface_denotes : forall root pkgs genv penv t idn items i t',
  flat t -> Renv t root genv -> Rpk t pkgs penv -> interface_body root pkgs t idn items = DOk (i, t') ->
  aext t t' /\ exists e, den_iface genv penv items = Some e /\ rel_item t' (TInterface i) (SIface idn e) /\
                         exists x, get_if t' i = Some x /\ i_id x = idn /\ Rexts t' (i_exports x) e.
Proof. exact interface_body_sim. Qed.
Print Assumptions interface_denotes.

(** 8. include_with_spec: [include w with { a as b, .. }] against [den_include] -- a renaming applies on the import
       side and on the export side alike, interface ids are never renamed and merge, every [from] must be a plain
       name of the included world.  No side condition.  (Before commit 0d98072 of the repository the resolver used up
       a renaming at its first use and this statement was false; see the HISTORICAL example below.) *)
Theorem include_with_spec : forall root pkgs genv penv w wb r items w',
  flat (w_types w) -> Renv (w_types w) root genv -> Rpk (w_types w) pkgs penv -> Rwst w wb ->
  world_include root pkgs w r items = DOk w' ->
  w_types w' = w_types w /\ exists wb', den_include genv penv wb r items = Some wb' /\ Rwst w' wb'.
Proof. exact world_include_sim. Qed.
Print Assumptions include_with_spec.

(** the former witness (the included world imports [f] and exports [f]; [with { f as g }]): the current model and the
    denotation agree, [g] on both sides *)
Example include_renames_both_sides :
  (exists w', world_include rb_root (mkpkgs [] []) rb_w0 (Ast.WRIdent (rb_ident (L"w"))) rb_items = DOk w' /\
              map fst (w_imp w') = [L"g"] /\ map fst (w_exp w') = [L"g"]) /\
  (exists wb', den_include rb_genv (mkpenv [] []) rb_wb0 (Ast.WRIdent (rb_ident (L"w"))) rb_items = Some wb' /\
               map fst (b_items (wb_imp wb')) = [L"g"] /\ map fst (wb_exp wb') = [L"g"]).
Proof. exact include_current_witness. Qed.

(** HISTORICAL (regression record, not an obligation): the algorithm of resolution.rs before commit 0d98072
    ([include_go_prefix], DeclsProofsD, with the old [remove_key] behaviour) on the same witness renamed only the
    import: the exports kept [f]. *)
Example include_with_renames_both_historical :
  exists imps repl1 exps repl2,
    include_go_prefix [] (ren_of rb_items) (w_imports rb_other) = DOk (imps, repl1) /\
    include_go_prefix [] repl1 (w_exports rb_other) = DOk (exps, repl2) /\
    map fst imps = [L"g"] /\ map fst exps = [L"f"].
Proof. exact include_prefix_witness. Qed.

(** 9. world_denotes *)
Theorem world_denotes : forall root pkgs genv penv t idn items i t',
  flat t -> Renv t root genv -> Rpk t pkgs penv ->
  world_body root pkgs t idn items = DOk (i, t') ->
  aext t t' /\ exists wi we, den_world genv penv items = Some (wi, we) /\ rel_item t' (TWorld i) (SWorld wi we).
Proof. exact world_body_sim. Qed.
Print Assumptions world_denotes.

(** world items other than includes, and item paths *)
Theorem world_items_denote : forall root pkgs genv penv items w wb w',
  wflat w -> Renv (w_types w) root genv -> Rpk (w_types w) pkgs penv -> Rwst w wb ->
  world_items_go root pkgs w items = DOk w' ->
  aext (w_types w) (w_types w') /\ exists wb', den_world_items genv penv wb items = Some wb' /\ Rwst w' wb'.
Proof. exact world_items_go_sim. Qed.
Print Assumptions world_items_denote.

(** 10. decl_denotes: for every document made of type statements that the resolver accepts, the denotation is defined
        and every definition unfolds, in the final arenas, to the denoted tree, in order.  [flat t0] and
        [Renv t0 ext eext] are hypotheses about the oracle inputs (the descriptions of external packages present in
        the initial collection and their denotations), not a restriction of the documents in scope; both hold of the
        empty collection with no external packages ([decl_denotes_closed]). *)
Theorem decl_denotes : forall ext eext t0 d s,
  flat t0 -> Renv t0 ext eext -> resolve_document ext t0 d = DOk s ->
  aext t0 (r_types s) /\ exists defs, den_document eext d = Some defs /\ Rexts (r_types s) (r_defs s) defs.
Proof. exact resolve_document_sim. Qed.
Print Assumptions decl_denotes.

(** the same with one common fuel: the unfolded definitions of the model ARE the denotation *)
Theorem decl_denotes_trees : forall ext eext t0 d s,
  flat t0 -> Renv t0 ext eext -> resolve_document ext t0 d = DOk s ->
  exists F defs, den_document eext d = Some defs /\ defs_trees F (resolve_document ext t0 d) = Some defs.
Proof. exact resolve_document_trees. Qed.
Print Assumptions decl_denotes_trees.

(** self-contained documents (no external packages, empty initial collection): no hypothesis at all *)
Theorem decl_denotes_closed : forall d s,
  resolve_document [] empty_types d = DOk s ->
  exists defs, den_document [] d = Some defs /\ Rexts (r_types s) (r_defs s) defs.
Proof.
  intros d s H. destruct (resolve_document_sim [] [] empty_types d s flat_empty (R2_nil _) H) as [_ R]. exact R.
Qed.
Print Assumptions decl_denotes_closed.

(** the invariant used above is an invariant *)
Theorem resolver_keeps_flat : forall pn pkgs l s s',
  flat (r_types s) -> statements_go pn pkgs s l = DOk s' -> flat (r_types s').
Proof. exact statements_go_flat. Qed.
Print Assumptions resolver_keeps_flat.

(** Non-vacuity: two hand-built documents (DeclsProofsE: [ex_doc1] = one interface with a record, a resource with
    constructor + method + static, one function; [ex_doc2] adds two worlds, a [use ... as], an interface import by
    name and an [include ... with]).  The resolver succeeds, the denotation is defined, and the unfolded definitions
    of the model ARE the denotation. *)
Example ex_doc1_agrees :
  defs_trees 6 (resolve_document [] empty_types ex_doc1) = den_document [] ex_doc1 /\ den_document [] ex_doc1 <> None.
Proof. split; [vm_compute; reflexivity | vm_compute; discriminate]. Qed.

Example ex_doc2_agrees :
  defs_trees 6 (resolve_document [] empty_types ex_doc2) = den_document [] ex_doc2 /\ den_document [] ex_doc2 <> None.
Proof. split; [vm_compute; reflexivity | vm_compute; discriminate]. Qed.

(** not reached: nothing of the requested list.  Not proved: that [def_ranked]/[scope_ok] are invariants of whole
    documents (only of [resolve_ty]/[params_go], which is what [borrow_in_result_rejected_ranked] needs); the converse
    direction (denotation defined => resolver succeeds) is not part of the property. *)
