(** C13, token level: the tokens the (repaired) printer writes for a well-formed tree are derived by
    the grammar of spec/Grammar.v (under the flags the parser realises) as a tree that equals the
    original up to source positions and doc-comment line splitting; moreover printing that tree (from
    the printed text) issues the same commands, leaf texts included.

    Method: every printer function [p_X] produces a list of commands; [catoks] reads off the tokens
    (kind, text, doc comments before it). For a token list [ts] related to these tokens by [R]
    (same kind/text/docs, and each token's span is accurate in the printed text [src']) we build the
    derivation [g_X (ts) (rest) x'] by recursion on the tree, one lemma per node class. The parser
    then returns [x'] by the completeness theorem of C12. *)
From WacV Require Import Str Token Lexer LexTables LexImpl Semver Ast Parser Grammar ParserComb ParserProofs.
From WacV Require Import Printer PrintSpec PrinterText.
From Coq Require Import Lia.
Local Open Scope nat_scope.

(* ------------------------------------------------------------------ resolved commands *)

(** A command with its [source(span)] looked up. *)
Inductive rcmd : Set :=
| RTok (k : token) (text : option str)
| RSp | RDoc (l : str) | RIndent | RNewline | RRawNl | RInc | RDec.

Definition res1 (s : str) (c : cmd) : rcmd :=
  match c with
  | CTok k => RTok k (Some (fixed_text k))
  | CSrc k sp => RTok k (slice s sp)
  | CSp => RSp | CDoc l => RDoc l | CIndent => RIndent | CNewline => RNewline | CRawNl => RRawNl
  | CInc => RInc | CDec => RDec
  end.

Fixpoint layout_r (ind : nat) (indented : bool) (cs : list rcmd) : option (list piece) :=
  match cs with
  | [] => Some []
  | c :: r =>
      let cons := fun (p : piece) (rest : option (list piece)) =>
                    match rest with Some ps => Some (p :: ps) | None => None end in
      match c with
      | RTok k (Some t) => cons (PcTok k t) (layout_r ind indented r)
      | RTok k None => None
      | RSp => cons (PcWs [32%N]) (layout_r ind indented r)
      | RDoc l => if indented then cons (PcDoc l) (layout_r ind false r)
                  else cons (PcWs (indent_text ind)) (cons (PcDoc l) (layout_r ind false r))
      | RIndent => if indented then layout_r ind indented r
                   else cons (PcWs (indent_text ind)) (layout_r ind true r)
      | RNewline => cons (PcWs [c_nl]) (layout_r ind false r)
      | RRawNl => cons (PcWs [c_nl]) (layout_r ind indented r)
      | RInc => layout_r (S ind) indented r
      | RDec => layout_r (pred ind) indented r
      end
  end.

Lemma layout_res s cs : forall ind b, layout s ind b cs = layout_r ind b (map (res1 s) cs).
Proof.
  induction cs as [|c cs IH]; intros ind b; [reflexivity|].
  destruct c; cbn [layout map res1 layout_r]; rewrite ?IH; reflexivity.
Qed.

(** Tokens of the pieces = tokens of the commands (when no [source(span)] panics). *)
Lemma patoks_layout s cs : forall ind b docs ps,
  layout s ind b cs = Some ps -> patoks docs ps = catoks s docs cs.
Proof.
  induction cs as [|c cs IH]; intros ind b docs ps H; cbn [layout] in H.
  - inversion H. reflexivity.
  - destruct c; cbn [catoks].
    + destruct (layout s ind b cs) eqn:E; inversion H; subst. cbn [patoks]. f_equal. eapply IH; eauto.
    + unfold slice_or_nil. destruct (slice s sp); [|discriminate].
      destruct (layout s ind b cs) eqn:E; inversion H; subst. cbn [patoks]. f_equal. eapply IH; eauto.
    + destruct (layout s ind b cs) eqn:E; inversion H; subst. cbn [patoks]. eapply IH; eauto.
    + destruct (layout s ind false cs) eqn:E; [|destruct b; discriminate].
      destruct b; inversion H; subst; cbn [patoks]; eapply IH; eauto.
    + destruct b; [eapply IH; eauto|].
      destruct (layout s ind true cs) eqn:E; inversion H; subst. cbn [patoks]. eapply IH; eauto.
    + destruct (layout s ind false cs) eqn:E; inversion H; subst. cbn [patoks]. eapply IH; eauto.
    + destruct (layout s ind b cs) eqn:E; inversion H; subst. cbn [patoks]. eapply IH; eauto.
    + eapply IH; eauto.
    + eapply IH; eauto.
Qed.

(* ------------------------------------------------------------------ induction principles *)

Definition optP {A} (P : A -> Prop) (o : option A) : Prop := match o with Some t => P t | None => True end.

Section TyInd.
Variable P : ty -> Prop.
Hypothesis Hprim : forall p sp, P (TyPrim p sp).
Hypothesis Htuple : forall ts sp, Forall P ts -> P (TyTuple ts sp).
Hypothesis Hlist : forall t sp, P t -> P (TyList t sp).
Hypothesis Hoption : forall t sp, P t -> P (TyOption t sp).
Hypothesis Hresult : forall ok err sp, optP P ok -> optP P err -> P (TyResult ok err sp).
Hypothesis Hborrow : forall i sp, P (TyBorrow i sp).
Hypothesis Hborrowty : forall t sp, P t -> P (TyBorrowTy t sp).
Hypothesis Hident : forall i, P (TyIdent i).

Fixpoint ty_ind' (t : ty) : P t :=
  match t with
  | TyPrim p sp => Hprim p sp
  | TyTuple ts sp =>
      Htuple ts sp ((fix go (l : list ty) : Forall P l :=
                       match l with [] => Forall_nil _ | x :: r => Forall_cons _ (ty_ind' x) (go r) end) ts)
  | TyList t sp => Hlist t sp (ty_ind' t)
  | TyOption t sp => Hoption t sp (ty_ind' t)
  | TyResult ok err sp =>
      Hresult ok err sp
        (match ok as o return optP P o with Some t => ty_ind' t | None => I end)
        (match err as o return optP P o with Some t => ty_ind' t | None => I end)
  | TyBorrow i sp => Hborrow i sp
  | TyBorrowTy t sp => Hborrowty t sp (ty_ind' t)
  | TyIdent i => Hident i
  end.
End TyInd.

Section ExprInd.
Variable P : expr -> Prop.
Variable Q : primary_expr -> Prop.
Variable A : inst_arg -> Prop.
Hypothesis Hexpr : forall sp p post, Q p -> P (Expr sp p post).
Hypothesis Hnew : forall sp pkg args, Forall A args -> Q (PNew sp pkg args).
Hypothesis Hnested : forall sp x, P x -> Q (PNested sp x).
Hypothesis Hpident : forall i, Q (PIdent i).
Hypothesis Hinferred : forall i, A (AInferred i).
Hypothesis Hspread : forall i, A (ASpread i).
Hypothesis Hnamed : forall n x, P x -> A (ANamed n x).
Hypothesis Hfill : forall sp, A (AFill sp).

Fixpoint expr_ind' (x : expr) : P x :=
  match x with Expr sp p post => Hexpr sp p post (primary_ind' p) end
with primary_ind' (p : primary_expr) : Q p :=
  match p with
  | PNew sp pkg args =>
      Hnew sp pkg args ((fix go (l : list inst_arg) : Forall A l :=
                           match l with [] => Forall_nil _ | a :: r => Forall_cons _ (arg_ind' a) (go r) end) args)
  | PNested sp x => Hnested sp x (expr_ind' x)
  | PIdent i => Hpident i
  end
with arg_ind' (a : inst_arg) : A a :=
  match a with
  | AInferred i => Hinferred i
  | ASpread i => Hspread i
  | ANamed n x => Hnamed n x (expr_ind' x)
  | AFill sp => Hfill sp
  end.
End ExprInd.

(* ------------------------------------------------------------------ framework *)

Section RoundTrip.
Variable src src' : str.
Let d := impl_flags.
Let fx := repaired.

(** A token of the re-lexed text [src'] and the token the printer meant to write. *)
Definition R (t : rtoken) (a : atok) : Prop := erase t = a /\ slice src' (tsp t) = Some (ttext t).

Lemma R_kind t k txt docs : R t (k, txt, docs) -> tk t = k.
Proof. intros [H _]. unfold erase in H. congruence. Qed.
Lemma R_text t k txt docs : R t (k, txt, docs) -> ttext t = txt.
Proof. intros [H _]. unfold erase in H. congruence. Qed.
Lemma R_docs t k txt docs : R t (k, txt, docs) -> map fst (tdocs t) = docs.
Proof. intros [H _]. unfold erase in H. congruence. Qed.
Lemma R_acc t a : R t a -> slice src' (tsp t) = Some (ttext t).
Proof. now intros [_ H]. Qed.

Lemma Forall2_cons_inv_r (l : list rtoken) a l' :
  Forall2 R l (a :: l') -> exists t ts, l = t :: ts /\ R t a /\ Forall2 R ts l'.
Proof. intros H. inversion H; subst. eauto. Qed.

Lemma tok_intro k t ts txt docs : R t (k, txt, docs) -> tok k (map LTok (t :: ts)) (map LTok ts) t.
Proof. intros H. split; [reflexivity|eapply R_kind; eauto]. Qed.

(** The statement proved for every node class [X]: grammar relation [G], printer [pr], normaliser
    [snf]. [docs]: doc lines standing before the first token (only doc-bearing nodes look at them;
    for those the statement is used with [docs = []], see [rt1d]). *)
Definition rt1 {A} (G : drel A) (pr : A -> list cmd) (snf : A -> A) (x : A) : Prop :=
  forall docs rest ts, Forall2 R ts (catoks src docs (pr x ++ rest)) ->
  exists x' r, G (map LTok ts) (map LTok r) x' /\ Forall2 R r (catoks src [] rest) /\
               snf x' = snf x /\ map (res1 src') (pr x') = map (res1 src) (pr x).

Definition rt1d {A} (G : drel A) (pr : A -> list cmd) (snf : A -> A) (x : A) : Prop :=
  forall rest ts, Forall2 R ts (catoks src [] (pr x ++ rest)) ->
  exists x' r, G (map LTok ts) (map LTok r) x' /\ Forall2 R r (catoks src [] rest) /\
               snf x' = snf x /\ map (res1 src') (pr x') = map (res1 src) (pr x).

Tactic Notation "peel" hyp(H) "as" ident(t) ident(ts) ident(HR) :=
  apply Forall2_cons_inv_r in H; destruct H as (t & ts & -> & HR & H).

Ltac nrm H := repeat (progress (repeat (rewrite <- app_assoc in H); cbn [app catoks src_id src_str src_path] in H)).

Ltac tokg := first [ eapply tok_intro; eassumption | split; [reflexivity|eapply R_kind; eassumption] ].

(* ------------------------------------------------------------------ leaves *)

Lemma leaf_ident i t docs :
  wf_ident src i -> R t (TIdent, slice_or_nil src (id_span i), docs) ->
  sn_ident (mk_ident t) = sn_ident i /\ slice src' (tsp t) = slice src (id_span i).
Proof.
  intros (txt & Hs & Hi) HR. pose proof (R_text _ _ _ _ HR) as Ht. pose proof (R_acc _ _ HR) as Ha.
  unfold slice_or_nil in Ht. rewrite Hs in Ht. split.
  - unfold sn_ident. f_equal. rewrite Hi. unfold mk_ident, tok_at. cbn [id_string ttext]. now rewrite Ht.
  - rewrite Ha, Hs. now f_equal.
Qed.

Lemma g_id_intro t ts docs txt :
  R t (TIdent, txt, docs) -> g_id (map LTok (t :: ts)) (map LTok ts) (mk_ident t).
Proof. intros H. exists t. split; [eapply tok_intro; eauto|reflexivity]. Qed.

Lemma leaf_strlit s t docs :
  wf_strlit src s -> R t (TString, slice_or_nil src (s_span s), docs) ->
  exists s', strlit_of t = Some s' /\ sn_strlit s' = sn_strlit s /\ slice src' (s_span s') = slice src (s_span s).
Proof.
  intros (txt & Hs & Hu) HR. pose proof (R_text _ _ _ _ HR) as Ht. pose proof (R_acc _ _ HR) as Ha.
  unfold slice_or_nil in Ht. rewrite Hs in Ht. unfold strlit_of. rewrite Ht, Hu.
  eexists. split; [reflexivity|]. split; [reflexivity|]. cbn [s_span]. rewrite Ha, Hs. now f_equal.
Qed.

Lemma version_of_text t1 t2 s v : version_of t1 s = inl v -> version_of t2 s = inl v.
Proof.
  unfold version_of. destruct (find_char c_atsign s); [|auto].
  destruct (parse_version _); [auto|discriminate].
Qed.

Lemma leaf_package_name p t docs :
  wf_package_name src p -> R t (TPackageName, slice_or_nil src (pn_span p), docs) ->
  exists p', package_name_of t = LeafOk p' /\ sn_package_name p' = sn_package_name p /\
             slice src' (pn_span p') = slice src (pn_span p).
Proof.
  intros (txt & Hs & Hp) HR. pose proof (R_text _ _ _ _ HR) as Ht. pose proof (R_acc _ _ HR) as Ha.
  unfold slice_or_nil in Ht. rewrite Hs in Ht. unfold package_name_of in *. cbn [ttext tok_at] in Hp.
  rewrite Ht. destruct (version_of (tok_at TPackageName (pn_span p) txt) txt) as [v|e] eqn:Ev; [|discriminate].
  rewrite (version_of_text _ t _ _ Ev). inversion Hp; subst. eexists. split; [reflexivity|].
  split; [reflexivity|]. cbn [pn_span tok_at tsp]. rewrite Ha, Hs. now f_equal.
Qed.

Lemma leaf_package_path p t docs :
  wf_package_path src p -> R t (TPackagePath, slice_or_nil src (pp_span p), docs) ->
  exists p', package_path_of t = LeafOk p' /\ sn_package_path p' = sn_package_path p /\
             slice src' (pp_span p') = slice src (pp_span p).
Proof.
  intros (txt & Hs & Hp) HR. pose proof (R_text _ _ _ _ HR) as Ht. pose proof (R_acc _ _ HR) as Ha.
  unfold slice_or_nil in Ht. rewrite Hs in Ht. unfold package_path_of in *. cbn [ttext tok_at] in Hp.
  rewrite Ht. destruct (find_char c_slash txt); [|discriminate].
  destruct (version_of (tok_at TPackagePath (pp_span p) txt) txt) as [v|e] eqn:Ev; [|discriminate].
  rewrite (version_of_text _ t _ _ Ev). inversion Hp; subst. eexists. split; [reflexivity|].
  split; [reflexivity|]. cbn [pp_span tok_at tsp]. rewrite Ha, Hs. now f_equal.
Qed.

(** Derivations for the one-token leaves, in the [rt1] form. *)
Lemma rt_ident i : wf_ident src i -> rt1 g_id (fun i => [src_id i]) sn_ident i.
Proof.
  intros Hwf docs rest ts H. cbn [app catoks src_id] in H. peel H as t ts0 HR.
  destruct (leaf_ident _ _ _ Hwf HR) as [H1 H2].
  exists (mk_ident t), ts0. split; [eapply g_id_intro; eauto|]. split; [exact H|]. split; [exact H1|].
  cbn [map res1 src_id mk_ident id_span]. now rewrite H2.
Qed.

Lemma rt_strlit s : wf_strlit src s -> rt1 g_string (fun s => [src_str s]) sn_strlit s.
Proof.
  intros Hwf docs rest ts H. cbn [app catoks src_str] in H. peel H as t ts0 HR.
  destruct (leaf_strlit _ _ _ Hwf HR) as (s' & H0 & H1 & H2).
  exists s', ts0. split; [exists t; split; [tokg|exact H0]|]. split; [exact H|]. split; [exact H1|].
  cbn [map res1 src_str]. now rewrite H2.
Qed.

Lemma rt_package_path p : wf_package_path src p -> rt1 g_package_path (fun p => [src_path p]) sn_package_path p.
Proof.
  intros Hwf docs rest ts H. cbn [app catoks src_path] in H. peel H as t ts0 HR.
  destruct (leaf_package_path _ _ _ Hwf HR) as (p' & H0 & H1 & H2).
  exists p', ts0. split; [exists t; split; [tokg|exact H0]|]. split; [exact H|]. split; [exact H1|].
  cbn [map res1 src_path]. now rewrite H2.
Qed.

Lemma rt_package_name p :
  wf_package_name src p -> rt1 g_package_name (fun p => [CSrc TPackageName (pn_span p)]) sn_package_name p.
Proof.
  intros Hwf docs rest ts H. cbn [app catoks] in H. peel H as t ts0 HR.
  destruct (leaf_package_name _ _ _ Hwf HR) as (p' & H0 & H1 & H2).
  exists p', ts0. split; [exists t; split; [tokg|exact H0]|]. split; [exact H|]. split; [exact H1|].
  cbn [map res1]. now rewrite H2.
Qed.

(* ------------------------------------------------------------------ lists *)

Lemma comma_sep_true_cons {A} (pr : A -> list cmd) x l : comma_sep pr true (x :: l) = pr x ++ comma_sep pr false l.
Proof. reflexivity. Qed.
Lemma comma_sep_false_cons {A} (pr : A -> list cmd) x l :
  comma_sep pr false (x :: l) = CTok TComma :: CSp :: pr x ++ comma_sep pr false l.
Proof. reflexivity. Qed.

(** [x, y, z] (no trailing comma) *)
Lemma rt_comma_sep_ne {A} (G : drel A) (pr : A -> list cmd) (snf : A -> A) l : forall x,
  Forall (rt1 G pr snf) (x :: l) ->
  forall docs rest ts, Forall2 R ts (catoks src docs (comma_sep pr true (x :: l) ++ rest)) ->
  exists items' r, seplist G (map LTok ts) (map LTok r) (items', false) /\ items' <> [] /\
                   Forall2 R r (catoks src [] rest) /\ map snf items' = map snf (x :: l) /\
                   map (res1 src') (comma_sep pr true items') = map (res1 src) (comma_sep pr true (x :: l)).
Proof.
  induction l as [|y l IH]; intros x Hall docs rest ts H; inversion Hall as [|? ? Hx Hl]; subst.
  - rewrite comma_sep_true_cons in H. cbn [comma_sep] in H. rewrite app_nil_r in H.
    destruct (Hx _ _ _ H) as (x' & r & Hg & Hr & Hsn & Hres).
    exists [x'], r. split; [now apply sl_one|]. split; [discriminate|]. split; [exact Hr|].
    split; [cbn; now rewrite Hsn|]. cbn [comma_sep app]. rewrite !app_nil_r. exact Hres.
  - rewrite comma_sep_true_cons, comma_sep_false_cons, <- app_assoc in H.
    destruct (Hx _ _ _ H) as (x' & r1 & Hg & Hr & Hsn & Hres). cbn [app catoks] in Hr. peel Hr as t ts0 HR.
    change (pr y ++ comma_sep pr false l) with (comma_sep pr true (y :: l)) in Hr.
    destruct (IH y Hl _ _ _ Hr) as (items' & r & Hg2 & Hne & Hr2 & Hsn2 & Hres2).
    exists (x' :: items'), r. split.
    { eapply sl_cons; [exact Hg|eapply tok_intro; eauto|exact Hg2|exact Hne]. }
    split; [discriminate|]. split; [exact Hr2|]. split; [cbn [map]; now rewrite Hsn, Hsn2|].
    destruct items' as [|y' l']; [congruence|].
    rewrite !comma_sep_true_cons, !comma_sep_false_cons, !map_app. cbn [map]. rewrite !map_app.
    rewrite Hres. f_equal. f_equal. f_equal.
    rewrite !comma_sep_true_cons, !map_app in Hres2. exact Hres2.
Qed.

(** possibly empty, after a token *)
Lemma rt_comma_sep {A} (G : drel A) (pr : A -> list cmd) (snf : A -> A) l :
  Forall (rt1 G pr snf) l ->
  forall rest ts, Forall2 R ts (catoks src [] (comma_sep pr true l ++ rest)) ->
  exists items' r, seplist G (map LTok ts) (map LTok r) (items', false) /\
                   Forall2 R r (catoks src [] rest) /\ map snf items' = map snf l /\
                   map (res1 src') (comma_sep pr true items') = map (res1 src) (comma_sep pr true l).
Proof.
  destruct l as [|x l]; intros Hall rest ts H.
  - exists [], ts. split; [constructor|]. split; [exact H|]. split; reflexivity.
  - destruct (rt_comma_sep_ne G pr snf l x Hall _ _ _ H) as (items' & r & H1 & _ & H2 & H3 & H4). eauto 8.
Qed.

Lemma All_Forall {A} (P Q : A -> Prop) l : (forall x, P x -> Q x) -> All P l -> Forall Q l.
Proof. intros HPQ. induction l as [|x l IH]; cbn; [constructor|]. intros [H1 H2]. constructor; auto. Qed.

(* ------------------------------------------------------------------ value types *)

Lemma prim_of_prim_token p : prim_of_token (prim_token p) = Some p.
Proof. destruct p; reflexivity. Qed.

Lemma p_ty_tuple tys sp :
  p_ty (TyTuple tys sp) = CTok TTupleKeyword :: CTok TOpenAngle :: comma_sep p_ty true tys ++ [CTok TCloseAngle].
Proof.
  cbn [p_ty app]. do 3 f_equal. generalize true.
  induction tys as [|x l IH]; intros b; cbn [comma_sep]; [reflexivity|]. now rewrite IH.
Qed.

Lemma rt_ty t : wf_ty src t -> rt1 (g_type d) p_ty sn_ty t.
Proof.
  induction t as [p sp|tys sp IH|t sp IH|t sp IH|ok err sp IHok IHerr|i sp|t sp IH|i] using ty_ind';
    intros Hwf docs rest ts H.
  - (* primitive *)
    cbn [p_ty] in H. nrm H. peel H as kw r0 Hkw. exists (TyPrim p (tsp kw)), r0.
    split; [eapply gt_prim; [reflexivity|]; rewrite (R_kind _ _ _ _ Hkw); apply prim_of_prim_token|].
    split; [exact H|]. split; reflexivity.
  - (* tuple *)
    destruct Hwf as [Hne Hall].
    assert (Hf : Forall (rt1 (g_type d) p_ty sn_ty) tys).
    { clear Hne H. induction IH as [|x l Hx _ IHl]; [constructor|]. destruct Hall as [H1 H2]. constructor; auto. }
    rewrite p_ty_tuple in H. cbn [app catoks] in H. peel H as kw r0 Hkw. peel H as oa r1 Hoa.
    nrm H. destruct tys as [|x l]; [congruence|].
    destruct (rt_comma_sep_ne _ _ _ l x Hf _ _ _ H) as (tys' & r2 & Hg & Hne' & Hr & Hsn & Hres).
    nrm Hr. peel Hr as ca r3 Hca.
    exists (TyTuple tys' (span_join (tsp kw) (tsp ca))), r3. split.
    { eapply gt_tuple; [tokg|tokg|apply seplist_g_types; exact Hg|exact Hne'|tokg]. }
    split; [exact Hr|]. split; [cbn [sn_ty]; now rewrite Hsn|].
    rewrite !p_ty_tuple. cbn [map res1]. rewrite !map_app. now rewrite Hres.
  - (* list *)
    cbn [p_ty] in H. nrm H. peel H as kw r0 Hkw. peel H as oa r1 Hoa. nrm H.
    destruct (IH Hwf _ _ _ H) as (t' & r2 & Hg & Hr & Hsn & Hres). nrm Hr. peel Hr as ca r3 Hca.
    exists (TyList t' (span_join (tsp kw) (tsp ca))), r3. split; [eapply gt_list; [tokg|tokg|exact Hg|tokg]|].
    split; [exact Hr|]. split; [cbn [sn_ty]; now rewrite Hsn|].
    cbn [p_ty map res1 app]. rewrite !map_app. now rewrite Hres.
  - (* option *)
    cbn [p_ty] in H. nrm H. peel H as kw r0 Hkw. peel H as oa r1 Hoa. nrm H.
    destruct (IH Hwf _ _ _ H) as (t' & r2 & Hg & Hr & Hsn & Hres). nrm Hr. peel Hr as ca r3 Hca.
    exists (TyOption t' (span_join (tsp kw) (tsp ca))), r3. split; [eapply gt_option; [tokg|tokg|exact Hg|tokg]|].
    split; [exact Hr|]. split; [cbn [sn_ty]; now rewrite Hsn|].
    cbn [p_ty map res1 app]. rewrite !map_app. now rewrite Hres.
  - (* result *)
    destruct Hwf as [Hwok Hwerr]. destruct ok as [ok|], err as [err|]; cbn [optP] in *.
    + cbn [p_ty] in H. nrm H. peel H as kw r0 Hkw. peel H as oa r1 Hoa. nrm H.
      destruct (IHok Hwok _ _ _ H) as (ok' & r2 & Hg & Hr & Hsn & Hres). nrm Hr. peel Hr as cm r3 Hcm.
      destruct (IHerr Hwerr _ _ _ Hr) as (err' & r4 & Hg2 & Hr2 & Hsn2 & Hres2). nrm Hr2.
      peel Hr2 as ca r5 Hca.
      exists (TyResult (Some ok') (Some err') (span_join (tsp kw) (tsp ca))), r5.
      split; [eapply gt_result_both; [tokg|tokg|exact Hg|tokg|exact Hg2|tokg]|].
      split; [exact Hr2|]. split; [cbn [sn_ty option_map]; now rewrite Hsn, Hsn2|].
      cbn [p_ty map res1 app]. rewrite !map_app. cbn [map res1]. rewrite !map_app. now rewrite Hres, Hres2.
    + cbn [p_ty] in H. nrm H. peel H as kw r0 Hkw. peel H as oa r1 Hoa. nrm H.
      destruct (IHok Hwok _ _ _ H) as (ok' & r2 & Hg & Hr & Hsn & Hres). nrm Hr. peel Hr as ca r3 Hca.
      exists (TyResult (Some ok') None (span_join (tsp kw) (tsp ca))), r3.
      split; [eapply gt_result_ok; [tokg|tokg|exact Hg|tokg]|].
      split; [exact Hr|]. split; [cbn [sn_ty option_map]; now rewrite Hsn|].
      cbn [p_ty map res1 app]. rewrite !map_app. now rewrite Hres.
    + cbn [p_ty] in H. nrm H. peel H as kw r0 Hkw. peel H as oa r1 Hoa. peel H as us r2 Hus. peel H as cm r3 Hcm.
      nrm H.
      destruct (IHerr Hwerr _ _ _ H) as (err' & r4 & Hg & Hr & Hsn & Hres). nrm Hr. peel Hr as ca r5 Hca.
      exists (TyResult None (Some err') (span_join (tsp kw) (tsp ca))), r5.
      split; [eapply gt_result_err; [tokg|tokg|tokg|tokg|exact Hg|tokg]|].
      split; [exact Hr|]. split; [cbn [sn_ty option_map]; now rewrite Hsn|].
      cbn [p_ty map res1 app]. rewrite !map_app. now rewrite Hres.
    + cbn [p_ty] in H. nrm H. peel H as kw r0 Hkw.
      exists (TyResult None None (tsp kw)), r0. split; [eapply gt_result; tokg|].
      split; [exact H|]. split; reflexivity.
  - (* borrow *)
    cbn [p_ty src_id] in H. nrm H. peel H as kw r0 Hkw. peel H as oa r1 Hoa. peel H as it r2 Hit. peel H as ca r3 Hca.
    destruct (leaf_ident _ _ _ Hwf Hit) as [H1 H2].
    exists (TyBorrow (mk_ident it) (span_join (tsp kw) (tsp ca))), r3. split.
    { eapply gt_borrow; [tokg|tokg|eapply g_id_intro; eauto|tokg]. }
    split; [exact H|]. split; [cbn [sn_ty]; now rewrite H1|].
    cbn [p_ty map res1 src_id mk_ident id_span]. now rewrite H2.
  - (* borrow<type>: not a tree of the implementation *)
    destruct Hwf.
  - (* identifier *)
    cbn [p_ty src_id] in H. nrm H. peel H as it r0 Hit. destruct (leaf_ident _ _ _ Hwf Hit) as [H1 H2].
    exists (TyIdent (mk_ident it)), r0. split; [apply gt_id; eapply g_id_intro; eauto|].
    split; [exact H|]. split; [cbn [sn_ty]; now rewrite H1|].
    cbn [p_ty map res1 src_id mk_ident id_span]. now rewrite H2.
Qed.

(* ------------------------------------------------------------------ function types *)

Ltac fin_sn := cbn; congruence.
Ltac simp_res :=
  repeat (rewrite ?map_app;
          cbn [map res1 src_id src_str src_path app mk_ident id_span nt_id nt_ty ft_params ft_results vc_docs vc_id vc_ty
               fd_docs fd_id fd_ty fl_docs fl_id ec_docs ec_id ui_id ui_as u_docs u_path u_items ii_from ii_to
               pd_package pd_targets doc_docs doc_directive doc_statements]).
Ltac simp_res_in H :=
  repeat (rewrite ?map_app in H;
          cbn [map res1 src_id src_str src_path app mk_ident id_span nt_id nt_ty ft_params ft_results vc_docs vc_id vc_ty
               fd_docs fd_id fd_ty fl_docs fl_id ec_docs ec_id ui_id ui_as u_docs u_path u_items ii_from ii_to
               pd_package pd_targets doc_docs doc_directive doc_statements] in H).
Ltac fin_res := simp_res; congruence.

Lemma rt_named_type n : wf_named_type src n -> rt1 (g_named_type d) p_named_type sn_named_type n.
Proof.
  destruct n as [i t]. intros [Hi Ht] docs rest ts H. cbn [nt_id nt_ty] in *. unfold p_named_type in H. cbn [nt_id nt_ty] in H. nrm H.
  peel H as it r0 Hit. peel H as co r1 Hco.
  destruct (leaf_ident _ _ _ Hi Hit) as [H1 H2].
  destruct (rt_ty _ Ht _ _ _ H) as (t' & r2 & Hg & Hr & Hsn & Hres).
  exists {| nt_id := mk_ident it; nt_ty := t' |}, r2. split.
  { exists (map LTok (co :: r1)), (map LTok r1), (mk_ident it), co, t'.
    split; [eapply g_id_intro; eauto|]. split; [tokg|]. split; [exact Hg|reflexivity]. }
  split; [exact Hr|]. split; [unfold sn_named_type; fin_sn|]. unfold p_named_type. fin_res.
Qed.

Lemma rt_params ps :
  All (wf_named_type src) ps ->
  forall rest ts, Forall2 R ts (catoks src [] (p_named_types ps ++ rest)) ->
  exists ps' r, g_params d (map LTok ts) (map LTok r) ps' /\ Forall2 R r (catoks src [] rest) /\
                map sn_named_type ps' = map sn_named_type ps /\
                map (res1 src') (p_named_types ps') = map (res1 src) (p_named_types ps).
Proof.
  intros Hps rest ts H. unfold p_named_types in *.
  destruct (rt_comma_sep (g_named_type d) p_named_type sn_named_type ps
              (All_Forall _ _ _ rt_named_type Hps) _ _ H) as (ps' & r & Hg & Hr & Hsn & Hres).
  exists ps', r. split; [exists false; exact Hg|]. auto.
Qed.

Lemma rt_func_type f : wf_func_type src f -> rt1 (g_func_type d) p_func_type sn_func_type f.
Proof.
  destruct f as [ps res]. intros [Hps Hres] docs rest ts H. cbn [ft_params ft_results] in *.
  unfold p_func_type in H. cbn [ft_params ft_results] in H. nrm H.
  peel H as kw r0 Hkw. peel H as op r1 Hop.
  destruct (rt_params _ Hps _ _ H) as (ps' & r2 & Hg & Hr & Hsn & Hrs). nrm Hr. peel Hr as cp r3 Hcp.
  destruct res as [|t|rs]; [| |destruct Hres].
  - (* no results *)
    cbn [app] in Hr.
    exists {| ft_params := ps'; ft_results := RLEmpty |}, r3. split.
    { do 4 eexists. exists kw, op, cp, ps', None.
      split; [tokg|]. split; [tokg|]. split; [exact Hg|]. split; [tokg|]. split; [constructor|reflexivity]. }
    split; [exact Hr|]. split; [unfold sn_func_type; fin_sn|]. unfold p_func_type. fin_res.
  - (* scalar result *)
    nrm Hr. peel Hr as ar r4 Har.
    destruct (rt_ty _ Hres _ _ _ Hr) as (t' & r5 & Hg2 & Hr2 & Hsn2 & Hrs2).
    exists {| ft_params := ps'; ft_results := RLScalar t' |}, r5. split.
    { do 4 eexists. exists kw, op, cp, ps', (Some (RLScalar t')).
      split; [tokg|]. split; [tokg|]. split; [exact Hg|]. split; [tokg|].
      split; [eapply opt_some; [tokg|apply gr_scalar; exact Hg2]|reflexivity]. }
    split; [exact Hr2|]. split; [unfold sn_func_type; fin_sn|]. unfold p_func_type. fin_res.
Qed.

(* ------------------------------------------------------------------ doc comments *)

(** The doc lines the repaired printer writes = the specification's normal form. *)
Definition printed_lines (ds : list doc) : list str := flat_map (fun dc => doc_lines_of fx (fst dc)) ds.

Lemma printed_lines_norm ds : printed_lines ds = doc_norm ds.
Proof. unfold printed_lines, doc_norm. apply flat_map_ext. intros a. apply doc_lines_repaired. Qed.

Lemma p_docs_flat ds : p_docs fx ds = map CDoc (printed_lines ds).
Proof.
  unfold p_docs, printed_lines. induction ds as [|a ds IH]; [reflexivity|].
  cbn [flat_map]. now rewrite map_app, IH.
Qed.

Lemma catoks_docs ds docs rest :
  catoks src docs (p_docs fx ds ++ rest) = catoks src (docs ++ map doc_of_line (printed_lines ds)) rest.
Proof.
  rewrite p_docs_flat. generalize (printed_lines ds) as L. intros L. revert docs.
  induction L as [|l L IH]; intros docs; cbn [map app catoks]; [now rewrite app_nil_r|].
  rewrite IH, <- app_assoc. reflexivity.
Qed.

Lemma res1_docs a b ds : map (res1 a) (p_docs fx ds) = map (res1 b) (p_docs fx ds).
Proof. rewrite p_docs_flat. induction (printed_lines ds) as [|l L IH]; [reflexivity|]. cbn. now rewrite IH. Qed.

Lemma doc_norm_map ds : doc_norm ds = flat_map doc_norm_text (map fst ds).
Proof. unfold doc_norm. induction ds as [|a ds IH]; [reflexivity|]. cbn. now rewrite IH. Qed.

(** The docs a token carries after the printed doc lines of [ds] are [ds] again, up to [norm_docs]. *)
Lemma docs_back t0 k txt ds :
  R t0 (k, txt, map doc_of_line (printed_lines ds)) ->
  sn_docs (tdocs t0) = sn_docs ds /\ p_docs fx (tdocs t0) = p_docs fx ds.
Proof.
  intros HR. apply R_docs in HR.
  assert (E : doc_norm (tdocs t0) = doc_norm ds).
  { rewrite (doc_norm_map (tdocs t0)), HR, printed_lines_norm. rewrite (doc_norm_map ds) at 1.
    rewrite doc_norm_lines_fix; [symmetry; apply doc_norm_map|apply doc_norm_flat_elems]. }
  split; [unfold sn_docs; now rewrite E|]. rewrite !p_docs_flat, !printed_lines_norm. now rewrite E.
Qed.

(** Resolved commands of a doc-bearing prefix. *)
Lemma docs_back2 t0 k txt ds :
  R t0 (k, txt, map doc_of_line (printed_lines ds)) ->
  sn_docs (tdocs t0) = sn_docs ds /\ map (res1 src') (p_docs fx (tdocs t0)) = map (res1 src) (p_docs fx ds).
Proof. intros H. destruct (docs_back _ _ _ _ H) as [E1 E2]. split; [exact E1|]. rewrite E2. apply res1_docs. Qed.

(* ------------------------------------------------------------------ more lists *)

(** [x, y, z,] -- every item followed by a comma (and a line feed) *)
Lemma rt_comma_lines {A} (G : drel A) (pr : A -> list cmd) (snf : A -> A) l : forall x,
  Forall (rt1d G pr snf) (x :: l) ->
  forall rest ts, Forall2 R ts (catoks src [] (comma_lines pr (x :: l) ++ rest)) ->
  exists items' r, seplist G (map LTok ts) (map LTok r) (items', true) /\ items' <> [] /\
                   Forall2 R r (catoks src [] rest) /\ map snf items' = map snf (x :: l) /\
                   map (res1 src') (comma_lines pr items') = map (res1 src) (comma_lines pr (x :: l)).
Proof.
  unfold comma_lines.
  induction l as [|y l IH]; intros x Hall rest ts H; inversion Hall as [|? ? Hx Hl]; subst;
    cbn [flat_map] in H; nrm H.
  - destruct (Hx _ _ H) as (x' & r1 & Hg & Hr & Hsn & Hres). nrm Hr. peel Hr as cm r2 Hcm.
    exists [x'], r2. split; [eapply sl_trail; [exact Hg|tokg]|]. split; [discriminate|]. split; [exact Hr|].
    split; [cbn; now rewrite Hsn|]. cbn [flat_map]. rewrite !app_nil_r, !map_app. now rewrite Hres.
  - destruct (Hx _ _ H) as (x' & r1 & Hg & Hr & Hsn & Hres). nrm Hr. peel Hr as cm r2 Hcm.
    assert (Hr' : Forall2 R r2 (catoks src [] (flat_map (fun x0 => pr x0 ++ [CTok TComma; CNewline]) (y :: l) ++ rest))).
    { cbn [flat_map]. nrm Hr. rewrite <- !app_assoc. exact Hr. }
    destruct (IH y Hl _ _ Hr') as (items' & r & Hg2 & Hne & Hr2 & Hsn2 & Hres2).
    exists (x' :: items'), r. split; [eapply sl_cons; [exact Hg|tokg|exact Hg2|exact Hne]|].
    split; [discriminate|]. split; [exact Hr2|]. split; [cbn [map]; now rewrite Hsn, Hsn2|].
    cbn [flat_map] in *. rewrite !map_app. rewrite Hres. f_equal. f_equal. rewrite <- !map_app. exact Hres2.
Qed.

(** items separated by blank lines *)
Lemma rt_spaced {A} (G : drel A) (pr : A -> list cmd) (snf : A -> A) l :
  Forall (rt1d G pr snf) l ->
  forall first rest ts, Forall2 R ts (catoks src [] (spaced pr first l ++ rest)) ->
  exists items' r, many G (map LTok ts) (map LTok r) items' /\
                   Forall2 R r (catoks src [] rest) /\ map snf items' = map snf l /\
                   forall b, map (res1 src') (spaced pr b items') = map (res1 src) (spaced pr b l).
Proof.
  induction 1 as [|x l Hx Hl IH]; intros first rest ts H.
  - exists [], ts. split; [constructor|]. split; [exact H|]. split; reflexivity.
  - cbn [spaced] in H. assert (H' : Forall2 R ts (catoks src [] (pr x ++ CNewline :: spaced pr false l ++ rest))).
    { destruct first; nrm H; exact H. }
    destruct (Hx _ _ H') as (x' & r1 & Hg & Hr & Hsn & Hres). nrm Hr.
    destruct (IH _ _ _ Hr) as (items' & r & Hg2 & Hr2 & Hsn2 & Hres2).
    exists (x' :: items'), r. split; [econstructor; eauto|]. split; [exact Hr2|].
    split; [cbn [map]; now rewrite Hsn, Hsn2|].
    intros b. cbn [spaced]. rewrite !map_app. rewrite Hres, (Hres2 false). destruct b; reflexivity.
Qed.

(* ------------------------------------------------------------------ type declarations *)

Ltac dstep H := rewrite catoks_docs in H; cbn [app catoks src_id src_str src_path] in H.

Lemma rt_variant_case c :
  (wf_ident src (vc_id c) /\ match vc_ty c with Some t => wf_ty src t | None => True end) ->
  rt1d (g_variant_case d) (fun c => CIndent :: p_variant_case fx c) sn_variant_case c.
Proof.
  destruct c as [dcs i oty]. cbn [vc_id vc_ty]. intros [Hi Hty] rest ts H.
  unfold p_variant_case in H. cbn [vc_docs vc_id vc_ty] in H. nrm H. dstep H. peel H as it r0 Hit.
  destruct (leaf_ident _ _ _ Hi Hit) as [H1 H2]. destruct (docs_back2 _ _ _ _ Hit) as [D1 D2].
  destruct oty as [t|].
  - nrm H. peel H as op r1 Hop. destruct (rt_ty _ Hty _ _ _ H) as (t' & r2 & Hg & Hr & Hsn & Hres).
    nrm Hr. peel Hr as cp r3 Hcp.
    exists {| vc_docs := tdocs it; vc_id := mk_ident it; vc_ty := Some t' |}, r3. split.
    { exists (map LTok (op :: r1)), (mk_ident it), (Some t'). split; [eapply g_id_intro; eauto|]. split; [|reflexivity].
      eapply opt_some; [tokg|]. do 2 eexists. split; [exact Hg|tokg]. }
    split; [exact Hr|]. split; [unfold sn_variant_case; cbn [vc_docs vc_id vc_ty option_map]; congruence|].
    unfold p_variant_case. fin_res.
  - nrm H.
    exists {| vc_docs := tdocs it; vc_id := mk_ident it; vc_ty := None |}, r0. split.
    { exists (map LTok r0), (mk_ident it), None. split; [eapply g_id_intro; eauto|]. split; [constructor|reflexivity]. }
    split; [exact H|]. split; [unfold sn_variant_case; cbn [vc_docs vc_id vc_ty option_map]; congruence|].
    unfold p_variant_case. fin_res.
Qed.

Lemma rt_field f :
  (wf_ident src (fd_id f) /\ wf_ty src (fd_ty f)) -> rt1d (g_field d) (p_field fx) sn_field f.
Proof.
  destruct f as [dcs i t]. cbn [fd_id fd_ty]. intros [Hi Ht] rest ts H.
  unfold p_field in H. cbn [fd_docs fd_id fd_ty] in H. nrm H. dstep H. peel H as it r0 Hit. peel H as co r1 Hco.
  destruct (leaf_ident _ _ _ Hi Hit) as [H1 H2]. destruct (docs_back2 _ _ _ _ Hit) as [D1 D2].
  destruct (rt_ty _ Ht _ _ _ H) as (t' & r2 & Hg & Hr & Hsn & Hres).
  exists {| fd_docs := tdocs it; fd_id := mk_ident it; fd_ty := t' |}, r2. split.
  { exists {| nt_id := mk_ident it; nt_ty := t' |}. split; [|reflexivity].
    exists (map LTok (co :: r1)), (map LTok r1), (mk_ident it), co, t'.
    split; [eapply g_id_intro; eauto|]. split; [tokg|]. split; [exact Hg|reflexivity]. }
  split; [exact Hr|]. split; [unfold sn_field; cbn [fd_docs fd_id fd_ty]; congruence|]. unfold p_field. fin_res.
Qed.

Lemma rt_flag f : wf_ident src (fl_id f) -> rt1d g_flag (p_flag fx) sn_flag f.
Proof.
  destruct f as [dcs i]. cbn [fl_id]. intros Hi rest ts H.
  unfold p_flag in H. cbn [fl_docs fl_id] in H. nrm H. dstep H. peel H as it r0 Hit.
  destruct (leaf_ident _ _ _ Hi Hit) as [H1 H2]. destruct (docs_back2 _ _ _ _ Hit) as [D1 D2].
  exists {| fl_docs := tdocs it; fl_id := mk_ident it |}, r0. split.
  { exists (mk_ident it). split; [eapply g_id_intro; eauto|reflexivity]. }
  split; [exact H|]. split; [unfold sn_flag; cbn [fl_docs fl_id]; congruence|]. unfold p_flag. fin_res.
Qed.

Lemma rt_enum_case c : wf_ident src (ec_id c) -> rt1d g_enum_case (p_enum_case fx) sn_enum_case c.
Proof.
  destruct c as [dcs i]. cbn [ec_id]. intros Hi rest ts H.
  unfold p_enum_case in H. cbn [ec_docs ec_id] in H. nrm H. dstep H. peel H as it r0 Hit.
  destruct (leaf_ident _ _ _ Hi Hit) as [H1 H2]. destruct (docs_back2 _ _ _ _ Hit) as [D1 D2].
  exists {| ec_docs := tdocs it; ec_id := mk_ident it |}, r0. split.
  { exists (mk_ident it). split; [eapply g_id_intro; eauto|reflexivity]. }
  split; [exact H|]. split; [unfold sn_enum_case; cbn [ec_docs ec_id]; congruence|]. unfold p_enum_case. fin_res.
Qed.

(** [kw id { item, item, }] *)
Lemma rt_braced {A} kwk (item : drel A) (pr : A -> list cmd) (snf : A -> A)
    (mk : list doc -> ident -> list A -> item_type_decl) dcs i l :
  wf_ident src i -> l <> [] -> Forall (rt1d item pr snf) l ->
  forall rest ts, Forall2 R ts (catoks src [] (p_block fx dcs kwk i (comma_lines pr l) ++ rest)) ->
  exists dcs' i' l' r,
    g_braced kwk item mk (map LTok ts) (map LTok r) (mk dcs' i' l') /\ Forall2 R r (catoks src [] rest) /\
    sn_docs dcs' = sn_docs dcs /\ sn_ident i' = sn_ident i /\ map snf l' = map snf l /\
    map (res1 src') (p_block fx dcs' kwk i' (comma_lines pr l')) = map (res1 src) (p_block fx dcs kwk i (comma_lines pr l)).
Proof.
  intros Hi Hne Hall rest ts H. unfold p_block in H. nrm H. dstep H.
  peel H as k0 r0 Hk0. peel H as it r1 Hit. peel H as ob r2 Hob.
  destruct (leaf_ident _ _ _ Hi Hit) as [H1 H2]. destruct (docs_back2 _ _ _ _ Hk0) as [D1 D2].
  destruct l as [|x l]; [congruence|].
  destruct (rt_comma_lines item pr snf l x Hall _ _ H) as (l' & r3 & Hg & Hne' & Hr & Hsn & Hres).
  nrm Hr. peel Hr as cb r4 Hcb.
  exists (tdocs k0), (mk_ident it), l', r4. split.
  { exists (map LTok (it :: ob :: r2)), (map LTok (ob :: r2)), (map LTok r2), (map LTok (cb :: r4)), k0, (mk_ident it), ob, cb, l', true.
    split; [tokg|]. split; [eapply g_id_intro; eauto|]. split; [tokg|]. split; [exact Hg|]. split; [exact Hne'|].
    split; [tokg|reflexivity]. }
  split; [exact Hr|]. split; [exact D1|]. split; [exact H1|]. split; [exact Hsn|]. unfold p_block. fin_res.
Qed.

Lemma rt_type_alias dcs i k :
  wf_ident src i -> match k with TAFunc f => wf_func_type src f | TAType t => wf_ty src t end ->
  rt1d (g_type_decl d) (p_item_type_decl fx) sn_item_type_decl (DAlias dcs i k).
Proof.
  intros Hi Hk rest ts H. cbn [p_item_type_decl] in H. nrm H. dstep H.
  peel H as k0 r0 Hk0. peel H as it r1 Hit. peel H as eq r2 Heq.
  destruct (leaf_ident _ _ _ Hi Hit) as [H1 H2]. destruct (docs_back2 _ _ _ _ Hk0) as [D1 D2].
  destruct k as [f|t].
  - destruct (rt_func_type _ Hk _ _ _ H) as (f' & r3 & Hg & Hr & Hsn & Hres). nrm Hr. peel Hr as sc r4 Hsc.
    exists (DAlias (tdocs k0) (mk_ident it) (TAFunc f')), r4.
    split; [eapply gd_alias_func; [tokg|eapply g_id_intro; eauto|tokg|exact Hg|tokg]|].
    split; [exact Hr|]. split; [cbn [sn_item_type_decl]; congruence|]. cbn [p_item_type_decl]. fin_res.
  - destruct (rt_ty _ Hk _ _ _ H) as (t' & r3 & Hg & Hr & Hsn & Hres). nrm Hr. peel Hr as sc r4 Hsc.
    exists (DAlias (tdocs k0) (mk_ident it) (TAType t')), r4.
    split; [eapply gd_alias_type; [tokg|eapply g_id_intro; eauto|tokg|exact Hg|tokg]|].
    split; [exact Hr|]. split; [cbn [sn_item_type_decl]; congruence|]. cbn [p_item_type_decl]. fin_res.
Qed.

(** type-decl: every [item_type_decl] except resources *)
Lemma rt_type_decl x :
  is_resource x = false -> wf_item_type_decl src x ->
  rt1d (g_type_decl d) (p_item_type_decl fx) sn_item_type_decl x.
Proof.
  destruct x as [dcs i ms|dcs i cs|dcs i fs|dcs i fs|dcs i cs|dcs i k]; intros Hnr Hwf rest ts H; [discriminate| | | | |].
  - destruct Hwf as (Hi & Hne & Hall). cbn [p_item_type_decl] in H.
    destruct (rt_braced TVariantKeyword (g_variant_case d) _ sn_variant_case DVariant dcs i cs Hi Hne
                (All_Forall _ _ _ rt_variant_case Hall) _ _ H) as (dcs' & i' & l' & r & Hg & Hr & E1 & E2 & E3 & E4).
    exists (DVariant dcs' i' l'), r. split; [apply gd_variant; exact Hg|]. split; [exact Hr|].
    split; [cbn [sn_item_type_decl]; congruence|exact E4].
  - destruct Hwf as (Hi & Hne & Hall). cbn [p_item_type_decl] in H.
    destruct (rt_braced TRecordKeyword (g_field d) _ sn_field DRecord dcs i fs Hi Hne
                (All_Forall _ _ _ rt_field Hall) _ _ H) as (dcs' & i' & l' & r & Hg & Hr & E1 & E2 & E3 & E4).
    exists (DRecord dcs' i' l'), r. split; [apply gd_record; exact Hg|]. split; [exact Hr|].
    split; [cbn [sn_item_type_decl]; congruence|exact E4].
  - destruct Hwf as (Hi & Hne & Hall). cbn [p_item_type_decl] in H.
    destruct (rt_braced TFlagsKeyword g_flag _ sn_flag DFlags dcs i fs Hi Hne
                (All_Forall _ _ _ rt_flag Hall) _ _ H) as (dcs' & i' & l' & r & Hg & Hr & E1 & E2 & E3 & E4).
    exists (DFlags dcs' i' l'), r. split; [apply gd_flags; exact Hg|]. split; [exact Hr|].
    split; [cbn [sn_item_type_decl]; congruence|exact E4].
  - destruct Hwf as (Hi & Hne & Hall). cbn [p_item_type_decl] in H.
    destruct (rt_braced TEnumKeyword g_enum_case _ sn_enum_case DEnum dcs i cs Hi Hne
                (All_Forall _ _ _ rt_enum_case Hall) _ _ H) as (dcs' & i' & l' & r & Hg & Hr & E1 & E2 & E3 & E4).
    exists (DEnum dcs' i' l'), r. split; [apply gd_enum; exact Hg|]. split; [exact Hr|].
    split; [cbn [sn_item_type_decl]; congruence|exact E4].
  - destruct Hwf as [Hi Hk]. exact (rt_type_alias dcs i k Hi Hk rest ts H).
Qed.

Lemma rt_resource_method m :
  wf_resource_method src m -> rt1d (g_resource_item d) (p_resource_method fx) sn_resource_method m.
Proof.
  destruct m as [dcs sp ps|dcs i st f]; intros Hwf rest ts H; cbn [p_resource_method] in H; nrm H; dstep H.
  - peel H as k0 r0 Hk0. peel H as op r1 Hop. destruct (docs_back2 _ _ _ _ Hk0) as [D1 D2].
    destruct (rt_params _ Hwf _ _ H) as (ps' & r2 & Hg & Hr & Hsn & Hres). nrm Hr.
    peel Hr as cp r3 Hcp. peel Hr as sc r4 Hsc.
    exists (RMConstructor (tdocs k0) (tsp k0) ps'), r4.
    split; [eapply gri_constructor; [tokg|tokg|exact Hg|tokg|tokg]|].
    split; [exact Hr|]. split; [cbn [sn_resource_method]; congruence|]. cbn [p_resource_method]. fin_res.
  - destruct Hwf as [Hi Hf]. peel H as it r0 Hit. peel H as co r1 Hco.
    destruct (leaf_ident _ _ _ Hi Hit) as [H1 H2]. destruct (docs_back2 _ _ _ _ Hit) as [D1 D2].
    destruct st.
    + nrm H. peel H as stk r2 Hstk.
      destruct (rt_func_type _ Hf _ _ _ H) as (f' & r3 & Hg & Hr & Hsn & Hres). nrm Hr. peel Hr as sc r4 Hsc.
      exists (RMMethod (tdocs it) (mk_ident it) true f'), r4. split.
      { eapply (gri_method d (map LTok (it :: co :: stk :: r2)) _ _ _ _ _ (mk_ident it) co (Some tt) f' sc);
          [eapply g_id_intro; eauto|tokg|eapply opt_some; [tokg|reflexivity]|exact Hg|tokg]. }
      split; [exact Hr|]. split; [cbn [sn_resource_method]; congruence|]. cbn [p_resource_method]. fin_res.
    + nrm H.
      destruct (rt_func_type _ Hf _ _ _ H) as (f' & r3 & Hg & Hr & Hsn & Hres). nrm Hr. peel Hr as sc r4 Hsc.
      exists (RMMethod (tdocs it) (mk_ident it) false f'), r4. split.
      { eapply (gri_method d (map LTok (it :: co :: r1)) _ _ _ _ _ (mk_ident it) co None f' sc);
          [eapply g_id_intro; eauto|tokg|constructor|exact Hg|tokg]. }
      split; [exact Hr|]. split; [cbn [sn_resource_method]; congruence|]. cbn [p_resource_method]. fin_res.
Qed.

Lemma rt_item_type_decl x :
  wf_item_type_decl src x -> rt1d (g_item_type_decl d) (p_item_type_decl fx) sn_item_type_decl x.
Proof.
  intros Hwf. destruct (is_resource x) eqn:E.
  - destruct x as [dcs i ms| | | | |]; try discriminate E. destruct Hwf as [Hi Hms]. intros rest ts H.
    cbn [p_item_type_decl] in H. unfold p_block in H. nrm H. dstep H.
    peel H as k0 r0 Hk0. peel H as it r1 Hit. peel H as ob r2 Hob.
    destruct (leaf_ident _ _ _ Hi Hit) as [H1 H2]. destruct (docs_back2 _ _ _ _ Hk0) as [D1 D2].
    destruct (rt_spaced (g_resource_item d) (p_resource_method fx) sn_resource_method ms
                (All_Forall _ _ _ rt_resource_method Hms) _ _ _ H) as (ms' & r3 & Hg & Hr & Hsn & Hres).
    nrm Hr. peel Hr as cb r4 Hcb.
    exists (DResource (tdocs k0) (mk_ident it) ms'), r4.
    split; [eapply gi_resource_body; [tokg|eapply g_id_intro; eauto|tokg|exact Hg|tokg]|].
    split; [exact Hr|]. split; [cbn [sn_item_type_decl]; congruence|].
    cbn [p_item_type_decl]. unfold p_block. specialize (Hres true). fin_res.
  - intros rest ts H. destruct (rt_type_decl x E Hwf rest ts H) as (x' & r & Hg & Hrest).
    exists x', r. split; [apply gi_type_decl; exact Hg|exact Hrest].
Qed.

(* ------------------------------------------------------------------ interfaces and worlds *)

Lemma rt_use_item u :
  (wf_ident src (ui_id u) /\ match ui_as u with Some a => wf_ident src a | None => True end) ->
  rt1 g_use_item p_use_item sn_use_item u.
Proof.
  destruct u as [i oa]. cbn [ui_id ui_as]. intros [Hi Ha] docs rest ts H.
  unfold p_use_item in H. cbn [ui_id ui_as] in H. nrm H. peel H as it r0 Hit.
  destruct (leaf_ident _ _ _ Hi Hit) as [H1 H2]. destruct oa as [a|].
  - nrm H. peel H as ask r1 Hask. peel H as at_ r2 Hat. destruct (leaf_ident _ _ _ Ha Hat) as [H3 H4].
    exists {| ui_id := mk_ident it; ui_as := Some (mk_ident at_) |}, r2. split.
    { exists (map LTok (ask :: at_ :: r2)), (mk_ident it), (Some (mk_ident at_)). split; [eapply g_id_intro; eauto|].
      split; [eapply opt_some; [tokg|eapply g_id_intro; eauto]|reflexivity]. }
    split; [exact H|]. split; [unfold sn_use_item; cbn [ui_id ui_as option_map]; congruence|]. unfold p_use_item. fin_res.
  - nrm H. exists {| ui_id := mk_ident it; ui_as := None |}, r0. split.
    { exists (map LTok r0), (mk_ident it), None. split; [eapply g_id_intro; eauto|]. split; [constructor|reflexivity]. }
    split; [exact H|]. split; [unfold sn_use_item; cbn [ui_id ui_as option_map]; congruence|]. unfold p_use_item. fin_res.
Qed.

Lemma rt_use u : wf_use src u -> rt1d (g_use d) (p_use fx) sn_use u.
Proof.
  destruct u as [dcs pth items]. intros [Hp Hitems] rest ts H. cbn [u_path u_items] in *.
  unfold p_use in H. cbn [u_docs u_path u_items] in H. nrm H. dstep H. peel H as k0 r0 Hk0.
  destruct (docs_back2 _ _ _ _ Hk0) as [D1 D2].
  assert (Hpath : exists pth' r1, g_use_path (map LTok r0) (map LTok r1) pth' /\
            Forall2 R r1 (catoks src [] (CTok TDot :: CTok TOpenBrace :: CSp :: comma_sep p_use_item true items ++
                                          CSp :: CTok TCloseBrace :: CTok TSemicolon :: rest)) /\
            sn_use_path pth' = sn_use_path pth /\ map (res1 src') (p_use_path pth') = map (res1 src) (p_use_path pth)).
  { destruct pth as [pp|i]; cbn [p_use_path] in H; nrm H.
    - peel H as pt r1 Hpt. destruct (leaf_package_path _ _ _ Hp Hpt) as (p' & E0 & E1 & E2).
      exists (UPPackage p'), r1. split; [apply gup_package; exists pt; split; [tokg|exact E0]|]. split; [exact H|].
      split; [cbn [sn_use_path]; congruence|]. cbn [p_use_path]. fin_res.
    - peel H as it r1 Hit. destruct (leaf_ident _ _ _ Hp Hit) as [E1 E2].
      exists (UPIdent (mk_ident it)), r1. split; [apply gup_id; eapply g_id_intro; eauto|]. split; [exact H|].
      split; [cbn [sn_use_path]; congruence|]. cbn [p_use_path]. fin_res. }
  destruct Hpath as (pth' & r1 & Hgp & Hr & Hsnp & Hresp). nrm Hr. peel Hr as dt r2 Hdt. peel Hr as ob r3 Hob.
  destruct (rt_comma_sep g_use_item p_use_item sn_use_item items (All_Forall _ _ _ rt_use_item Hitems) _ _ Hr)
    as (items' & r4 & Hg & Hr2 & Hsn & Hres).
  nrm Hr2. peel Hr2 as cb r5 Hcb. peel Hr2 as sc r6 Hsc.
  exists {| u_docs := tdocs k0; u_path := pth'; u_items := items' |}, r6. split.
  { do 6 eexists. exists k0, pth', dt, ob, cb, sc, items', false.
    split; [tokg|]. split; [exact Hgp|]. split; [tokg|]. split; [tokg|]. split; [exact Hg|].
    split; [right; reflexivity|]. split; [tokg|]. split; [tokg|reflexivity]. }
  split; [exact Hr2|]. split; [unfold sn_use; cbn [u_docs u_path u_items]; congruence|]. unfold p_use. fin_res.
Qed.

Lemma rt_func_type_ref t :
  match t with FRFunc f => wf_func_type src f | FRIdent j => wf_ident src j end ->
  rt1 (g_func_type_ref d) p_func_type_ref sn_func_type_ref t.
Proof.
  destruct t as [f|j]; intros Hwf docs rest ts H; cbn [p_func_type_ref] in H.
  - destruct (rt_func_type _ Hwf _ _ _ H) as (f' & r & Hg & Hr & Hsn & Hres).
    exists (FRFunc f'), r. split; [apply gfr_func; exact Hg|]. split; [exact Hr|].
    split; [cbn [sn_func_type_ref]; congruence|exact Hres].
  - nrm H. peel H as it r0 Hit. destruct (leaf_ident _ _ _ Hwf Hit) as [E1 E2].
    exists (FRIdent (mk_ident it)), r0. split; [apply gfr_id; eapply g_id_intro; eauto|]. split; [exact H|].
    split; [cbn [sn_func_type_ref]; congruence|]. cbn [p_func_type_ref]. fin_res.
Qed.

Lemma rt_interface_item it : wf_interface_item src it -> rt1d (g_interface_item d) (p_interface_item fx) sn_interface_item it.
Proof.
  destruct it as [u|x|dcs i t]; intros Hwf rest ts H; cbn [p_interface_item] in H.
  - destruct (rt_use _ Hwf _ _ H) as (u' & r & Hg & Hr & Hsn & Hres).
    exists (IIUse u'), r. split; [apply gii_use; exact Hg|]. split; [exact Hr|].
    split; [cbn [sn_interface_item]; congruence|exact Hres].
  - destruct (rt_item_type_decl _ Hwf _ _ H) as (x' & r & Hg & Hr & Hsn & Hres).
    exists (IIType x'), r. split; [apply gii_type; exact Hg|]. split; [exact Hr|].
    split; [cbn [sn_interface_item]; congruence|exact Hres].
  - destruct Hwf as [Hi Ht]. nrm H. dstep H. peel H as itk r0 Hit. peel H as co r1 Hco.
    destruct (leaf_ident _ _ _ Hi Hit) as [H1 H2]. destruct (docs_back2 _ _ _ _ Hit) as [D1 D2].
    destruct (rt_func_type_ref _ Ht _ _ _ H) as (t' & r2 & Hg & Hr & Hsn & Hres). nrm Hr. peel Hr as sc r3 Hsc.
    exists (IIExport (tdocs itk) (mk_ident itk) t'), r3.
    split; [eapply gii_export; [eapply g_id_intro; eauto|tokg|exact Hg|tokg]|].
    split; [exact Hr|]. split; [cbn [sn_interface_item]; congruence|]. cbn [p_interface_item]. fin_res.
Qed.

(** [{ item* }] *)
Lemma rt_interface_body items :
  All (wf_interface_item src) items ->
  forall docs rest ts,
    Forall2 R ts (catoks src docs (CTok TOpenBrace :: p_items (p_interface_item fx) items ++ rest)) ->
    exists items' r, g_interface_body d (map LTok ts) (map LTok r) items' /\ Forall2 R r (catoks src [] rest) /\
                     map sn_interface_item items' = map sn_interface_item items /\
                     map (res1 src') (p_items (p_interface_item fx) items') =
                     map (res1 src) (p_items (p_interface_item fx) items).
Proof.
  intros Hall docs rest ts H. unfold p_items in H. nrm H. peel H as ob r0 Hob.
  destruct (rt_spaced (g_interface_item d) (p_interface_item fx) sn_interface_item items
              (All_Forall _ _ _ rt_interface_item Hall) _ _ _ H) as (items' & r1 & Hg & Hr & Hsn & Hres).
  nrm Hr. peel Hr as cb r2 Hcb.
  exists items', r2. split; [do 2 eexists; exists ob, cb; split; [tokg|]; split; [exact Hg|tokg]|].
  split; [exact Hr|]. split; [exact Hsn|]. unfold p_items. specialize (Hres true). fin_res.
Qed.

Lemma rt_inline_interface items :
  All (wf_interface_item src) items ->
  forall docs rest ts, Forall2 R ts (catoks src docs (p_inline_interface fx items ++ rest)) ->
    exists items' r, g_inline_interface d (map LTok ts) (map LTok r) items' /\ Forall2 R r (catoks src [] rest) /\
                     map sn_interface_item items' = map sn_interface_item items /\
                     map (res1 src') (p_inline_interface fx items') = map (res1 src) (p_inline_interface fx items).
Proof.
  intros Hall docs rest ts H. unfold p_inline_interface in H. nrm H. peel H as k0 r0 Hk0.
  destruct (rt_interface_body _ Hall _ _ _ H) as (items' & r & Hg & Hr & Hsn & Hres).
  exists items', r. split; [do 1 eexists; exists k0; split; [tokg|exact Hg]|]. split; [exact Hr|]. split; [exact Hsn|].
  unfold p_inline_interface. fin_res.
Qed.

Lemma rt_extern_type t : wf_extern_type src t -> rt1 (g_extern_type d) (p_extern_type fx) sn_extern_type t.
Proof.
  destruct t as [i|f|items]; intros Hwf docs rest ts H; cbn [p_extern_type] in H.
  - nrm H. peel H as it r0 Hit. destruct (leaf_ident _ _ _ Hwf Hit) as [E1 E2].
    exists (ETIdent (mk_ident it)), r0. split; [apply get_id; eapply g_id_intro; eauto|]. split; [exact H|].
    split; [cbn [sn_extern_type]; congruence|]. cbn [p_extern_type]. fin_res.
  - destruct (rt_func_type _ Hwf _ _ _ H) as (f' & r & Hg & Hr & Hsn & Hres).
    exists (ETFunc f'), r. split; [apply get_func; exact Hg|]. split; [exact Hr|].
    split; [cbn [sn_extern_type]; congruence|exact Hres].
  - destruct (rt_inline_interface _ Hwf _ _ _ H) as (items' & r & Hg & Hr & Hsn & Hres).
    exists (ETInterface items'), r. split; [apply get_interface; exact Hg|]. split; [exact Hr|].
    split; [cbn [sn_extern_type]; congruence|exact Hres].
Qed.

Lemma rt_world_item_path p :
  wf_world_item_path src p -> rt1 (g_world_item_path d) (p_world_item_path fx) sn_world_item_path p.
Proof.
  destruct p as [i t|pp|i]; intros Hwf docs rest ts H; cbn [p_world_item_path] in H; nrm H.
  - destruct Hwf as [Hi Ht]. peel H as it r0 Hit. peel H as co r1 Hco.
    destruct (leaf_ident _ _ _ Hi Hit) as [E1 E2].
    destruct (rt_extern_type _ Ht _ _ _ H) as (t' & r & Hg & Hr & Hsn & Hres).
    exists (WPNamed (mk_ident it) t'), r. split; [eapply gwp_named; [eapply g_id_intro; eauto|tokg|exact Hg]|].
    split; [exact Hr|]. split; [cbn [sn_world_item_path]; congruence|]. cbn [p_world_item_path]. fin_res.
  - peel H as pt r1 Hpt. destruct (leaf_package_path _ _ _ Hwf Hpt) as (p' & E0 & E1 & E2).
    exists (WPPackage p'), r1. split; [apply gwp_package; exists pt; split; [tokg|exact E0]|]. split; [exact H|].
    split; [cbn [sn_world_item_path]; congruence|]. cbn [p_world_item_path]. fin_res.
  - peel H as it r0 Hit. destruct (leaf_ident _ _ _ Hwf Hit) as [E1 E2].
    exists (WPIdent (mk_ident it)), r0. split; [apply gwp_id; eapply g_id_intro; eauto|]. split; [exact H|].
    split; [cbn [sn_world_item_path]; congruence|]. cbn [p_world_item_path]. fin_res.
Qed.

Lemma rt_include_item it :
  (wf_ident src (ii_from it) /\ wf_ident src (ii_to it)) -> rt1d g_include_item p_include_item sn_include_item it.
Proof.
  destruct it as [a b]. cbn [ii_from ii_to]. intros [Ha Hb] rest ts H.
  unfold p_include_item in H. cbn [ii_from ii_to] in H. nrm H.
  peel H as ta r0 Hta. peel H as ask r1 Hask. peel H as tb r2 Htb.
  destruct (leaf_ident _ _ _ Ha Hta) as [E1 E2]. destruct (leaf_ident _ _ _ Hb Htb) as [E3 E4].
  exists {| ii_from := mk_ident ta; ii_to := mk_ident tb |}, r2. split.
  { do 2 eexists. exists (mk_ident ta), ask, (mk_ident tb). split; [eapply g_id_intro; eauto|]. split; [tokg|].
    split; [eapply g_id_intro; eauto|reflexivity]. }
  split; [exact H|]. split; [unfold sn_include_item; cbn [ii_from ii_to]; congruence|]. unfold p_include_item. fin_res.
Qed.

Lemma rt_world_item w : wf_world_item src w -> rt1d (g_world_item d) (p_world_item fx) sn_world_item w.
Proof.
  destruct w as [u|x|dcs p|dcs p|dcs wr items]; intros Hwf rest ts H; cbn [p_world_item] in H.
  - destruct (rt_use _ Hwf _ _ H) as (u' & r & Hg & Hr & Hsn & Hres).
    exists (WIUse u'), r. split; [apply gwi_use; exact Hg|]. split; [exact Hr|].
    split; [cbn [sn_world_item]; congruence|exact Hres].
  - destruct (rt_item_type_decl _ Hwf _ _ H) as (x' & r & Hg & Hr & Hsn & Hres).
    exists (WIType x'), r. split; [apply gwi_type; exact Hg|]. split; [exact Hr|].
    split; [cbn [sn_world_item]; congruence|exact Hres].
  - nrm H. dstep H. peel H as k0 r0 Hk0. destruct (docs_back2 _ _ _ _ Hk0) as [D1 D2].
    destruct (rt_world_item_path _ Hwf _ _ _ H) as (p' & r1 & Hg & Hr & Hsn & Hres). nrm Hr. peel Hr as sc r2 Hsc.
    exists (WIImport (tdocs k0) p'), r2. split; [eapply gwi_import; [tokg|exact Hg|tokg]|]. split; [exact Hr|].
    split; [cbn [sn_world_item]; congruence|]. cbn [p_world_item]. fin_res.
  - nrm H. dstep H. peel H as k0 r0 Hk0. destruct (docs_back2 _ _ _ _ Hk0) as [D1 D2].
    destruct (rt_world_item_path _ Hwf _ _ _ H) as (p' & r1 & Hg & Hr & Hsn & Hres). nrm Hr. peel Hr as sc r2 Hsc.
    exists (WIExport (tdocs k0) p'), r2. split; [eapply gwi_export; [tokg|exact Hg|tokg]|]. split; [exact Hr|].
    split; [cbn [sn_world_item]; congruence|]. cbn [p_world_item]. fin_res.
  - destruct Hwf as [Hw Hitems]. nrm H. dstep H. peel H as k0 r0 Hk0. destruct (docs_back2 _ _ _ _ Hk0) as [D1 D2].
    assert (Hwr : exists wr' r1, g_world_ref (map LTok r0) (map LTok r1) wr' /\
              Forall2 R r1 (catoks src [] (match items with
                                           | [] => []
                                           | _ :: _ => [CSp; CTok TWithKeyword; CSp; CTok TOpenBrace; CNewline; CInc] ++
                                                       comma_lines p_include_item items ++ [CDec; CIndent; CTok TCloseBrace]
                                           end ++ CTok TSemicolon :: rest)) /\
              sn_world_ref wr' = sn_world_ref wr /\ map (res1 src') (p_world_ref wr') = map (res1 src) (p_world_ref wr)).
    { destruct wr as [i|pp]; cbn [p_world_ref] in H; nrm H.
      - peel H as it r1 Hit. destruct (leaf_ident _ _ _ Hw Hit) as [E1 E2].
        exists (WRIdent (mk_ident it)), r1. split; [apply gwr_id; eapply g_id_intro; eauto|]. split; [exact H|].
        split; [cbn [sn_world_ref]; congruence|]. cbn [p_world_ref]. fin_res.
      - peel H as pt r1 Hpt. destruct (leaf_package_path _ _ _ Hw Hpt) as (p' & E0 & E1 & E2).
        exists (WRPackage p'), r1. split; [apply gwr_package; exists pt; split; [tokg|exact E0]|]. split; [exact H|].
        split; [cbn [sn_world_ref]; congruence|]. cbn [p_world_ref]. fin_res. }
    destruct Hwr as (wr' & r1 & Hgw & Hr & Hsnw & Hresw).
    destruct items as [|x l].
    + nrm Hr. peel Hr as sc r2 Hsc.
      exists (WIInclude (tdocs k0) wr' []), r2. split.
      { eapply (gwi_include d (map LTok (k0 :: r0)) _ _ _ _ k0 wr' None sc); [tokg|exact Hgw|constructor|tokg]. }
      split; [exact Hr|]. split; [cbn [sn_world_item]; congruence|]. cbn [p_world_item]. fin_res.
    + nrm Hr. peel Hr as wk r2 Hwk. peel Hr as ob r3 Hob.
      destruct (rt_comma_lines g_include_item p_include_item sn_include_item l x
                  (All_Forall _ _ _ rt_include_item Hitems) _ _ Hr) as (l' & r4 & Hg & Hne & Hr2 & Hsn & Hres).
      nrm Hr2. peel Hr2 as cb r5 Hcb. peel Hr2 as sc r6 Hsc.
      exists (WIInclude (tdocs k0) wr' l'), r6. split.
      { eapply (gwi_include d (map LTok (k0 :: r0)) _ _ _ _ k0 wr' (Some l') sc); [tokg|exact Hgw| |tokg].
        eapply opt_some; [tokg|]. do 2 eexists. exists ob, cb, true. split; [tokg|]. split; [exact Hg|].
        split; [left; exact Hne|tokg]. }
      split; [exact Hr2|]. split; [cbn [sn_world_item]; congruence|].
      cbn [p_world_item]. destruct l' as [|x' l'']; [congruence|]. fin_res.
Qed.

Lemma rt_type_statement t : wf_type_statement src t -> rt1d (g_type_statement d) (p_type_statement fx) sn_type_statement t.
Proof.
  destruct t as [dcs i items|dcs i items|x]; intros Hwf rest ts H; cbn [p_type_statement] in H.
  - destruct Hwf as [Hi Hitems]. nrm H. dstep H. peel H as k0 r0 Hk0. peel H as it r1 Hit.
    destruct (leaf_ident _ _ _ Hi Hit) as [H1 H2]. destruct (docs_back2 _ _ _ _ Hk0) as [D1 D2].
    destruct (rt_interface_body _ Hitems _ _ _ H) as (items' & r & Hg & Hr & Hsn & Hres).
    exists (TSInterface (tdocs k0) (mk_ident it) items'), r.
    split; [eapply gts_interface; [tokg|eapply g_id_intro; eauto|exact Hg]|]. split; [exact Hr|].
    split; [cbn [sn_type_statement]; congruence|]. cbn [p_type_statement]. fin_res.
  - destruct Hwf as [Hi Hitems]. unfold p_items in H. nrm H. dstep H. peel H as k0 r0 Hk0. peel H as it r1 Hit. peel H as ob r2 Hob.
    destruct (leaf_ident _ _ _ Hi Hit) as [H1 H2]. destruct (docs_back2 _ _ _ _ Hk0) as [D1 D2].
    destruct (rt_spaced (g_world_item d) (p_world_item fx) sn_world_item items
                (All_Forall _ _ _ rt_world_item Hitems) _ _ _ H) as (items' & r3 & Hg & Hr & Hsn & Hres).
    nrm Hr. peel Hr as cb r4 Hcb.
    exists (TSWorld (tdocs k0) (mk_ident it) items'), r4.
    split; [eapply gts_world; [tokg|eapply g_id_intro; eauto|tokg|exact Hg|tokg]|]. split; [exact Hr|].
    split; [cbn [sn_type_statement]; congruence|]. cbn [p_type_statement]. unfold p_items. specialize (Hres true). fin_res.
  - destruct Hwf as [Hnr Hx]. destruct (rt_type_decl _ Hnr Hx _ _ H) as (x' & r & Hg & Hr & Hsn & Hres).
    exists (TSType x'), r. split; [apply gts_type; exact Hg|]. split; [exact Hr|].
    split; [cbn [sn_type_statement]; congruence|exact Hres].
Qed.

(* ------------------------------------------------------------------ expressions *)

Lemma args_ok_impl args tr : args_ok impl_flags args tr = true.
Proof. destruct args as [|[] [|]]; destruct tr; reflexivity. Qed.

Lemma rt_postfix p : wf_postfix src p -> rt1d g_postfix p_postfix sn_postfix p.
Proof.
  destruct p as [sp i|sp s0]; intros Hwf rest ts H; cbn [p_postfix] in H; nrm H.
  - peel H as dt r0 Hdt. peel H as it r1 Hit. destruct (leaf_ident _ _ _ Hwf Hit) as [E1 E2].
    exists (PAccess (span_join (tsp dt) (id_span (mk_ident it))) (mk_ident it)), r1.
    split; [eapply gpf_access; [tokg|eapply g_id_intro; eauto]|]. split; [exact H|].
    split; [cbn [sn_postfix]; congruence|]. cbn [p_postfix]. fin_res.
  - peel H as ob r0 Hob. peel H as st r1 Hst. peel H as cb r2 Hcb.
    destruct (leaf_strlit _ _ _ Hwf Hst) as (s' & E0 & E1 & E2).
    exists (PNamedAccess (span_join (tsp ob) (tsp cb)) s'), r2.
    split; [eapply gpf_named; [tokg|exists st; split; [tokg|exact E0]|tokg]|]. split; [exact H|].
    split; [cbn [sn_postfix]; congruence|]. cbn [p_postfix]. fin_res.
Qed.

Lemma rt_postfixes post :
  All (wf_postfix src) post ->
  forall rest ts, Forall2 R ts (catoks src [] (flat_map p_postfix post ++ rest)) ->
  exists post' r, many g_postfix (map LTok ts) (map LTok r) post' /\ Forall2 R r (catoks src [] rest) /\
                  map sn_postfix post' = map sn_postfix post /\
                  map (res1 src') (flat_map p_postfix post') = map (res1 src) (flat_map p_postfix post).
Proof.
  induction post as [|p post IH]; intros Hall rest ts H.
  - exists [], ts. split; [constructor|]. split; [exact H|]. split; reflexivity.
  - destruct Hall as [Hp Hall]. cbn [flat_map] in H. nrm H.
    destruct (rt_postfix _ Hp _ _ H) as (p' & r1 & Hg & Hr & Hsn & Hres).
    destruct (IH Hall _ _ Hr) as (post' & r & Hg2 & Hr2 & Hsn2 & Hres2).
    exists (p' :: post'), r. split; [econstructor; eauto|]. split; [exact Hr2|].
    split; [cbn [map]; congruence|]. cbn [flat_map]. rewrite !map_app. congruence.
Qed.

(** One argument without its separator, one argument line, the argument lines of [new_expr]. *)
Definition p_arg0 (a : inst_arg) : list cmd :=
  match a with
  | AInferred i => [src_id i]
  | ASpread i => [CTok TEllipsis; src_id i]
  | ANamed n x => p_arg_name n ++ [CTok TColon; CSp] ++ p_expr fx x
  | AFill _ => [CTok TEllipsis]
  end.
Definition p_arg_line (a : inst_arg) (last : bool) : list cmd :=
  p_arg0 a ++ (if is_fill a && last then [] else [CTok TComma]).
Definition nil_args (l : list inst_arg) : bool := match l with [] => true | _ => false end.
Fixpoint p_args (l : list inst_arg) : list cmd :=
  match l with
  | [] => []
  | a :: r => CIndent :: p_arg_line a (nil_args r) ++ CNewline :: p_args r
  end.

Lemma p_args_cons a r : p_args (a :: r) = CIndent :: p_arg_line a (nil_args r) ++ CNewline :: p_args r.
Proof. reflexivity. Qed.

Definition p_new_args (args : list inst_arg) : list cmd :=
  match args with
  | [] => [CTok TCloseBrace]
  | [AFill _] => [CSp; CTok TEllipsis; CSp; CTok TCloseBrace]
  | _ => [CNewline; CInc] ++ p_args args ++ [CDec; CIndent; CTok TCloseBrace]
  end.

Lemma p_new_eq sp pkg args :
  p_primary fx (PNew sp pkg args) =
  [CTok TNewKeyword; CSp; CSrc TPackageName (pn_span pkg); CSp; CTok TOpenBrace] ++ p_new_args args.
Proof.
  cbn [p_primary]. f_equal.
  assert (E : forall l,
    (fix go (l : list inst_arg) : list cmd :=
       match l with
       | [] => []
       | a :: r =>
           [CIndent] ++
           match a with
           | AFill _ => CTok TEllipsis ::
                        (if fx_fill_comma fx then match r with [] => [] | _ :: _ => [CTok TComma] end else [])
           | _ => p_arg fx a
           end ++ [CNewline] ++ go r
       end) l = p_args l).
  { induction l as [|a r IH]; [reflexivity|]. rewrite IH. cbn [p_args app]. f_equal. unfold p_arg_line.
    destruct a; cbn [p_arg p_arg0 is_fill andb app fx_fill_comma fx repaired]; repeat (progress (rewrite <- ?app_assoc; cbn [app])); try reflexivity.
    destruct r; reflexivity. }
  rewrite E. unfold p_new_args. destruct args as [|a [|b l]]; [reflexivity| |]; destruct a; reflexivity.
Qed.

Lemma sn_new_eq sp pkg args : sn_primary (PNew sp pkg args) = PNew span0 (sn_package_name pkg) (map sn_arg args).
Proof. reflexivity. Qed.

Lemma sn_arg_fill a' a : sn_arg a' = sn_arg a -> is_fill a' = is_fill a.
Proof. destruct a', a; cbn; intros E; try reflexivity; discriminate E. Qed.

Lemma map_sn_nil_args l' l : map sn_arg l' = map sn_arg l -> nil_args l' = nil_args l.
Proof. destruct l', l; cbn; intros E; try reflexivity; discriminate E. Qed.

Lemma rt_args l : forall a,
  Forall (rt1 (g_arg d) p_arg0 sn_arg) (a :: l) ->
  forall rest ts, Forall2 R ts (catoks src [] (p_args (a :: l) ++ rest)) ->
  exists l' r tr, seplist (g_arg d) (map LTok ts) (map LTok r) (l', tr) /\ l' <> [] /\
                  Forall2 R r (catoks src [] rest) /\ map sn_arg l' = map sn_arg (a :: l) /\
                  map (res1 src') (p_args l') = map (res1 src) (p_args (a :: l)).
Proof.
  induction l as [|b l IH]; intros a Hall rest ts H; inversion Hall as [|? ? Ha Hl]; subst;
    cbn [p_args nil_args] in H; unfold p_arg_line in H.
  - (* last argument *)
    destruct (is_fill a) eqn:Ef; cbn [andb] in H; nrm H.
    + destruct (Ha _ _ _ H) as (a' & r1 & Hg & Hr & Hsn & Hres). nrm Hr.
      exists [a'], r1, false. split; [apply sl_one; exact Hg|]. split; [discriminate|]. split; [exact Hr|].
      split; [cbn [map]; congruence|]. cbn [p_args nil_args]. unfold p_arg_line.
      rewrite (sn_arg_fill _ _ Hsn), Ef. cbn [andb]. fin_res.
    + destruct (Ha _ _ _ H) as (a' & r1 & Hg & Hr & Hsn & Hres). nrm Hr. peel Hr as cm r2 Hcm.
      exists [a'], r2, true. split; [eapply sl_trail; [exact Hg|tokg]|]. split; [discriminate|]. split; [exact Hr|].
      split; [cbn [map]; congruence|]. cbn [p_args nil_args]. unfold p_arg_line.
      rewrite (sn_arg_fill _ _ Hsn), Ef. cbn [andb]. fin_res.
  - rewrite andb_false_r in H. nrm H.
    destruct (Ha _ _ _ H) as (a' & r1 & Hg & Hr & Hsn & Hres). nrm Hr. peel Hr as cm r2 Hcm.
    assert (Hr' : Forall2 R r2 (catoks src [] (p_args (b :: l) ++ rest))).
    { cbn [p_args]. unfold p_arg_line. repeat (progress (repeat (rewrite <- app_assoc); cbn [app catoks])). exact Hr. }
    destruct (IH b Hl _ _ Hr') as (l' & r & tr & Hg2 & Hne & Hr2 & Hsn2 & Hres2).
    exists (a' :: l'), r, tr. split; [eapply sl_cons; [exact Hg|tokg|exact Hg2|exact Hne]|].
    split; [discriminate|]. split; [exact Hr2|]. split; [cbn [map] in *; congruence|].
    rewrite (p_args_cons a' l'), (p_args_cons a (b :: l)). unfold p_arg_line. rewrite (map_sn_nil_args _ _ Hsn2). cbn [nil_args].
    rewrite !andb_false_r. fin_res.
Qed.

Lemma wf_args_All args :
  (fix all (l : list inst_arg) : Prop := match l with [] => True | a :: r => wf_arg src a /\ all r end) args ->
  All (wf_arg src) args.
Proof. induction args as [|a l IH]; cbn; [auto|]. intros [H1 H2]. split; auto. Qed.

Lemma rt_arg_name n :
  match n with ANIdent i => wf_ident src i | ANString s => wf_strlit src s end ->
  rt1 g_arg_name p_arg_name sn_arg_name n.
Proof.
  destruct n as [i|s0]; intros Hwf docs rest ts H; cbn [p_arg_name] in H; nrm H.
  - peel H as it r0 Hit. destruct (leaf_ident _ _ _ Hwf Hit) as [E1 E2].
    exists (ANIdent (mk_ident it)), r0. split; [apply gan_id; eapply g_id_intro; eauto|]. split; [exact H|].
    split; [cbn [sn_arg_name]; congruence|]. cbn [p_arg_name]. fin_res.
  - peel H as st r0 Hst. destruct (leaf_strlit _ _ _ Hwf Hst) as (s' & E0 & E1 & E2).
    exists (ANString s'), r0. split; [apply gan_string; exists st; split; [tokg|exact E0]|]. split; [exact H|].
    split; [cbn [sn_arg_name]; congruence|]. cbn [p_arg_name]. fin_res.
Qed.

Lemma rt_expr_all :
  (forall x, wf_expr src x -> rt1 (g_expr d) (p_expr fx) sn_expr x).
Proof.
  apply (expr_ind' (fun x => wf_expr src x -> rt1 (g_expr d) (p_expr fx) sn_expr x)
                   (fun p => wf_primary src p -> rt1 (g_primary d) (p_primary fx) sn_primary p)
                   (fun a => wf_arg src a -> rt1 (g_arg d) p_arg0 sn_arg a)).
  - (* expr *)
    intros sp p post IHp [Hp Hpost] docs rest ts H. cbn [p_expr] in H. nrm H.
    destruct (IHp Hp _ _ _ H) as (p' & r1 & Hg & Hr & Hsn & Hres).
    destruct (rt_postfixes _ Hpost _ _ Hr) as (post' & r & Hg2 & Hr2 & Hsn2 & Hres2).
    exists (mk_expr p' post'), r. split; [econstructor; eauto|]. split; [exact Hr2|].
    split; [unfold mk_expr; cbn [sn_expr]; congruence|]. unfold mk_expr. cbn [p_expr]. rewrite !map_app. congruence.
  - (* new *)
    intros sp pkg args IHargs [Hpkg Hargs] docs rest ts H. apply wf_args_All in Hargs.
    rewrite p_new_eq in H. nrm H. peel H as k0 r0 Hk0. peel H as pt r1 Hpt. peel H as ob r2 Hob.
    destruct (leaf_package_name _ _ _ Hpkg Hpt) as (pkg' & E0 & E1 & E2).
    assert (Hf : Forall (rt1 (g_arg d) p_arg0 sn_arg) args).
    { clear H. induction IHargs as [|a l Ha _ IHl]; [constructor|]. destruct Hargs as [H1 H2]. constructor; auto. }
    assert (Hbody : exists args' r3 tr cb r4,
              g_args d (map LTok r2) (map LTok (cb :: r4)) (args', tr) /\ R cb (TCloseBrace, fixed_text TCloseBrace, []) /\
              Forall2 R r4 (catoks src [] rest) /\ r3 = cb :: r4 /\ map sn_arg args' = map sn_arg args /\
              map (res1 src') (p_new_args args') = map (res1 src) (p_new_args args)).
    { unfold p_new_args in H. destruct args as [|a [|b l]].
      - nrm H. peel H as cb r4 Hcb. exists [], (cb :: r4), false, cb, r4.
        split; [constructor|]. split; [exact Hcb|]. split; [exact H|]. split; [reflexivity|]. split; reflexivity.
      - destruct a as [i|i|n x|fsp].
        1-3: nrm H;
          match type of H with Forall2 R _ (catoks _ _ (p_args [?a] ++ _)) =>
            destruct (rt_args [] a Hf _ _ H) as (l' & r3 & tr & Hg & Hne & Hr & Hsn & Hres) end;
          nrm Hr; peel Hr as cb r4 Hcb; exists l', (cb :: r4), tr, cb, r4;
          (split; [apply seplist_g_args; exact Hg|]); (split; [exact Hcb|]); (split; [exact Hr|]); (split; [reflexivity|]);
          (split; [exact Hsn|]);
          destruct l' as [|a' [|b' l'']]; try discriminate Hsn; try congruence;
          destruct a'; try discriminate Hsn; unfold p_new_args; fin_res.
        nrm H. peel H as el r3 Hel. peel H as cb r4 Hcb.
        exists [AFill (tsp el)], (cb :: r4), false, cb, r4.
        split; [apply ga_one, gar_fill; tokg|]. split; [exact Hcb|]. split; [exact H|]. split; [reflexivity|]. split; reflexivity.
      - assert (H' : Forall2 R r2 (catoks src [] (p_args (a :: b :: l) ++ CDec :: CIndent :: CTok TCloseBrace :: rest))).
        { destruct a; nrm H; exact H. }
        destruct (rt_args (b :: l) a Hf _ _ H') as (l' & r3 & tr & Hg & Hne & Hr & Hsn & Hres).
        nrm Hr. peel Hr as cb r4 Hcb. exists l', (cb :: r4), tr, cb, r4.
        split; [apply seplist_g_args; exact Hg|]. split; [exact Hcb|]. split; [exact Hr|]. split; [reflexivity|].
        split; [exact Hsn|]. destruct l' as [|a' [|b' l'']]; try discriminate Hsn.
        unfold p_new_args. assert (E : forall (a0 : inst_arg) b0 l0,
            match a0 :: b0 :: l0 with
            | [] => [CTok TCloseBrace]
            | [AFill _] => [CSp; CTok TEllipsis; CSp; CTok TCloseBrace]
            | _ => [CNewline; CInc] ++ p_args (a0 :: b0 :: l0) ++ [CDec; CIndent; CTok TCloseBrace]
            end = [CNewline; CInc] ++ p_args (a0 :: b0 :: l0) ++ [CDec; CIndent; CTok TCloseBrace])
          by (intros [] ? ?; reflexivity).
        rewrite !E. fin_res. }
    destruct Hbody as (args' & r3 & tr & cb & r4 & Hg & Hcb & Hr & _ & Hsn & Hres).
    exists (PNew (span_join (tsp k0) (tsp cb)) pkg' args'), r4. split.
    { eapply gp_new; [tokg|exists pt; split; [tokg|exact E0]|tokg|exact Hg|apply args_ok_impl|tokg]. }
    split; [exact Hr|]. split; [rewrite !sn_new_eq; congruence|]. rewrite !p_new_eq. fin_res.
  - (* nested *)
    intros sp x IHx Hwf docs rest ts H. cbn [p_primary] in H. nrm H. peel H as op r0 Hop.
    destruct (IHx Hwf _ _ _ H) as (x' & r1 & Hg & Hr & Hsn & Hres). nrm Hr. peel Hr as cp r2 Hcp.
    exists (PNested (span_join (tsp op) (tsp cp)) x'), r2. split; [eapply gp_nested; [tokg|exact Hg|tokg]|].
    split; [exact Hr|]. split; [cbn [sn_primary]; congruence|]. cbn [p_primary]. fin_res.
  - (* identifier *)
    intros i Hwf docs rest ts H. cbn [p_primary] in H. nrm H. peel H as it r0 Hit.
    destruct (leaf_ident _ _ _ Hwf Hit) as [E1 E2].
    exists (PIdent (mk_ident it)), r0. split; [apply gp_id; eapply g_id_intro; eauto|]. split; [exact H|].
    split; [cbn [sn_primary]; congruence|]. cbn [p_primary]. fin_res.
  - (* inferred *)
    intros i Hwf docs rest ts H. cbn [p_arg0] in H. nrm H. peel H as it r0 Hit.
    destruct (leaf_ident _ _ _ Hwf Hit) as [E1 E2].
    exists (AInferred (mk_ident it)), r0. split; [apply gar_inferred; eapply g_id_intro; eauto|]. split; [exact H|].
    split; [cbn [sn_arg]; congruence|]. cbn [p_arg0]. fin_res.
  - (* spread *)
    intros i Hwf docs rest ts H. cbn [p_arg0] in H. nrm H. peel H as el r0 Hel. peel H as it r1 Hit.
    destruct (leaf_ident _ _ _ Hwf Hit) as [E1 E2].
    exists (ASpread (mk_ident it)), r1. split; [eapply gar_spread; [tokg|eapply g_id_intro; eauto]|]. split; [exact H|].
    split; [cbn [sn_arg]; congruence|]. cbn [p_arg0]. fin_res.
  - (* named *)
    intros n x IHx [Hn Hx] docs rest ts H. cbn [p_arg0] in H. nrm H.
    destruct (rt_arg_name _ Hn _ _ _ H) as (n' & r0 & Hgn & Hr & Hsnn & Hresn). nrm Hr. peel Hr as co r1 Hco.
    destruct (IHx Hx _ _ _ Hr) as (x' & r2 & Hg & Hr2 & Hsn & Hres).
    exists (ANamed n' x'), r2. split; [eapply gar_named; [exact Hgn|tokg|exact Hg]|]. split; [exact Hr2|].
    split; [cbn [sn_arg]; congruence|]. cbn [p_arg0]. fin_res.
  - (* fill *)
    intros sp _ docs rest ts H. cbn [p_arg0] in H. nrm H. peel H as el r0 Hel.
    exists (AFill (tsp el)), r0. split; [apply gar_fill; tokg|]. split; [exact H|]. split; reflexivity.
Qed.

(* ------------------------------------------------------------------ statements, document *)

Lemma rt_extern_name n : wf_extern_name src n -> rt1 g_extern_name p_extern_name sn_extern_name n.
Proof.
  destruct n as [i|s0]; intros Hwf docs rest ts H; cbn [p_extern_name] in H; nrm H.
  - peel H as it r0 Hit. destruct (leaf_ident _ _ _ Hwf Hit) as [E1 E2].
    exists (ENIdent (mk_ident it)), r0. split; [apply gen_id; eapply g_id_intro; eauto|]. split; [exact H|].
    split; [cbn [sn_extern_name]; congruence|]. cbn [p_extern_name]. fin_res.
  - peel H as st r0 Hst. destruct (leaf_strlit _ _ _ Hwf Hst) as (s' & E0 & E1 & E2).
    exists (ENString s'), r0. split; [apply gen_string; exists st; split; [tokg|exact E0]|]. split; [exact H|].
    split; [cbn [sn_extern_name]; congruence|]. cbn [p_extern_name]. fin_res.
Qed.

Lemma rt_import_type t :
  match t with
  | ITPackage p => wf_package_path src p
  | ITFunc f => wf_func_type src f
  | ITInterface items => All (wf_interface_item src) items
  | ITIdent j => wf_ident src j
  end -> rt1 (g_import_type d) (p_import_type fx) sn_import_type t.
Proof.
  destruct t as [pp|f|items|j]; intros Hwf docs rest ts H; cbn [p_import_type] in H.
  - nrm H. peel H as pt r1 Hpt. destruct (leaf_package_path _ _ _ Hwf Hpt) as (p' & E0 & E1 & E2).
    exists (ITPackage p'), r1. split; [apply git_package; exists pt; split; [tokg|exact E0]|]. split; [exact H|].
    split; [cbn [sn_import_type]; congruence|]. cbn [p_import_type]. fin_res.
  - destruct (rt_func_type _ Hwf _ _ _ H) as (f' & r & Hg & Hr & Hsn & Hres).
    exists (ITFunc f'), r. split; [apply git_func; exact Hg|]. split; [exact Hr|].
    split; [cbn [sn_import_type]; congruence|exact Hres].
  - destruct (rt_inline_interface _ Hwf _ _ _ H) as (items' & r & Hg & Hr & Hsn & Hres).
    exists (ITInterface items'), r. split; [apply git_interface; exact Hg|]. split; [exact Hr|].
    split; [cbn [sn_import_type]; congruence|exact Hres].
  - nrm H. peel H as it r0 Hit. destruct (leaf_ident _ _ _ Hwf Hit) as [E1 E2].
    exists (ITIdent (mk_ident it)), r0. split; [apply git_id; eapply g_id_intro; eauto|]. split; [exact H|].
    split; [cbn [sn_import_type]; congruence|]. cbn [p_import_type]. fin_res.
Qed.

Lemma rt_statement st : wf_statement src st -> rt1d (g_statement d) (p_statement fx) sn_statement st.
Proof.
  destruct st as [dcs i name t|t|dcs i x|dcs x o]; intros Hwf rest ts H; cbn [p_statement] in H.
  - (* import *)
    destruct Hwf as (Hi & Hname & Ht). nrm H. dstep H. peel H as k0 r0 Hk0. peel H as it r1 Hit.
    destruct (leaf_ident _ _ _ Hi Hit) as [H1 H2]. destruct (docs_back2 _ _ _ _ Hk0) as [D1 D2].
    assert (Hn : exists name' r2, opt TAsKeyword g_extern_name (map LTok r1) (map LTok r2) name' /\
              Forall2 R r2 (catoks src [] (CTok TColon :: CSp :: p_import_type fx t ++ CTok TSemicolon :: rest)) /\
              option_map sn_extern_name name' = option_map sn_extern_name name /\
              map (res1 src') (match name' with Some n => [CSp; CTok TAsKeyword; CSp] ++ p_extern_name n | None => [] end) =
              map (res1 src) (match name with Some n => [CSp; CTok TAsKeyword; CSp] ++ p_extern_name n | None => [] end)).
    { destruct name as [n|]; nrm H.
      - peel H as ask r2 Hask. destruct (rt_extern_name _ Hname _ _ _ H) as (n' & r3 & Hg & Hr & Hsn & Hres).
        exists (Some n'), r3. split; [eapply opt_some; [tokg|exact Hg]|]. split; [exact Hr|].
        split; [cbn [option_map]; congruence|]. fin_res.
      - exists None, r1. split; [constructor|]. split; [exact H|]. split; reflexivity. }
    destruct Hn as (name' & r2 & Hgn & Hr & Hsnn & Hresn). simp_res_in Hresn. peel Hr as co r3 Hco.
    destruct (rt_import_type _ Ht _ _ _ Hr) as (t' & r4 & Hg & Hr2 & Hsn & Hres). nrm Hr2. peel Hr2 as sc r5 Hsc.
    exists (SImport (tdocs k0) (mk_ident it) name' t'), r5.
    split; [eapply gs_import; [tokg|eapply g_id_intro; eauto|exact Hgn|tokg|exact Hg|tokg]|].
    split; [exact Hr2|]. split; [cbn [sn_statement]; congruence|]. cbn [p_statement]. fin_res.
  - (* type statement *)
    destruct (rt_type_statement _ Hwf _ _ H) as (t' & r & Hg & Hr & Hsn & Hres).
    exists (SType t'), r. split; [apply gs_type; exact Hg|]. split; [exact Hr|].
    split; [cbn [sn_statement]; congruence|exact Hres].
  - (* let *)
    destruct Hwf as [Hi Hx]. nrm H. dstep H. peel H as k0 r0 Hk0. peel H as it r1 Hit. peel H as eq r2 Heq.
    destruct (leaf_ident _ _ _ Hi Hit) as [H1 H2]. destruct (docs_back2 _ _ _ _ Hk0) as [D1 D2].
    destruct (rt_expr_all _ Hx _ _ _ H) as (x' & r3 & Hg & Hr & Hsn & Hres). nrm Hr. peel Hr as sc r4 Hsc.
    exists (SLet (tdocs k0) (mk_ident it) x'), r4.
    split; [eapply gs_let; [tokg|eapply g_id_intro; eauto|tokg|exact Hg|tokg]|].
    split; [exact Hr|]. split; [cbn [sn_statement]; congruence|]. cbn [p_statement]. fin_res.
  - (* export *)
    destruct Hwf as [Hx Ho]. nrm H. dstep H. peel H as k0 r0 Hk0. destruct (docs_back2 _ _ _ _ Hk0) as [D1 D2].
    destruct (rt_expr_all _ Hx _ _ _ H) as (x' & r1 & Hg & Hr & Hsn & Hres).
    assert (Hopt : exists o' r2, g_export_options (map LTok r1) (map LTok r2) o' /\
              Forall2 R r2 (catoks src [] (CTok TSemicolon :: rest)) /\
              sn_export_options o' = sn_export_options o /\
              map (res1 src') (match o' with EONone => [] | EOSpread _ => [CTok TEllipsis]
                                        | EORename n => [CSp; CTok TAsKeyword; CSp] ++ p_extern_name n end) =
              map (res1 src) (match o with EONone => [] | EOSpread _ => [CTok TEllipsis]
                                      | EORename n => [CSp; CTok TAsKeyword; CSp] ++ p_extern_name n end)).
    { destruct o as [|osp|n]; nrm Hr.
      - exists EONone, r1. split; [constructor|]. split; [exact Hr|]. split; reflexivity.
      - peel Hr as el r2 Hel. exists (EOSpread (tsp el)), r2. split; [apply geo_spread; tokg|]. split; [exact Hr|].
        split; reflexivity.
      - peel Hr as ask r2 Hask. destruct (rt_extern_name _ Ho _ _ _ Hr) as (n' & r3 & Hgn & Hr2 & Hsnn & Hresn).
        exists (EORename n'), r3. split; [eapply geo_rename; [tokg|exact Hgn]|]. split; [exact Hr2|].
        split; [cbn [sn_export_options]; congruence|]. fin_res. }
    destruct Hopt as (o' & r2 & Hgo & Hr2 & Hsno & Hreso). simp_res_in Hreso. peel Hr2 as sc r3 Hsc.
    exists (SExport (tdocs k0) x' o'), r3.
    split; [eapply gs_export; [tokg|exact Hg|exact Hgo|tokg]|].
    split; [exact Hr2|]. split; [cbn [sn_statement]; congruence|]. cbn [p_statement]. fin_res.
Qed.

(** The whole document: the tokens of [p_document] derive a document [sn]-equal to the original, and
    printing it issues the same resolved commands. *)
Theorem rt_document doc :
  wf_document src doc ->
  forall ts, Forall2 R ts (catoks src [] (p_document fx doc)) ->
  exists doc', g_document d (map LTok ts) [] doc' /\ sn doc' = sn doc /\
               map (res1 src') (p_document fx doc') = map (res1 src) (p_document fx doc).
Proof.
  destruct doc as [dcs [pkg tg] stmts]. intros (Hpkg & Htg & Hst) ts H. cbn [doc_directive pd_package pd_targets doc_statements] in *.
  unfold p_document, p_directive in H. cbn [doc_docs doc_directive doc_statements pd_package pd_targets] in H.
  rewrite <- (app_nil_r (spaced _ _ _)) in H. nrm H. dstep H.
  peel H as k0 r0 Hk0. peel H as pt r1 Hpt. destruct (docs_back2 _ _ _ _ Hk0) as [D1 D2].
  destruct (leaf_package_name _ _ _ Hpkg Hpt) as (pkg' & E0 & E1 & E2).
  assert (Htg' : exists tg' r2, opt TTargetsKeyword g_package_path (map LTok r1) (map LTok r2) tg' /\
            Forall2 R r2 (catoks src [] (CTok TSemicolon :: CRawNl :: CNewline :: spaced (p_statement fx) true stmts ++ [])) /\
            option_map sn_package_path tg' = option_map sn_package_path tg /\
            map (res1 src') (match tg' with Some p => [CSp; CTok TTargetsKeyword; CSp] ++ [src_path p] | None => [] end) =
            map (res1 src) (match tg with Some p => [CSp; CTok TTargetsKeyword; CSp] ++ [src_path p] | None => [] end)).
  { destruct tg as [p|]; cbn [fx_targets_keyword fx repaired] in H; nrm H.
    - peel H as tk0 r2 Htk. peel H as ptt r3 Hptt. destruct (leaf_package_path _ _ _ Htg Hptt) as (p' & F0 & F1 & F2).
      exists (Some p'), r3. split; [eapply opt_some; [tokg|exists ptt; split; [tokg|exact F0]]|]. split; [exact H|].
      split; [cbn [option_map]; congruence|]. fin_res.
    - exists None, r1. split; [constructor|]. split; [exact H|]. split; reflexivity. }
  destruct Htg' as (tg' & r2 & Hgt & Hr & Hsnt & Hrest). simp_res_in Hrest. peel Hr as sc r3 Hsc. nrm Hr.
  destruct (rt_spaced (g_statement d) (p_statement fx) sn_statement stmts
              (All_Forall _ _ _ rt_statement Hst) _ _ _ Hr) as (stmts' & r4 & Hg & Hr2 & Hsn & Hres).
  cbn [catoks] in Hr2. inversion Hr2; subst.
  exists {| doc_docs := tdocs k0; doc_directive := {| pd_package := pkg'; pd_targets := tg' |}; doc_statements := stmts' |}.
  split.
  { exists (map LTok r3), {| pd_package := pkg'; pd_targets := tg' |}, stmts'. split; [|split; [exact Hg|reflexivity]].
    do 3 eexists. exists k0, pkg', tg', sc. split; [tokg|]. split; [exists pt; split; [tokg|exact E0]|].
    split; [exact Hgt|]. split; [tokg|reflexivity]. }
  split.
  { unfold sn, sn_directive. cbn [doc_docs doc_directive doc_statements pd_package pd_targets]. congruence. }
  unfold p_document, p_directive. cbn [fx_targets_keyword fx repaired]. specialize (Hres true). fin_res.
Qed.

End RoundTrip.

(* ------------------------------------------------------------------ from pieces to tokens *)

Lemma erase_tokens_of_pieces ps : forall o docs,
  map erase (tokens_of_pieces o docs ps) = patoks (map fst docs) ps.
Proof.
  induction ps as [|p ps IH]; intros o docs; [reflexivity|].
  destruct p; cbn [tokens_of_pieces patoks map].
  - unfold erase at 1. cbn [tk ttext tdocs]. f_equal. apply (IH _ []).
  - apply IH.
  - rewrite IH, map_app. reflexivity.
Qed.

(** Every token of [tokens_of_pieces] stands, in the concatenated text, at its span. *)
Lemma tokens_of_pieces_accurate ps : forall pre docs,
  Forall (fun t => slice (pre ++ text_of ps) (tsp t) = Some (ttext t)) (tokens_of_pieces (byte_len pre) docs ps).
Proof.
  induction ps as [|p ps IH]; intros pre docs; [constructor|].
  destruct p as [k t|s|l]; cbn [tokens_of_pieces text_of flat_map piece_text].
  - constructor.
    + cbn [tsp ttext]. apply slice_at.
    + rewrite <- byte_len_app. rewrite app_assoc. apply IH.
  - rewrite <- byte_len_app. rewrite app_assoc. apply IH.
  - replace (byte_len pre + byte_len (doc_prefix ++ l) + 1)%N with (byte_len (pre ++ doc_prefix ++ l ++ [c_nl])).
    + rewrite <- !app_assoc. rewrite (app_assoc pre), (app_assoc (pre ++ doc_prefix)), (app_assoc ((pre ++ doc_prefix) ++ l)).
      rewrite <- (app_assoc pre doc_prefix), <- (app_assoc pre (doc_prefix ++ l)), <- (app_assoc doc_prefix l). apply IH.
    + rewrite !byte_len_app. cbn [byte_len]. change (utf8_len c_nl) with 1%N. lia.
Qed.

Lemma Forall2_of_map {A B} (f : A -> B) (P : A -> Prop) l l' :
  map f l = l' -> Forall P l -> Forall2 (fun a b => f a = b /\ P a) l l'.
Proof.
  intros <- H. induction H as [|a l Ha _ IH]; cbn; constructor; auto.
Qed.

(** The tokens denoted by the printed pieces are related by [R] to the printer's commands. *)
Lemma pieces_R src cs ps :
  layout src 0 false cs = Some ps ->
  Forall2 (R (text_of ps)) (tokens_of_pieces 0 [] ps) (catoks src [] cs).
Proof.
  intros H. unfold R. apply Forall2_of_map.
  - rewrite erase_tokens_of_pieces. cbn [map]. eapply patoks_layout; eauto.
  - exact (tokens_of_pieces_accurate ps [] []).
Qed.

(* ------------------------------------------------------------------ the theorems *)

(** Token level: for a well-formed tree, the tokens written by the repaired printer are derived by
    the grammar as a document [sn]-equal to the original, and the parser (under any environment that
    carries the implementation's flags and enough fuel) returns it. *)
Theorem print_tokens_roundtrip_derivation src doc ps :
  wf_document src doc -> print_pieces repaired src doc = Some ps ->
  exists doc', g_document impl_flags (items_of_pieces ps) [] doc' /\ sn doc' = sn doc /\
               print_pieces repaired (text_of ps) doc' = Some ps.
Proof.
  intros Hwf Hp. unfold print_pieces in *.
  destruct (rt_document src (text_of ps) doc Hwf _ (pieces_R _ _ _ Hp)) as (doc' & Hg & Hsn & Hres).
  exists doc'. split; [exact Hg|]. split; [exact Hsn|].
  rewrite layout_res, Hres, <- layout_res. exact Hp.
Qed.

Theorem print_tokens_roundtrip_parser src doc ps e :
  wf_document src doc -> print_pieces repaired src doc = Some ps ->
  dv e = impl_flags -> length (items_of_pieces ps) < fuel e ->
  exists doc', parse_document_items e (items_of_pieces ps) = POk doc' [] /\ sn doc' = sn doc /\
               print_pieces repaired (text_of ps) doc' = Some ps.
Proof.
  intros Hwf Hp Hd Hf. destruct (print_tokens_roundtrip_derivation _ _ _ Hwf Hp) as (doc' & Hg & Hsn & Hid).
  exists doc'. split; [|auto]. apply parse_document_items_complete; [rewrite Hd; exact Hg|exact Hf].
Qed.

(** The printer does not panic on a well-formed tree. *)
Lemma slice_or_nil_some src sp t : slice src sp = Some t -> slice_or_nil src sp = t.
Proof. unfold slice_or_nil. now intros ->. Qed.

(** Text level, given that the printed text lexes to the tokens the printer meant ([render_lex] for
    this document): the round trip and the idempotence of formatting. *)
Theorem roundtrip_of_render_lex src doc ps :
  wf_document src doc -> print_pieces repaired src doc = Some ps ->
  lex impl_cfg (text_of ps) = items_of_pieces ps ->
  RoundTrip repaired src doc /\ Idempotent repaired src doc.
Proof.
  intros Hwf Hp Hlex.
  assert (Hprint : print repaired src doc = Some (text_of ps)) by (unfold print; now rewrite Hp).
  set (e := {| dv := impl_flags; cx := mk_ctx (text_of ps) (items_of_pieces ps);
               fuel := S (length (items_of_pieces ps)) |}).
  destruct (print_tokens_roundtrip_parser src doc ps e Hwf Hp eq_refl (Nat.lt_succ_diag_r _)) as (doc' & Hparse & Hsn & Hid).
  assert (Hre : reparse (text_of ps) = POk doc' []).
  { unfold reparse, parse_document. change (cfg_with impl_flags impl_cfg) with impl_cfg. rewrite Hlex. exact Hparse. }
  split.
  - exists (text_of ps), doc'. auto.
  - intros text d' Ht Hd'. rewrite Hprint in Ht. inversion Ht; subst text. rewrite Hre in Hd'. inversion Hd'; subst d'.
    unfold print. now rewrite Hid.
Qed.
