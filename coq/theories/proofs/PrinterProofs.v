(** C13, token level: the tokens the (repaired) printer writes for a well-formed tree are derived by
    the grammar of spec/Grammar.v (under the flags the parser realises) as a tree that equals the
    original up to source positions and doc-comment line splitting; moreover printing that tree (from
    the printed text) issues the same commands, leaf texts included.

    Method: every printer function [p_X] produces a list of commands; [catoks] reads off the tokens
    (kind, text, doc comments before it). For a token list [ts] related to these tokens by [R]
    (same kind/text/docs, and each token's span is accurate in the printed text [src']) we build the
    derivation [g_X (ts) (rest) x'] by recursion on the tree, one lemma per node class. The parser
    then returns [x'] by the completeness theorem of C12. *)
From WacV Require Import Str Token Lexer LexTables LexImpl Semver Ast Parser Grammar ParserComb ParserProofs.
From WacV Require Import Printer PrintSpec PrinterText.
From Coq Require Import Lia.
Local Open Scope nat_scope.

(* ------------------------------------------------------------------ resolved commands *)

(** A command with its [source(span)] looked up. *)
Inductive rcmd : Set :=
| RTok (k : token) (text : option str)
| RSp | RDoc (l : str) | RIndent | RNewline | RRawNl | RInc | RDec.

Definition res1 (s : str) (c : cmd) : rcmd :=
  match c with
  | CTok k => RTok k (Some (fixed_text k))
  | CSrc k sp => RTok k (slice s sp)
  | CSp => RSp | CDoc l => RDoc l | CIndent => RIndent | CNewline => RNewline | CRawNl => RRawNl
  | CInc => RInc | CDec => RDec
  end.

Fixpoint layout_r (ind : nat) (indented : bool) (cs : list rcmd) : option (list piece) :=
  match cs with
  | [] => Some []
  | c :: r =>
      let cons := fun (p : piece) (rest : option (list piece)) =>
                    match rest with Some ps => Some (p :: ps) | None => None end in
      match c with
      | RTok k (Some t) => cons (PcTok k t) (layout_r ind indented r)
      | RTok k None => None
      | RSp => cons (PcWs [32%N]) (layout_r ind indented r)
      | RDoc l => cons (PcDoc l) (layout_r ind indented r)
      | RIndent => if indented then layout_r ind indented r
                   else cons (PcWs (indent_text ind)) (layout_r ind true r)
      | RNewline => cons (PcWs [c_nl]) (layout_r ind false r)
      | RRawNl => cons (PcWs [c_nl]) (layout_r ind indented r)
      | RInc => layout_r (S ind) indented r
      | RDec => layout_r (pred ind) indented r
      end
  end.

Lemma layout_res s cs : forall ind b, layout s ind b cs = layout_r ind b (map (res1 s) cs).
Proof.
  induction cs as [|c cs IH]; intros ind b; [reflexivity|].
  destruct c; cbn [layout map res1 layout_r]; rewrite ?IH; reflexivity.
Qed.

(** Tokens of the pieces = tokens of the commands (when no [source(span)] panics). *)
Lemma patoks_layout s cs : forall ind b docs ps,
  layout s ind b cs = Some ps -> patoks docs ps = catoks s docs cs.
Proof.
  induction cs as [|c cs IH]; intros ind b docs ps H; cbn [layout] in H.
  - inversion H. reflexivity.
  - destruct c; cbn [catoks].
    + destruct (layout s ind b cs) eqn:E; inversion H; subst. cbn [patoks]. f_equal. eapply IH; eauto.
    + unfold slice_or_nil. destruct (slice s sp); [|discriminate].
      destruct (layout s ind b cs) eqn:E; inversion H; subst. cbn [patoks]. f_equal. eapply IH; eauto.
    + destruct (layout s ind b cs) eqn:E; inversion H; subst. cbn [patoks]. eapply IH; eauto.
    + destruct (layout s ind b cs) eqn:E; inversion H; subst. cbn [patoks]. eapply IH; eauto.
    + destruct b; [eapply IH; eauto|].
      destruct (layout s ind true cs) eqn:E; inversion H; subst. cbn [patoks]. eapply IH; eauto.
    + destruct (layout s ind false cs) eqn:E; inversion H; subst. cbn [patoks]. eapply IH; eauto.
    + destruct (layout s ind b cs) eqn:E; inversion H; subst. cbn [patoks]. eapply IH; eauto.
    + eapply IH; eauto.
    + eapply IH; eauto.
Qed.

(* ------------------------------------------------------------------ induction principles *)

Section TyInd.
Variable P : ty -> Prop.
Hypothesis Hprim : forall p sp, P (TyPrim p sp).
Hypothesis Htuple : forall ts sp, Forall P ts -> P (TyTuple ts sp).
Hypothesis Hlist : forall t sp, P t -> P (TyList t sp).
Hypothesis Hoption : forall t sp, P t -> P (TyOption t sp).
Hypothesis Hresult : forall ok err sp,
  match ok with Some t => P t | None => True end -> match err with Some t => P t | None => True end ->
  P (TyResult ok err sp).
Hypothesis Hborrow : forall i sp, P (TyBorrow i sp).
Hypothesis Hborrowty : forall t sp, P t -> P (TyBorrowTy t sp).
Hypothesis Hident : forall i, P (TyIdent i).

Fixpoint ty_ind' (t : ty) : P t :=
  match t with
  | TyPrim p sp => Hprim p sp
  | TyTuple ts sp =>
      Htuple ts sp ((fix go (l : list ty) : Forall P l :=
                       match l with [] => Forall_nil _ | x :: r => Forall_cons _ (ty_ind' x) (go r) end) ts)
  | TyList t sp => Hlist t sp (ty_ind' t)
  | TyOption t sp => Hoption t sp (ty_ind' t)
  | TyResult ok err sp =>
      Hresult ok err sp
        (match ok as o return match o with Some t => P t | None => True end with Some t => ty_ind' t | None => I end)
        (match err as o return match o with Some t => P t | None => True end with Some t => ty_ind' t | None => I end)
  | TyBorrow i sp => Hborrow i sp
  | TyBorrowTy t sp => Hborrowty t sp (ty_ind' t)
  | TyIdent i => Hident i
  end.
End TyInd.

Section ExprInd.
Variable P : expr -> Prop.
Variable Q : primary_expr -> Prop.
Variable A : inst_arg -> Prop.
Hypothesis Hexpr : forall sp p post, Q p -> P (Expr sp p post).
Hypothesis Hnew : forall sp pkg args, Forall A args -> Q (PNew sp pkg args).
Hypothesis Hnested : forall sp x, P x -> Q (PNested sp x).
Hypothesis Hpident : forall i, Q (PIdent i).
Hypothesis Hinferred : forall i, A (AInferred i).
Hypothesis Hspread : forall i, A (ASpread i).
Hypothesis Hnamed : forall n x, P x -> A (ANamed n x).
Hypothesis Hfill : forall sp, A (AFill sp).

Fixpoint expr_ind' (x : expr) : P x :=
  match x with Expr sp p post => Hexpr sp p post (primary_ind' p) end
with primary_ind' (p : primary_expr) : Q p :=
  match p with
  | PNew sp pkg args =>
      Hnew sp pkg args ((fix go (l : list inst_arg) : Forall A l :=
                           match l with [] => Forall_nil _ | a :: r => Forall_cons _ (arg_ind' a) (go r) end) args)
  | PNested sp x => Hnested sp x (expr_ind' x)
  | PIdent i => Hpident i
  end
with arg_ind' (a : inst_arg) : A a :=
  match a with
  | AInferred i => Hinferred i
  | ASpread i => Hspread i
  | ANamed n x => Hnamed n x (expr_ind' x)
  | AFill sp => Hfill sp
  end.
End ExprInd.

(* ------------------------------------------------------------------ framework *)

Section RoundTrip.
Variable src src' : str.
Let d := impl_flags.
Let fx := repaired.

(** A token of the re-lexed text [src'] and the token the printer meant to write. *)
Definition R (t : rtoken) (a : atok) : Prop := erase t = a /\ slice src' (tsp t) = Some (ttext t).

Lemma R_kind t k txt docs : R t (k, txt, docs) -> tk t = k.
Proof. intros [H _]. unfold erase in H. congruence. Qed.
Lemma R_text t k txt docs : R t (k, txt, docs) -> ttext t = txt.
Proof. intros [H _]. unfold erase in H. congruence. Qed.
Lemma R_docs t k txt docs : R t (k, txt, docs) -> map fst (tdocs t) = docs.
Proof. intros [H _]. unfold erase in H. congruence. Qed.
Lemma R_acc t a : R t a -> slice src' (tsp t) = Some (ttext t).
Proof. now intros [_ H]. Qed.

Lemma Forall2_cons_inv_r (l : list rtoken) a l' :
  Forall2 R l (a :: l') -> exists t ts, l = t :: ts /\ R t a /\ Forall2 R ts l'.
Proof. intros H. inversion H; subst. eauto. Qed.

Lemma tok_intro k t ts txt docs : R t (k, txt, docs) -> tok k (map LTok (t :: ts)) (map LTok ts) t.
Proof. intros H. split; [reflexivity|eapply R_kind; eauto]. Qed.

(** The statement proved for every node class [X]: grammar relation [G], printer [pr], normaliser
    [snf]. [docs]: doc lines standing before the first token (only doc-bearing nodes look at them;
    for those the statement is used with [docs = []], see [rt1d]). *)
Definition rt1 {A} (G : drel A) (pr : A -> list cmd) (snf : A -> A) (x : A) : Prop :=
  forall docs rest ts, Forall2 R ts (catoks src docs (pr x ++ rest)) ->
  exists x' r, G (map LTok ts) (map LTok r) x' /\ Forall2 R r (catoks src [] rest) /\
               snf x' = snf x /\ map (res1 src') (pr x') = map (res1 src) (pr x).

Definition rt1d {A} (G : drel A) (pr : A -> list cmd) (snf : A -> A) (x : A) : Prop :=
  forall rest ts, Forall2 R ts (catoks src [] (pr x ++ rest)) ->
  exists x' r, G (map LTok ts) (map LTok r) x' /\ Forall2 R r (catoks src [] rest) /\
               snf x' = snf x /\ map (res1 src') (pr x') = map (res1 src) (pr x).

Ltac peel H :=
  let t := fresh "t" in let ts := fresh "ts" in let HR := fresh "HR" in
  apply Forall2_cons_inv_r in H; destruct H as (t & ts & -> & HR & H).

Ltac tokg := first [ eapply tok_intro; eassumption | split; [reflexivity|eapply R_kind; eassumption] ].

(* ------------------------------------------------------------------ leaves *)

Lemma leaf_ident i t docs :
  wf_ident src i -> R t (TIdent, slice_or_nil src (id_span i), docs) ->
  sn_ident (mk_ident t) = sn_ident i /\ slice src' (id_span (mk_ident t)) = slice src (id_span i).
Proof.
  intros (txt & Hs & Hi) HR. pose proof (R_text _ _ _ _ HR) as Ht. pose proof (R_acc _ _ HR) as Ha.
  unfold slice_or_nil in Ht. rewrite Hs in Ht. split.
  - unfold sn_ident. f_equal. rewrite Hi. unfold mk_ident, tok_at. cbn [id_string ttext]. now rewrite Ht.
  - cbn [mk_ident id_span]. rewrite Ha, Hs. now f_equal.
Qed.

Lemma g_id_intro t ts docs txt :
  R t (TIdent, txt, docs) -> g_id (map LTok (t :: ts)) (map LTok ts) (mk_ident t).
Proof. intros H. exists t. split; [eapply tok_intro; eauto|reflexivity]. Qed.

Lemma leaf_strlit s t docs :
  wf_strlit src s -> R t (TString, slice_or_nil src (s_span s), docs) ->
  exists s', strlit_of t = Some s' /\ sn_strlit s' = sn_strlit s /\ slice src' (s_span s') = slice src (s_span s).
Proof.
  intros (txt & Hs & Hu) HR. pose proof (R_text _ _ _ _ HR) as Ht. pose proof (R_acc _ _ HR) as Ha.
  unfold slice_or_nil in Ht. rewrite Hs in Ht. unfold strlit_of. rewrite Ht, Hu.
  eexists. split; [reflexivity|]. split; [reflexivity|]. cbn [s_span]. rewrite Ha, Hs. now f_equal.
Qed.

Lemma version_of_text t1 t2 s v : version_of t1 s = inl v -> version_of t2 s = inl v.
Proof.
  unfold version_of. destruct (find_char c_atsign s); [|auto].
  destruct (parse_version _); [auto|discriminate].
Qed.

Lemma leaf_package_name p t docs :
  wf_package_name src p -> R t (TPackageName, slice_or_nil src (pn_span p), docs) ->
  exists p', package_name_of t = LeafOk p' /\ sn_package_name p' = sn_package_name p /\
             slice src' (pn_span p') = slice src (pn_span p).
Proof.
  intros (txt & Hs & Hp) HR. pose proof (R_text _ _ _ _ HR) as Ht. pose proof (R_acc _ _ HR) as Ha.
  unfold slice_or_nil in Ht. rewrite Hs in Ht. unfold package_name_of in *. cbn [ttext tok_at] in Hp.
  rewrite Ht. destruct (version_of (tok_at TPackageName (pn_span p) txt) txt) as [v|e] eqn:Ev; [|discriminate].
  rewrite (version_of_text _ t _ _ Ev). inversion Hp; subst. eexists. split; [reflexivity|].
  split; [reflexivity|]. cbn [pn_span tok_at tsp]. rewrite Ha, Hs. now f_equal.
Qed.

Lemma leaf_package_path p t docs :
  wf_package_path src p -> R t (TPackagePath, slice_or_nil src (pp_span p), docs) ->
  exists p', package_path_of t = LeafOk p' /\ sn_package_path p' = sn_package_path p /\
             slice src' (pp_span p') = slice src (pp_span p).
Proof.
  intros (txt & Hs & Hp) HR. pose proof (R_text _ _ _ _ HR) as Ht. pose proof (R_acc _ _ HR) as Ha.
  unfold slice_or_nil in Ht. rewrite Hs in Ht. unfold package_path_of in *. cbn [ttext tok_at] in Hp.
  rewrite Ht. destruct (find_char c_slash txt); [|discriminate].
  destruct (version_of (tok_at TPackagePath (pp_span p) txt) txt) as [v|e] eqn:Ev; [|discriminate].
  rewrite (version_of_text _ t _ _ Ev). inversion Hp; subst. eexists. split; [reflexivity|].
  split; [reflexivity|]. cbn [pp_span tok_at tsp]. rewrite Ha, Hs. now f_equal.
Qed.

(** Derivations for the one-token leaves, in the [rt1] form. *)
Lemma rt_ident i : wf_ident src i -> rt1 g_id (fun i => [src_id i]) sn_ident i.
Proof.
  intros Hwf docs rest ts H. cbn [app catoks src_id] in H. peel H.
  destruct (leaf_ident _ _ _ Hwf HR) as [H1 H2].
  exists (mk_ident t), ts0. split; [eapply g_id_intro; eauto|]. split; [exact H|]. split; [exact H1|].
  cbn [map res1 src_id]. now rewrite H2.
Qed.

Lemma rt_strlit s : wf_strlit src s -> rt1 g_string (fun s => [src_str s]) sn_strlit s.
Proof.
  intros Hwf docs rest ts H. cbn [app catoks src_str] in H. peel H.
  destruct (leaf_strlit _ _ _ Hwf HR) as (s' & H0 & H1 & H2).
  exists s', ts0. split; [exists t; split; [tokg|exact H0]|]. split; [exact H|]. split; [exact H1|].
  cbn [map res1 src_str]. now rewrite H2.
Qed.

Lemma rt_package_path p : wf_package_path src p -> rt1 g_package_path (fun p => [src_path p]) sn_package_path p.
Proof.
  intros Hwf docs rest ts H. cbn [app catoks src_path] in H. peel H.
  destruct (leaf_package_path _ _ _ Hwf HR) as (p' & H0 & H1 & H2).
  exists p', ts0. split; [exists t; split; [tokg|exact H0]|]. split; [exact H|]. split; [exact H1|].
  cbn [map res1 src_path]. now rewrite H2.
Qed.

Lemma rt_package_name p :
  wf_package_name src p -> rt1 g_package_name (fun p => [CSrc TPackageName (pn_span p)]) sn_package_name p.
Proof.
  intros Hwf docs rest ts H. cbn [app catoks] in H. peel H.
  destruct (leaf_package_name _ _ _ Hwf HR) as (p' & H0 & H1 & H2).
  exists p', ts0. split; [exists t; split; [tokg|exact H0]|]. split; [exact H|]. split; [exact H1|].
  cbn [map res1]. now rewrite H2.
Qed.

End RoundTrip.
