(** C16, encoder part: the encoder with iteration / representation oracles ([model/EncodeOrder.v]) observes
    exactly what [EncodeModel.encode_model] observes, whatever the oracles do. *)
From Coq Require Import List Arith Bool NArith Permutation Lia.
From WacV Require Import Str StrLit Ord Semver Names Graph Wiring WiringSpec EncodeModel EncodeBasics WiringOrder.
From WacV Require Import Determinism DeterminismProofs EncodeOrder.
Import ListNotations.
Local Open Scope nat_scope.

(** * results related component-wise *)
Definition res_rel {A B} (R : A -> B -> Prop) (r : res A) (r' : res B) : Prop :=
  match r, r' with
  | ROk a, ROk b => R a b
  | RErr x, RErr y => x = y
  | _, _ => False
  end.

Lemma bind_rel {A A' B B'} (R : A -> A' -> Prop) (S : B -> B' -> Prop) r r' (f : A -> res B) (f' : A' -> res B') :
  res_rel R r r' -> (forall a a', R a a' -> res_rel S (f a) (f' a')) -> res_rel S (bind r f) (bind r' f').
Proof. destruct r, r'; cbn; intros H K; try contradiction; auto. Qed.

Lemma res_rel_eq {A} (r r' : res A) : res_rel eq r r' -> r = r'.
Proof. destruct r, r'; cbn; intros H; try contradiction; congruence. Qed.

Lemma fold_left_ext {A B} (f f' : A -> B -> A) l a : (forall x y, f x y = f' x y) -> fold_left f l a = fold_left f' l a.
Proof. intros H. revert a. induction l as [|x r IH]; cbn; intros a; [exact eq_refl|]. rewrite H. apply IH. Qed.

(** * states that answer every lookup alike *)
Lemma est_equiv_refl st : est_equiv st st.
Proof. repeat split. Qed.

Lemma est_equiv_sym a b : est_equiv a b -> est_equiv b a.
Proof. intros (A1 & A2 & A3 & A4 & A5 & A6). repeat split; auto. Qed.

Lemma est_equiv_trans a b c : est_equiv a b -> est_equiv b c -> est_equiv a c.
Proof.
  intros (A1 & A2 & A3 & A4 & A5 & A6) (B1 & B2 & B3 & B4 & B5 & B6).
  split; [congruence|]. split; [congruence|]. split; [congruence|].
  split; [intros k; rewrite A4; apply B4|]. split; [intros k; rewrite A5; apply B5|intros n; rewrite A6; apply B6].
Qed.

Definition pair_equiv (p q : est * nat) : Prop := est_equiv (fst p) (fst q) /\ snd p = snd q.

Lemma emit_equiv st st' it : est_equiv st st' -> est_equiv (emit st it) (emit st' it).
Proof. intros (A1 & A2 & A3 & A4 & A5 & A6). unfold emit, with_log. repeat split; cbn; auto. congruence. Qed.

Lemma run_ty_equiv tau st st' rq : est_equiv st st' -> res_rel pair_equiv (run_ty tau st rq) (run_ty tau st' rq).
Proof.
  intros (A1 & A2 & A3 & A4 & A5 & A6). unfold run_ty. rewrite <- A1.
  destruct (tau (e_log st) rq) as [its idx]. destruct (ty_items_ok (cnt SInstance (e_log st)) its); cbn; [|exact eq_refl].
  split; [|exact eq_refl]. repeat split; cbn; auto; congruence.
Qed.

Lemma set_nidx_equiv st st' n idx : est_equiv st st' -> res_rel est_equiv (set_nidx st n idx) (set_nidx st' n idx).
Proof.
  intros (A1 & A2 & A3 & A4 & A5 & A6). unfold set_nidx. rewrite <- (A4 n).
  destruct (nat_assoc n (e_nidx st)); cbn; [exact eq_refl|].
  repeat split; cbn; auto. intros k. rewrite A4. reflexivity.
Qed.

Lemma enc_definition_equiv e tau st st' n nd :
  est_equiv st st' -> res_rel est_equiv (enc_definition e tau st n nd) (enc_definition e tau st' n nd).
Proof.
  intros H. unfold enc_definition. destruct (nexport nd) as [nm|]; [|exact eq_refl].
  eapply bind_rel; [apply run_ty_equiv; exact H|].
  intros [s1 t1] [s2 t2] [H1 H2]; cbn in *; subst t2.
  destruct H1 as (A1 & A2 & A3 & A4 & A5 & A6). rewrite <- A1.
  match goal with |- context [if ?c then _ else _] => destruct c; [exact eq_refl|] end.
  apply set_nidx_equiv. apply emit_equiv. repeat split; auto.
Qed.

Lemma enc_alias_equiv e u g st st' n :
  est_equiv st st' -> res_rel est_equiv (enc_alias e u g st n) (enc_alias e u g st' n).
Proof.
  intros H. unfold enc_alias. destruct (get_alias_source u g n) as [[src en]|]; [|exact eq_refl].
  destruct (get_node g src) as [sn|]; [|exact eq_refl]. destruct (u_inst_exports u (nitem sn)) as [ex|]; [|exact eq_refl].
  destruct (alist_get N.eqb ex en) as [k|]; [|exact eq_refl].
  pose proof H as (A1 & A2 & A3 & A4 & A5 & A6). rewrite <- (A4 src).
  destruct (nat_assoc src (e_nidx st)) as [inst|]; [|exact eq_refl]. rewrite <- A1.
  apply set_nidx_equiv. apply emit_equiv. exact H.
Qed.

Lemma enc_instantiation_equiv e u g dc tau st st' n nd :
  est_equiv st st' -> res_rel est_equiv (enc_instantiation e u g dc tau st n nd) (enc_instantiation e u g dc tau st' n nd).
Proof.
  intros H. unfold enc_instantiation. destruct (npkg nd) as [pid|]; [|exact eq_refl].
  destruct (get_pkg g pid) as [p|]; [|exact eq_refl]. destruct (inst_imports u g nd) as [imps|]; [|exact eq_refl].
  eapply (bind_rel pair_equiv).
  - pose proof H as (A1 & A2 & A3 & A4 & A5 & A6). rewrite <- (A5 pid).
    destruct (pkg_assoc pid (e_pkgs st)) as [ci|]; cbn; [split; [exact H|reflexivity]|].
    eapply (bind_rel pair_equiv).
    + destruct dc; cbn.
      * split; [apply emit_equiv; exact H|cbn; congruence].
      * eapply (bind_rel pair_equiv); [apply run_ty_equiv; exact H|].
        intros [s1 t1] [s2 t2] [H1 H2]; cbn in *. split; cbn; [apply emit_equiv; exact H1|].
        destruct H1 as (B1 & _). congruence.
    + intros [s1 c1] [s2 c2] [H1 H2]; cbn in *; subst c2. split; [|exact eq_refl]. cbn.
      destruct H1 as (B1 & B2 & B3 & B4 & B5 & B6). repeat split; cbn; auto. intros k. rewrite B5. reflexivity.
  - intros [s1 c1] [s2 c2] [H1 H2]; cbn in *; subst c2.
    destruct H1 as (B1 & B2 & B3 & B4 & B5 & B6).
    match goal with |- res_rel _ (bind (fold_left ?F _ _) _) (bind (fold_left ?F' _ _) _) =>
      assert (EF : fold_left F (incoming g n) (ROk []) = fold_left F' (incoming g n) (ROk [])) end.
    { apply fold_left_ext. intros acc ed. destruct acc as [l|x]; cbn; [|exact eq_refl]. rewrite B4. reflexivity. }
    rewrite EF. match goal with |- res_rel _ (bind ?r _) (bind ?r _) => destruct r as [args|x] end; cbn; [|exact eq_refl].
    fold (impl_of n (e_impl s1)). fold (impl_of n (e_impl s2)). rewrite <- B6, <- B1.
    apply set_nidx_equiv. apply emit_equiv. repeat split; auto.
Qed.

Lemma enc_node_equiv e u g dc tau st st' n :
  est_equiv st st' -> res_rel est_equiv (enc_node e u g dc tau st n) (enc_node e u g dc tau st' n).
Proof.
  intros H. unfold enc_node. destruct (get_node g n) as [nd|]; [|exact eq_refl].
  destruct (nk nd); [apply enc_definition_equiv|exact eq_refl|apply enc_instantiation_equiv|apply enc_alias_equiv]; exact H.
Qed.

Lemma enc_exports_equiv e g st st' : est_equiv st st' -> res_rel est_equiv (enc_exports e g st) (enc_exports e g st').
Proof.
  unfold enc_exports. generalize (exports g). intros l. revert st st'.
  induction l as [|p r IH]; cbn; intros st st' H; [exact H|].
  destruct (is_def g (snd p)); [apply IH; exact H|].
  pose proof H as (A1 & A2 & A3 & A4 & A5 & A6). rewrite <- (A4 (snd p)).
  destruct (nat_assoc (snd p) (e_nidx st)) as [idx|].
  - apply IH. apply emit_equiv. exact H.
  - rewrite !fold_res_err. reflexivity.
Qed.

Lemma enc_names_equiv e g st st' : est_equiv st st' -> enc_names e g st = enc_names e g st'.
Proof.
  intros (A1 & A2 & A3 & A4 & A5 & A6). unfold enc_names. apply fold_left_ext. intros acc [s n].
  destruct acc as [l|x]; cbn; [|exact eq_refl]. destruct (get_node g n) as [nd|]; [|exact eq_refl].
  destruct (nname nd); [|exact eq_refl]. destruct (sort_eqb (we_sort e (nitem nd)) s); [|exact eq_refl].
  rewrite A4. reflexivity.
Qed.

(** * the nodes loop *)
Lemma enc_nodes_o_equiv e u g dc tau o (Hv : forall k st, est_equiv st (eo_state o k st)) :
  forall l k st st', est_equiv st st' ->
    res_rel est_equiv (enc_nodes_o e u g dc tau o k st l)
                      (fold_left (fun (acc : res est) n => do s <- acc ;; enc_node e u g dc tau s n) l (ROk st')).
Proof.
  induction l as [|n r IH]; cbn; intros k st st' H; [exact H|].
  pose proof (enc_node_equiv e u g dc tau (eo_state o k st) st' n
                (est_equiv_trans _ _ _ (est_equiv_sym _ _ (Hv k st)) H)) as Hn.
  destruct (enc_node e u g dc tau (eo_state o k st) n) as [s1|x], (enc_node e u g dc tau st' n) as [s2|y];
    cbn in *; try contradiction.
  - apply IH. exact Hn.
  - subst. rewrite fold_res_err. reflexivity.
Qed.

(** * [encode_imports]: the loop over the explicit imports in any order *)
Lemma nat_assoc_alist {A} k (l : list (nat * A)) : nat_assoc k l = alist_get Nat.eqb l k.
Proof. induction l as [|[k' v] r IH]; cbn; [exact eq_refl|]. rewrite IH. reflexivity. Qed.

Lemma nat_assoc_app {A} k (l m : list (nat * A)) :
  nat_assoc k (l ++ m) = match nat_assoc k l with Some v => Some v | None => nat_assoc k m end.
Proof. induction l as [|[k' v] r IH]; cbn; [exact eq_refl|]. destruct (k' =? k); auto. Qed.

Section LastLoop.
  Variable lookup : str -> option (sort * nat).

  Definition last_step (acc : res est) (p : str * nat) : res est :=
    do st <- acc ;;
    match lookup (fst p) with
    | Some (_, idx) =>
        ROk {| e_log := e_log st; e_nidx := (snd p, idx) :: e_nidx st; e_pkgs := e_pkgs st; e_reg := e_reg st;
               e_impl := e_impl st; e_dedup := e_dedup st |}
    | None => RErr (EPanic XEncodedMissing)
    end.

  Definition entry_of (p : str * nat) : option (nat * nat) :=
    match lookup (fst p) with Some (_, idx) => Some (snd p, idx) | None => None end.

  Fixpoint entries (l : list (str * nat)) : option (list (nat * nat)) :=
    match l with
    | [] => Some []
    | p :: r => match entry_of p, entries r with Some x, Some xs => Some (x :: xs) | _, _ => None end
    end.

  Lemma last_loop_char : forall l st,
      fold_left last_step l (ROk st) =
      match entries l with
      | Some xs => ROk {| e_log := e_log st; e_nidx := rev xs ++ e_nidx st; e_pkgs := e_pkgs st; e_reg := e_reg st;
                          e_impl := e_impl st; e_dedup := e_dedup st |}
      | None => RErr (EPanic XEncodedMissing)
      end.
  Proof.
    induction l as [|p r IH]; cbn; intros st.
    - destruct st; reflexivity.
    - unfold entry_of. destruct (lookup (fst p)) as [[s idx]|]; cbn.
      + rewrite IH. cbn. destruct (entries r) as [xs|]; [|exact eq_refl]. cbn. rewrite <- app_assoc. reflexivity.
      + clear IH. induction r as [|q r IHr]; cbn; [exact eq_refl|exact IHr].
  Qed.

  Lemma entries_perm : forall l l', Permutation l l' ->
      match entries l, entries l' with
      | Some xs, Some ys => Permutation xs ys
      | None, None => True
      | _, _ => False
      end.
  Proof.
    induction 1 as [|p l l' P IH|p q l|l l' l'' P1 IH1 P2 IH2]; cbn.
    - constructor.
    - destruct (entry_of p); [|exact I]. destruct (entries l), (entries l'); try contradiction; auto.
    - destruct (entry_of p), (entry_of q), (entries l); auto; try apply perm_swap; try apply Permutation_refl.
    - destruct (entries l), (entries l'), (entries l''); try contradiction; auto. eapply Permutation_trans; eassumption.
  Qed.

  Lemma entries_keys : forall l xs, entries l = Some xs -> map fst xs = map snd l.
  Proof.
    induction l as [|p r IH]; cbn; intros xs H; [inversion H; reflexivity|].
    unfold entry_of in H. destruct (lookup (fst p)) as [[s idx]|]; [|discriminate].
    destruct (entries r) as [ys|]; [|discriminate]. inversion H; subst. cbn. f_equal. apply IH. reflexivity.
  Qed.

  (** the order in which the explicit imports are visited does not matter *)
  Lemma last_loop_perm l l' st :
    Permutation l l' -> NoDup (map snd l) ->
    res_rel est_equiv (fold_left last_step l (ROk st)) (fold_left last_step l' (ROk st)).
  Proof.
    intros P Hnd. rewrite !last_loop_char. pose proof (entries_perm l l' P) as E.
    destruct (entries l) as [xs|] eqn:E1, (entries l') as [ys|] eqn:E2; cbn; try contradiction; [|exact eq_refl].
    repeat split; cbn; auto. intros k. rewrite !nat_assoc_app, !nat_assoc_alist.
    rewrite (alist_get_perm Nat.eqb nat_eqb_spec (rev xs) (rev ys)); [exact eq_refl| |].
    - rewrite map_rev. apply NoDup_rev. rewrite (entries_keys _ _ E1). exact Hnd.
    - eapply Permutation_trans; [apply Permutation_sym, Permutation_rev|].
      eapply Permutation_trans; [exact E|apply Permutation_rev].
  Qed.
End LastLoop.

(** the nodes recorded by [resolve_explicit] are the import nodes among those it was given, in order *)
Lemma resolve_explicit_nodes e g a0 nodes a expl :
  resolve_explicit e g a0 nodes = ROk (a, expl) -> map snd expl = filter (is_import g) nodes.
Proof.
  unfold resolve_explicit. intros H.
  apply (fold_res_ind
           (fun (s : EncodeModel.agg * list (str * nat)) (n : nat) =>
              let '(a, ex) := s in
              match get_node g n with
              | Some nd =>
                  match nk nd with
                  | NImport nm =>
                      match agg_add a (nstr e nm) (we_sort e (nitem nd)) (we_iid e (nitem nd)) with
                      | AggOk a' => ROk (a', ex ++ [(nstr e nm, n)])
                      | AggKindMismatch => RErr (EPanic XBadNode)
                      end
                  | _ => ROk (a, ex)
                  end
              | None => RErr (EPanic XBadNode)
              end)
           (fun pre s => map snd (snd s) = filter (is_import g) pre) nodes (a0, []) (a, expl)).
  - exact H.
  - reflexivity.
  - intros pre x post [a1 ex1] [a2 ex2] _ HP Hf. cbn in HP.
    rewrite filter_app. cbn [filter]. unfold is_import at 2.
    destruct (get_node g x) as [nd|]; [|discriminate].
    destruct (nk nd) eqn:Hk; try (inversion Hf; subst; cbn; rewrite app_nil_r; exact HP).
    destruct (agg_add a1 (nstr e n) (we_sort e (nitem nd)) (we_iid e (nitem nd))); [|discriminate].
    inversion Hf; subst. cbn. rewrite map_app, HP. reflexivity.
Qed.

Lemma encode_imports_o_equiv e u g tau o st nodes :
  valid_eoracle o -> NoDup nodes ->
  res_rel est_equiv (encode_imports_o e u g tau o st nodes) (encode_imports e u g tau st nodes).
Proof.
  intros (V1 & V2 & V3 & V4 & V5) Hnd. unfold encode_imports_o, encode_imports.
  destruct (resolve_implicit e u g) as [[a0 impl]|x]; cbn; [|exact eq_refl].
  destruct (resolve_explicit e g a0 nodes) as [[a expl]|x] eqn:Ex; cbn; [|exact eq_refl].
  match goal with |- res_rel _ (bind ?r _) (bind ?r _) => destruct r as [[st1 encoded]|x] end; cbn; [|exact eq_refl].
  match goal with |- res_rel _ (bind (fold_left ?F _ _) _) (bind (fold_left ?F' _ _) _) =>
    assert (EF : fold_left F impl (ROk st1) = fold_left F' impl (ROk st1)) end.
  { apply fold_left_ext. intros acc [[nm k] node]. destruct acc as [s|x]; cbn; [|exact eq_refl]. rewrite V4. reflexivity. }
  rewrite EF. match goal with |- res_rel _ (bind ?r _) (bind ?r _) => destruct r as [st2|x] end; cbn; [|exact eq_refl].
  match goal with |- res_rel _ (fold_left ?F _ _) _ =>
    rewrite (fold_left_ext F (last_step (fun k => str_assoc (canonical_name a k) encoded))) end.
  2:{ intros acc p. destruct acc as [s|x]; cbn; [|exact eq_refl]. rewrite V4. reflexivity. }
  change (res_rel est_equiv (fold_left (last_step (fun k => str_assoc (canonical_name a k) encoded)) (eo_expl o expl) (ROk st2))
                            (fold_left (last_step (fun k => str_assoc (canonical_name a k) encoded)) expl (ROk st2))).
  apply last_loop_perm.
  - apply V1.
  - eapply Permutation_NoDup; [apply Permutation_map, Permutation_sym, V1|].
    rewrite (resolve_explicit_nodes _ _ _ _ _ _ Ex). apply NoDup_filter. exact Hnd.
Qed.

Lemma toposort_NoDup g ord : toposort g = Some ord -> NoDup ord.
Proof.
  unfold toposort. destruct (topo_phase1 g) as [o1|]; [|discriminate].
  destruct (topo_orderb g o1) eqn:E; [|discriminate]. intros H. inversion H; subst.
  unfold topo_orderb in E. repeat (apply andb_true_iff in E; destruct E as [E ?]). apply nodupb_NoDup. exact E.
Qed.

(** whatever the oracles do, the encoder observes what the structural encoder model observes *)
Theorem encode_o_canonical e u g dc tau o :
  valid_eoracle o -> encode_o e u g dc tau o = summarize (encode_model e u g dc tau).
Proof.
  intros V. unfold encode_o, encode_model. destruct (toposort g) as [ord|] eqn:Et; [|reflexivity].
  unfold encode_with_order_o, encode_with_order.
  set (imps := filter (is_import g) ord). set (others := filter (fun n => negb (is_import g n)) ord).
  pose proof (encode_imports_o_equiv e u g tau o est_init imps V
                (NoDup_filter _ _ (toposort_NoDup _ _ Et))) as H0.
  destruct V as (V1 & V2 & V3 & V4 & V5).
  destruct (encode_imports_o e u g tau o est_init imps) as [s0|x],
           (encode_imports e u g tau est_init imps) as [t0|y]; cbn [res_rel] in H0; try contradiction;
    [|subst; reflexivity].
  cbn [bind].
  pose proof (enc_nodes_o_equiv e u g dc tau o V5 others 0 s0 t0 H0) as H1.
  destruct (enc_nodes_o e u g dc tau o 0 s0 others) as [s1|x],
           (fold_left (fun (acc : res est) n => do s <- acc;; enc_node e u g dc tau s n) others (ROk t0)) as [t1|y];
    cbn [res_rel] in H1; try contradiction; [|subst; reflexivity].
  cbn [bind].
  pose proof (enc_exports_equiv e g _ t1 (est_equiv_trans _ _ _ (est_equiv_sym _ _ (V5 (length others) s1)) H1)) as H2.
  destruct (enc_exports e g (eo_state o (length others) s1)) as [s2|x],
           (enc_exports e g t1) as [t2|y]; cbn [res_rel] in H2; try contradiction; [|subst; reflexivity].
  cbn [bind].
  rewrite (enc_names_equiv e g _ t2 (est_equiv_trans _ _ _ (est_equiv_sym _ _ (V5 (S (length others)) s2)) H2)).
  destruct (enc_names e g t2) as [ns|x]; cbn [bind summarize]; [|reflexivity].
  destruct H2 as (A1 & _). rewrite A1. reflexivity.
Qed.

(** * the payload of the explicit-import merge conflict *)
Lemma conflict_first_gen_perm {K} (compat : K -> bool) v1 v1' v2 v2' dflt :
  Permutation v1 v1' -> Permutation v2 v2' ->
  conflict_first_gen compat v1 v2 dflt = conflict_first_gen compat v1' v2' dflt.
Proof.
  intros P1 P2. unfold conflict_first_gen.
  assert (P : Permutation (map snd (filter (fun p => compat (fst p)) (v1 ++ v2)))
                          (map snd (filter (fun p => compat (fst p)) (v1' ++ v2')))).
  { apply Permutation_map. rewrite !filter_app. apply Permutation_app; apply Permutation_filter_compat; assumption. }
  pose proof (min_order_indep_list _ _ P) as H.
  destruct (map snd (filter (fun p => compat (fst p)) (v1 ++ v2))),
           (map snd (filter (fun p => compat (fst p)) (v1' ++ v2'))); try contradiction; auto.
Qed.

Lemma explicit_conflict_scan_indep e g o1 o2 impl :
  valid_eoracle o1 -> valid_eoracle o2 ->
  forall nodes a ex, explicit_conflict_scan e g o1 impl a ex nodes = explicit_conflict_scan e g o2 impl a ex nodes.
Proof.
  intros (_ & A2 & A3 & _) (_ & B2 & B3 & _). induction nodes as [|n r IH]; cbn; intros a ex; [exact eq_refl|].
  destruct (get_node g n) as [nd|]; [|exact eq_refl]. destruct (nk nd); auto.
  destruct (agg_add a (nstr e n0) (we_sort e (nitem nd)) (we_iid e (nitem nd))); [apply IH|].
  f_equal. f_equal. f_equal. apply conflict_first_gen_perm.
  - eapply Permutation_trans; [apply A3|apply Permutation_sym, B3].
  - eapply Permutation_trans; [apply A2|apply Permutation_sym, B2].
Qed.

Theorem explicit_conflict_indep e u g o1 o2 :
  valid_eoracle o1 -> valid_eoracle o2 -> explicit_conflict_o e u g o1 = explicit_conflict_o e u g o2.
Proof.
  intros V1 V2. unfold explicit_conflict_o. destruct (toposort g); [|exact eq_refl].
  destruct (resolve_implicit e u g) as [[a0 impl]|]; [|exact eq_refl]. apply explicit_conflict_scan_indep; assumption.
Qed.

(** * (1) the encoder's observations do not depend on any of the oracles *)
Theorem encode_order_oracle_indep e u g dc tau o1 o2 :
  valid_eoracle o1 -> valid_eoracle o2 -> encode_obs e u g dc tau o1 = encode_obs e u g dc tau o2.
Proof.
  intros V1 V2. unfold encode_obs. rewrite !encode_o_canonical by assumption.
  rewrite (explicit_conflict_indep e u g o1 o2 V1 V2). reflexivity.
Qed.

(** representation oracles that merely permute maps with distinct keys are valid *)
Lemma pkg_assoc_alist k (l : list (pkgid * nat)) : pkg_assoc k l = alist_get pkgid_eqb l k.
Proof. induction l as [|[k' v] r IH]; cbn; [exact eq_refl|]. rewrite IH. reflexivity. Qed.

Theorem permuted_state_equiv st st' :
  e_log st = e_log st' -> e_reg st = e_reg st' -> e_dedup st = e_dedup st' -> e_impl st = e_impl st' ->
  Permutation (e_nidx st) (e_nidx st') -> NoDup (map fst (e_nidx st)) ->
  Permutation (e_pkgs st) (e_pkgs st') -> NoDup (map fst (e_pkgs st)) ->
  est_equiv st st'.
Proof.
  intros A1 A2 A3 A4 P1 N1 P2 N2. repeat split; auto.
  - intros k. rewrite !nat_assoc_alist. apply (alist_get_perm Nat.eqb nat_eqb_spec); assumption.
  - intros k. rewrite !pkg_assoc_alist. apply (alist_get_perm pkgid_eqb pkgid_eqb_eq); assumption.
  - intros n. rewrite A4. reflexivity.
Qed.

(** * (3) histories, then encoding: nothing depends on any hash order *)
From WacV Require Import DeterminismInv.

Theorem history_then_encode_oracle_indep e u dc tau ops o1 o2 eo1 eo2 :
  valid_oracle o1 -> valid_oracle o2 -> valid_eoracle eo1 -> valid_eoracle eo2 ->
  encode_obs e u (fst (run_with o1 u ops)) dc tau eo1 = encode_obs e u (fst (run_with o2 u ops)) dc tau eo2.
Proof.
  intros H1 H2 V1 V2. rewrite (history_oracle_indep u ops o1 o2 H1 H2). apply encode_order_oracle_indep; assumption.
Qed.

(** * the maps of the encoder really have distinct keys (so that permuting them is a valid oracle) *)
Definition maps_distinct (st : est) : Prop := NoDup (map fst (e_nidx st)) /\ NoDup (map fst (e_pkgs st)).
Definition same_maps (a b : est) : Prop := e_nidx b = e_nidx a /\ e_pkgs b = e_pkgs a.

Lemma nat_assoc_none_notin {A} k (l : list (nat * A)) : nat_assoc k l = None -> ~ In k (map fst l).
Proof. rewrite nat_assoc_alist. apply (alist_get_None_notin Nat.eqb nat_eqb_spec). Qed.

Lemma pkg_assoc_none_notin k (l : list (pkgid * nat)) : pkg_assoc k l = None -> ~ In k (map fst l).
Proof. rewrite pkg_assoc_alist. apply (alist_get_None_notin pkgid_eqb pkgid_eqb_eq). Qed.

Lemma run_ty_maps tau st rq st1 i : run_ty tau st rq = ROk (st1, i) -> same_maps st st1.
Proof.
  unfold run_ty. destruct (tau (e_log st) rq) as [its idx]. destruct (ty_items_ok _ its); [|discriminate].
  intros H. inversion H; subst. split; reflexivity.
Qed.

Lemma set_nidx_distinct st n idx st' : set_nidx st n idx = ROk st' -> maps_distinct st -> maps_distinct st'.
Proof.
  unfold set_nidx. destruct (nat_assoc n (e_nidx st)) eqn:E; [discriminate|]. intros H [D1 D2]. inversion H; subst.
  split; cbn; [constructor; [apply nat_assoc_none_notin; exact E|exact D1]|exact D2].
Qed.

Lemma maps_distinct_same a b : same_maps a b -> maps_distinct a -> maps_distinct b.
Proof. intros [E1 E2] [D1 D2]. split; [rewrite E1|rewrite E2]; assumption. Qed.

Lemma enc_node_distinct e u g dc tau st n st' :
  enc_node e u g dc tau st n = ROk st' -> maps_distinct st -> maps_distinct st'.
Proof.
  unfold enc_node. destruct (get_node g n) as [nd|]; [|discriminate]. destruct (nk nd).
  - unfold enc_definition. destruct (nexport nd) as [nm|]; [|discriminate]. intros H D.
    apply bind_ok in H. destruct H as [[s1 t1] [H1 H2]].
    destruct (negb (t1 <? cnt SType (e_log s1))); [discriminate|].
    eapply set_nidx_distinct; [exact H2|]. apply (maps_distinct_same st); [|exact D].
    destruct (run_ty_maps _ _ _ _ _ H1) as [A B]. split; cbn; assumption.
  - discriminate.
  - unfold enc_instantiation. destruct (npkg nd) as [pid|]; [|discriminate].
    destruct (get_pkg g pid) as [p|]; [|discriminate]. destruct (inst_imports u g nd) as [imps|]; [|discriminate].
    intros H D. apply bind_ok in H. destruct H as [[s1 ci] [H1 H2]].
    assert (D1 : maps_distinct s1).
    { destruct (pkg_assoc pid (e_pkgs st)) as [c|] eqn:Ep.
      - inversion H1; subst. exact D.
      - apply bind_ok in H1. destruct H1 as [[s0 c0] [K1 K2]]. inversion K2; subst. clear K2.
        assert (S0 : same_maps st s0).
        { destruct dc.
          - inversion K1; subst. split; reflexivity.
          - apply bind_ok in K1. destruct K1 as [[sa ta] [L1 L2]]. inversion L2; subst.
            destruct (run_ty_maps _ _ _ _ _ L1) as [A B]. split; cbn; assumption. }
        destruct S0 as [A B]. destruct D as [Dn Dp]. split; cbn.
        + rewrite A. exact Dn.
        + rewrite B. constructor; [apply pkg_assoc_none_notin; exact Ep|exact Dp]. }
    apply bind_ok in H2. destruct H2 as [args [_ H3]].
    eapply set_nidx_distinct; [exact H3|]. apply (maps_distinct_same s1); [split; reflexivity|exact D1].
  - unfold enc_alias. destruct (get_alias_source u g n) as [[src en]|]; [|discriminate].
    destruct (get_node g src) as [sn|]; [|discriminate]. destruct (u_inst_exports u (nitem sn)) as [ex|]; [|discriminate].
    destruct (alist_get N.eqb ex en) as [k|]; [|discriminate]. destruct (nat_assoc src (e_nidx st)) as [inst|]; [|discriminate].
    intros H D. eapply set_nidx_distinct; [exact H|]. apply (maps_distinct_same st); [split; reflexivity|exact D].
Qed.

Lemma import_maps tau st x st' i : import_ tau st x = ROk (st', i) -> same_maps st st'.
Proof.
  unfold import_.
  assert (F : forall r, (do (st1, _) <- run_ty tau st (TImport (ae_name x) (ae_sort x)) ;;
                         let idx := cnt (ae_sort x) (e_log st1) in
                         let st2 := emit st1 (IImport (ae_name x) (ae_sort x)) in
                         ROk (match ae_sort x, ae_iid x with
                              | SInstance, Some i =>
                                  {| e_log := e_log st2; e_nidx := e_nidx st2; e_pkgs := e_pkgs st2; e_reg := (i, (idx, ae_name x)) :: e_reg st2;
                                     e_impl := e_impl st2; e_dedup := e_dedup st2 |}
                              | _, _ => st2
                              end, idx)) = ROk r -> same_maps st (fst r)).
  { intros [r1 r2] H. apply bind_ok in H. destruct H as [[s1 t1] [H1 H2]].
    destruct (run_ty_maps _ _ _ _ _ H1) as [A B]. inversion H2; subst. cbn.
    destruct (ae_sort x); try (split; cbn; assumption). destruct (ae_iid x); split; cbn; assumption. }
  destruct (ae_sort x) eqn:Es; try (intros H; exact (F _ H)).
  destruct (ae_iid x) as [iid|] eqn:Ei; [|intros H; exact (F _ H)].
  destruct (reg_lookup iid (e_reg st)) as [[idx under]|]; [|intros H; exact (F _ H)].
  intros H. inversion H; subst. split; reflexivity.
Qed.

Lemma encode_imports_distinct e u g tau nodes st' :
  NoDup nodes -> encode_imports e u g tau est_init nodes = ROk st' -> maps_distinct st'.
Proof.
  intros Hnd H. unfold encode_imports in H.
  apply bind_ok in H. destruct H as [[a0 impl] [_ H]].
  apply bind_ok in H. destruct H as [[a expl] [Ex H]].
  apply bind_ok in H. destruct H as [[st1 encoded] [H1 H]].
  apply bind_ok in H. destruct H as [st2 [H2 H3]].
  assert (S1 : same_maps est_init st1).
  { refine (fold_res_ind
              (fun (s : est * list (str * (sort * nat))) (x : aentry) =>
                 let '(st, enc) := s in do (st', idx) <- import_ tau st x ;; ROk (st', (ae_name x, (ae_sort x, idx)) :: enc))
              (fun _ s => same_maps est_init (fst s)) _ (est_init, []) (st1, encoded) H1 _ _).
    - split; reflexivity.
    - intros pre x post [sa ea] [sb eb] _ HP Hf. cbn in *. apply bind_ok in Hf. destruct Hf as [[sc ic] [K1 K2]].
      inversion K2; subst. destruct (import_maps _ _ _ _ _ K1) as [A B]. destruct HP as [C D]. split; congruence. }
  assert (S2 : same_maps est_init st2).
  { refine (fold_res_ind
              (fun (st : est) (p : name * kid * nat) =>
                 let '(nm, _, node) := p in
                 match str_assoc (canonical_name a (nstr e nm)) encoded with
                 | Some (s, idx) =>
                     ROk {| e_log := e_log st; e_nidx := e_nidx st; e_pkgs := e_pkgs st; e_reg := e_reg st;
                            e_impl := e_impl st ++ [(node, (nstr e nm, s, idx))]; e_dedup := e_dedup st |}
                 | None => RErr (EPanic XEncodedMissing)
                 end)
              (fun _ s => same_maps est_init s) _ st1 st2 H2 S1 _).
    intros pre [[nm k] node] post sa sb _ HP Hf.
    destruct (str_assoc (canonical_name a (nstr e nm)) encoded) as [[s idx]|]; [|discriminate].
    inversion Hf; subst. exact HP. }
  change (fold_left (last_step (fun k => str_assoc (canonical_name a k) encoded)) expl (ROk st2) = ROk st') in H3.
  rewrite last_loop_char in H3. destruct (entries _ expl) as [xs|] eqn:Ee; [|discriminate]. inversion H3; subst.
  destruct S2 as [A B]. cbn in A, B. split; cbn.
  - rewrite A, app_nil_r, map_rev, (entries_keys _ _ _ Ee). apply NoDup_rev.
    rewrite (resolve_explicit_nodes _ _ _ _ _ _ Ex). apply NoDup_filter. exact Hnd.
  - rewrite B. constructor.
Qed.

Lemma enc_exports_maps e g st st' : enc_exports e g st = ROk st' -> same_maps st st'.
Proof.
  unfold enc_exports. intros H.
  refine (fold_res_ind
            (fun (st : est) (p : name * nat) =>
               if is_def g (snd p) then ROk st else
               match nat_assoc (snd p) (e_nidx st) with
               | None => RErr (EPanic XNodeIndexMissing)
               | Some idx => ROk (emit st (IExport (nstr e (fst p)) (node_sort e g (snd p)) idx))
               end)
            (fun _ s => same_maps st s) _ st st' H _ _).
  - split; reflexivity.
  - intros pre p post sa sb _ HP Hf. destruct (is_def g (snd p)); [inversion Hf; subst; exact HP|].
    destruct (nat_assoc (snd p) (e_nidx sa)); [|discriminate]. inversion Hf; subst. exact HP.
Qed.

(** when the model encoder succeeds, [node_indexes] and [packages] have pairwise distinct keys at the end -- hence at
    every moment before, the maps only ever grow at the front -- so an oracle that PERMUTES them answers every lookup
    alike ([permuted_state_equiv]) *)
Theorem encoder_maps_have_distinct_keys e u g dc tau st ns :
  encode_model e u g dc tau = ROk (st, ns) -> maps_distinct st.
Proof.
  unfold encode_model. destruct (toposort g) as [ord|] eqn:Et; [|discriminate]. unfold encode_with_order. intros H.
  apply bind_ok in H. destruct H as [st0 [H0 H]].
  apply bind_ok in H. destruct H as [st1 [H1 H]].
  apply bind_ok in H. destruct H as [st2 [H2 H]].
  apply bind_ok in H. destruct H as [ns' [_ H]]. inversion H; subst.
  pose proof (encode_imports_distinct e u g tau _ _ (NoDup_filter _ _ (toposort_NoDup _ _ Et)) H0) as D0.
  assert (D1 : maps_distinct st1).
  { refine (fold_res_ind (fun (s : est) (n : nat) => enc_node e u g dc tau s n) (fun _ s => maps_distinct s) _ st0 st1 H1 D0 _).
    intros pre x post sa sb _ HP Hf. eapply enc_node_distinct; eassumption. }
  apply (maps_distinct_same st1); [apply (enc_exports_maps e g); exact H2|exact D1].
Qed.
