(** [wiring_correct]: for EVERY topological emission order and EVERY behaviour of the type encoder,
    the log emitted by the model encoder decodes to the wiring the composition graph specifies. *)
From Coq Require Import List Arith Bool NArith Lia.
From WacV Require Import Str Graph Wiring WiringSpec EncodeModel WiringDecode EncodeBasics WiringOrder WiringSim
  WiringFinal WiringImports.
Import ListNotations.
Local Open Scope nat_scope.

Theorem wiring_correct e u g dc tau ord st names :
  EncInv e u g -> topo_orderb g ord = true ->
  encode_with_order e u g dc tau ord = ROk (st, names) ->
  (forall p, In p (e_dedup st) -> fst p = snd p) ->
  option_map (erase_defs (def_names e g)) (decode_wiring names (e_log st)) = Some (wiring_spec e u g dc ord).
Proof.
  intros EI TO R Cons. apply topo_orderb_Topo in TO as T.
  unfold encode_with_order in R. apply bind_ok in R as [st0 [R0 R]].
  (* the de-duplication record is complete after the import phase *)
  assert (Later : forall d0, LInv e u g dc ord [] st0 d0 ->
            option_map (erase_defs (def_names e g)) (decode_wiring names (e_log st)) = Some (wiring_spec e u g dc ord)
            /\ e_dedup st = e_dedup st0).
  { intros d0 L0. eapply wiring_after_imports; eauto. }
  (* first establish that the record of the final state is that of the import phase; this does not need the invariant's content
     beyond what [wiring_after_imports] itself proves, so obtain it from a run of the later phases on the decoded state *)
  assert (D : e_dedup st = e_dedup st0).
  { (* the later phases never touch [e_dedup]: reuse the proof with the invariant established under the hypothesis on [st] *)
    clear Later.
    apply bind_ok in R as [st1 [R1 R]]. apply bind_ok in R as [st2 [R2 R]]. apply bind_ok in R as [nms [R3 R]]. injection R as <- <-.
    assert (D1 : e_dedup st1 = e_dedup st0).
    { apply (fold_res_ind (fun st n => enc_node e u g dc tau st n) (fun _ s => e_dedup s = e_dedup st0) _ _ _ R1); auto.
      intros pre n post s s1 _ IH Rn. rewrite <- IH. clear -Rn.
      unfold enc_node in Rn. destruct (get_node g n) as [nd|]; try discriminate. destruct (nk nd); try discriminate.
      - unfold enc_definition in Rn. destruct (nexport nd); try discriminate.
        apply bind_ok in Rn as [[s' ty] [Rt Rn]]. destruct (negb _); try discriminate.
        apply set_nidx_inv in Rn as [_ [_ [_ [_ [_ Dn]]]]]. cbn in Dn.
        apply run_ty_inv in Rt as [its [_ [_ [_ [_ [_ Dt]]]]]]. congruence.
      - unfold enc_instantiation in Rn. destruct (npkg nd) as [pid|]; try discriminate.
        destruct (get_pkg g pid) as [p|]; try discriminate. destruct (inst_imports u g nd) as [imps|]; try discriminate.
        apply bind_ok in Rn as [[s' ci] [Rc Rn]]. apply bind_ok in Rn as [args [_ Rn]].
        apply set_nidx_inv in Rn as [_ [_ [_ [_ [_ Dn]]]]]. cbn in Dn. rewrite Dn. clear Dn.
        destruct (pkg_assoc pid (e_pkgs s)); [injection Rc as <- <-; auto|].
        apply bind_ok in Rc as [[s'' ci'] [Rc Rc']]. injection Rc' as <- <-. cbn.
        destruct dc; [injection Rc as <- <-; auto|].
        apply bind_ok in Rc as [[s0 ty] [Rt Rc]]. injection Rc as <- <-. cbn.
        apply run_ty_inv in Rt as [its [_ [_ [_ [_ [_ Dt]]]]]]. exact Dt.
      - unfold enc_alias in Rn. destruct (get_alias_source u g n) as [[src en]|]; try discriminate.
        destruct (get_node g src) as [sn|]; try discriminate. destruct (u_inst_exports u (nitem sn)) as [ex|]; try discriminate.
        destruct (alist_get N.eqb ex en); try discriminate. destruct (nat_assoc src (e_nidx s)); try discriminate.
        apply set_nidx_inv in Rn as [_ [_ [_ [_ [_ Dn]]]]]. exact Dn. }
    assert (D2 : e_dedup st2 = e_dedup st1).
    { unfold enc_exports in R2.
      apply (fold_res_ind (export_step e g) (fun _ s => e_dedup s = e_dedup st1) _ _ _ R2); auto.
      intros pre p post s s1 _ IH Rs. unfold export_step in Rs. destruct (is_def g (snd p)); [injection Rs as <-; auto|].
      destruct (nat_assoc (snd p) (e_nidx s)); try discriminate. injection Rs as <-. exact IH. }
    congruence. }
  assert (Cons0 : forall p, In p (e_dedup st0) -> fst p = snd p) by (rewrite <- D; exact Cons).
  assert (E0 : exists d0, LInv e u g dc ord [] st0 d0) by (eapply encode_imports_ok; eauto).
  destruct E0 as [d0 L0]. apply (Later d0 L0).
Qed.

Lemma nodup_nat_NoDup l : NoDup (nodup_nat l).
Proof.
  induction l as [|x r IH]; cbn; constructor.
  - intros I. apply filter_In in I as [_ H]. rewrite Nat.eqb_refl in H. discriminate.
  - now apply NoDup_filter.
Qed.

(** each instantiated package is embedded exactly once, in order of first use; nothing else is embedded *)
Theorem each_package_once e u g dc tau ord st names w :
  EncInv e u g -> topo_orderb g ord = true ->
  encode_with_order e u g dc tau ord = ROk (st, names) ->
  (forall p, In p (e_dedup st) -> fst p = snd p) ->
  decode_wiring names (e_log st) = Some w ->
  w_comps w = (if dc then map (we_digest e) (pkgs_in_order g ord) else []) /\
  NoDup (pkgs_in_order g ord) /\
  (forall p, In p (pkgs_in_order g ord) <-> exists n, In n ord /\ is_inst g n = true /\ node_pkg g n = Some p).
Proof.
  intros EI TO R Cons D.
  pose proof (wiring_correct _ _ _ _ _ _ _ _ EI TO R Cons) as W. rewrite D in W. cbn [option_map] in W. injection W as _ _ Wc _.
  repeat split.
  - exact Wc.
  - apply nodup_nat_NoDup.
  - unfold pkgs_in_order. rewrite nodup_nat_In, in_flat_map. intros [n [I H]]. apply filter_In in I as [I Hi].
    exists n. repeat split; auto. destruct (node_pkg g n); cbn in H; [destruct H as [->|[]]; auto | destruct H].
  - intros [n [I [Hi Hp]]]. unfold pkgs_in_order. rewrite nodup_nat_In, in_flat_map. exists n. split.
    + apply filter_In. auto.
    + rewrite Hp. cbn. auto.
Qed.

(** C03: the exported names and sorts are exactly the designated export names (which include every
    type definition's name), each with the sort of the designated node *)
Definition export_sig (x : parg) : str * sort := (fst (fst x), snd (fst x)).

Theorem exports_spec e u g dc tau ord st names w :
  EncInv e u g -> topo_orderb g ord = true ->
  encode_with_order e u g dc tau ord = ROk (st, names) ->
  (forall p, In p (e_dedup st) -> fst p = snd p) ->
  decode_wiring names (e_log st) = Some w ->
  (forall n, In n ord -> is_def g n = true -> exists nm, In (nm, n) (exports g)) ->
  (forall nm n, In (nm, n) (exports g) -> live g n = true) ->
  forall nm s, In (nm, s) (map export_sig (w_exports w)) <-> In (nm, s) (spec_export_names e g).
Proof.
  intros EI TO R Cons D E1 E2 nm s.
  pose proof (wiring_correct _ _ _ _ _ _ _ _ EI TO R Cons) as W. rewrite D in W. cbn [option_map] in W. injection W as _ We _ _.
  apply topo_orderb_Topo in TO as T.
  assert (P : map export_sig (w_exports w) = map export_sig (spec_exports e u g ord)).
  { rewrite <- We, map_map. apply map_ext. intros [[n0 s0] p0]. cbn. now destruct (sort_eqb s0 SType && str_mem n0 (def_names e g)). }
  rewrite P. unfold spec_exports, spec_export_names. rewrite map_app, in_app_iff, !in_map_iff. split.
  - intros [[x [Ex Ix]]|[x [Ex Ix]]].
    + apply in_map_iff in Ix as [n [En In_n]]. subst x. cbn in Ex. injection Ex as <- <-.
      apply filter_In in In_n as [Io Dn]. destruct (E1 _ Io Dn) as [nm0 I0]. exists (nm0, n). split; auto. cbn [fst snd].
      rewrite (ei_def_single _ _ _ EI _ _ I0 Dn).
      destruct (proj1 (is_def_true g n) Dn) as [nd [G K]]. unfold node_sort. rewrite G, (ei_def_node _ _ _ EI _ _ G K). reflexivity.
    + apply in_flat_map in Ix as [[nm0 n] [I0 Hx]]. cbn in Hx.
      destruct (is_def g n && str_eqb (nstr e nm0) (def_name e g n)); [destruct Hx|]. destruct Hx as [<-|[]].
      cbn in Ex. injection Ex as <- <-. exists (nm0, n). auto.
  - intros [[nm0 n] [Ex I0]]. cbn in Ex. injection Ex as <- <-.
    destruct (is_def g n) eqn:Dn.
    + left. exists (def_name e g n, SType, PDef). split.
      * unfold export_sig. cbn [fst snd]. rewrite (ei_def_single _ _ _ EI _ _ I0 Dn).
        destruct (proj1 (is_def_true g n) Dn) as [nd [G K]]. unfold node_sort. rewrite G, (ei_def_node _ _ _ EI _ _ G K). reflexivity.
      * apply in_map_iff. exists n. split; auto. apply filter_In. split; auto.
        apply (to_all _ _ T). apply node_ids_In. eauto.
    + right. exists (nstr e nm0, node_sort e g n, node_prov e u g ord n). split; auto.
      apply in_flat_map. exists (nm0, n). split; auto. cbn. rewrite Dn. cbn. auto.
Qed.
