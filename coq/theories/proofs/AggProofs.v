(** The name bookkeeping of the aggregator model ([agg_add], [canonical_name]) against the
    specification's [canon_in]: after ANY sequence of successful aggregations, every aggregated name is
    answered by the highest-versioned aggregated name on its semver track, there is exactly one entry
    per track, and the entry carries the sort every sharer asked for (C03). *)
From Coq Require Import List Arith Bool NArith Lia.
From WacV Require Import Str Ord Semver Names NamesSpec SemverProofs SemverText NamesProofs NameMapProofs
  Wiring WiringSpec EncodeModel WiringDecode.
Import ListNotations.
Local Open Scope nat_scope.

(** * versions and names on a track *)
Lemma version_ltb_irrefl v : version_ltb v v = false.
Proof. unfold version_ltb. now rewrite (tc_refl _ cmp_version_total). Qed.

Lemma version_ltb_trans a b c : version_ltb a b = true -> version_ltb b c = true -> version_ltb a c = true.
Proof. rewrite !version_ltb_lt. apply (tc_trans _ cmp_version_total). Qed.

Lemma version_ltb_total a b : version_ltb a b = false -> version_ltb b a = false -> a = b.
Proof.
  pose proof cmp_version_total as T. unfold version_ltb. rewrite (tc_anti _ T a b).
  destruct (cmp_version a b) eqn:E; cbn; try discriminate. intros _ _. now apply (tc_eq _ T).
Qed.

Lemma version_le_lt a b c : version_ltb b a = false -> version_ltb b c = true -> version_ltb a c = true.
Proof.
  intros H1 H2. destruct (version_ltb a b) eqn:E.
  - eapply version_ltb_trans; eauto.
  - assert (a = b) by (apply version_ltb_total; auto). now subst.
Qed.

Lemma alt_key_inj a b k v : alt_key a = Some (k, v) -> alt_key b = Some (k, v) -> a = b.
Proof.
  intros Ha Hb.
  apply alt_key_sound in Ha as [ba [ta [Ta Ka]]]. apply alt_key_sound in Hb as [bb [tb [Tb Kb]]].
  destruct (proj1 (KeyRel_inj _ _ _ _ _ _ Ka Kb) eq_refl) as [-> ->].
  apply name_track_shape in Ta as [ra [-> [_ [Pa _]]]]. apply name_track_shape in Tb as [rb [-> [_ [Pb _]]]].
  now rewrite (parse_version_inj _ _ _ Pa Pb).
Qed.

Lemma compat_true_iff a b :
  compat a b = true <-> a = b \/ exists k va vb, alt_key a = Some (k, va) /\ alt_key b = Some (k, vb).
Proof.
  unfold compat. destruct (str_eqb a b) eqn:E.
  - apply str_eqb_eq in E. tauto.
  - apply str_eqb_neq in E. destruct (alt_key a) as [[ka va]|]; [destruct (alt_key b) as [[kb vb]|]|].
    + rewrite str_eqb_eq. split.
      * intros ->. right. eauto.
      * intros [?|[k [va' [vb' [H1 H2]]]]]; [tauto|]. congruence.
    + split; [discriminate|]. intros [?|[k [va' [vb' [H1 H2]]]]]; [tauto | discriminate].
    + split; [discriminate|]. intros [?|[k [va' [vb' [H1 H2]]]]]; [tauto | discriminate].
Qed.

Lemma higher_irrefl a : higher a a = false.
Proof. unfold higher. destruct (alt_key a) as [[k v]|]; auto. apply version_ltb_irrefl. Qed.

Lemma higher_antisym a b : compat a b = true -> higher a b = false -> higher b a = false -> a = b.
Proof.
  intros C H1 H2. apply compat_true_iff in C as [?|[k [va [vb [Ka Kb]]]]]; auto.
  unfold higher in *. rewrite Ka, Kb in *. assert (va = vb) by (apply version_ltb_total; auto). subst.
  eapply alt_key_inj; eauto.
Qed.

(** [a <= b < c] on one track *)
Lemma higher_le_lt a b c : compat a b = true -> higher b a = false -> higher b c = true -> higher a c = true.
Proof.
  intros C H1 H2. unfold higher in *.
  destruct (alt_key b) as [[kb vb]|] eqn:Kb; try discriminate.
  destruct (alt_key c) as [[kc vc]|] eqn:Kc; try discriminate.
  apply compat_true_iff in C as [->|[k [va [vb' [Ka Kb']]]]].
  - rewrite Kb in *. rewrite version_ltb_irrefl in H1. exact H2.
  - rewrite Ka in *. rewrite Kb in Kb'. injection Kb' as <- <-. eapply version_le_lt; eauto.
Qed.

Lemma higher_lt_le a b c : compat b c = true -> higher a b = true -> higher c b = false -> higher a c = true.
Proof.
  (* a < b <= c *)
  intros C H1 H2. unfold higher in *.
  destruct (alt_key a) as [[ka va]|] eqn:Ka; try discriminate.
  destruct (alt_key b) as [[kb vb]|] eqn:Kb; try discriminate.
  apply compat_true_iff in C as [<-|[k [vb' [vc [Kb' Kc]]]]].
  - rewrite Kb. exact H1.
  - rewrite Kc in *. rewrite Kb in Kb'. injection Kb' as <- <-.
    destruct (version_ltb vb vc) eqn:E.
    + eapply version_ltb_trans; eauto.
    + assert (vb = vc) by (apply version_ltb_total; auto). now subst.
Qed.

Lemma higher_trans a b c : higher a b = true -> higher b c = true -> higher a c = true.
Proof.
  unfold higher. destruct (alt_key a) as [[ka va]|]; try discriminate.
  destruct (alt_key b) as [[kb vb]|]; try discriminate. destruct (alt_key c) as [[kc vc]|]; try discriminate.
  apply version_ltb_trans.
Qed.

(** * what [canon_in] computes *)
Lemma canon_fold_spec q : forall names best, compat best q = true ->
  let c := fold_left (fun best n => if compat n q && higher best n then n else best) names best in
  (c = best \/ In c names) /\ compat c q = true /\ higher c best = false /\
  (forall n, In n names -> compat n q = true -> higher c n = false).
Proof.
  induction names as [|m r IH]; intros best Cb; cbn.
  - repeat split; auto. apply higher_irrefl. intros n [].
  - destruct (compat m q && higher best m) eqn:E.
    + apply andb_true_iff in E as [Cm Hm].
      destruct (IH m Cm) as [I1 [I2 [I3 I4]]]. repeat split; auto.
      * destruct I1 as [->|?]; auto.
      * destruct (higher (fold_left _ r m) best) eqn:X; auto.
        rewrite (higher_trans _ _ _ X Hm) in I3. discriminate.
      * intros n [<-|In_n] Cn; auto.
    + destruct (IH best Cb) as [I1 [I2 [I3 I4]]]. repeat split; auto.
      * destruct I1 as [->|?]; auto.
      * intros n [<-|In_n] Cn; auto.
        apply andb_false_iff in E as [E|E]; [congruence|].
        destruct (higher (fold_left _ r best) m) eqn:X; auto.
        assert (Cnb : compat m best = true) by (eapply compat_trans; eauto; now rewrite compat_sym).
        rewrite (higher_lt_le _ _ _ Cnb X E) in I3. discriminate.
Qed.

Lemma canon_in_spec names q :
  let c := canon_in names q in
  (c = q \/ In c names) /\ compat c q = true /\ higher c q = false /\
  (forall n, In n names -> compat n q = true -> higher c n = false).
Proof. apply canon_fold_spec, compat_refl. Qed.

(** the maximum is unique: [canon_in] depends only on the SET of names *)
Lemma canon_in_unique names q c :
  (c = q \/ In c names) -> compat c q = true ->
  (forall n, In n names -> compat n q = true -> higher c n = false) -> higher c q = false ->
  canon_in names q = c.
Proof.
  intros Hc Cc Hmax Hq.
  destruct (canon_in_spec names q) as [I1 [I2 [I3 I4]]]. set (c' := canon_in names q) in *.
  apply higher_antisym.
  - eapply compat_trans; eauto. now rewrite compat_sym.
  - destruct Hc as [->|Hc]; auto.
  - destruct I1 as [E|I1]; [rewrite E; exact Hq | now apply Hmax].
Qed.

Lemma canon_in_set names names' q : (forall x, In x names <-> In x names') -> canon_in names q = canon_in names' q.
Proof.
  intros S. destruct (canon_in_spec names' q) as [I1 [I2 [I3 I4]]].
  apply canon_in_unique; auto.
  - destruct I1 as [?|I1]; auto. right. now apply S.
  - intros n In_n. apply I4. now apply S.
Qed.

(** * lookups *)
Lemma find_entry_some nm l x : find_entry nm l = Some x -> In x l /\ ae_name x = nm.
Proof.
  unfold find_entry. intros H. apply find_some in H as [I E]. apply str_eqb_eq in E. auto.
Qed.
Lemma find_entry_none nm l : find_entry nm l = None -> ~ In nm (map ae_name l).
Proof.
  unfold find_entry. intros H I. apply in_map_iff in I as [x [E I]].
  pose proof (find_none _ _ H x I) as F. cbn in F. rewrite E, str_eqb_refl in F. discriminate.
Qed.

Lemma find_compat_some nm l x : find_compat nm l = Some x ->
  In x l /\ compat nm (ae_name x) = true /\
  exists k nv xv, alt_key nm = Some (k, nv) /\ alt_key (ae_name x) = Some (k, xv).
Proof.
  unfold find_compat. destruct (alt_key nm) as [[k nv]|] eqn:K; try discriminate.
  intros H. apply find_some in H as [I E]. destruct (alt_key (ae_name x)) as [[k' xv]|] eqn:K'; try discriminate.
  apply str_eqb_eq in E. subst k'. repeat split; auto.
  - apply compat_true_iff. right. eauto.
  - eauto.
Qed.

Lemma find_none_incompat nm l : find_entry nm l = None -> find_compat nm l = None ->
  forall x, In x l -> compat nm (ae_name x) = false.
Proof.
  intros H1 H2 x I. destruct (compat nm (ae_name x)) eqn:C; auto. exfalso.
  apply compat_true_iff in C as [E|[k [va [vb [Ka Kb]]]]].
  - apply (find_entry_none _ _ H1). rewrite E. now apply in_map.
  - unfold find_compat in H2. rewrite Ka in H2. pose proof (find_none _ _ H2 x I) as F. cbn in F.
    rewrite Kb, str_eqb_refl in F. discriminate.
Qed.

Lemma str_assoc_some {A} k (l : list (str * A)) v : str_assoc k l = Some v -> In (k, v) l.
Proof.
  induction l as [|[k' v'] r IH]; cbn; try discriminate.
  destruct (str_eqb k' k) eqn:E; auto. apply str_eqb_eq in E. intros H. injection H as <-. subst. auto.
Qed.
Lemma str_assoc_none {A} k (l : list (str * A)) : str_assoc k l = None -> ~ In k (map fst l).
Proof.
  induction l as [|[k' v'] r IH]; cbn; auto.
  destruct (str_eqb k' k) eqn:E; try discriminate. apply str_eqb_neq in E. intros H [?|?]; [congruence | now apply IH].
Qed.
Lemma str_assoc_in_keys {A} k (l : list (str * A)) : In k (map fst l) -> str_assoc k l <> None.
Proof. intros I H. now apply str_assoc_none in H. Qed.

Lemma NoDup_map_inj {A B} (f : A -> B) l x y : NoDup (map f l) -> In x l -> In y l -> f x = f y -> x = y.
Proof.
  induction l as [|z r IH]; cbn; [tauto|]. intros N. inversion N as [|? ? Nz Nr]; subst.
  intros [->|Ix] [->|Iy] E; auto.
  - exfalso. apply Nz. rewrite E. now apply in_map.
  - exfalso. apply Nz. rewrite <- E. now apply in_map.
Qed.

(** * the invariant of the aggregator's name bookkeeping *)
Definition anames (a : agg) : list str := map ae_name (a_imps a).

Record AggInv (a : agg) (H : list (str * sort)) : Prop := {
  ai_nodup : NoDup (anames a);
  ai_track : forall x y, In x (anames a) -> In y (anames a) -> compat x y = true -> x = y;
  ai_redir : forall k v, In (k, v) (a_redir a) ->
             compat k v = true /\ In v (anames a) /\ ~ In k (anames a) /\ In k (map fst H);
  ai_hist_in : forall x, In x (anames a) -> In x (map fst H);
  ai_covered : forall nm s, In (nm, s) H -> In nm (anames a) \/ In nm (map fst (a_redir a));
  ai_sort : forall nm s x, In (nm, s) H -> In x (a_imps a) -> compat nm (ae_name x) = true -> ae_sort x = s;
  ai_max : forall nm s x, In (nm, s) H -> In x (anames a) -> compat nm x = true -> higher x nm = false }.

Lemma agg_inv_empty : AggInv agg_empty [].
Proof. constructor; cbn; try tauto; try constructor. Qed.

Lemma agg_add_inv a H nm s iid a' :
  AggInv a H -> agg_add a nm s iid = AggOk a' -> AggInv a' (H ++ [(nm, s)]).
Proof.
  intros [ND TR RD HI CV SO MX] R. unfold agg_add in R.
  destruct (find_entry nm (a_imps a)) as [ex|] eqn:FE.
  - (* the name is an entry already *)
    apply find_entry_some in FE as [Iex Eex].
    destruct (sort_eqb (ae_sort ex) s) eqn:ES; try discriminate. injection R as <-. apply sort_eqb_eq in ES.
    assert (In_nm : In nm (anames a)) by (rewrite <- Eex; now apply in_map).
    constructor; auto.
    + intros k v I. destruct (RD _ _ I) as [? [? [? ?]]]. repeat split; auto. rewrite map_app. apply in_or_app; auto.
    + intros x I. rewrite map_app. apply in_or_app. auto.
    + intros nm0 s0 I. apply in_app_or in I as [I|[I|[]]]; eauto. injection I as <- <-. auto.
    + intros nm0 s0 x I Ix C. apply in_app_or in I as [I|[I|[]]]; eauto. injection I as <- <-.
      assert (ae_name x = nm) by (apply TR; auto; [now apply in_map | now rewrite compat_sym]).
      assert (x = ex) by (eapply NoDup_map_inj; eauto; congruence). now subst.
    + intros nm0 s0 x I Ix C. apply in_app_or in I as [I|[I|[]]]; eauto. injection I as <- <-.
      assert (x = nm) by (apply TR; auto; now rewrite compat_sym). subst. apply higher_irrefl.
  - destruct (find_compat nm (a_imps a)) as [ex|] eqn:FC.
    + (* an entry on the same track *)
      pose proof (find_entry_none _ _ FE) as Nnm.
      apply find_compat_some in FC as [Iex [Cex [k [nv [xv [Kn Kx]]]]]].
      destruct (negb (sort_eqb (ae_sort ex) s)) eqn:ES; try discriminate.
      apply negb_false_iff, sort_eqb_eq in ES. rewrite Kn, Kx in R.
      assert (In_ex : In (ae_name ex) (anames a)) by now apply in_map.
      (* every entry compatible with [nm] is [ex] *)
      assert (Uex : forall x, In x (a_imps a) -> compat nm (ae_name x) = true -> x = ex).
      { intros x Ix Cx. eapply NoDup_map_inj; eauto. apply TR; auto; [now apply in_map|].
        eapply compat_trans; [rewrite compat_sym; exact Cx | exact Cex]. }
      assert (Hx : higher (ae_name ex) nm = version_ltb xv nv) by (unfold higher; now rewrite Kx, Kn).
      destruct (version_ltb xv nv) eqn:LT; injection R as <-.
      * (* the new name is higher: it replaces the entry *)
        assert (Nh : ~ In nm (map fst H)).
        { intros I. apply in_map_iff in I as [[nm0 s0] [E I]]. cbn in E. subst nm0.
          pose proof (MX _ _ _ I In_ex Cex). congruence. }
        assert (AN : anames {| a_imps := filter (fun b => negb (str_eqb (ae_name b) (ae_name ex))) (a_imps a)
                                ++ [{| ae_name := nm; ae_sort := ae_sort ex; ae_iid := ae_iid ex |}];
                               a_redir := (ae_name ex, nm) :: map (fun p : str * str => if str_eqb (snd p) (ae_name ex) then (fst p, nm) else p) (a_redir a) |}
                     = filter (fun y => negb (str_eqb y (ae_name ex))) (anames a) ++ [nm]).
        { unfold anames. cbn. rewrite map_app. cbn. f_equal. clear. induction (a_imps a) as [|b r IH]; cbn; auto.
          destruct (negb (str_eqb (ae_name b) (ae_name ex))); cbn; now rewrite IH. }
        assert (FI : forall y, In y (filter (fun y => negb (str_eqb y (ae_name ex))) (anames a)) <-> In y (anames a) /\ y <> ae_name ex).
        { intros y. rewrite filter_In, negb_true_iff, str_eqb_neq. tauto. }
        constructor; rewrite ?AN.
        -- apply NoDup_app_one.
           ++ clear -ND. induction (anames a) as [|y r IH]; cbn; [constructor|]. inversion ND; subst.
              destruct (negb (str_eqb y (ae_name ex))); auto. constructor; auto. intros I. apply filter_In in I. tauto.
           ++ intros I. apply FI in I. tauto.
        -- intros x y Ix Iy C. apply in_app_or in Ix as [Ix|[<-|[]]]; apply in_app_or in Iy as [Iy|[<-|[]]]; auto.
           ++ apply FI in Ix as [Ix ?], Iy as [Iy ?]. auto.
           ++ apply FI in Ix as [Ix Nx]. exfalso. apply Nx. apply TR; auto. eapply compat_trans; eauto.
           ++ apply FI in Iy as [Iy Ny]. exfalso. apply Ny. apply TR; auto. eapply compat_trans; [|exact Cex]. now rewrite compat_sym.
        -- intros k0 v I. cbn in I. destruct I as [I|I].
           ++ injection I as <- <-. repeat split.
              ** now rewrite compat_sym.
              ** apply in_or_app. right. cbn. auto.
              ** intros I. apply in_app_or in I as [I|[I|[]]]; [apply FI in I; tauto | apply Nnm; rewrite I; exact In_ex].
              ** rewrite map_app. apply in_or_app. left. now apply HI.
           ++ apply in_map_iff in I as [[k1 v1] [E I]]. cbn in E. destruct (RD _ _ I) as [C1 [I1 [N1 H1]]].
              assert (k1 <> nm) by (intros ->; tauto).
              destruct (str_eqb v1 (ae_name ex)) eqn:Ev; injection E as <- <-.
              ** apply str_eqb_eq in Ev. subst v1. repeat split.
                 --- eapply compat_trans; eauto. now rewrite compat_sym.
                 --- apply in_or_app. right. cbn. auto.
                 --- intros I'. apply in_app_or in I' as [I'|[I'|[]]]; [apply FI in I'; tauto | congruence].
                 --- rewrite map_app. apply in_or_app. auto.
              ** apply str_eqb_neq in Ev. repeat split; auto.
                 --- apply in_or_app. left. apply FI. auto.
                 --- intros I'. apply in_app_or in I' as [I'|[I'|[]]]; [apply FI in I'; tauto | congruence].
                 --- rewrite map_app. apply in_or_app. auto.
        -- intros x I. rewrite map_app. apply in_or_app. apply in_app_or in I as [I|[<-|[]]]; [left; apply HI; apply FI in I; tauto | right; cbn; auto].
        -- intros nm0 s0 I. apply in_app_or in I as [I|[I|[]]].
           ++ destruct (CV _ _ I) as [I'|I'].
              ** destruct (str_eqb nm0 (ae_name ex)) eqn:E0.
                 --- apply str_eqb_eq in E0. subst. right. cbn. auto.
                 --- apply str_eqb_neq in E0. left. apply in_or_app. left. apply FI. auto.
              ** right. cbn. right. rewrite map_map. apply in_map_iff in I' as [[k1 v1] [E I']]. cbn in E. subst k1.
                 apply in_map_iff. exists (nm0, v1). split; auto. cbn. now destruct (str_eqb v1 (ae_name ex)).
           ++ injection I as <- <-. left. apply in_or_app. right. cbn. auto.
        -- intros nm0 s0 x I Ix C. cbn in Ix. apply in_app_or in Ix as [Ix|[<-|[]]].
           ++ apply filter_In in Ix as [Ix Nx]. apply in_app_or in I as [I|[I|[]]]; eauto.
              injection I as <- <-. exfalso. rewrite (Uex _ Ix C), str_eqb_refl in Nx. discriminate.
           ++ cbn in *. apply in_app_or in I as [I|[I|[]]]; [|injection I as <- <-; auto].
              eapply SO; [exact I | exact Iex |]. eapply compat_trans; [exact C | exact Cex].
        -- intros nm0 s0 x I Ix C. apply in_app_or in Ix as [Ix|[<-|[]]].
           ++ apply FI in Ix as [Ix Nx]. apply in_app_or in I as [I|[I|[]]]; eauto.
              injection I as <- <-. exfalso. apply Nx. apply TR; auto. eapply compat_trans; [|exact Cex]. now rewrite compat_sym.
           ++ apply in_app_or in I as [I|[I|[]]]; [|injection I as <- <-; apply higher_irrefl].
              (* nm0 <= ex < nm *)
              assert (C0 : compat nm0 (ae_name ex) = true) by (eapply compat_trans; eauto).
              pose proof (MX _ _ _ I In_ex C0) as M0.
              destruct (higher nm nm0) eqn:X; auto.
              rewrite (higher_trans _ _ _ Hx X) in M0. discriminate.
      * (* the entry stays; the new name redirects to it *)
        constructor; auto.
        -- intros k0 v I. cbn in I. destruct I as [I|I].
           ++ injection I as <- <-. repeat split; auto. rewrite map_app. apply in_or_app. right. cbn. auto.
           ++ destruct (RD _ _ I) as [? [? [? ?]]]. repeat split; auto. rewrite map_app. apply in_or_app. auto.
        -- intros x I. rewrite map_app. apply in_or_app. auto.
        -- intros nm0 s0 I. cbn. apply in_app_or in I as [I|[I|[]]].
           ++ destruct (CV _ _ I); auto.
           ++ injection I as <- <-. auto.
        -- intros nm0 s0 x I Ix C. apply in_app_or in I as [I|[I|[]]]; eauto. injection I as <- <-.
           now rewrite (Uex _ Ix C).
        -- intros nm0 s0 x I Ix C. apply in_app_or in I as [I|[I|[]]]; eauto. injection I as <- <-.
           apply in_map_iff in Ix as [x0 [<- Ix]]. rewrite (Uex _ Ix C). congruence.
    + (* a new track *)
      injection R as <-.
      pose proof (find_entry_none _ _ FE) as Nnm.
      pose proof (find_none_incompat _ _ FE FC) as Inc.
      assert (AN : anames {| a_imps := a_imps a ++ [{| ae_name := nm; ae_sort := s; ae_iid := iid |}]; a_redir := a_redir a |} = anames a ++ [nm])
        by (unfold anames; cbn; now rewrite map_app).
      assert (Inc' : forall y, In y (anames a) -> compat nm y = false).
      { intros y I. apply in_map_iff in I as [x [<- I]]. auto. }
      constructor; rewrite ?AN.
      * now apply NoDup_app_one.
      * intros x y Ix Iy C. apply in_app_or in Ix as [Ix|[<-|[]]]; apply in_app_or in Iy as [Iy|[<-|[]]]; auto.
        -- rewrite compat_sym, (Inc' _ Ix) in C. discriminate.
        -- rewrite (Inc' _ Iy) in C. discriminate.
      * intros k v I. cbn in I. destruct (RD _ _ I) as [C1 [I1 [N1 H1]]]. repeat split; auto.
        -- apply in_or_app. auto.
        -- intros I'. apply in_app_or in I' as [I'|[<-|[]]]; auto.
           rewrite (Inc' _ I1) in C1. discriminate.
        -- rewrite map_app. apply in_or_app. auto.
      * intros x I. rewrite map_app. apply in_or_app. apply in_app_or in I as [I|[<-|[]]]; [auto | right; cbn; auto].
      * intros nm0 s0 I. cbn. apply in_app_or in I as [I|[I|[]]].
        -- destruct (CV _ _ I); auto. left. apply in_or_app. auto.
        -- injection I as <- <-. left. apply in_or_app. right. cbn. auto.
      * intros nm0 s0 x I Ix C. cbn in Ix. apply in_app_or in Ix as [Ix|[<-|[]]]; apply in_app_or in I as [I|[I|[]]]; eauto.
        -- injection I as <- <-. rewrite (Inc _ Ix) in C. discriminate.
        -- cbn in C. exfalso.
           (* a historical name on the track of the new one: its entry or redirect target would be compatible with [nm] *)
           destruct (CV _ _ I) as [I'|I'].
           ++ rewrite compat_sym, (Inc' _ I') in C. discriminate.
           ++ apply in_map_iff in I' as [[k1 v1] [E I']]. cbn in E. subst k1. destruct (RD _ _ I') as [C1 [I1 _]].
              assert (compat nm v1 = true) by (eapply compat_trans; [rewrite compat_sym; exact C | exact C1]).
              rewrite (Inc' _ I1) in H0. discriminate.
        -- injection I as <- <-. reflexivity.
      * intros nm0 s0 x I Ix C. apply in_app_or in Ix as [Ix|[<-|[]]]; apply in_app_or in I as [I|[I|[]]]; eauto.
        -- injection I as <- <-. rewrite (Inc' _ Ix) in C. discriminate.
        -- exfalso. destruct (CV _ _ I) as [I'|I'].
           ++ rewrite compat_sym, (Inc' _ I') in C. discriminate.
           ++ apply in_map_iff in I' as [[k1 v1] [E I']]. cbn in E. subst k1. destruct (RD _ _ I') as [C1 [I1 _]].
              assert (compat nm v1 = true) by (eapply compat_trans; [rewrite compat_sym; exact C | exact C1]).
              rewrite (Inc' _ I1) in H0. discriminate.
        -- injection I as <- <-. apply higher_irrefl.
Qed.

(** * consequences *)
Lemma agg_canonical a H nm s : AggInv a H -> In (nm, s) H ->
  In (canonical_name a nm) (anames a) /\ compat nm (canonical_name a nm) = true.
Proof.
  intros AI I. unfold canonical_name. destruct (str_assoc nm (a_redir a)) as [c|] eqn:A.
  - apply str_assoc_some in A. destruct (ai_redir _ _ AI _ _ A) as [? [? _]]. auto.
  - destruct (ai_covered _ _ AI _ _ I) as [I'|I'].
    + split; auto. apply compat_refl.
    + exfalso. eapply str_assoc_in_keys; eauto.
Qed.

Lemma agg_canon_eq a H nm s : AggInv a H -> In (nm, s) H -> canonical_name a nm = canon_in (map fst H) nm.
Proof.
  intros AI I. destruct (agg_canonical _ _ _ _ AI I) as [Ic Cc]. symmetry. apply canon_in_unique.
  - right. now apply (ai_hist_in _ _ AI).
  - now rewrite compat_sym.
  - intros n In_n Cn. apply in_map_iff in In_n as [[n0 s0] [E In_n]]. cbn in E. subst n0.
    eapply (ai_max _ _ AI); eauto. eapply compat_trans; eauto.
  - eapply (ai_max _ _ AI); eauto.
Qed.

Lemma agg_entry_sort a H nm s x : AggInv a H -> In (nm, s) H -> In x (a_imps a) ->
  ae_name x = canonical_name a nm -> ae_sort x = s.
Proof.
  intros AI I Ix E. destruct (agg_canonical _ _ _ _ AI I) as [_ Cc].
  eapply (ai_sort _ _ AI); eauto. now rewrite E.
Qed.

Lemma agg_entry_unique a H x y : AggInv a H -> In x (a_imps a) -> In y (a_imps a) -> ae_name x = ae_name y -> x = y.
Proof. intros AI. eapply NoDup_map_inj. apply (ai_nodup _ _ AI). Qed.

(** a whole aggregation history *)
Fixpoint agg_run (a : agg) (L : list (str * sort * option str)) : option agg :=
  match L with
  | [] => Some a
  | (nm, s, iid) :: r => match agg_add a nm s iid with AggOk a' => agg_run a' r | AggKindMismatch => None end
  end.

Lemma agg_run_inv L : forall a H a', AggInv a H -> agg_run a L = Some a' ->
  AggInv a' (H ++ map (fun x : str * sort * option str => (fst (fst x), snd (fst x))) L).
Proof.
  induction L as [|[[nm s] iid] r IH]; intros a H a' AI R; cbn in *.
  - injection R as <-. now rewrite app_nil_r.
  - destruct (agg_add a nm s iid) as [a1|] eqn:A; try discriminate.
    pose proof (agg_add_inv _ _ _ _ _ _ AI A) as AI1.
    specialize (IH _ _ _ AI1 R). now rewrite <- app_assoc in IH.
Qed.

(** C03: for EVERY order in which import requirements are aggregated, every requirement is answered by
    ONE entry; that entry is named for the highest version among all aggregated names on the semver
    track of the requirement and carries the sort the requirement asked for. *)
Theorem canonical_is_highest_on_track L a nm s iid :
  agg_run agg_empty L = Some a -> In (nm, s, iid) L ->
  let c := canonical_name a nm in
  In c (map (fun x : str * sort * option str => fst (fst x)) L) /\ compat c nm = true /\
  (forall n s' i', In (n, s', i') L -> compat n nm = true -> higher c n = false) /\
  exists x, In x (a_imps a) /\ ae_name x = c /\ ae_sort x = s /\
            (forall y, In y (a_imps a) -> compat (ae_name y) nm = true -> y = x).
Proof.
  intros R I. pose proof (agg_run_inv _ _ _ _ agg_inv_empty R) as AI. cbn in AI.
  set (H := map (fun x : str * sort * option str => (fst (fst x), snd (fst x))) L) in *.
  assert (IH : In (nm, s) H) by (apply in_map_iff; exists (nm, s, iid); auto).
  destruct (agg_canonical _ _ _ _ AI IH) as [Ic Cc]. cbn.
  repeat split.
  - pose proof (ai_hist_in _ _ AI _ Ic) as Hc. unfold H in Hc. rewrite map_map in Hc. exact Hc.
  - now rewrite compat_sym.
  - intros n s' i' In_n Cn. eapply (ai_max _ _ AI); eauto.
    + apply in_map_iff. exists (n, s', i'). split; [reflexivity | auto].
    + eapply compat_trans; eauto.
  - apply in_map_iff in Ic as [x [Ex Ix]]. exists x. repeat split; auto.
    + eapply agg_entry_sort; eauto.
    + intros y Iy Cy. eapply agg_entry_unique; eauto. apply (ai_track _ _ AI).
      * now apply in_map.
      * now apply in_map.
      * rewrite Ex. eapply compat_trans; eauto.
Qed.
