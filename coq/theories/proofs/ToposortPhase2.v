(** C02: the second phase of [toposort], modelled FAITHFULLY (petgraph's [Dfs::next] over
    [Reversed(graph)] with a [discovered] map shared by all iterations, [move_to] per element of the
    finish stack, the [cycle] flag), and the proof that on the output of the first phase it answers
    exactly what [EncodeModel.toposort] answers by checking the order ([topo_orderb]).
    Then the characterisation: [toposort g] succeeds iff the edge relation has no cycle. *)
From Coq Require Import List Arith Bool NArith Lia Permutation Relation_Operators.
From WacV Require Import Str Graph Wiring WiringSpec EncodeModel GraphInv WiringOrder ToposortDfs ToposortPhase1.
Import ListNotations.
Local Open Scope nat_scope.

(** * the faithful second phase *)
(** [graph.neighbors_directed(n, Incoming)]: sources of the incoming edges, newest edge first *)
Definition preds (g : gstate) (n : nat) : list nat := map esrc (incoming g n).

(** [Dfs::next(Reversed(graph))]: pop until an undiscovered node comes up; visit it and push its
    undiscovered predecessors. Result: the node returned (if any), the stack, the discovered set. *)
Fixpoint rdfs_next (g : gstate) (stack disc : list nat) : option nat * list nat * list nat :=
  match stack with
  | [] => (None, [], disc)
  | n :: rest =>
      if memn n disc then rdfs_next g rest disc
      else (Some n, push_succs (n :: disc) (preds g n) rest, n :: disc)
  end.

Inductive p2res := P2Ok | P2Cycle (j : nat).

(** [for &i in &finish_stack { dfs.move_to(i); let mut cycle = false; while let Some(j) = dfs.next(..) {..} }] *)
Fixpoint phase2 (g : gstate) (order disc : list nat) : p2res :=
  match order with
  | [] => P2Ok
  | i :: r =>
      match rdfs_next g [i] disc with
      | (None, _, disc1) => phase2 g r disc1
      | (Some _, st1, disc1) =>
          match rdfs_next g st1 disc1 with
          | (Some j, _, _) => P2Cycle j
          | (None, _, disc2) => phase2 g r disc2
          end
      end
  end.

(** [toposort] with both phases as the code has them; [inr None] = the self-loop exit of phase one
    (the model of phase one does not record at which node), [inr (Some j)] = [Err(j)] of phase two *)
Definition toposort_full (g : gstate) : list nat + option nat :=
  match topo_phase1 g with
  | None => inr None
  | Some ord => match phase2 g ord [] with P2Ok => inl ord | P2Cycle j => inr (Some j) end
  end.

(** * one iteration on an undiscovered node *)
Lemma rdfs_next_all_new g st disc : st <> [] -> (forall x, In x st -> ~ In x disc) ->
  exists j st' disc', rdfs_next g st disc = (Some j, st', disc') /\ In j st.
Proof.
  destruct st as [|n rest]; [congruence|]. intros _ H. cbn [rdfs_next].
  assert (E : memn n disc = false) by (apply memn_notIn, H; now left). rewrite E.
  eexists _, _, _. split; [reflexivity | now left].
Qed.

Lemma phase2_cons g i r disc : ~ In i disc ->
  phase2 g (i :: r) disc =
  match pushed (i :: disc) (preds g i) with
  | [] => phase2 g r (i :: disc)
  | j :: _ => P2Cycle j
  end.
Proof.
  intros Ni. cbn [phase2 rdfs_next]. apply memn_notIn in Ni. rewrite Ni.
  rewrite push_succs_eq, app_nil_r.
  destruct (pushed (i :: disc) (preds g i)) as [|j l] eqn:E; [reflexivity|].
  cbn [rdfs_next]. assert (Nj : memn j (i :: disc) = false).
  { apply memn_notIn. assert (Hj : In j (pushed (i :: disc) (preds g i))) by (rewrite E; now left).
    apply pushed_In in Hj. tauto. }
  now rewrite Nj.
Qed.

Lemma pushed_nil disc ss : pushed disc ss = [] <-> forall x, In x ss -> In x disc.
Proof.
  split.
  - intros E x Hx. destruct (in_dec Nat.eq_dec x disc) as [H|H]; auto.
    assert (Hp : In x (pushed disc ss)) by (apply pushed_In; auto). rewrite E in Hp. destruct Hp.
  - intros H. destruct (pushed disc ss) as [|x l] eqn:E; auto.
    assert (Hp : In x (pushed disc ss)) by (rewrite E; now left). apply pushed_In in Hp as [A B].
    exfalso. auto.
Qed.

(** what the second phase accepts: every predecessor of an element is the element itself or earlier *)
Fixpoint PredsBefore (g : gstate) (disc r : list nat) : Prop :=
  match r with
  | [] => True
  | i :: r' => (forall p, In p (preds g i) -> In p (i :: disc)) /\ PredsBefore g (i :: disc) r'
  end.

Lemma phase2_ok_iff g : forall r disc, NoDup r -> (forall i, In i r -> ~ In i disc) ->
  (phase2 g r disc = P2Ok <-> PredsBefore g disc r).
Proof.
  induction r as [|i r IH]; intros disc ND Hn; cbn [PredsBefore]; [cbn; tauto|].
  inversion ND as [|? ? Ni ND']; subst.
  rewrite phase2_cons by (apply Hn; now left).
  assert (Hn' : forall j, In j r -> ~ In j (i :: disc)).
  { intros j Hj [<-|H]; [contradiction|]. apply (Hn j); [now right | exact H]. }
  destruct (pushed (i :: disc) (preds g i)) as [|j l] eqn:E.
  - rewrite (IH (i :: disc) ND' Hn'). pose proof (proj1 (pushed_nil _ _) E) as E'. tauto.
  - split; [discriminate|]. intros [H _]. pose proof (proj2 (pushed_nil _ _) H) as H'. rewrite H' in E. discriminate.
Qed.

Lemma preds_edge g n p : In p (preds g n) <-> exists e, In e (edges g) /\ esrc e = p /\ etgt e = n.
Proof.
  unfold preds, incoming. rewrite in_map_iff. split.
  - intros [e [E I]]. apply filter_In in I as [I T]. apply Nat.eqb_eq in T. eauto.
  - intros [e [I [S T]]]. exists e. split; auto. apply filter_In. split; auto. now apply Nat.eqb_eq.
Qed.

(** accepted => every edge into the list goes forward *)
Lemma PredsBefore_index g : forall r disc, PredsBefore g disc r -> NoDup r ->
  forall e, In e (edges g) -> esrc e <> etgt e -> In (etgt e) r ->
  In (esrc e) disc \/ (In (esrc e) r /\ index_of (esrc e) r < index_of (etgt e) r).
Proof.
  induction r as [|i r IH]; intros disc PB ND e Ie Ne Ht; [destruct Ht|].
  destruct PB as [P1 P2]. inversion ND as [|? ? Ni ND']; subst.
  destruct Ht as [Ht|Ht].
  - assert (Hp : In (esrc e) (preds g i)) by (apply preds_edge; eauto).
    apply P1 in Hp as [Hp|Hp]; [congruence | now left].
  - assert (Nt : i <> etgt e) by (intros ->; contradiction).
    destruct (IH (i :: disc) P2 ND' e Ie Ne Ht) as [[Hs|Hs]|[Hs Hlt]].
    + right. rewrite <- Hs. split; [now left|]. rewrite index_of_cons_eq, index_of_cons_ne by exact Nt. lia.
    + now left.
    + right. split; [now right|]. assert (Ns : i <> esrc e) by (intros ->; contradiction).
      rewrite !index_of_cons_ne by assumption. lia.
Qed.

(** every edge goes forward => accepted *)
Lemma index_of_lt_prefix x pre post : index_of x (pre ++ post) < length pre -> In x pre.
Proof.
  induction pre as [|y pre IH]; cbn; [lia|]. destruct (y =? x) eqn:E.
  - apply Nat.eqb_eq in E. auto.
  - intros H. right. apply IH. lia.
Qed.

Lemma forward_PredsBefore g ord :
  NoDup ord -> (forall e, In e (edges g) -> index_of (esrc e) ord < index_of (etgt e) ord) ->
  forall r pre disc, ord = pre ++ r -> incl pre disc -> PredsBefore g disc r.
Proof.
  intros ND F. induction r as [|i r IH]; intros pre disc E Hi; cbn [PredsBefore]; auto. split.
  - intros p Hp. apply preds_edge in Hp as [e [Ie [S T]]]. specialize (F e Ie). rewrite S, T in F. right.
    apply Hi. apply (index_of_lt_prefix p pre (i :: r)). rewrite <- E.
    assert (Ni : ~ In i pre).
    { intros H. rewrite E in ND. apply NoDup_remove_2 in ND. apply ND. apply in_or_app. now left. }
    rewrite E in F at 2. now rewrite index_of_app_notin in F.
  - apply (IH (pre ++ [i])).
    + now rewrite <- app_assoc.
    + intros x Hx. apply in_app_or in Hx as [Hx|[<-|[]]]; [right; auto | now left].
Qed.

(** the faithful second phase and the order check of [EncodeModel.toposort] agree on every
    duplicate-free enumeration of the live nodes without self loops *)
Lemma phase2_iff_topo_orderb g ord : EdgesLive g ->
  NoDup ord -> (forall n, In n ord <-> In n (node_ids g)) -> (forall n, In n ord -> ~ In n (succs g n)) ->
  (phase2 g ord [] = P2Ok <-> topo_orderb g ord = true).
Proof.
  intros EL ND Iff NS. rewrite (phase2_ok_iff g ord [] ND) by (intros i _ []). split.
  - intros PB. unfold topo_orderb. rewrite !andb_true_iff. repeat split.
    + now apply NoDup_nodupb.
    + apply forallb_forall. intros n Hn. apply existsb_eqb_In. now apply Iff.
    + apply forallb_forall. intros n Hn. apply node_ids_live_iff. now apply Iff.
    + apply forallb_forall. intros e He. unfold precedes. apply Nat.ltb_lt.
      assert (Hs : In (esrc e) ord) by (apply Iff, node_ids_live_iff; now apply EL).
      assert (Ht : In (etgt e) ord) by (apply Iff, node_ids_live_iff; now apply EL).
      assert (Ne : esrc e <> etgt e).
      { intros E. apply (NS (esrc e) Hs). apply succs_edge. exists e. auto. }
      destruct (PredsBefore_index g ord [] PB ND e He Ne Ht) as [[]|[_ H]]. exact H.
  - intros T. apply topo_orderb_Topo in T. destruct T as [_ _ _ TE].
    apply (forward_PredsBefore g ord ND TE ord [] []); auto. intros x [].
Qed.

(** * [toposort] = both phases as coded *)
Lemma toposort_full_eq g : EdgesLive g ->
  toposort g = match toposort_full g with inl ord => Some ord | inr _ => None end.
Proof.
  intros EL. unfold toposort, toposort_full. pose proof (phase1_result g EL) as H.
  destruct (topo_phase1 g) as [ord|]; auto. destruct H as [ND [Iff [_ NS]]].
  pose proof (phase2_iff_topo_orderb g ord EL ND Iff NS) as P.
  destruct (phase2 g ord []) as [|j]; destruct (topo_orderb g ord); auto.
  - destruct P as [P _]. specialize (P eq_refl). discriminate.
  - destruct P as [_ P]. specialize (P eq_refl). discriminate.
Qed.

(** * success iff acyclic *)
Lemma toposort_some_topo g ord : toposort g = Some ord -> topo_orderb g ord = true.
Proof.
  unfold toposort. destruct (topo_phase1 g) as [o|]; [|discriminate].
  destruct (topo_orderb g o) eqn:E; [|discriminate]. now intros [= <-].
Qed.

Lemma topo_order_ranked g ord : topo_orderb g ord = true -> RankedBy g (fun n => index_of n ord).
Proof. intros T. apply topo_orderb_Topo in T. destruct T as [_ _ _ TE]. exact TE. Qed.

Lemma toposort_some_acyclic g ord : toposort g = Some ord -> ~ has_cycle g.
Proof. intros H. eapply ranked_no_cycle. apply topo_order_ranked. eapply toposort_some_topo; eauto. Qed.

Lemma toposort_acyclic_some g : EdgesLive g -> ~ has_cycle g ->
  exists ord, toposort g = Some ord /\ topo_phase1 g = Some ord /\ topo_orderb g ord = true /\ toposort_full g = inl ord.
Proof.
  intros EL NC. destruct (phase1_topo g EL NC) as [ord [E T]]. exists ord.
  assert (Ts : toposort g = Some ord) by (unfold toposort; now rewrite E, T).
  repeat split; auto. pose proof (toposort_full_eq g EL) as F. rewrite Ts in F.
  unfold toposort_full in *. rewrite E in *. destruct (phase2 g ord []); [reflexivity | discriminate].
Qed.

Lemma toposort_none_iff_cycle g : EdgesLive g -> (toposort g = None <-> has_cycle g).
Proof.
  intros EL. split.
  - intros N. destruct (toposort g) as [o|] eqn:E; [discriminate|].
    (* classical case analysis is not needed: phase one itself decides *)
    pose proof (phase1_result g EL) as H. unfold toposort in E.
    destruct (topo_phase1 g) as [ord|]; [|now apply self_loop_cycle].
    destruct H as [ND [Iff [[C|T] _]]]; auto.
    rewrite (topo_orderb_intro g ord EL ND Iff T) in E. discriminate.
  - intros C. destruct (toposort g) as [o|] eqn:E; auto. exfalso. eapply toposort_some_acyclic; eauto.
Qed.
