(** [use_synthesis_spec]: the [uses] fields written by the conversion are exactly what the first-owner rule
    ([ConvertSpec.replay]) computes from the type items in the order in which the conversion meets them (the ghost log
    [cs_log]: one entry per successful [use_or_own] call, oldest first), and the converter's [owners] table is the
    rule's origin table.  Corollaries: an entry never points to the interface it is in, and it always names an item
    that was ORIGINAL (first owner) in the interface it points to. *)
From Coq Require Import Lia.
From WacV Require Import Str Types CheckerEq CheckerValue CheckerProofs Convert ConvertSpec ConvertProofs ConvertFrame ConvertTree.
Set Warnings "-unused-intro-pattern".

Definition usite_of (x : site) : usite := (st_owner x, st_name x, st_rf x, st_cr x).

(** * [replay] *)
Lemma replay_app fuel g a : forall b st,
  replay fuel g (a ++ b) st = match replay fuel g a st with Some st' => replay fuel g b st' | None => None end.
Proof.
  induction a as [|x a IH]; intros b st; cbn [app replay]; [reflexivity|].
  destruct (site_step fuel g st x) as [st'|]; [apply IH | reflexivity].
Qed.
Lemma replay_snoc fuel g a x st st' :
  replay fuel g a st = Some st' -> replay fuel g (a ++ [x]) st = site_step fuel g st' x.
Proof. intro H. rewrite replay_app, H. cbn [replay]. destruct (site_step fuel g st' x); reflexivity. Qed.

Lemma owner_eqb_eq a b : owner_eqb a b = true <-> a = b.
Proof.
  destruct a as [x|x], b as [y|y]; cbn [owner_eqb]; try (split; [discriminate | intro H; discriminate]).
  - rewrite ideqb_eq. split; [now intros -> | now intros [= ->]].
  - rewrite ideqb_eq. split; [now intros -> | now intros [= ->]].
Qed.
Lemma owner_eqb_refl a : owner_eqb a a = true.
Proof. now apply owner_eqb_eq. Qed.
Lemma owner_eqb_neq a b : owner_eqb a b = false <-> a <> b.
Proof.
  split.
  - intros H E. apply owner_eqb_eq in E. congruence.
  - intro H. destruct (owner_eqb a b) eqn:E; [apply owner_eqb_eq in E; contradiction | reflexivity].
Qed.

(** * [uses_for] *)
Lemma uses_for_app o a b :
  uses_for o (a ++ b) =
  fold_left (fun acc p => if owner_eqb o (fst p) then imap_insert (fst (snd p)) (snd (snd p)) acc else acc) b (uses_for o a).
Proof. unfold uses_for. apply fold_left_app. Qed.
Lemma fold_uses_absent o (l : list (owner * (str * used))) : forall acc : list (str * used), (forall p, In p l -> fst p <> o) ->
  fold_left (fun acc p => if owner_eqb o (fst p) then imap_insert (fst (snd p)) (snd (snd p)) acc else acc) l acc = acc.
Proof.
  induction l as [|p l IH]; intros acc H; cbn [fold_left]; [reflexivity|].
  assert (E : owner_eqb o (fst p) = false).
  { apply owner_eqb_neq. intro X. apply (H p (or_introl eq_refl)). now symmetry. }
  rewrite E. apply IH. intros q Hq. apply H. now right.
Qed.
Lemma uses_for_absent o l : (forall p, In p l -> fst p <> o) -> uses_for o l = [].
Proof. apply fold_uses_absent. Qed.

(** * The [uses] field of a slot *)
Definition slot_uses (t : types) (o : owner) : option (list (str * used)) :=
  match o with
  | OwIface i => option_map i_uses (get_if t i)
  | OwWorld w => option_map w_uses (get_world t w)
  end.

(** existing slots keep their [uses]; a new slot starts without *)
Definition uses_frame (t t' : types) : Prop :=
  forall o, slot_uses t' o = slot_uses t o \/ (slot_uses t o = None /\ slot_uses t' o = Some []).
Lemma uses_frame_refl t : uses_frame t t.
Proof. intro o. now left. Qed.
Lemma uses_frame_trans t1 t2 t3 : uses_frame t1 t2 -> uses_frame t2 t3 -> uses_frame t1 t3.
Proof.
  intros A B o. destruct (A o) as [A1|[A1 A2]], (B o) as [B1|[B1 B2]].
  - left. congruence.
  - right. split; congruence.
  - right. split; congruence.
  - congruence.
Qed.
(** a change that leaves the interface and world arenas alone *)
Lemma uses_frame_same t t' :
  t_tag t' = t_tag t -> t_interfaces t' = t_interfaces t -> t_worlds t' = t_worlds t -> uses_frame t t'.
Proof. intros H1 H2 H3 o. left. destruct o; cbn [slot_uses]; unfold get_if, get_world; now rewrite H1, ?H2, ?H3. Qed.

Lemma lookup_snoc_old {A} tag (l : list A) x i y : lookup tag l i = Some y -> lookup tag (l ++ [x]) i = Some y.
Proof. intro H. apply lookup_some in H as [H1 H2]. apply lookup_intro; [exact H1 | now apply nth_error_app_some]. Qed.
Lemma lookup_snoc_inv {A} tag (l : list A) x i y :
  lookup tag (l ++ [x]) i = Some y -> lookup tag l i = Some y \/ (lookup tag l i = None /\ y = x).
Proof.
  intro H. apply lookup_some in H as [H1 H2]. destruct (Nat.lt_ge_cases (id_idx i) (length l)) as [Hl|Hl].
  - left. rewrite nth_error_app1 in H2 by exact Hl. now apply lookup_intro.
  - right. rewrite nth_error_app2 in H2 by exact Hl. split.
    + unfold lookup. destruct (id_tag i =? tag); [|reflexivity]. now apply nth_error_None.
    + destruct (id_idx i - length l)%nat as [|k]; cbn in H2; [congruence | now destruct k].
Qed.

Lemma uses_frame_add_if t d : i_uses d = [] -> uses_frame t (snd (add_if t d)).
Proof.
  intros Hd o. destruct o as [i|w]; cbn [slot_uses add_if snd]; unfold get_if, get_world; cbn [t_tag t_interfaces t_worlds]; [|now left].
  destruct (lookup (t_tag t) (t_interfaces t ++ [d]) i) as [y|] eqn:E.
  - apply lookup_snoc_inv in E as [E|[E ->]]; [left; now rewrite E | right; rewrite E; cbn; now rewrite Hd].
  - left. destruct (lookup (t_tag t) (t_interfaces t) i) as [y|] eqn:E'; [|reflexivity].
    apply (lookup_snoc_old _ _ d) in E'. congruence.
Qed.
Lemma uses_frame_add_world t d : w_uses d = [] -> uses_frame t (snd (add_world t d)).
Proof.
  intros Hd o. destruct o as [i|w]; cbn [slot_uses add_world snd]; unfold get_if, get_world; cbn [t_tag t_interfaces t_worlds]; [now left|].
  destruct (lookup (t_tag t) (t_worlds t ++ [d]) w) as [y|] eqn:E.
  - apply lookup_snoc_inv in E as [E|[E ->]]; [left; now rewrite E | right; rewrite E; cbn; now rewrite Hd].
  - left. destruct (lookup (t_tag t) (t_worlds t) w) as [y|] eqn:E'; [|reflexivity].
    apply (lookup_snoc_old _ _ d) in E'. congruence.
Qed.

Lemma lookup_set_nth {A} tag (l : list A) i j x y :
  nth_error l (id_idx i) = Some y ->
  lookup tag (set_nth (id_idx i) x l) j =
  if Nat.eqb (id_idx i) (id_idx j) then (if id_tag j =? tag then Some x else None) else lookup tag l j.
Proof.
  intro H. unfold lookup. destruct (id_tag j =? tag); [|now destruct (Nat.eqb _ _)].
  destruct (Nat.eqb (id_idx i) (id_idx j)) eqn:E.
  - apply Nat.eqb_eq in E. rewrite <- E. eapply nth_error_set_nth_eq. exact H.
  - apply Nat.eqb_neq in E. now apply nth_error_set_nth_neq.
Qed.

(** updating a slot: its [uses] become [f]'s, all others stay *)
Lemma slot_uses_upd_if t me f t' x :
  upd_if t me f = Some t' -> get_if t me = Some x ->
  forall o, slot_uses t' o = if owner_eqb o (OwIface me) then Some (i_uses (f x)) else slot_uses t o.
Proof.
  unfold upd_if. intros H E. rewrite E in H. injection H as <-. apply lookup_some in E as [E1 E2].
  intros [i|w]; cbn [slot_uses owner_eqb]; unfold get_if, get_world; cbn [t_tag t_interfaces t_worlds]; [|reflexivity].
  rewrite (lookup_set_nth _ _ me i (f x) x E2). unfold id_eqb.
  destruct (Nat.eqb (id_idx me) (id_idx i)) eqn:En.
  - rewrite (Nat.eqb_sym (id_idx i)), En, andb_true_r. rewrite E1.
    destruct (id_tag i =? t_tag t) eqn:Et; [reflexivity|]. unfold lookup. now rewrite Et.
  - rewrite (Nat.eqb_sym (id_idx i)), En, andb_false_r. reflexivity.
Qed.
Lemma slot_uses_upd_world t me f t' x :
  upd_world t me f = Some t' -> get_world t me = Some x ->
  forall o, slot_uses t' o = if owner_eqb o (OwWorld me) then Some (w_uses (f x)) else slot_uses t o.
Proof.
  unfold upd_world. intros H E. rewrite E in H. injection H as <-. apply lookup_some in E as [E1 E2].
  intros [i|w]; cbn [slot_uses owner_eqb]; unfold get_if, get_world; cbn [t_tag t_interfaces t_worlds]; [reflexivity|].
  rewrite (lookup_set_nth _ _ me w (f x) x E2). unfold id_eqb.
  destruct (Nat.eqb (id_idx me) (id_idx w)) eqn:En.
  - rewrite (Nat.eqb_sym (id_idx w)), En, andb_true_r. rewrite E1.
    destruct (id_tag w =? t_tag t) eqn:Et; [reflexivity|]. unfold lookup. now rewrite Et.
  - rewrite (Nat.eqb_sym (id_idx w)), En, andb_false_r. reflexivity.
Qed.
(** an update that keeps the [uses] of the slot *)
Lemma uses_frame_upd_if t me f t' : upd_if t me f = Some t' -> (forall x, i_uses (f x) = i_uses x) -> uses_frame t t'.
Proof.
  intros H Hf o. left. destruct (get_if t me) as [x|] eqn:E; [|unfold upd_if in H; rewrite E in H; discriminate].
  rewrite (slot_uses_upd_if _ _ _ _ _ H E). destruct (owner_eqb o (OwIface me)) eqn:Eo; [|reflexivity].
  apply owner_eqb_eq in Eo. subst. cbn [slot_uses]. now rewrite E, Hf.
Qed.
Lemma uses_frame_upd_world t me f t' : upd_world t me f = Some t' -> (forall x, w_uses (f x) = w_uses x) -> uses_frame t t'.
Proof.
  intros H Hf o. left. destruct (get_world t me) as [x|] eqn:E; [|unfold upd_world in H; rewrite E in H; discriminate].
  rewrite (slot_uses_upd_world _ _ _ _ _ H E). destruct (owner_eqb o (OwWorld me)) eqn:Eo; [|reflexivity].
  apply owner_eqb_eq in Eo. subst. cbn [slot_uses]. now rewrite E, Hf.
Qed.

Section Uses.
  Variable g : vgraph.
  Variable hf : nat.

  (** * The invariant: the log replays to the converter's tables *)
  Definition log_ok (s : cstate) : Prop :=
    exists st, replay hf g (map usite_of (cs_log s)) ust0 = Some st /\
      u_origins st = cs_owners s /\
      (forall o x, slot_uses (cs_types s) o = Some x -> x = uses_for o (u_entries st)) /\
      (forall p, In p (u_entries st) -> slot_uses (cs_types s) (fst p) <> None).

  (** owners, log untouched; slots keep their uses *)
  Definition quiet (s s' : cstate) : Prop :=
    cs_log s' = cs_log s /\ cs_owners s' = cs_owners s /\ uses_frame (cs_types s) (cs_types s').
  Lemma quiet_refl s : quiet s s.
  Proof. repeat split. apply uses_frame_refl. Qed.
  Lemma quiet_trans a b c : quiet a b -> quiet b c -> quiet a c.
  Proof. intros [A1 [A2 A3]] [B1 [B2 B3]]. repeat split; try congruence. eapply uses_frame_trans; eassumption. Qed.

  Lemma log_ok_quiet s s' : quiet s s' -> log_ok s -> log_ok s'.
  Proof.
    intros [Q1 [Q2 Q3]] [st [H1 [H2 [H3 H4]]]]. exists st. rewrite Q1, Q2. split; [exact H1|]. split; [exact H2|]. split.
    - intros o x Hx. destruct (Q3 o) as [E|[E1 E2]].
      + apply H3. congruence.
      + rewrite E2 in Hx. injection Hx as <-. symmetry. apply uses_for_absent. intros p Hp Ho. subst o. exact (H4 p Hp E1).
    - intros p Hp. destruct (Q3 (fst p)) as [E|[E1 E2]]; [rewrite E; now apply H4 | exfalso; exact (H4 p Hp E1)].
  Qed.

  (** * Functions that never touch owners, log, interfaces or worlds *)
  Definition still (s s' : cstate) : Prop :=
    cs_log s' = cs_log s /\ cs_owners s' = cs_owners s /\
    t_tag (cs_types s') = t_tag (cs_types s) /\ t_interfaces (cs_types s') = t_interfaces (cs_types s) /\
    t_worlds (cs_types s') = t_worlds (cs_types s).
  Lemma still_refl s : still s s.
  Proof. repeat split. Qed.
  Lemma still_trans a b c : still a b -> still b c -> still a c.
  Proof. intros [A1 [A2 [A3 [A4 A5]]]] [B1 [B2 [B3 [B4 B5]]]]. repeat split; congruence. Qed.
  Lemma still_quiet s s' : still s s' -> quiet s s'.
  Proof. intros [A1 [A2 [A3 [A4 A5]]]]. repeat split; try assumption. now apply uses_frame_same. Qed.

  Definition st_ok {R} (F : cstate -> cres (R * cstate)) : Prop := forall s r s', F s = COk (r, s') -> still s s'.
  Lemma mapM_st {A B} (f : A -> cstate -> cres (B * cstate)) : (forall a, st_ok (f a)) -> forall l, st_ok (mapM f l).
  Proof.
    intros Hf. induction l as [|a l IH]; intros s r s' H; cbn [mapM] in H.
    - injection H as <- <-. apply still_refl.
    - inv_bind H as [y s1] H1. inv_bind H as [ys s2] H2. injection H as <- <-.
      eapply still_trans; [exact (Hf a _ _ _ H1) | exact (IH _ _ _ H2)].
  Qed.
  Lemma optM_st {A B} (f : A -> cstate -> cres (B * cstate)) : (forall a, st_ok (f a)) -> forall o, st_ok (optM f o).
  Proof.
    intros Hf [a|] s r s' H; cbn [optM] in H.
    - inv_bind H as [y s1] H1. injection H as <- <-. exact (Hf a _ _ _ H1).
    - injection H as <- <-. apply still_refl.
  Qed.
  Lemma named_st {K A B} (f : A -> cstate -> cres (B * cstate)) : (forall a, st_ok (f a)) -> forall kv : K * A, st_ok (named f kv).
  Proof. intros Hf kv s r s' H. unfold named in H. inv_bind H as [y s1] H1. injection H as <- <-. exact (Hf _ _ _ _ H1). Qed.
  Lemma mk_def_st d : st_ok (mk_def d).
  Proof. intros s r s' H. unfold mk_def, add_def in H. injection H as <- <-. repeat split. Qed.
  Lemma put_still s v e : still s (cache_put s v e).
  Proof. repeat split. Qed.

  Lemma val_body_st R v : (forall d, st_ok (R d)) -> st_ok (val_body R v).
  Proof.
    intros HR. destruct v as [p|d]; cbn [val_body]; [|apply HR]. intros s r s' H. injection H as <- <-. apply still_refl.
  Qed.
  Lemma defined_body_st R d : (forall d, st_ok (R d)) -> st_ok (defined_body R g d).
  Proof.
    intros HR s r s' H. unfold defined_body in H.
    destruct (nassoc d (cs_cache s)) as [[[ | |x| | | ]|]|]; try discriminate; [injection H as <- <-; apply still_refl|].
    destruct (node_of g d) as [[nd| | | | | ]|]; try discriminate.
    inv_bind H as [v s1] H1. injection H as <- <-. eapply still_trans; [|apply put_still].
    pose proof (val_body_st R) as HV.
    destruct nd as [p|fs|cs|x|k x|x n|l|l|l|x|o e|r0|r0|o|o]; try discriminate;
      try (exact (mk_def_st _ _ _ _ H1));
      try (inv_bind H1 as [a s0] H0; injection H1 as <- <-; apply still_refl).
    - inv_bind H1 as [a s0] H0. eapply still_trans; [|exact (mk_def_st _ _ _ _ H1)].
      exact (mapM_st _ (named_st _ (fun v => HV v HR)) _ _ _ _ H0).
    - inv_bind H1 as [a s0] H0. eapply still_trans; [|exact (mk_def_st _ _ _ _ H1)].
      exact (mapM_st _ (named_st _ (optM_st _ (fun v => HV v HR))) _ _ _ _ H0).
    - inv_bind H1 as [a s0] H0. eapply still_trans; [|exact (mk_def_st _ _ _ _ H1)]. exact (HV _ HR _ _ _ H0).
    - inv_bind H1 as [a s0] H0. eapply still_trans; [|exact (mk_def_st _ _ _ _ H1)]. exact (HV _ HR _ _ _ H0).
    - inv_bind H1 as [a s0] H0. eapply still_trans; [|exact (mk_def_st _ _ _ _ H1)].
      exact (mapM_st _ (fun v => HV v HR) _ _ _ _ H0).
    - inv_bind H1 as [a s0] H0. eapply still_trans; [|exact (mk_def_st _ _ _ _ H1)]. exact (HV _ HR _ _ _ H0).
    - inv_bind H1 as [a s0] H0. inv_bind H1 as [b s00] H00.
      eapply still_trans; [exact (optM_st _ (fun v => HV v HR) _ _ _ _ H0)|].
      eapply still_trans; [exact (optM_st _ (fun v => HV v HR) _ _ _ _ H00) | exact (mk_def_st _ _ _ _ H1)].
    - inv_bind H1 as [a s0] H0. eapply still_trans; [|exact (mk_def_st _ _ _ _ H1)].
      exact (optM_st _ (fun v => HV v HR) _ _ _ _ H0).
    - inv_bind H1 as [a s0] H0. eapply still_trans; [|exact (mk_def_st _ _ _ _ H1)].
      exact (optM_st _ (fun v => HV v HR) _ _ _ _ H0).
  Qed.
  Lemma c_defined_st : forall fuel d, st_ok (c_defined fuel g d).
  Proof.
    induction fuel as [|f IH]; intros d; [intros s r s' H; discriminate|]. cbn [c_defined]. apply defined_body_st. exact IH.
  Qed.
  Lemma c_val_st fuel v : st_ok (c_val fuel g v).
  Proof. unfold c_val. apply val_body_st. apply c_defined_st. Qed.
  Lemma c_func_st fuel v : st_ok (c_func fuel g v).
  Proof.
    intros s r s' H. unfold c_func in H.
    destruct (nassoc v (cs_cache s)) as [[[ |f0| | | | ]|]|]; try discriminate; [injection H as <- <-; apply still_refl|].
    destruct (node_of g v) as [[ |a ps r0| | | | ]|]; try discriminate.
    inv_bind H as [ps' s1] H1. inv_bind H as [r' s2] H2. unfold add_func in H. injection H as <- <-.
    eapply still_trans; [exact (mapM_st _ (named_st _ (c_val_st fuel)) _ _ _ _ H1)|].
    eapply still_trans; [exact (optM_st _ (c_val_st fuel) _ _ _ _ H2)|]. repeat split.
  Qed.
  Lemma c_module_st v : st_ok (c_module g v).
  Proof.
    intros s r s' H. unfold c_module in H.
    destruct (nassoc v (cs_cache s)) as [[[ | | | | |m0]|]|]; try discriminate; [injection H as <- <-; apply still_refl|].
    destruct (node_of g v) as [[ | | | | |[mt|]]|]; try discriminate. unfold add_mod in H. injection H as <- <-. repeat split.
  Qed.
  Lemma c_resource_st name v : st_ok (c_resource hf g name v).
  Proof.
    intros s r s' H. unfold c_resource in H.
    destruct (nassoc v (cs_cache s)) as [[|r0]|]; try discriminate; [injection H as <- <-; apply still_refl|].
    destruct (node_of g v) as [[ | | | |rid| ]|]; try discriminate.
    destruct (nassoc rid (cs_resmap s)) as [src|].
    - destruct (find_owner hf g (cs_owners s) v) as [o|]; [|discriminate]. unfold add_res in H. injection H as <- <-. repeat split.
    - unfold add_res in H. injection H as <- <-. repeat split.
  Qed.

  (** * The one step that writes [uses], [owners] and the log *)
  Lemma use_or_own_log vn ow name rf cr s s' :
    log_ok s -> use_or_own hf g vn ow name rf cr s = COk s' -> log_ok s'.
  Proof.
    intros [st [H1 [H2 [H3 H4]]]] H. unfold use_or_own in H.
    assert (SN : replay hf g (map usite_of (cs_log s ++ [mksite vn ow name rf cr])) ust0 = site_step hf g st (ow, name, rf, cr)).
    { rewrite map_app. cbn [map usite_of st_owner st_name st_rf st_cr]. now apply replay_snoc. }
    unfold site_step in SN. rewrite H2 in SN.
    destruct (find_owner hf g (cs_owners s) rf) as [[[other orig]|]|] eqn:Ef; [| |discriminate].
    - inv_bind H as s1 Hs1. injection H as <-.
      (* [s1]: the uses of [ow] extended, or nothing *)
      assert (X : cs_owners s1 = cs_owners s /\ cs_log s1 = cs_log s /\
                  (forall o x, slot_uses (cs_types s1) o = Some x -> x = uses_for o (u_entries st ++ use_entry ow name other orig)) /\
                  (forall p, In p (u_entries st ++ use_entry ow name other orig) -> slot_uses (cs_types s1) (fst p) <> None)).
      { unfold use_entry. destruct other as [i|w].
        2:{ injection Hs1 as <-. rewrite app_nil_r. auto. }
        destruct (owner_eqb ow (OwIface i)) eqn:Eo.
        { injection Hs1 as <-. rewrite app_nil_r. auto. }
        set (u := (i, if str_eqb name orig then None else Some orig)) in *.
        assert (UF : forall o, uses_for o (u_entries st ++ [(ow, (name, u))]) =
                               if owner_eqb o ow then imap_insert name u (uses_for o (u_entries st)) else uses_for o (u_entries st)).
        { intro o. rewrite uses_for_app. cbn [fold_left fst snd]. reflexivity. }
        destruct ow as [me|me].
        - destruct (upd_if _ _ _) as [t|] eqn:Eu; [|discriminate]. injection Hs1 as <-. cbn [cs_owners cs_log cs_types with_types].
          destruct (get_if (cs_types s) me) as [x|] eqn:Ex; [|unfold upd_if in Eu; rewrite Ex in Eu; discriminate].
          pose proof (slot_uses_upd_if _ _ _ _ _ Eu Ex) as SU. cbn [i_uses] in SU.
          split; [reflexivity|]. split; [reflexivity|]. split.
          + intros o y Hy. rewrite SU in Hy. rewrite UF. destruct (owner_eqb o (OwIface me)) eqn:Eq.
            * injection Hy as <-. apply owner_eqb_eq in Eq. subst o. f_equal. apply H3. cbn [slot_uses]. now rewrite Ex.
            * now apply H3.
          + intros p Hp. rewrite SU. destruct (owner_eqb (fst p) (OwIface me)) eqn:Eq; [discriminate|].
            apply in_app_or in Hp as [Hp|[<-|[]]]; [now apply H4|]. cbn [fst] in Eq. rewrite owner_eqb_refl in Eq. discriminate.
        - destruct (upd_world _ _ _) as [t|] eqn:Eu; [|discriminate]. injection Hs1 as <-. cbn [cs_owners cs_log cs_types with_types].
          destruct (get_world (cs_types s) me) as [x|] eqn:Ex; [|unfold upd_world in Eu; rewrite Ex in Eu; discriminate].
          pose proof (slot_uses_upd_world _ _ _ _ _ Eu Ex) as SU. cbn [w_uses] in SU.
          split; [reflexivity|]. split; [reflexivity|]. split.
          + intros o y Hy. rewrite SU in Hy. rewrite UF. destruct (owner_eqb o (OwWorld me)) eqn:Eq.
            * injection Hy as <-. apply owner_eqb_eq in Eq. subst o. f_equal. apply H3. cbn [slot_uses]. now rewrite Ex.
            * now apply H3.
          + intros p Hp. rewrite SU. destruct (owner_eqb (fst p) (OwWorld me)) eqn:Eq; [discriminate|].
            apply in_app_or in Hp as [Hp|[<-|[]]]; [now apply H4|]. cbn [fst] in Eq. rewrite owner_eqb_refl in Eq. discriminate. }
      destruct X as [X1 [X2 [X3 X4]]].
      assert (RT : cs_types (remember_owner cr (other, orig) s1) = cs_types s1 /\
                   cs_log (remember_owner cr (other, orig) s1) = cs_log s1 /\
                   cs_owners (remember_owner cr (other, orig) s1) =
                   match nassoc cr (cs_owners s1) with Some _ => cs_owners s1 | None => (cr, (other, orig)) :: cs_owners s1 end)
        by (unfold remember_owner; destruct (nassoc cr (cs_owners s1)); auto).
      destruct RT as [R1 [R2 R3]].
      eexists. cbn [log_site cs_log cs_owners cs_types]. rewrite R1, R2, R3, X1, X2. split; [exact SN|].
      cbn [u_origins u_entries]. auto.
    - destruct (nassoc cr (cs_owners s)); [discriminate|]. injection H as <-.
      eexists. cbn [log_site cs_log cs_owners cs_types]. split; [exact SN|]. cbn [u_origins u_entries]. auto.
  Qed.

  Lemma reset_self_owner_still me k s s' : reset_self_owner me k s = COk s' -> still s s'.
  Proof.
    unfold reset_self_owner.
    destruct k as [[res| | | | | ]| | | | | ]; try (intro H; injection H as <-; apply still_refl).
    destruct (get_res (cs_types s) res) as [r|]; [|discriminate].
    destruct (res_alias r) as [[[o|] src]|]; try (intro H; injection H as <-; apply still_refl).
    destruct (id_eqb o me); [|intro H; injection H as <-; apply still_refl].
    unfold upd_res. destruct (get_res _ _); [|discriminate]. intro H. injection H as <-. repeat split.
  Qed.
  Lemma put_if_export_quiet me n k s s' : put_if_export me n k s = COk s' -> quiet s s'.
  Proof.
    unfold put_if_export. destruct (get_if _ _) as [x|]; [|discriminate]. destruct (assoc _ _); [discriminate|].
    destruct (upd_if _ _ _) as [t|] eqn:E; [|discriminate]. intro H. injection H as <-. repeat split.
    eapply uses_frame_upd_if; [exact E | reflexivity].
  Qed.
  Lemma put_world_import_quiet me n k s s' : put_world_import me n k s = COk s' -> quiet s s'.
  Proof.
    unfold put_world_import. destruct (get_world _ _) as [x|]; [|discriminate]. destruct (assoc _ _); [discriminate|].
    destruct (upd_world _ _ _) as [t|] eqn:E; [|discriminate]. intro H. injection H as <-. repeat split.
    eapply uses_frame_upd_world; [exact E | reflexivity].
  Qed.
  Lemma put_world_export_quiet me n k s s' : put_world_export me n k s = COk s' -> quiet s s'.
  Proof.
    unfold put_world_export. destruct (get_world _ _) as [x|]; [|discriminate]. destruct (assoc _ _); [discriminate|].
    destruct (upd_world _ _ _) as [t|] eqn:E; [|discriminate]. intro H. injection H as <-. repeat split.
    eapply uses_frame_upd_world; [exact E | reflexivity].
  Qed.

  (** * Instance types, component types, entities *)
  Definition lg_ok {R} (F : cstate -> cres (R * cstate)) : Prop := forall s r s', log_ok s -> F s = COk (r, s') -> log_ok s'.
  Lemma st_lg {R} (F : cstate -> cres (R * cstate)) : st_ok F -> lg_ok F.
  Proof. intros H s r s' L E. eapply log_ok_quiet; [apply still_quiet; exact (H _ _ _ E) | exact L]. Qed.

  Section Bodies.
    Variable E : str -> vent -> cstate -> cres (kind * cstate).
    Hypothesis HE : forall n e, lg_ok (E n e).

    Lemma inst_loop_lg vn me : forall l s s', log_ok s -> inst_loop hf g E vn me l s = COk s' -> log_ok s'.
    Proof.
      induction l as [|[n e] l IH]; intros s s' L H; cbn [inst_loop] in H; [injection H as <-; exact L|].
      inv_bind H as [k s1] H1. inv_bind H as s2 H2. inv_bind H as s3 H3.
      pose proof (HE n e s k s1 L H1) as L1.
      assert (L2 : log_ok s2).
      { destruct e as [ | | |rf cr| | ]; try (injection H2 as <-; exact L1).
        inv_bind H2 as sa Ha. eapply log_ok_quiet; [apply still_quiet; exact (reset_self_owner_still _ _ _ _ H2)|].
        eapply use_or_own_log; eassumption. }
      eapply IH; [|exact H]. eapply log_ok_quiet; [exact (put_if_export_quiet _ _ _ _ _ H3) | exact L2].
    Qed.
    Lemma instance_body_lg name v : lg_ok (instance_body hf g E name v).
    Proof.
      intros s r s' L H. unfold instance_body in H.
      destruct (nassoc v (cs_cache s)) as [[[ | | |i0| | ]|]|]; try discriminate; [injection H as <- <-; exact L|].
      destruct (node_of g v) as [[ | |exports| | | ]|]; try discriminate.
      unfold add_if in H. inv_bind H as s1 H1. injection H as <- <-.
      eapply log_ok_quiet; [apply still_quiet; apply put_still|].
      eapply inst_loop_lg; [|exact H1]. eapply log_ok_quiet; [|exact L]. repeat split.
      apply (uses_frame_add_if (cs_types s) (mkif (iface_id_of name) [] [])). reflexivity.
    Qed.
    Lemma comp_imports_lg vn me : forall l s s', log_ok s -> comp_imports hf g E vn me l s = COk s' -> log_ok s'.
    Proof.
      induction l as [|[n e] l IH]; intros s s' L H; cbn [comp_imports] in H; [injection H as <-; exact L|].
      inv_bind H as [k s1] H1. inv_bind H as s2 H2. inv_bind H as s3 H3.
      pose proof (HE n e s k s1 L H1) as L1.
      assert (L2 : log_ok s2).
      { destruct e as [ | | |rf cr| | ]; try (injection H2 as <-; exact L1). eapply use_or_own_log; eassumption. }
      eapply IH; [|exact H]. eapply log_ok_quiet; [exact (put_world_import_quiet _ _ _ _ _ H3) | exact L2].
    Qed.
    Lemma comp_exports_lg me : forall l s s', log_ok s -> comp_exports E me l s = COk s' -> log_ok s'.
    Proof.
      induction l as [|[n e] l IH]; intros s s' L H; cbn [comp_exports] in H; [injection H as <-; exact L|].
      inv_bind H as [k s1] H1. inv_bind H as s3 H3.
      pose proof (HE n e s k s1 L H1) as L1.
      eapply IH; [|exact H]. eapply log_ok_quiet; [exact (put_world_export_quiet _ _ _ _ _ H3) | exact L1].
    Qed.
    Lemma component_body_lg name v : lg_ok (component_body hf g E name v).
    Proof.
      intros s r s' L H. unfold component_body in H.
      destruct (nassoc v (cs_cache s)) as [[[ | | | |w0| ]|]|]; try discriminate; [injection H as <- <-; exact L|].
      destruct (node_of g v) as [[ | | |imports exports| | ]|]; try discriminate.
      unfold add_world in H. inv_bind H as s1 H1. inv_bind H as s2 H2. injection H as <- <-.
      eapply log_ok_quiet; [apply still_quiet; apply put_still|].
      eapply comp_exports_lg; [|exact H2]. eapply comp_imports_lg; [|exact H1]. eapply log_ok_quiet; [|exact L]. repeat split.
      apply (uses_frame_add_world (cs_types s) (mkworld (iface_id_of name) [] [] [])). reflexivity.
    Qed.
    Lemma entity_body_lg n e : lg_ok (entity_body hf g E n e).
    Proof.
      intros s r s' L H. unfold entity_body in H.
      destruct e as [m|v|v|rf cr|i|c]; inv_bind H as [x s1] H1; injection H as <- <-.
      - exact (st_lg _ (c_module_st m) _ _ _ L H1).
      - exact (st_lg _ (c_func_st hf v) _ _ _ L H1).
      - exact (st_lg _ (c_val_st hf v) _ _ _ L H1).
      - unfold ty_body in H1. destruct (node_of g cr) as [[d|a ps r0|ex|im ex|rid|mm]|]; try discriminate;
          inv_bind H1 as [y s2] H2; injection H1 as <- <-.
        + exact (st_lg _ (c_defined_st hf cr) _ _ _ L H2).
        + exact (st_lg _ (c_func_st hf cr) _ _ _ L H2).
        + exact (instance_body_lg None cr _ _ _ L H2).
        + exact (component_body_lg None cr _ _ _ L H2).
        + exact (st_lg _ (c_resource_st n cr) _ _ _ L H2).
      - exact (instance_body_lg (Some n) i _ _ _ L H1).
      - exact (component_body_lg (Some n) c _ _ _ L H1).
    Qed.
  End Bodies.

  Lemma c_entity_lg : forall fuel n e, lg_ok (c_entity hf fuel g n e).
  Proof.
    induction fuel as [|f IH]; intros n e; [intros s r s' _ H; discriminate|]. cbn [c_entity]. apply entity_body_lg. exact IH.
  Qed.
  Lemma collect_lg fuel : forall l acc s m s', log_ok s -> collect (c_entity hf fuel g) l acc s = COk (m, s') -> log_ok s'.
  Proof.
    induction l as [|[n e] l IH]; intros acc s m s' L H; cbn [collect] in H; [injection H as <- <-; exact L|].
    inv_bind H as [k s1] H1. eapply IH; [|exact H]. exact (c_entity_lg fuel n e _ _ _ L H1).
  Qed.

  (** * The theorem *)
  (** no slot of the initial collection has [uses] (e.g. the empty collection) *)
  Definition uses_free (t : types) : Prop := forall o x, slot_uses t o = Some x -> x = [].

  Theorem uses_replay fuel t0 imports exports s :
    uses_free t0 -> conv_items hf fuel g t0 = COk (imports, exports, s) ->
    exists st, replay hf g (map usite_of (cs_log s)) ust0 = Some st /\
               u_origins st = cs_owners s /\
               forall o x, slot_uses (cs_types s) o = Some x -> x = uses_for o (u_entries st).
  Proof.
    intros Hf H. unfold conv_items in H. inv_bind H as [im s1] H1. inv_bind H as [ex s2] H2. injection H as _ _ <-.
    assert (L0 : log_ok (cs_init t0)).
    { exists ust0. cbn. repeat split; try reflexivity; [|intros p []]. intros o x Hx. exact (Hf o x Hx). }
    pose proof (collect_lg fuel _ _ _ _ _ L0 H1) as L1. pose proof (collect_lg fuel _ _ _ _ _ L1 H2) as [st [A [B [C D]]]].
    exists st. auto.
  Qed.
End Uses.

(** * What the rule guarantees about every entry *)

(** an origin is always the (owner, name) of an ORIGINAL item: one met when no identifier on its alias chain had an origin *)
Definition original (fuel : nat) (g : vgraph) (sites : list usite) (O : owner) (m : str) : Prop :=
  exists pre rf cr post st, sites = pre ++ (O, m, rf, cr) :: post /\
    replay fuel g pre ust0 = Some st /\ find_owner fuel g (u_origins st) rf = Some None.

Lemma find_owner_in fuel g ow : forall v x, find_owner fuel g ow v = Some (Some x) -> exists c, nassoc c ow = Some x.
Proof.
  induction fuel as [|f IH]; intros v x; [discriminate|]. cbn [find_owner].
  destruct (nassoc v ow) as [y|] eqn:E; [intro H; injection H as <-; eauto|].
  destruct (peel_of g v); [apply IH | discriminate].
Qed.

Lemma replay_facts fuel g : forall post pre st st',
  replay fuel g pre ust0 = Some st -> replay fuel g post st = Some st' ->
  (forall c O m, nassoc c (u_origins st) = Some (O, m) -> original fuel g pre O m) ->
  (forall o n i om, In (o, (n, (i, om))) (u_entries st) ->
     o <> OwIface i /\ original fuel g pre (OwIface i) (match om with Some x => x | None => n end)) ->
  (forall c O m, nassoc c (u_origins st') = Some (O, m) -> original fuel g (pre ++ post) O m) /\
  (forall o n i om, In (o, (n, (i, om))) (u_entries st') ->
     o <> OwIface i /\ original fuel g (pre ++ post) (OwIface i) (match om with Some x => x | None => n end)).
Proof.
  assert (Ext : forall a b O m, original fuel g a O m -> original fuel g (a ++ b) O m).
  { intros a b O m [p [rf [cr [q [st [E [R F]]]]]]]. exists p, rf, cr, (q ++ b), st. split; [|auto]. rewrite E, <- app_assoc. reflexivity. }
  induction post as [|[[[o n] rf] cr] post IH]; intros pre st st' Hpre H Ho He; cbn [replay] in H.
  - injection H as <-. rewrite app_nil_r. auto.
  - destruct (site_step fuel g st (o, n, rf, cr)) as [st1|] eqn:Es; [|discriminate].
    assert (Hpre1 : replay fuel g (pre ++ [(o, n, rf, cr)]) ust0 = Some st1) by (rewrite (replay_snoc _ _ _ _ _ _ Hpre); exact Es).
    change (pre ++ (o, n, rf, cr) :: post) with (pre ++ [(o, n, rf, cr)] ++ post). rewrite app_assoc.
    apply (IH _ st1 st' Hpre1 H).
    + (* origins *)
      intros c O m Hc. unfold site_step in Es.
      destruct (find_owner fuel g (u_origins st) rf) as [[[other orig]|]|] eqn:Ef; try discriminate; injection Es as <-;
        cbn [u_origins] in Hc.
      * apply find_owner_in in Ef as [c0 Hc0]. apply Ext.
        destruct (nassoc cr (u_origins st)) eqn:Ecr; [eapply Ho; exact Hc|]. cbn [nassoc] in Hc.
        destruct (Nat.eqb c cr); [injection Hc as <- <-; eapply Ho; exact Hc0 | eapply Ho; exact Hc].
      * cbn [nassoc] in Hc. destruct (Nat.eqb c cr).
        -- injection Hc as <- <-. exists pre, rf, cr, [], st. auto.
        -- apply Ext. eapply Ho. exact Hc.
    + (* entries *)
      intros o' n' i om Hin. unfold site_step in Es.
      destruct (find_owner fuel g (u_origins st) rf) as [[[other orig]|]|] eqn:Ef; try discriminate; injection Es as <-;
        cbn [u_entries] in Hin.
      * apply in_app_or in Hin as [Hin|Hin].
        -- destruct (He _ _ _ _ Hin) as [E1 E2]. split; [exact E1 | now apply Ext].
        -- unfold use_entry in Hin. destruct other as [j|w]; [|destruct Hin].
           destruct (owner_eqb o (OwIface j)) eqn:Eo; [destruct Hin|]. destruct Hin as [Hin|[]]. injection Hin as <- <- <- <-.
           split; [now apply owner_eqb_neq|]. apply Ext. apply find_owner_in in Ef as [c0 Hc0].
           destruct (str_eqb n orig) eqn:En; [apply str_eqb_eq in En; subst orig|]; eapply Ho; exact Hc0.
      * destruct (He _ _ _ _ Hin) as [E1 E2]. split; [exact E1 | now apply Ext].
Qed.

Theorem replay_entries_sound fuel g sites st :
  replay fuel g sites ust0 = Some st ->
  forall o n i om, In (o, (n, (i, om))) (u_entries st) ->
    o <> OwIface i /\ original fuel g sites (OwIface i) (match om with Some x => x | None => n end).
Proof.
  intros H. destruct (replay_facts fuel g sites [] ust0 st eq_refl H) as [_ X]; [intros ? ? ? X; discriminate | intros ? ? ? ? [] | exact X].
Qed.

(** * The dup-owner panic (finding F1) *)

(** every origin is the created identifier of a type item of the list *)
Lemma replay_origin_keys fuel g : forall sites st0 st,
  replay fuel g sites st0 = Some st ->
  forall c, nassoc c (u_origins st) <> None ->
    nassoc c (u_origins st0) <> None \/ exists o n rf, In (o, n, rf, c) sites.
Proof.
  induction sites as [|[[[o n] rf] cr] sites IH]; intros st0 st H c Hc; cbn [replay] in H; [injection H as <-; now left|].
  destruct (site_step fuel g st0 (o, n, rf, cr)) as [st1|] eqn:Es; [|discriminate].
  destruct (IH _ _ H c Hc) as [H1|[o' [n' [rf' Hin]]]]; [|right; exists o', n', rf'; now right].
  destruct (Nat.eqb c cr) eqn:E.
  - apply Nat.eqb_eq in E. subst c. right. exists o, n, rf. now left.
  - left. unfold site_step in Es. destruct (find_owner fuel g (u_origins st0) rf) as [[[other orig]|]|]; try discriminate;
      injection Es as <-; cbn [u_origins] in H1.
    + destruct (nassoc cr (u_origins st0)); [exact H1|]. cbn [nassoc] in H1. now rewrite E in H1.
    + cbn [nassoc] in H1. now rewrite E in H1.
Qed.

(** [use_or_own] panics exactly when the referenced type has no origin although the created identifier has one ... *)
Lemma dup_owner_exact hf g vn ow name rf cr s :
  use_or_own hf g vn ow name rf cr s = CPanic PDupOwner <->
  find_owner hf g (cs_owners s) rf = Some None /\ nassoc cr (cs_owners s) <> None.
Proof.
  unfold use_or_own. destruct (find_owner hf g (cs_owners s) rf) as [[[other orig]|]|].
  - split; [|intros [X _]; discriminate]. intro H. exfalso.
    destruct other as [i|w]; [|discriminate]. destruct (owner_eqb ow (OwIface i)); [discriminate|].
    destruct ow as [me|me]; [destruct (upd_if _ _ _)|destruct (upd_world _ _ _)]; discriminate.
  - destruct (nassoc cr (cs_owners s)); split; try discriminate; auto.
    + intros _. split; [reflexivity | discriminate].
    + intros [_ X]. now exfalso.
  - split; [discriminate | intros [X _]; discriminate].
Qed.

(** ... and then an EARLIER type item has the same created identifier: the situation of finding F1 *)
Theorem dup_owner_situation hf g vn ow name rf cr s :
  log_ok g hf s -> use_or_own hf g vn ow name rf cr s = CPanic PDupOwner ->
  find_owner hf g (cs_owners s) rf = Some None /\ exists x, In x (cs_log s) /\ st_cr x = cr.
Proof.
  intros [st [H1 [H2 _]]] H. apply dup_owner_exact in H as [Hf Hc]. split; [exact Hf|].
  rewrite <- H2 in Hc. destruct (replay_origin_keys _ _ _ _ _ H1 cr Hc) as [X|[o [n [rf' Hin]]]]; [now exfalso|].
  apply in_map_iff in Hin as [x [Ex Hin]]. exists x. split; [exact Hin|]. unfold usite_of in Ex. now injection Ex.
Qed.

