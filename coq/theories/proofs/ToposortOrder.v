(** C16: what fixes the emission order of [CompositionGraphEncoder::toposort] ([EncodeModel.topo_phase1]).

    The Rust comment says the result is "in index order for independent nodes".  Read literally (no path between a
    and b, a < b  ==>  a is emitted first) this is FALSE, of the model and of the real code
    ([independent_nodes_index_order_refuted]; replayed by the check).  What holds, and what makes the order a function of
    the composition alone:
      - a node that is not reachable from any node of larger index is emitted before every node of larger index
        ([emission_order_index]); in particular nodes without incoming edges come in index order among
        themselves and before all larger nodes ([sources_in_index_order]);
      - if every edge goes from a smaller to a larger index (nothing was defined after its dependants, no slot was
        reused against the grain) the emission order IS the index order ([forward_graph_emitted_in_index_order]). *)
From Coq Require Import List Arith Bool NArith Lia Sorted Permutation.
From WacV Require Import Graph Wiring WiringSpec EncodeModel WiringOrder EncodeOrder EncodeOrderProofs.
Import ListNotations.
Local Open Scope nat_scope.

Lemma memn_In x l : memn x l = true <-> In x l.
Proof. apply existsb_eqb_In. Qed.
Lemma memn_notIn x l : memn x l = false <-> ~ In x l.
Proof.
  split; intros H.
  - intros K. apply memn_In in K. congruence.
  - destruct (memn x l) eqn:E; [|reflexivity]. exfalso. apply H. apply memn_In. exact E.
Qed.

(** * the inner loop *)
Lemma push_in (p : nat -> bool) : forall succs stack x,
    In x (fold_left (fun st s => if p s then st else s :: st) succs stack) ->
    In x stack \/ (In x succs /\ p x = false).
Proof.
  induction succs as [|s r IH]; cbn; intros stack x H; [left; exact H|].
  destruct (p s) eqn:E.
  - destruct (IH _ _ H) as [A|[A B]]; [left; exact A|right; split; [right; exact A|exact B]].
  - destruct (IH _ _ H) as [[<-|A]|[A B]].
    + right. split; [left; reflexivity|exact E].
    + left. exact A.
    + right. split; [right; exact A|exact B].
Qed.

Definition loop_props (g : gstate) (st : list nat) (d d' : dfs) : Prop :=
  (exists new, df_out d' = new ++ df_out d) /\
  incl (df_disc d) (df_disc d') /\
  (forall x, In x (df_out d') -> In x (df_out d) \/ In x st \/ ~ In x (df_disc d)) /\
  (forall x, In x (df_disc d') -> In x (df_disc d) \/ exists s, In s st /\ reach g s x) /\
  (incl (df_out d) (df_disc d) -> incl (df_out d') (df_disc d')).

Lemma loop_props_refl g st d : loop_props g st d d.
Proof.
  split; [exists []; reflexivity|]. split; [apply incl_refl|]. split; [intros x H; left; exact H|].
  split; [intros x H; left; exact H|intros H; exact H].
Qed.

Lemma dfs_loop_props g : forall f st d d', dfs_loop g f st d = Some d' -> loop_props g st d d'.
Proof.
  induction f as [|f IH]; intros st d d' H; cbn in H.
  - inversion H; subst. apply loop_props_refl.
  - destruct st as [|nx rest]; [inversion H; subst; apply loop_props_refl|].
    destruct (memn nx (df_disc d)) eqn:Ed.
    + apply memn_In in Ed. destruct (memn nx (df_fin d)) eqn:Ef.
      * destruct (IH _ _ _ H) as (P1 & P2 & P3 & P4 & P5).
        split; [exact P1|]. split; [exact P2|]. split; [|split; [|exact P5]].
        -- intros x Hx. destruct (P3 x Hx) as [A|[A|A]]; auto. right. left. right. exact A.
        -- intros x Hx. destruct (P4 x Hx) as [A|[s [A B]]]; auto. right. exists s. split; [right; exact A|exact B].
      * destruct (IH _ _ _ H) as (P1 & P2 & P3 & P4 & P5). cbn in *.
        split; [destruct P1 as [new E]; exists (new ++ [nx]); rewrite E, <- app_assoc; reflexivity|].
        split; [exact P2|]. split; [|split].
        -- intros x Hx. destruct (P3 x Hx) as [[<-|A]|[A|A]]; auto.
           ++ right. left. left. reflexivity.
           ++ right. left. right. exact A.
        -- intros x Hx. destruct (P4 x Hx) as [A|[s [A B]]]; auto. right. exists s. split; [right; exact A|exact B].
        -- intros Hi. apply P5. intros x [<-|Hx]; [exact Ed|apply Hi; exact Hx].
    + apply memn_notIn in Ed.
      destruct (memn nx (map etgt (outgoing g nx))) eqn:Es; [discriminate|].
      destruct (IH _ _ _ H) as (P1 & P2 & P3 & P4 & P5). cbn in *.
      split; [exact P1|]. split; [intros x Hx; apply P2; right; exact Hx|]. split; [|split].
      * intros x Hx. destruct (P3 x Hx) as [A|[A|A]]; auto.
        -- destruct (push_in _ _ _ _ A) as [B|[B C]]; [right; left; exact B|].
           right. right. intros D. apply orb_false_iff in C. destruct C as [_ C].
           apply (proj1 (memn_notIn x (df_disc d)) C). exact D.
        -- right. right. intros D. apply A. right. exact D.
      * intros x Hx. destruct (P4 x Hx) as [[<-|A]|[s [A B]]]; auto.
        -- right. exists nx. split; [left; reflexivity|apply reach_refl].
        -- destruct (push_in _ _ _ _ A) as [C|[C _]].
           ++ right. exists s. split; assumption.
           ++ right. exists nx. split; [left; reflexivity|]. eapply reach_step; eassumption.
      * intros Hi. apply P5. intros x Hx. right. apply Hi. exact Hx.
Qed.

Lemma dfs_loop_discovers g f i rest d d' :
  ~ In i (df_disc d) -> dfs_loop g (S f) (i :: rest) d = Some d' -> In i (df_disc d').
Proof.
  intros Hn H. cbn in H. apply memn_notIn in Hn. rewrite Hn in H.
  destruct (memn i (map etgt (outgoing g i))); [discriminate|].
  destruct (dfs_loop_props _ _ _ _ _ H) as (_ & P2 & _). apply P2. left. reflexivity.
Qed.

(** * the outer loop *)
Definition tstep (g : gstate) (acc : option dfs) (i : nat) : option dfs :=
  match acc with
  | None => None
  | Some d => if memn i (df_disc d) then Some d else dfs_loop g (dfs_fuel g) [i] d
  end.

Lemma topo_phase1_fold g :
  topo_phase1 g = match fold_left (tstep g) (rev (node_ids g)) (Some {| df_disc := []; df_fin := []; df_out := [] |}) with
                  | Some d => Some (df_out d) | None => None end.
Proof. reflexivity. Qed.

Lemma fold_tstep_none g l : fold_left (tstep g) l None = None.
Proof. induction l; cbn; auto. Qed.

Lemma loop_props_trans g st1 st2 a b c :
  loop_props g st1 a b -> loop_props g st2 b c -> loop_props g (st1 ++ st2) a c.
Proof.
  intros (A1 & A2 & A3 & A4 & A5) (B1 & B2 & B3 & B4 & B5).
  split; [destruct A1 as [n1 E1], B1 as [n2 E2]; exists (n2 ++ n1); rewrite E2, E1, app_assoc; reflexivity|].
  split; [eapply incl_tran; eassumption|]. split; [|split].
  - intros x Hx. destruct (B3 x Hx) as [H|[H|H]].
    + destruct (A3 x H) as [K|[K|K]]; auto. right. left. apply in_or_app. left. exact K.
    + right. left. apply in_or_app. right. exact H.
    + right. right. intros K. apply H. apply A2. exact K.
  - intros x Hx. destruct (B4 x Hx) as [H|[s [H K]]].
    + destruct (A4 x H) as [L|[s [L M]]]; auto. right. exists s. split; [apply in_or_app; left; exact L|exact M].
    + right. exists s. split; [apply in_or_app; right; exact H|exact K].
  - intros H. apply B5. apply A5. exact H.
Qed.

Lemma dfs_fuel_pos g : exists f, dfs_fuel g = S f.
Proof. unfold dfs_fuel. exists (2 * (length (nodes g) + length (edges g)) + 1). lia. Qed.

Lemma outer_props g : forall l d d', fold_left (tstep g) l (Some d) = Some d' ->
    loop_props g l d d' /\ (forall i, In i l -> In i (df_disc d')).
Proof.
  induction l as [|i r IH]; intros d d' H.
  - cbn in H. inversion H; subst. split; [apply loop_props_refl|intros i []].
  - change (fold_left (tstep g) r (tstep g (Some d) i) = Some d') in H.
    destruct (tstep g (Some d) i) as [d1|] eqn:E1; [|rewrite fold_tstep_none in H; discriminate].
    destruct (IH _ _ H) as [P Q]. unfold tstep in E1. destruct (memn i (df_disc d)) eqn:Ed.
    + inversion E1; subst d1. split.
      * apply (loop_props_trans g [i] r d d d'); [apply loop_props_refl|exact P].
      * intros j [<-|Hj]; [|apply Q; exact Hj]. destruct P as (_ & P2 & _). apply P2. apply memn_In. exact Ed.
    + pose proof (dfs_loop_props _ _ _ _ _ E1) as P1. split.
      * apply (loop_props_trans g [i] r d d1 d'); assumption.
      * intros j [<-|Hj]; [|apply Q; exact Hj]. destruct P as (_ & P2 & _). apply P2.
        destruct (dfs_fuel_pos g) as [f Ef]. rewrite Ef in E1.
        eapply dfs_loop_discovers; [apply memn_notIn; exact Ed|exact E1].
Qed.

(** * node identifiers are listed in increasing order *)
Lemma nodes_where_sorted_aux (f : node -> bool) : forall (l : list (option node)) k,
    let r := flat_map (fun p => match snd p with Some nd => if f nd then [fst p] else [] | None => [] end)
                      (combine (seq k (length l)) l) in
    StronglySorted lt r /\ forall v, In v r -> k <= v.
Proof.
  induction l as [|x r IH]; intros k; cbn.
  - split; [constructor|intros v []].
  - destruct (IH (S k)) as [Hs Hb]. cbn in Hs, Hb.
    assert (Hb' : forall v, In v (flat_map (fun p => match snd p with Some nd => if f nd then [fst p] else [] | None => [] end)
                                           (combine (seq (S k) (length r)) r)) -> k <= v)
      by (intros v Hv; specialize (Hb v Hv); lia).
    destruct x as [nd|]; [destruct (f nd)|]; cbn; try (split; assumption).
    split.
    + constructor; [exact Hs|]. apply Forall_forall. intros v Hv. specialize (Hb v Hv). lia.
    + intros v [<-|Hv]; [lia|auto].
Qed.

Lemma nodes_where_complete_aux (f : node -> bool) : forall (l : list (option node)) k j nd,
    nth_error l j = Some (Some nd) -> f nd = true ->
    In (k + j) (flat_map (fun p => match snd p with Some nd => if f nd then [fst p] else [] | None => [] end)
                         (combine (seq k (length l)) l)).
Proof.
  induction l as [|x r IH]; intros k j nd Hn Hf; [destruct j; discriminate|].
  destruct j as [|j]; cbn in *.
  - inversion Hn; subst. rewrite Hf. rewrite Nat.add_0_r. left. reflexivity.
  - apply in_or_app. right. replace (k + S j) with (S k + j) by lia. eapply IH; eassumption.
Qed.

Lemma nodes_where_complete g f n nd : get_node g n = Some nd -> f nd = true -> In n (nodes_where g f).
Proof.
  intros Hg Hf. unfold nodes_where. unfold get_node in Hg.
  destruct (nth_error (nodes g) n) as [[x|]|] eqn:E; try discriminate. inversion Hg; subst x.
  exact (nodes_where_complete_aux f (nodes g) 0 n nd E Hf).
Qed.

Lemma node_ids_sorted g : StronglySorted lt (node_ids g).
Proof. unfold node_ids, nodes_where. apply (nodes_where_sorted_aux (fun _ => true) (nodes g) 0). Qed.

Lemma sorted_split : forall l a, StronglySorted lt l -> In a l ->
    exists lo hi, l = lo ++ a :: hi /\ (forall x, In x lo -> x < a) /\ (forall x, In x hi -> a < x).
Proof.
  induction l as [|y r IH]; intros a Hs Hin; [contradiction|].
  inversion Hs as [|? ? Hr Hall]; subst. rewrite Forall_forall in Hall.
  destruct Hin as [<-|Hin].
  - exists [], r. split; [reflexivity|]. split; [intros x []|exact Hall].
  - destruct (IH a Hr Hin) as (lo & hi & E & L & H). exists (y :: lo), hi. subst r. split; [reflexivity|].
    split; [|exact H]. intros x [<-|Hx]; [apply Hall; apply in_or_app; right; left; reflexivity|apply L; exact Hx].
Qed.

(** * positions *)
Lemma index_of_in_app n l m : In n l -> index_of n (l ++ m) = index_of n l.
Proof.
  induction l as [|x r IH]; cbn; intros H; [contradiction|].
  destruct (x =? n) eqn:E; [reflexivity|]. f_equal. apply IH. destruct H as [->|H]; [rewrite Nat.eqb_refl in E; discriminate|exact H].
Qed.

Lemma index_of_notin_app n l m : ~ In n l -> index_of n (l ++ m) = length l + index_of n m.
Proof.
  induction l as [|x r IH]; cbn; intros H; [reflexivity|].
  destruct (x =? n) eqn:E; [apply Nat.eqb_eq in E; subst; exfalso; apply H; left; reflexivity|].
  f_equal. apply IH. intros K. apply H. right. exact K.
Qed.

(** * (2) the emission order *)
Theorem emission_order_index g ord a b :
  topo_phase1 g = Some ord -> NoDup ord -> In a ord -> In b ord ->
  In a (node_ids g) -> In b (node_ids g) -> a < b ->
  (forall c, In c (node_ids g) -> a < c -> ~ reach g c a) ->
  before ord a b.
Proof.
  intros Ht Hnd Ha Hb Ia Ib Hlt Hnr. rewrite topo_phase1_fold in Ht.
  destruct (sorted_split _ a (node_ids_sorted g) Ia) as (lo & hi & E & Llo & Lhi).
  assert (Hbhi : In b hi).
  { rewrite E in Ib. apply in_app_or in Ib. destruct Ib as [K|[K|K]]; [specialize (Llo b K); lia|lia|exact K]. }
  rewrite E, rev_app_distr in Ht. cbn [rev] in Ht. rewrite <- app_assoc, fold_left_app in Ht. cbn [app fold_left] in Ht.
  set (d0 := {| df_disc := []; df_fin := []; df_out := [] |}) in *.
  destruct (fold_left (tstep g) (rev hi) (Some d0)) as [da|] eqn:E1;
    [|cbn in Ht; rewrite fold_tstep_none in Ht; discriminate].
  change (fold_left (tstep g) (rev lo) (tstep g (Some da) a)) with (fold_left (tstep g) (a :: rev lo) (Some da)) in Ht.
  destruct (fold_left (tstep g) (a :: rev lo) (Some da)) as [df|] eqn:E2; [|discriminate].
  inversion Ht; subst ord. clear Ht.
  destruct (outer_props g _ _ _ E1) as [(A1 & A2 & A3 & A4 & A5) A6].
  assert (E2' : fold_left (tstep g) (a :: rev lo) (Some da) = Some df) by exact E2.
  destruct (outer_props g _ _ _ E2') as [(B1 & B2 & B3 & B4 & B5) B6].
  (* a is not discovered before its own turn *)
  assert (Nda : ~ In a (df_disc da)).
  { intros K. destruct (A4 a K) as [[]|[s [Hs Hr]]]. apply in_rev in Hs.
    apply (Hnr s); [rewrite E; apply in_or_app; right; right; exact Hs|apply Lhi; exact Hs|exact Hr]. }
  (* b is discovered, hence (being finished at the end) already finished *)
  assert (Db : In b (df_disc da)) by (apply A6; apply in_rev in Hbhi; exact Hbhi).
  assert (Ob : In b (df_out da)).
  { destruct (B3 b Hb) as [K|[K|K]]; [exact K| |contradiction].
    destruct K as [<-|K]; [lia|]. apply in_rev in K. specialize (Llo b K). lia. }
  assert (Noa : ~ In a (df_out da)).
  { intros K. apply Nda. apply A5; [intros x []|exact K]. }
  destruct B1 as [new En]. rewrite En in *. unfold before.
  assert (Ina : In a new) by (apply in_app_or in Ha; destruct Ha; [assumption|contradiction]).
  assert (Nib : ~ In b new).
  { intros K. assert (NoDup (new ++ df_out da)) as Hn by exact Hnd.
    apply in_split in K. destruct K as (l1 & l2 & ->). rewrite <- app_assoc in Hn. cbn in Hn.
    apply NoDup_remove_2 in Hn. apply Hn. apply in_or_app. right. apply in_or_app. right. exact Ob. }
  rewrite (index_of_in_app a new _ Ina), (index_of_notin_app b new _ Nib).
  pose proof (index_of_lt a new Ina). lia.
Qed.

Lemma reach_into g c a : reach g c a -> c = a \/ exists ed, In ed (edges g) /\ etgt ed = a.
Proof.
  induction 1 as [x|x y z Hxy Hyz IH]; [left; reflexivity|].
  destruct IH as [->|IH]; [|right; exact IH]. right.
  apply in_map_iff in Hxy. destruct Hxy as [ed [Et Hin]]. unfold outgoing in Hin. apply filter_In in Hin.
  exists ed. tauto.
Qed.

(** nodes nothing points to: index order among themselves, and before every larger node *)
Theorem sources_in_index_order g ord a b :
  toposort g = Some ord -> In a (node_ids g) -> In b (node_ids g) -> a < b ->
  (forall ed, In ed (edges g) -> etgt ed <> a) -> before ord a b.
Proof.
  intros Ht Ia Ib Hlt Hsrc. pose proof (toposort_NoDup _ _ Ht) as Hnd.
  unfold toposort in Ht. destruct (topo_phase1 g) as [o1|] eqn:E1; [|discriminate].
  destruct (topo_orderb g o1) eqn:Eo; [|discriminate]. inversion Ht; subst o1.
  unfold topo_orderb in Eo. repeat (apply andb_true_iff in Eo; destruct Eo as [Eo ?]).
  assert (Hcov : forall n, In n (node_ids g) -> In n ord).
  { intros n Hn. rewrite forallb_forall in H1. apply existsb_eqb_In. apply H1. exact Hn. }
  apply (emission_order_index g ord a b E1 Hnd); auto.
  intros c _ Hc Hr. destruct (reach_into _ _ _ Hr) as [->|[ed [Hin Et]]]; [lia|]. exact (Hsrc ed Hin Et).
Qed.

(** a graph whose edges all point from smaller to larger indexes is emitted in index order *)
Lemma reach_forward g : (forall ed, In ed (edges g) -> esrc ed < etgt ed) -> forall c a, reach g c a -> c <= a.
Proof.
  intros Hf c a H. induction H as [x|x y z Hxy Hyz IH]; [lia|].
  apply in_map_iff in Hxy. destruct Hxy as [ed [Et Hin]]. unfold outgoing in Hin. apply filter_In in Hin.
  destruct Hin as [Hin Es]. apply Nat.eqb_eq in Es. specialize (Hf ed Hin). lia.
Qed.

Lemma sorted_lt_unique : forall l1 l2, StronglySorted lt l1 -> StronglySorted lt l2 ->
    (forall x, In x l1 <-> In x l2) -> l1 = l2.
Proof.
  induction l1 as [|a r1 IH]; intros l2 H1 H2 Hio.
  - destruct l2 as [|b r2]; [reflexivity|]. exfalso. apply (proj2 (Hio b)). left. reflexivity.
  - destruct l2 as [|b r2]; [exfalso; apply (proj1 (Hio a)); left; reflexivity|].
    inversion H1 as [|? ? S1 A1]; inversion H2 as [|? ? S2 A2]; subst. rewrite Forall_forall in A1, A2.
    assert (a = b).
    { destruct (proj1 (Hio a) (or_introl eq_refl)) as [E|K]; [auto|].
      destruct (proj2 (Hio b) (or_introl eq_refl)) as [E|L]; [auto|].
      specialize (A1 b L). specialize (A2 a K). lia. }
    subst b. f_equal. apply IH; auto. intros x. split; intros Hx.
    + destruct (proj1 (Hio x) (or_intror Hx)) as [<-|K]; [specialize (A1 a Hx); lia|exact K].
    + destruct (proj2 (Hio x) (or_intror Hx)) as [<-|K]; [specialize (A2 a Hx); lia|exact K].
Qed.

Lemma ordered_sorted : forall ord, NoDup ord ->
    (forall a b, In a ord -> In b ord -> a < b -> before ord a b) -> StronglySorted lt ord.
Proof.
  induction ord as [|x r IH]; intros Hnd Ho; [constructor|].
  inversion Hnd as [|? ? Hx Hr]; subst. constructor.
  - apply IH; [exact Hr|]. intros a b Ha Hb Hlt. specialize (Ho a b (or_intror Ha) (or_intror Hb) Hlt).
    unfold before in *. cbn in Ho.
    destruct (x =? a) eqn:E1; [apply Nat.eqb_eq in E1; subst; contradiction|].
    destruct (x =? b) eqn:E2; [apply Nat.eqb_eq in E2; subst; contradiction|]. lia.
  - apply Forall_forall. intros y Hy. destruct (Nat.lt_trichotomy x y) as [L|[->|L]]; [exact L|contradiction|].
    specialize (Ho y x (or_intror Hy) (or_introl eq_refl) L). unfold before in Ho. cbn in Ho. rewrite Nat.eqb_refl in Ho.
    destruct (x =? y); lia.
Qed.

Theorem forward_graph_emitted_in_index_order g ord :
  toposort g = Some ord -> (forall ed, In ed (edges g) -> esrc ed < etgt ed) -> ord = node_ids g.
Proof.
  intros Ht Hf. pose proof (toposort_NoDup _ _ Ht) as Hnd.
  pose proof Ht as Ht0. unfold toposort in Ht. destruct (topo_phase1 g) as [o1|] eqn:E1; [|discriminate].
  destruct (topo_orderb g o1) eqn:Eo; [|discriminate]. inversion Ht; subst o1.
  unfold topo_orderb in Eo. repeat (apply andb_true_iff in Eo; destruct Eo as [Eo ?]).
  assert (Hcov : forall n, In n (node_ids g) -> In n ord).
  { intros n Hn. rewrite forallb_forall in H1. apply existsb_eqb_In. apply H1. exact Hn. }
  assert (Hlive : forall n, In n ord -> In n (node_ids g)).
  { intros n Hn. rewrite forallb_forall in H0. specialize (H0 n Hn). unfold live in H0.
    destruct (get_node g n) as [nd|] eqn:Hg; [|discriminate].
    exact (nodes_where_complete g (fun _ => true) n nd Hg eq_refl). }
  apply sorted_lt_unique; [|apply node_ids_sorted|intros x; split; auto].
  apply ordered_sorted; [exact Hnd|]. intros a b Ha Hb Hlt.
  apply (emission_order_index g ord a b E1 Hnd Ha Hb (Hlive a Ha) (Hlive b Hb) Hlt).
  intros c _ Hc Hr. pose proof (reach_forward g Hf c a Hr). lia.
Qed.

(** * the literal reading of "index order for independent nodes" is false *)
Definition u_w : universe :=
  {| u_inst_exports := fun _ => None; u_pkgs := [];
     u_tys := [ {| td_res := false; td_kind := 0%N; td_deps := [] |};
                {| td_res := false; td_kind := 1%N; td_deps := [0] |};
                {| td_res := false; td_kind := 2%N; td_deps := [] |} ];
     u_lkinds := []; u_sub := fun _ _ => true; u_import_name_ok := fun _ => true; u_export_name_ok := fun _ => true |}.

(** a dependant (node 0), an unrelated type (node 1), then the base type (node 2): the only edge is 2 -> 0 *)
Definition g_w : gstate := run u_w [DefineType 1%N 1; DefineType 2%N 2; DefineType 0%N 0].

Theorem independent_nodes_index_order_refuted :
  exists g ord a b, toposort g = Some ord /\ In a (node_ids g) /\ In b (node_ids g) /\ a < b /\
                    ~ reach g a b /\ ~ reach g b a /\ before ord b a.
Proof.
  exists g_w, [1; 2; 0], 0, 1.
  split; [vm_compute; reflexivity|]. split; [vm_compute; auto|]. split; [vm_compute; auto|]. split; [lia|].
  split; [|split].
  - intros H. inversion H as [|x y z Hxy Hyz]; subst. vm_compute in Hxy. exact Hxy.
  - intros H. inversion H as [|x y z Hxy Hyz]; subst. vm_compute in Hxy. exact Hxy.
  - vm_compute. lia.
Qed.

(** the general form, for the checked order that [toposort] returns *)
Theorem toposort_unreached_before_larger g ord a b :
  toposort g = Some ord -> In a (node_ids g) -> In b (node_ids g) -> a < b ->
  (forall c, In c (node_ids g) -> a < c -> ~ reach g c a) -> before ord a b.
Proof.
  intros Ht Ia Ib Hlt Hnr. pose proof (toposort_NoDup _ _ Ht) as Hnd.
  unfold toposort in Ht. destruct (topo_phase1 g) as [o1|] eqn:E1; [|discriminate].
  destruct (topo_orderb g o1) eqn:Eo; [|discriminate]. inversion Ht; subst o1.
  unfold topo_orderb in Eo. repeat (apply andb_true_iff in Eo; destruct Eo as [Eo ?]).
  assert (Hcov : forall n, In n (node_ids g) -> In n ord).
  { intros n Hn. rewrite forallb_forall in H1. apply existsb_eqb_In. apply H1. exact Hn. }
  apply (emission_order_index g ord a b E1 Hnd); auto.
Qed.
