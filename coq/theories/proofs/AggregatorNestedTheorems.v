(** The C09 statements for NESTED instance requirements, derived from [NestInv] (AggregatorNestedHistory.v) and the laws of
    [tmerge] (AggregatorNestedSpec.v). *)
From Coq Require Import ZArith ZifyBool ZifyN Lia Permutation.
From WacV Require Import Str Names NamesSpec Types Checker SubSpec CheckerEq SubSpecProofs CheckerValue CheckerProofs.
From WacV Require Import Aggregator AggregatorSpec AggregatorFrame AggregatorRemap AggregatorChecker AggregatorNames
     AggregatorCanonical AggregatorFlat AggregatorHistory NamesProofs
     AggregatorNestedSpec AggregatorNestedDen AggregatorNestedRemap AggregatorNestedMerge AggregatorNestedHistory.

Section NThm.
  Variable ord : list (str * id) -> list (str * id).
  Hypothesis ord_incl : forall l x, In x (ord l) -> In x l.
  Variables (cf fuel : nat).
  Variable Col : types -> Prop.
  Hypothesis Col_same : forall t1 t2, Col t1 -> Col t2 -> t_tag t1 = t_tag t2 -> t1 = t2.
  Variable tag0 : N.
  Hypothesis Col_tag : forall t, Col t -> t_tag t <> tag0.
  Notation contrib := (str * (types * kind))%type.
  Notation NI := (NestInv Col tag0).

  Lemma NestInv_history : forall l a s pos done a' s',
    NI a s done -> Forall (nested_contrib Col) l ->
    aggregate_all ord cf fuel a s l pos = inl (a', s') -> NI a' s' (rev l ++ done).
  Proof.
    induction l as [|[name [t k]] l IH]; intros a s pos done a' s' HI HF H; cbn [aggregate_all] in H.
    - injection H as <- <-. exact HI.
    - inversion HF as [|? ? [tr [ids Hc]] HF']; subst.
      destruct (aggregate ord cf fuel a s name t k) as [[a1 s1]| | |] eqn:E; try discriminate.
      pose proof (NestInv_step ord ord_incl cf fuel Col Col_same tag0 Col_tag a s done (name, (t, k)) tr ids a1 s1 HI Hc E) as H1.
      cbn [rev]. rewrite <- app_assoc. cbn [app]. eapply IH; eauto.
  Qed.

  Lemma nested_owner_free l : Forall (nested_contrib Col) l -> Forall (fun c : contrib => owner_free (fst (snd c))) l.
  Proof. apply Forall_impl. intros c [tr [ids [_ [H _]]]]. exact H. Qed.

  (** the import a contributed name leads to, with its tree and the contributions merged into it *)
  Lemma nested_import_of a s done n :
    NI a s done -> In n (map fst done) ->
    exists y oid e d ids, assoc (Aggregator.canonical a n) (a_imports a) = Some (KInstance y) /\
      IDen d (a_types a) y oid e ids /\
      MergedOf Col (filter (on_import (a_redirects a) (Aggregator.canonical a n)) done) (XInst e).
  Proof.
    intros HI Hn. pose proof (ni_total _ _ _ (n_names _ _ _ _ _ HI) n Hn) as Hk. rewrite <- canonical_canon in Hk.
    apply in_keys_assoc in Hk as [k Hk]. destruct (n_roots _ _ _ _ _ HI) as [rown [Hroots _]].
    destruct (Hroots _ _ (assoc_in _ _ _ Hk)) as [y [oid [e [d [-> [ID MO]]]]]]. exists y, oid, e, d, (rown (Aggregator.canonical a n)). auto.
  Qed.
  Lemma in_chain a done c : In c done -> In c (filter (on_import (a_redirects a) (Aggregator.canonical a (fst c))) done).
  Proof. intros H. apply filter_In. split; auto. unfold on_import. rewrite <- canonical_canon. apply seqb_refl. Qed.

  (** * The merged requirement satisfies every contributor *)
  Theorem nested_upper_bound l a s :
    Forall (nested_contrib Col) l ->
    aggregate_all ord cf fuel (agg0 tag0) st0 l 0 = inl (a, s) ->
    forall c, In c l -> forall tr, UnfK (fst (snd c)) (snd (snd c)) tr ->
      exists merged tm, assoc (Aggregator.canonical a (fst c)) (imports a) = Some merged /\
                        UnfK (a_types a) merged tm /\ SubCM tm tr.
  Proof.
    intros HF H c Hc tr Hu.
    pose proof (NestInv_history l _ _ _ [] a s (NestInv_nil Col tag0) HF H) as HI.
    rewrite app_nil_r in HI. apply in_rev in Hc.
    destruct (nested_import_of a s (rev l) (fst c) HI (in_map fst _ _ Hc)) as [y [oid [e [d [ids [Ha [ID MO]]]]]]].
    exists (KInstance y), (XInst e). split; [exact Ha|]. split; [eapply IDen_unf; eauto|].
    assert (Hnc : nested_contrib Col c) by (rewrite Forall_forall in HF; apply HF; now apply in_rev).
    destruct Hnc as [tr0 [ids0 Hc0]]. assert (tr0 = tr) as -> by (eapply UnfK_det; [eapply ncontrib_unf; eauto|exact Hu]).
    destruct (ncontrib_wt _ _ _ _ Hc0) as [d0 W0].
    exact (MergedOf_upper _ _ _ MO c tr ids0 (in_chain a (rev l) c Hc) Hc0 tr (wt_sub_refl _ _ W0)).
  Qed.

  (** * One aggregation computes the recursive union *)
  Theorem nested_merge_is_union a s done c a' s' y :
    NI a s done -> nested_contrib Col c ->
    (assoc (fst c) (a_imports a) = Some (KInstance y) \/
     (assoc (fst c) (a_imports a) = None /\ exists en, find_compat (fst c) (a_imports a) = Some (en, KInstance y))) ->
    aggregate ord cf fuel a s (fst c) (fst (snd c)) (snd (snd c)) = AOk (a', s') ->
    forall ta tb, UnfK (a_types a) (KInstance y) ta -> UnfK (fst (snd c)) (snd (snd c)) tb ->
      exists ea eb em, ta = XInst ea /\ tb = XInst eb /\ UnfK (a_types a') (KInstance y) (XInst em) /\
        tmerge ta tb = Some (XInst em) /\
        map fst em = first_seen_union (map fst ea) (map fst eb) /\
        forall k, match assoc k ea, assoc k eb with
                  | Some x, Some z => exists m, tmerge x z = Some m /\ assoc k em = Some m
                  | Some x, None => assoc k em = Some x
                  | None, Some z => assoc k em = Some z
                  | None, None => assoc k em = None
                  end.
  Proof.
    intros HI [tr [ids Hc]] Hwhere H ta tb Uta Utb. destruct c as [name [t k]]. cbn [fst snd] in *.
    pose proof Hc as [Ct [OF [d [i [oid [eb [Ek [IDc [Etr Hoid]]]]]]]]]. cbn [fst snd] in *. subst k tr.
    assert (tb = XInst eb) as -> by (eapply UnfK_det; [exact Utb|eapply IDen_unf; eauto]).
    destruct (n_roots _ _ _ _ _ HI) as [rown [Hroots _]].
    assert (Hmerge : forall n0, In (n0, KInstance y) (a_imports a) -> forall cc,
               merge_item_kind ord cf fuel (KInstance y) t (KInstance i) (core_of a s) = AOk (tt, cc) ->
               exists ea em d0, ta = XInst ea /\ UnfK (c_types cc) (KInstance y) (XInst em) /\ tmerge ta (XInst eb) = Some (XInst em) /\
                                wt d0 (XInst ea)).
    { intros n0 Hin cc Hm. destruct (Hroots n0 _ Hin) as [y0 [oidr [e [d0 [Ey [IDr _]]]]]]. injection Ey as <-.
      assert (ta = XInst e) as -> by (eapply UnfK_det; [exact Uta|eapply IDen_unf; eauto]).
      destruct (nmerge_into ord cf fuel Col Col_same tag0 Col_tag a s done t i d oid eb ids y oidr e d0 (rown n0) cc HI Ct IDc IDr Hm)
        as [em [idsr' [d1 [Htm [ID' _]]]]].
      exists e, em, (S d0). split; auto. split; [eapply IDen_unf; eauto|]. split; auto. eapply IDen_wt; eauto. }
    assert (Hfin : forall cc, (exists ea em d0, ta = XInst ea /\ UnfK (c_types cc) (KInstance y) (XInst em) /\
                                               tmerge ta (XInst eb) = Some (XInst em) /\ wt d0 (XInst ea)) ->
              exists ea eb0 em, ta = XInst ea /\ XInst eb = XInst eb0 /\ UnfK (c_types cc) (KInstance y) (XInst em) /\
                tmerge ta (XInst eb) = Some (XInst em) /\ map fst em = first_seen_union (map fst ea) (map fst eb0) /\
                forall k0, match assoc k0 ea, assoc k0 eb0 with
                           | Some x, Some z => exists m, tmerge x z = Some m /\ assoc k0 em = Some m
                           | Some x, None => assoc k0 em = Some x
                           | None, Some z => assoc k0 em = Some z
                           | None, None => assoc k0 em = None
                           end).
    { intros cc [ea [em [d0 [-> [U' [Htm Wa0]]]]]]. exists ea, eb, em. split; auto. split; auto. split; auto. split; auto.
      destruct (wt_common _ _ _ _ Wa0 (IDen_wt _ _ _ _ _ _ IDc)) as [Wa Wb].
      destruct (tmerge_inst_names _ ea eb _ Wa Wb Htm) as [em0 [E0 [Hn Hch]]]. injection E0 as <-. auto. }
    apply aggregate_cases in H as [[existing [cc [Ea [Hm [-> ->]]]]] | [[en [ek [cc [im [rd' [Ea [Ef [Hm [Hr [-> ->]]]]]]]]]] | [k' [cc [Ea [Ef _]]]]]].
    - destruct Hwhere as [Ha|[Ha _]]; [|congruence]. rewrite Ea in Ha. injection Ha as ->. cbn [a_types agg_of].
      apply Hfin. apply (Hmerge name); auto. now apply assoc_in.
    - destruct Hwhere as [Ha|[_ [en' Hf']]]; [congruence|]. rewrite Ef in Hf'. injection Hf' as <- ->. cbn [a_types agg_of].
      apply Hfin. apply (Hmerge en); auto.
      unfold find_compat in Ef. destruct (alt_key name) as [[ak nv]|]; [|discriminate]. now apply find_on_track_some in Ef as [Hin _].
    - destruct Hwhere as [Ha|[_ [en' Hf']]]; congruence.
  Qed.

  (** * Idempotence: a requirement the import already satisfies changes nothing; in particular the same requirement again *)
  Theorem nested_idempotent a s done c a' s' y :
    NI a s done -> nested_contrib Col c ->
    (assoc (fst c) (a_imports a) = Some (KInstance y) \/
     (assoc (fst c) (a_imports a) = None /\ exists en, find_compat (fst c) (a_imports a) = Some (en, KInstance y))) ->
    aggregate ord cf fuel a s (fst c) (fst (snd c)) (snd (snd c)) = AOk (a', s') ->
    forall ta tb, UnfK (a_types a) (KInstance y) ta -> UnfK (fst (snd c)) (snd (snd c)) tb -> SubCM ta tb ->
      UnfK (a_types a') (KInstance y) ta.
  Proof.
    intros HI Hnc Hwhere H ta tb Uta Utb HS.
    destruct (nested_merge_is_union a s done c a' s' y HI Hnc Hwhere H ta tb Uta Utb) as [ea [eb [em [-> [-> [U' [Htm _]]]]]]].
    destruct Hnc as [tr [ids Hc]]. destruct (ncontrib_wt _ _ _ _ Hc) as [d1 W1].
    assert (tr = XInst eb) as -> by (eapply UnfK_det; [eapply ncontrib_unf; eauto|exact Utb]).
    destruct (n_roots _ _ _ _ _ HI) as [rown [Hroots _]].
    assert (Hw : exists d0, wt d0 (XInst ea)).
    { assert (Hin : exists n0, In (n0, KInstance y) (a_imports a)).
      { destruct Hwhere as [Ha|[_ [en Hf]]]; [exists (fst c); now apply assoc_in|]. exists en.
        unfold find_compat in Hf. destruct (alt_key (fst c)) as [[ak nv]|]; [|discriminate]. now apply find_on_track_some in Hf as [Hin _]. }
      destruct Hin as [n0 Hin]. destruct (Hroots n0 _ Hin) as [y0 [oidr [e [d0 [Ey [IDr _]]]]]]. injection Ey as <-.
      assert (XInst ea = XInst e) as -> by (eapply UnfK_det; [exact Uta|eapply IDen_unf; eauto]).
      exists (S d0). eapply IDen_wt; eauto. }
    destruct Hw as [d0 W0]. destruct (wt_common _ _ _ _ W0 W1) as [Wa Wb].
    rewrite (tmerge_absorb _ _ _ Wa Wb HS) in Htm. injection Htm as <-. exact U'.
  Qed.

  (** * A conflict makes the aggregation fail *)
  Theorem nested_conflict_fails a s done c y :
    NI a s done -> nested_contrib Col c ->
    (assoc (fst c) (a_imports a) = Some (KInstance y) \/
     (assoc (fst c) (a_imports a) = None /\ exists en, find_compat (fst c) (a_imports a) = Some (en, KInstance y))) ->
    forall ta tb, UnfK (a_types a) (KInstance y) ta -> UnfK (fst (snd c)) (snd (snd c)) tb -> tmerge ta tb = None ->
      forall r, aggregate ord cf fuel a s (fst c) (fst (snd c)) (snd (snd c)) <> AOk r.
  Proof.
    intros HI Hnc Hwhere ta tb Uta Utb Hnone [a' s'] H.
    destruct (nested_merge_is_union a s done c a' s' y HI Hnc Hwhere H ta tb Uta Utb) as [ea [eb [em [_ [_ [_ [Htm _]]]]]]].
    congruence.
  Qed.

  (** ... and in a successful history any two contributions of one track are mergeable (they have a common refinement:
      the import both lead to) *)
  Theorem nested_success_no_conflict l a s :
    Forall (nested_contrib Col) l ->
    aggregate_all ord cf fuel (agg0 tag0) st0 l 0 = inl (a, s) ->
    forall c1 c2, In c1 l -> In c2 l -> compat_spec_b (fst c1) (fst c2) = true ->
    forall tr1 tr2, UnfK (fst (snd c1)) (snd (snd c1)) tr1 -> UnfK (fst (snd c2)) (snd (snd c2)) tr2 ->
      exists tm, tmerge tr1 tr2 = Some tm.
  Proof.
    intros HF H c1 c2 H1 H2 C tr1 tr2 U1 U2.
    pose proof (NestInv_history l _ _ _ [] a s (NestInv_nil Col tag0) HF H) as HI.
    rewrite app_nil_r in HI.
    assert (Hn1 : nested_contrib Col c1) by (rewrite Forall_forall in HF; auto).
    assert (Hn2 : nested_contrib Col c2) by (rewrite Forall_forall in HF; auto).
    apply in_rev in H1, H2.
    destruct Hn1 as [t1 [ids1 Hc1]], Hn2 as [t2 [ids2 Hc2]].
    assert (t1 = tr1) as -> by (eapply UnfK_det; [eapply ncontrib_unf; eauto|exact U1]).
    assert (t2 = tr2) as -> by (eapply UnfK_det; [eapply ncontrib_unf; eauto|exact U2]).
    destruct (nested_import_of a s (rev l) (fst c1) HI (in_map fst _ _ H1)) as [y [oid [e [d [ids [Ha [ID MO]]]]]]].
    assert (Ec : Aggregator.canonical a (fst c1) = Aggregator.canonical a (fst c2)).
    { rewrite !canonical_canon. apply (inv_one _ _ _ (n_names _ _ _ _ _ HI)); [now apply in_map | now apply in_map|].
      now rewrite compat_is_spec_b. }
    destruct (ncontrib_wt _ _ _ _ Hc1) as [d1 W1]. destruct (ncontrib_wt _ _ _ _ Hc2) as [d2 W2].
    pose proof (MergedOf_upper _ _ _ MO c1 tr1 ids1 (in_chain a (rev l) c1 H1) Hc1 tr1 (wt_sub_refl _ _ W1)) as S1.
    assert (Hin2 : In c2 (filter (on_import (a_redirects a) (Aggregator.canonical a (fst c1))) (rev l))) by (rewrite Ec; now apply in_chain).
    pose proof (MergedOf_upper _ _ _ MO c2 tr2 ids2 Hin2 Hc2 tr2 (wt_sub_refl _ _ W2)) as S2.
    destruct (wt_common _ _ _ _ W1 W2) as [Wa Wb]. exact (tmerge_total _ _ _ _ Wa Wb S1 S2).
  Qed.

  (** * Two successful orders of one multiset agree *)
  Theorem nested_order_indep l l' a s a' s' :
    Forall (nested_contrib Col) l -> Permutation l l' ->
    aggregate_all ord cf fuel (agg0 tag0) st0 l 0 = inl (a, s) ->
    aggregate_all ord cf fuel (agg0 tag0) st0 l' 0 = inl (a', s') ->
    forall n, In n (map fst l) ->
      Aggregator.canonical a n = Aggregator.canonical a' n /\
      exists m m' tm tm', assoc (Aggregator.canonical a n) (imports a) = Some m /\
                          assoc (Aggregator.canonical a' n) (imports a') = Some m' /\
                          UnfK (a_types a) m tm /\ UnfK (a_types a') m' tm' /\ SubCM tm tm' /\ SubCM tm' tm.
  Proof.
    intros HF P H H' n Hn.
    assert (HF' : Forall (nested_contrib Col) l') by (eapply Permutation_Forall; eauto).
    pose proof (NestInv_history l _ _ _ [] a s (NestInv_nil Col tag0) HF H) as HI.
    pose proof (NestInv_history l' _ _ _ [] a' s' (NestInv_nil Col tag0) HF' H') as HI'.
    rewrite app_nil_r in HI, HI'.
    assert (Hnames : forall m, In m (map fst l) <-> In m (map fst l')).
    { intros m. split; apply Permutation_in; [|apply Permutation_sym]; now apply Permutation_map. }
    assert (Hagree : forall m, In m (map fst l) -> Aggregator.canonical a m = Aggregator.canonical a' m).
    { intros m Hm. apply (canonical_order_indep ord ord cf fuel cf fuel tag0 tag0 l l' a a' s s'); auto using nested_owner_free. }
    split; [now apply Hagree|].
    assert (Hn1 : In n (map fst (rev l))) by (rewrite map_rev; now apply -> in_rev).
    assert (Hn2 : In n (map fst (rev l'))) by (rewrite map_rev; apply -> in_rev; now apply Hnames).
    destruct (nested_import_of a s (rev l) n HI Hn1) as [y [oid [e [d [ids [Ha [ID MO]]]]]]].
    destruct (nested_import_of a' s' (rev l') n HI' Hn2) as [y' [oid' [e' [d' [ids' [Ha' [ID' MO']]]]]]].
    exists (KInstance y), (KInstance y'), (XInst e), (XInst e').
    split; [exact Ha|]. split; [exact Ha'|]. split; [eapply IDen_unf; eauto|]. split; [eapply IDen_unf; eauto|].
    assert (Hsame : forall c, In c (filter (on_import (a_redirects a) (Aggregator.canonical a n)) (rev l)) <->
                              In c (filter (on_import (a_redirects a') (Aggregator.canonical a' n)) (rev l'))).
    { intros c. rewrite !filter_In, <- !in_rev. unfold on_import. rewrite <- !canonical_canon.
      split; intros [Hc E]; (split; [eauto using Permutation_in, Permutation_sym|]).
      - rewrite <- (Hagree n Hn), <- (Hagree (fst c)); auto. now apply in_map.
      - rewrite (Hagree n Hn), (Hagree (fst c)); auto. apply in_map. eapply Permutation_in; [apply Permutation_sym; exact P|exact Hc]. }
    assert (Hlow : forall cs cs' tm tm', MergedOf Col cs tm -> MergedOf Col cs' tm' -> (forall c, In c cs' -> In c cs) -> SubCM tm tm').
    { intros cs cs' tm tm' M M' Hsub. apply (MergedOf_glb _ _ _ M'). intros c tr ids0 Hc Hnc.
      destruct (ncontrib_wt _ _ _ _ Hnc) as [d0 W0].
      exact (MergedOf_upper _ _ _ M c tr ids0 (Hsub c Hc) Hnc tr (wt_sub_refl _ _ W0)). }
    split; [eapply Hlow; eauto; intros c; apply Hsame | eapply Hlow; eauto; intros c; apply Hsame].
  Qed.
End NThm.
