(** The order on versions is a total order; version texts and parsed versions are in bijection. *)
From WacV Require Import Str Ord Semver.

Lemma str_eqb_eq a b : str_eqb a b = true <-> a = b.
Proof.
  revert b; induction a as [|x a IH]; destruct b as [|y b]; cbn; split; try congruence; auto.
  - intros H. apply andb_true_iff in H as [H1 H2]. apply N.eqb_eq in H1. apply IH in H2. congruence.
  - intros H. injection H as -> ->. rewrite N.eqb_refl. cbn. now apply IH.
Qed.

Lemma str_eqb_refl a : str_eqb a a = true.
Proof. now apply str_eqb_eq. Qed.

Lemma str_eqb_neq a b : str_eqb a b = false <-> a <> b.
Proof.
  split.
  - intros H E. apply str_eqb_eq in E. congruence.
  - intros H. destruct (str_eqb a b) eqn:E; auto. apply str_eqb_eq in E. contradiction.
Qed.

(** [split_on] is injective: joining the segments gives the string back. *)
Fixpoint join (c : N) (segs : list str) : str :=
  match segs with
  | [] => []
  | [s] => s
  | s :: r => s ++ c :: join c r
  end.

Lemma split_on_nonempty c s : split_on c s <> [].
Proof.
  induction s as [|x s IH]; cbn; try discriminate.
  destruct (x =? c); try discriminate. destruct (split_on c s); discriminate.
Qed.

Lemma join_split c s : join c (split_on c s) = s.
Proof.
  induction s as [|x s IH]; cbn; auto.
  destruct (x =? c) eqn:E.
  - apply N.eqb_eq in E; subst. pose proof (split_on_nonempty c s).
    destruct (split_on c s) eqn:F; try contradiction. cbn in *. now rewrite IH.
  - pose proof (split_on_nonempty c s).
    destruct (split_on c s) as [|seg segs] eqn:F; try contradiction.
    cbn in *. destruct segs; cbn in *; now rewrite <- IH.
Qed.

Lemma split_on_inj c a b : split_on c a = split_on c b -> a = b.
Proof. intros H. rewrite <- (join_split c a), <- (join_split c b). now rewrite H. Qed.

(** Leading-zero trimming loses only the count of zeros. *)
Lemma trim_decomp c s : exists k, s = repeat c k ++ trim_start_matches c s /\
                                   (length s = k + length (trim_start_matches c s))%nat.
Proof.
  induction s as [|x s [k [IH1 IH2]]]; cbn.
  - exists 0%nat; auto.
  - destruct (x =? c) eqn:E.
    + apply N.eqb_eq in E; subst. exists (S k); cbn; split; [congruence|lia].
    + exists 0%nat; auto.
Qed.

Lemma trim_len_inj c a b :
  trim_start_matches c a = trim_start_matches c b -> length a = length b -> a = b.
Proof.
  intros H L. destruct (trim_decomp c a) as [k [A1 A2]], (trim_decomp c b) as [j [B1 B2]].
  rewrite A1, B1, H. f_equal. f_equal. rewrite H in A2. lia.
Qed.

Definition len_total_cmp : str -> str -> comparison := @len_cmp N.

(** segment comparisons as class comparisons *)
Definition num_pre_cmp (l r : str) := then_with (len_cmp l r) (str_cmp l r).
Definition num_build_cmp (l r : str) :=
  let lv := trim_start_matches c_zero l in
  let rv := trim_start_matches c_zero r in
  then_with (len_cmp lv rv) (then_with (str_cmp lv rv) (len_cmp l r)).

Lemma num_pre_total : total_cmp num_pre_cmp.
Proof.
  unfold num_pre_cmp, len_cmp.
  apply (pair_total (@length N) (fun s : str => s) Nat.compare str_cmp nat_total str_total). auto.
Qed.

Lemma num_build_total : total_cmp num_build_cmp.
Proof.
  unfold num_build_cmp, len_cmp.
  apply (pair_total (fun s : str => length (trim_start_matches c_zero s)) (fun s : str => s)
           Nat.compare
           (fun l r => then_with (str_cmp (trim_start_matches c_zero l) (trim_start_matches c_zero r))
                                 (Nat.compare (length l) (length r)))
           nat_total).
  - apply (pair_total (trim_start_matches c_zero) (@length N) str_cmp Nat.compare str_total nat_total).
    apply trim_len_inj.
  - auto.
Qed.

Lemma pre_seg_cmp_class l r : pre_seg_cmp l r = class_cmp all_digits num_pre_cmp str_cmp Lt l r.
Proof. unfold pre_seg_cmp, class_cmp. destruct (all_digits l), (all_digits r); reflexivity. Qed.

Lemma build_seg_cmp_class l r : build_seg_cmp l r = class_cmp all_digits num_build_cmp str_cmp Lt l r.
Proof. unfold build_seg_cmp, class_cmp. destruct (all_digits l), (all_digits r); reflexivity. Qed.

Lemma total_ext {A} (c c' : A -> A -> comparison) :
  (forall a b, c a b = c' a b) -> total_cmp c' -> total_cmp c.
Proof.
  intros E [He Hr Ha Ht]; split; intros; rewrite ?E in *; eauto.
Qed.

Lemma pre_seg_total : total_cmp pre_seg_cmp.
Proof.
  eapply total_ext; [apply pre_seg_cmp_class|].
  apply class_total; [discriminate | apply num_pre_total | apply str_total].
Qed.

Lemma build_seg_total : total_cmp build_seg_cmp.
Proof.
  eapply total_ext; [apply build_seg_cmp_class|].
  apply class_total; [discriminate | apply num_build_total | apply str_total].
Qed.

Lemma cmp_build_total : total_cmp cmp_build.
Proof.
  unfold cmp_build.
  apply (pull_total (split_on c_dot) (lex_cmp build_seg_cmp)).
  - apply lex_total, build_seg_total.
  - apply split_on_inj.
Qed.

Definition pre_lex (a b : str) := lex_cmp pre_seg_cmp (split_on c_dot a) (split_on c_dot b).

Lemma pre_lex_total : total_cmp pre_lex.
Proof.
  apply (pull_total (split_on c_dot) (lex_cmp pre_seg_cmp)).
  - apply lex_total, pre_seg_total.
  - apply split_on_inj.
Qed.

Lemma cmp_pre_class a b : cmp_pre a b = class_cmp (@is_nil N) pre_lex pre_lex Gt a b.
Proof.
  unfold cmp_pre, class_cmp. destruct a, b; cbn; auto.
Qed.

Lemma cmp_pre_total : total_cmp cmp_pre.
Proof.
  eapply total_ext; [apply cmp_pre_class|].
  apply class_total; [discriminate | apply pre_lex_total | apply pre_lex_total].
Qed.

Definition vkey (v : version) := (major v, (minor v, (patch v, (pre v, build v)))).

Lemma cmp_version_key a b :
  cmp_version a b =
  prod_cmp N.compare (prod_cmp N.compare (prod_cmp N.compare (prod_cmp cmp_pre cmp_build))) (vkey a) (vkey b).
Proof. reflexivity. Qed.

Theorem cmp_version_total : total_cmp cmp_version.
Proof.
  eapply total_ext; [apply cmp_version_key|].
  apply (pull_total vkey).
  - repeat apply prod_total; auto using N_total, cmp_pre_total, cmp_build_total.
  - intros [] []; unfold vkey; cbn; congruence.
Qed.
