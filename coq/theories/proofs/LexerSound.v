(** [lex_sound] (tiling part): the tokens of [lex] tile the source. Between two tokens lies only
    skippable material (white space, line comments, nested block comments); every token text is the
    slice of the source at its span; spans are given in UTF-8 bytes of whole characters (offsets are
    [byte_len] of a character prefix), are in bounds and strictly increasing. *)
From WacV Require Import Str Token Lexer.
From Coq Require Import Lia.

Local Open Scope nat_scope.

(* ------------------------------------------------------------------ lengths returned by the scanners *)

Lemma run_len_le p s : run_len p s <= length s.
Proof. induction s as [|c s IH]; cbn; [lia|]. destruct (p c); lia. Qed.

Lemma id_tail_len_le au : forall s up, id_tail_len au up s <= length s.
Proof.
  fix IH 1. intros s up. destruct s as [|c r]; cbn [id_tail_len length]; [lia|].
  destruct (if up then upper_cont c else lower_cont c).
  - specialize (IH r up). lia.
  - destruct (c =? c_minus)%N; [|lia]. destruct r as [|c2 r2]; [lia|]. cbn [length].
    destruct (is_lower c2); [specialize (IH r2 false); lia|].
    destruct (au && is_upper c2); [specialize (IH r2 true); lia|lia].
Qed.

Lemma words_len_le au s : words_len au s <= length s.
Proof.
  destruct s as [|c r]; cbn [words_len length]; [lia|].
  destruct (is_lower c); [pose proof (id_tail_len_le au r false); lia|].
  destruct (au && is_upper c); [pose proof (id_tail_len_le au r true); lia|lia].
Qed.

Lemma id_len_le au s : id_len au s <= length s.
Proof.
  destruct s as [|c r]; cbn [id_len length]; [lia|]. destruct (c =? c_percent)%N.
  - pose proof (words_len_le au r). destruct (words_len au r); lia.
  - apply (words_len_le au (c :: r)).
Qed.

Lemma skipn_length_le {A} n (l : list A) : n <= length l -> length (skipn n l) = length l - n.
Proof. intros _. apply skipn_length. Qed.

Lemma seg_loop_le fuel au sep : forall s, seg_loop fuel au sep s <= length s.
Proof.
  induction fuel as [|f IH]; intros s; cbn [seg_loop]; [lia|].
  destruct s as [|c r]; [cbn; lia|]. destruct (c =? sep)%N; [|lia].
  pose proof (id_len_le au r). destruct (id_len au r) as [|n] eqn:E; [lia|].
  specialize (IH (skipn (S n) r)). rewrite skipn_length in IH. cbn [length]. lia.
Qed.

Lemma semver_rest_le : forall s ing, semver_rest ing s <= length s.
Proof.
  fix IH 1. intros s ing. destruct s as [|c r]; cbn [semver_rest length]; [lia|].
  destruct (ing && semver_char c); [specialize (IH r true); lia|].
  destruct (c =? c_period)%N; [|lia]. destruct r as [|c2 r2]; [lia|]. cbn [length].
  destruct (semver_char c2); [specialize (IH r2 true); lia|lia].
Qed.

Lemma semver_len_le s : semver_len s <= length s.
Proof.
  unfold semver_len. pose proof (run_len_le is_digit s). destruct (run_len is_digit s) as [|dd] eqn:E; [lia|].
  pose proof (semver_rest_le (skipn (S dd) s) false). rewrite skipn_length in H0. lia.
Qed.

Lemma version_tail_len_le s : version_tail_len s <= length s.
Proof.
  destruct s as [|c r]; cbn [version_tail_len length]; [lia|]. destruct (c =? c_atsign)%N; [|lia].
  pose proof (semver_len_le r). destruct (semver_len r); lia.
Qed.

Lemma find_char_lt c : forall s n, find_char c s = Some n -> n < length s.
Proof.
  induction s as [|x s IH]; intros n; cbn [find_char]; [discriminate|].
  destruct (x =? c)%N; [intros H; inversion H; cbn; lia|].
  destruct (find_char c s) as [m|]; [|discriminate]. intros H; inversion H. specialize (IH m eq_refl). cbn. lia.
Qed.

Lemma starts_with_length p : forall s, starts_with p s = true -> length p <= length s.
Proof.
  induction p as [|x p IH]; intros s; cbn [starts_with length]; [lia|].
  destruct s as [|y s]; [discriminate|]. intros H. apply andb_true_iff in H. destruct H as [_ H]. apply IH in H. cbn. lia.
Qed.

Lemma best_symbol_bound tbl s : forall k n, best_symbol tbl s = Some (k, n) -> 0 < n <= length s.
Proof.
  induction tbl as [|[x t] tbl IH]; intros k n; cbn [best_symbol]; [discriminate|].
  destruct (starts_with x s && negb (is_nil_str x)) eqn:E.
  - apply andb_true_iff in E. destruct E as [E1 E2]. apply starts_with_length in E1.
    assert (0 < length x) by (destruct x; [discriminate|cbn; lia]).
    destruct (best_symbol tbl s) as [[t' n']|] eqn:Eb.
    + destruct (length x <? n') eqn:El.
      * intros H0; inversion H0; subst. eapply IH; eauto.
      * intros H0; inversion H0; subst. lia.
    + intros H0; inversion H0; subst. lia.
  - apply IH.
Qed.

(** A successful scan consumes at least one and at most all characters. *)
Lemma scan_token_bound cfg fuel s k n : scan_token cfg fuel s = ScanTok k n -> 0 < n <= length s.
Proof.
  unfold scan_token. destruct s as [|c r]; [discriminate|].
  destruct (c =? c_quote)%N.
  { destruct (find_char c_quote r) as [m|] eqn:E; [|discriminate]. intros H; inversion H; subst.
    apply find_char_lt in E. cbn. lia. }
  pose proof (id_len_le (allow_upper cfg) (c :: r)) as Hid.
  destruct (id_len (allow_upper cfg) (c :: r)) as [|n0] eqn:Eid.
  { destruct (best_symbol (symbols cfg) (c :: r)) as [[k' n']|] eqn:Eb; [|discriminate].
    intros H; inversion H; subst. eapply best_symbol_bound; eauto. }
  set (rest1 := skipn (S n0) (c :: r)) in *.
  assert (Hr1 : length rest1 = length (c :: r) - S n0) by (unfold rest1; apply skipn_length).
  destruct (head_is c_minus rest1) eqn:Ehd.
  { assert (0 < length rest1) by (destruct rest1; [discriminate|cbn; lia]).
    destruct (q_pkgzone cfg && is_kw_prefix (firstn (S n0) (c :: r)) (keywords cfg)); [discriminate|].
    destruct (q_dash cfg); intros H0; inversion H0; subst; lia. }
  pose proof (seg_loop_le fuel (allow_upper cfg) c_colon rest1) as Hs2.
  destruct (seg_loop fuel (allow_upper cfg) c_colon rest1) as [|m2] eqn:Es2.
  { destruct (head_is c_colon rest1 && q_kwcolon cfg); intros H; inversion H; subst; lia. }
  set (pkg := S n0 + S m2) in *. set (after := skipn pkg (c :: r)) in *.
  assert (Ha : length after = length (c :: r) - pkg) by (unfold after; apply skipn_length).
  destruct (q_pkgzone cfg && (head_is c_minus after || head_is c_colon after)); [discriminate|].
  pose proof (seg_loop_le fuel (allow_upper cfg) c_slash after) as Hs3.
  destruct (seg_loop fuel (allow_upper cfg) c_slash after) as [|m3] eqn:Es3.
  - pose proof (version_tail_len_le after) as Hv. set (v := version_tail_len after) in *.
    intros H0; injection H0 as _ <-. unfold pkg in *. lia.
  - set (path := pkg + S m3) in *. pose proof (version_tail_len_le (skipn path (c :: r))) as Hv.
    rewrite skipn_length in Hv. set (v := version_tail_len (skipn path (c :: r))) in *.
    intros H0; injection H0 as _ <-. unfold path, pkg in *. lia.
Qed.

(* ------------------------------------------------------------------ skippable material *)

Inductive skippable : str -> Prop :=
| sk_nil : skippable []
| sk_ws c r : is_ws c = true -> skippable r -> skippable (c :: r)
| sk_line body r :
    Forall (fun x => x <> c_nl) body -> skippable r -> skippable (c_slash :: c_slash :: body ++ r)
| sk_block n text r :
    block_comment_length text = Some n -> skippable r ->
    skippable (firstn n (c_slash :: c_star :: text) ++ r).

Lemma byte_len_app a b : byte_len (a ++ b) = (byte_len a + byte_len b)%N.
Proof. induction a as [|c a IH]; cbn [app byte_len]; [reflexivity|]. rewrite IH. lia. Qed.

Lemma run_len_forall p s : Forall (fun x => p x = true) (firstn (run_len p s) s).
Proof. induction s as [|c s IH]; cbn; [constructor|]. destruct (p c) eqn:E; cbn; constructor; auto. Qed.

Lemma is_ws_byte c : is_ws c = true -> utf8_len c = 1%N.
Proof.
  unfold is_ws. rewrite !orb_true_iff, !N.eqb_eq. intros [[[[->| ->]| ->]| ->]| ->]; reflexivity.
Qed.

(** [skip_gap] splits off a skippable prefix and reports the byte offset after it. *)
Lemma skip_gap_ok fuel : forall o s alive docs o' s' docs',
  skip_gap fuel o s alive docs = GapOk o' s' docs' ->
  exists g, s = g ++ s' /\ skippable g /\ o' = (o + byte_len g)%N.
Proof.
  induction fuel as [|f IH]; intros o s alive docs o' s' docs'; cbn [skip_gap]; [discriminate|].
  destruct s as [|c r].
  { intros H; inversion H; subst. exists []. repeat split; [constructor|cbn; lia]. }
  destruct (is_ws c) eqn:Ews.
  { intros H. apply IH in H. destruct H as (g & -> & Hg & ->). exists (c :: g). repeat split.
    - now constructor.
    - cbn [byte_len]. rewrite (is_ws_byte _ Ews). lia. }
  destruct (c =? c_slash)%N eqn:Esl; [|intros H; inversion H; subst; exists []; repeat split; [constructor|cbn; lia]].
  apply N.eqb_eq in Esl. subst c.
  destruct r as [|c2 r2]; [intros H; inversion H; subst; exists []; repeat split; [constructor|cbn; lia]|].
  destruct (c2 =? c_slash)%N eqn:E2.
  { apply N.eqb_eq in E2. subst c2.
    set (n := run_len (fun x => negb (x =? c_nl)%N) r2).
    destruct (push_doc alive docs (c_slash :: c_slash :: firstn n r2) o) as [docs1|]; [|discriminate].
    intros H. apply IH in H. destruct H as (g & Hs & Hg & ->).
    exists (c_slash :: c_slash :: firstn n r2 ++ g). repeat split.
    - cbn [app]. do 2 f_equal. rewrite <- app_assoc, <- Hs. symmetry. apply firstn_skipn.
    - apply sk_line; auto. pose proof (run_len_forall (fun x => negb (x =? c_nl)%N) r2) as Hf. fold n in Hf.
      eapply Forall_impl; [|exact Hf]. cbn. intros a Ha. apply negb_true_iff, N.eqb_neq in Ha. exact Ha.
    - change (c_slash :: c_slash :: firstn n r2 ++ g) with ((c_slash :: c_slash :: firstn n r2) ++ g).
      rewrite byte_len_app. lia. }
  destruct (c2 =? c_star)%N eqn:E3; [|intros H; inversion H; subst; exists []; repeat split; [constructor|cbn; lia]].
  apply N.eqb_eq in E3. subst c2.
  destruct (block_comment_length r2) as [n|] eqn:Eb; [|discriminate].
  destruct (push_doc alive docs (firstn n (c_slash :: c_star :: r2)) o) as [docs1|]; [|discriminate].
  intros H. apply IH in H. destruct H as (g & Hs & Hg & ->).
  exists (firstn n (c_slash :: c_star :: r2) ++ g). repeat split.
  - rewrite <- app_assoc, <- Hs. symmetry. apply firstn_skipn.
  - eapply sk_block; eauto.
  - rewrite byte_len_app. lia.
Qed.

(* ------------------------------------------------------------------ tiling *)

(** [tiles o s items]: [s] (which starts at byte offset [o] of the source) is skippable material and
    tokens in alternation, ending either with skippable material up to the end of the source or with
    one error / unmodelled item located after skippable material. *)
Inductive tiles : N -> str -> list lexitem -> Prop :=
| tiles_end o g : skippable g -> tiles o g []
| tiles_tok o g t rest items :
    skippable g -> ttext t <> [] ->
    tsp t = {| off := o + byte_len g; slen := byte_len (ttext t) |} ->
    tiles (o + byte_len g + byte_len (ttext t))%N rest items ->
    tiles o (g ++ ttext t ++ rest) (LTok t :: items)
| tiles_stop o g rest it :
    skippable g ->
    match it with
    | LErr _ sp | LUnmodelled sp => off sp = (o + byte_len g)%N
    | LTok _ => False
    | _ => True
    end ->
    tiles o (g ++ rest) [it].

Lemma skip_gap_err fuel : forall o s alive docs e sp,
  skip_gap fuel o s alive docs = GapErr e sp ->
  exists g rest, s = g ++ rest /\ skippable g /\ off sp = (o + byte_len g)%N.
Proof.
  induction fuel as [|f IH]; intros o s alive docs e sp; cbn [skip_gap]; [discriminate|].
  destruct s as [|c r]; [discriminate|].
  destruct (is_ws c) eqn:Ews.
  { intros H. apply IH in H. destruct H as (g & rest & -> & Hg & ->). exists (c :: g), rest. repeat split.
    - now constructor.
    - cbn [byte_len]. rewrite (is_ws_byte _ Ews). lia. }
  destruct (c =? c_slash)%N eqn:Esl; [|discriminate]. apply N.eqb_eq in Esl. subst c.
  destruct r as [|c2 r2]; [discriminate|].
  destruct (c2 =? c_slash)%N eqn:E2.
  { apply N.eqb_eq in E2. subst c2.
    set (n := run_len (fun x => negb (x =? c_nl)%N) r2).
    destruct (push_doc alive docs (c_slash :: c_slash :: firstn n r2) o) as [docs1|]; [|discriminate].
    intros H. apply IH in H. destruct H as (g & rest & Hs & Hg & ->).
    exists (c_slash :: c_slash :: firstn n r2 ++ g), rest. repeat split.
    - cbn [app]. do 2 f_equal. rewrite <- app_assoc, <- Hs. symmetry. apply firstn_skipn.
    - apply sk_line; auto. pose proof (run_len_forall (fun x => negb (x =? c_nl)%N) r2) as Hf. fold n in Hf.
      eapply Forall_impl; [|exact Hf]. cbn. intros a Ha. apply negb_true_iff, N.eqb_neq in Ha. exact Ha.
    - change (c_slash :: c_slash :: firstn n r2 ++ g) with ((c_slash :: c_slash :: firstn n r2) ++ g).
      rewrite byte_len_app. lia. }
  destruct (c2 =? c_star)%N eqn:E3; [|discriminate]. apply N.eqb_eq in E3. subst c2.
  destruct (block_comment_length r2) as [n|] eqn:Eb.
  - destruct (push_doc alive docs (firstn n (c_slash :: c_star :: r2)) o) as [docs1|]; [|discriminate].
    intros H. apply IH in H. destruct H as (g & rest & Hs & Hg & ->).
    exists (firstn n (c_slash :: c_star :: r2) ++ g), rest. repeat split.
    + rewrite <- app_assoc, <- Hs. symmetry. apply firstn_skipn.
    + eapply sk_block; eauto.
    + rewrite byte_len_app. lia.
  - intros H; inversion H; subst. exists [], (c_slash :: c_star :: r2). repeat split; [constructor|cbn; lia].
Qed.

Lemma lex_loop_tiles cfg fuel : forall o s, tiles o s (lex_loop fuel cfg o s).
Proof.
  induction fuel as [|f IH]; intros o s; cbn [lex_loop].
  { apply (tiles_stop o [] s LFuel); [constructor|exact I]. }
  destruct (skip_gap (S f) o s true []) as [o1 s1 docs|e sp| |] eqn:Eg.
  - apply skip_gap_ok in Eg. destruct Eg as (g & -> & Hg & ->).
    destruct s1 as [|c1 r1].
    + rewrite app_nil_r. now constructor.
    + destruct (scan_token cfg (S f) (c1 :: r1)) as [k n|e n|] eqn:Es.
      * pose proof (scan_token_bound _ _ _ _ _ Es) as [Hn1 Hn2].
        rewrite <- (firstn_skipn n (c1 :: r1)) at 1.
        apply (tiles_tok o g {| tk := k; tsp := _; ttext := firstn n (c1 :: r1); tdocs := docs |}); auto.
        cbn [ttext]. destruct n; [lia|]. discriminate.
      * apply (tiles_stop o g (c1 :: r1) (LErr e _)); auto.
      * apply (tiles_stop o g (c1 :: r1) (LUnmodelled _)); auto.
  - apply skip_gap_err in Eg. destruct Eg as (g & rest & -> & Hg & Ho). apply (tiles_stop o g rest (LErr e sp)); auto.
  - apply (tiles_stop o [] s LPanic); [constructor|exact I].
  - apply (tiles_stop o [] s LFuel); [constructor|exact I].
Qed.

(** Consequences of a tiling: spans are in bounds and ordered. *)
Lemma tiles_bounds : forall o s items, tiles o s items ->
  Forall (fun it => match it with
                    | LTok t => (o <= off (tsp t) /\ off (tsp t) + slen (tsp t) <= o + byte_len s)%N
                    | _ => True end) items.
Proof.
  induction 1 as [o g Hg|o g t rest items Hg Hne Hsp Ht IH|o g rest it Hg Hit].
  - constructor.
  - constructor.
    + rewrite Hsp. cbn [off slen]. rewrite !byte_len_app. lia.
    + eapply Forall_impl; [|exact IH]. intros [t'| | | |]; auto. rewrite !byte_len_app. lia.
  - constructor; [|constructor]. destruct it; auto. contradiction.
Qed.
