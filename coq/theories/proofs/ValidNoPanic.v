(** C01/C02 support: the MODEL of the structural encoder ([model/EncodeModel.v]) cannot reach its
    graph-consistency panics on a consistent composition graph. The panic sites that remain are the ones
    of the encoder's own index bookkeeping ([XNodeIndexMissing], [XDupNodeIndex], [XEncodedMissing]: they
    need the topological-order argument) and the [unwrap] of a failed merge of an explicit import. *)
From Coq Require Import List Arith Bool NArith Lia.
From WacV Require Import Str Graph Wiring WiringSpec EncodeModel GraphInv GraphTheorems GraphAlias EncodeBasics WiringOrder WiringSim ValidArgs ValidEncInv.
Import ListNotations.
Local Open Scope nat_scope.

(** the panic sites that can only be reached when the index bookkeeping of the encoder fails (they need the
    topological-order argument and are NOT excluded here) *)
Definition bookkeeping_site (s : esite) : bool :=
  match s with XNodeIndexMissing | XDupNodeIndex | XEncodedMissing => true | _ => false end.

(** * the result monad: where an error comes from *)
Lemma bind_err {A B} (r : res A) (f : A -> res B) er :
  bind r f = RErr er -> r = RErr er \/ exists a, r = ROk a /\ f a = RErr er.
Proof. destruct r as [a|e0]; cbn; intros H; [right; eauto | left; congruence]. Qed.

(** a fold whose step propagates errors fails either at the start or at one element, from an [ROk] state *)
Lemma fold_err_gen {S X} (g : res S -> X -> res S) l init er :
  fold_left g l init = RErr er ->
  (forall er' x, g (RErr er') x = RErr er') ->
  init = RErr er \/ exists s x, In x l /\ g (ROk s) x = RErr er.
Proof.
  intros H Hg. revert init H. induction l as [|a l IH]; intros init H; cbn in H.
  - now left.
  - apply IH in H as [H | (s & x & Hin & H)].
    + destruct init as [s0|e0].
      * right. exists s0, a. split; [now left | exact H].
      * left. now rewrite Hg in H.
    + right. exists s, x. split; [now right | exact H].
Qed.

(** the instance for folds written with [bind] *)
Lemma fold_bind_err {S X} (f : S -> X -> res S) l init er :
  fold_left (fun acc x => bind acc (fun s => f s x)) l init = RErr er ->
  init = RErr er \/ exists s x, In x l /\ f s x = RErr er.
Proof. intros H. apply fold_err_gen in H; [exact H | intros; reflexivity]. Qed.

(** * the two primitive failure sources *)
Lemma run_ty_err tau st rq er : run_ty tau st rq = RErr er -> er = EOracle.
Proof.
  unfold run_ty. destruct (tau (e_log st) rq) as [its idx]. destruct (ty_items_ok _ its); [discriminate|]. congruence.
Qed.

Lemma set_nidx_err st n idx er : set_nidx st n idx = RErr er -> er = EPanic XDupNodeIndex.
Proof. unfold set_nidx. destruct (nat_assoc n (e_nidx st)); [|discriminate]. congruence. Qed.

(** * definitions *)
Lemma enc_definition_panic e tau st n nd s :
  nexport nd <> None -> enc_definition e tau st n nd = RErr (EPanic s) -> bookkeeping_site s = true.
Proof.
  intros Hx. unfold enc_definition. destruct (nexport nd) as [nm|]; [|congruence].
  intros H. apply bind_err in H as [H | ([st1 ty] & R & H)].
  - apply run_ty_err in H. discriminate.
  - cbv beta iota in H. destruct (negb _); [discriminate|]. apply set_nidx_err in H. injection H as E. subst. reflexivity.
Qed.

(** * instantiations *)
Lemma enc_instantiation_panic e u g dc tau st n nd sat s :
  Inv u g -> ArgsChecked u g -> get_node g n = Some nd -> nk nd = NInst sat ->
  enc_instantiation e u g dc tau st n nd = RErr (EPanic s) -> bookkeeping_site s = true.
Proof.
  intros HI HA G K. destruct (inv_inst_pkg _ _ HI n nd sat G K) as (id & pd & Np & Pd).
  assert (II : inst_imports u g nd = Some (pd_imports pd)) by (unfold inst_imports; now rewrite Np, Pd).
  unfold enc_instantiation. rewrite Np, II.
  unfold pkg_desc in Pd. destruct (get_pkg g id) as [p|] eqn:Gp; [|discriminate].
  intros H. apply bind_err in H as [H | ([st1 ci] & R1 & H)].
  - (* the component of the package *)
    destruct (pkg_assoc id (e_pkgs st)); [discriminate|].
    apply bind_err in H as [H | ([st1 ci] & R1 & H)]; [|cbv beta iota in H; discriminate].
    destruct dc; [discriminate|].
    apply bind_err in H as [H | ([st0 x] & R0 & H)]; [apply run_ty_err in H; discriminate | cbv beta iota in H; discriminate].
  - cbv beta iota in H. apply bind_err in H as [H | (args & R2 & H)].
    + (* the explicit arguments *)
      apply fold_err_gen in H; [|intros; reflexivity]. destruct H as [H | (l & ed & Hin & H)]; [discriminate|].
      cbn [bind] in H.
      unfold incoming in Hin. apply filter_In in Hin as [He T]. apply Nat.eqb_eq in T.
      assert (G' : get_node g (etgt ed) = Some nd) by (rewrite T; exact G).
      destruct (inv_inst_in_edges_only_args _ _ HI ed nd sat He G' K) as [i Ki].
      destruct (HA ed i He Ki) as (sn & tn & imps & nm & k & _ & G2 & II2 & N & _).
      rewrite G' in G2. injection G2 as <-. rewrite II in II2. injection II2 as <-.
      destruct (nat_assoc (esrc ed) (e_nidx st1)); [|injection H as E; subst; reflexivity].
      rewrite Ki, N in H. discriminate.
    + cbv beta zeta in H. apply set_nidx_err in H. injection H as E. subst. reflexivity.
Qed.

(** * aliases *)
(** what [get_alias_source] answers is an export of the (live) source's instance kind *)
Lemma alias_source_data u g n src nm :
  get_alias_source u g n = Some (src, nm) ->
  exists sn ex k, get_node g src = Some sn /\ u_inst_exports u (nitem sn) = Some ex /\ alist_get N.eqb ex nm = Some k.
Proof.
  unfold get_alias_source. destruct (find _ (incoming g n)) as [e0|]; [|discriminate].
  destruct (ek e0) as [i|i|]; destruct (get_node g (esrc e0)) as [sn|] eqn:Gs; try discriminate.
  destruct (u_inst_exports u (nitem sn)) as [ex|] eqn:U; [|discriminate].
  destruct (nth_error ex i) as [[nm' k']|] eqn:N; [|discriminate].
  intros H. injection H as <- <-.
  destruct (alist_get N.eqb ex nm') as [k|] eqn:A.
  - exists sn, ex, k. auto.
  - exfalso. apply alist_get_None in A. apply A. apply nth_error_In in N. apply in_map_iff. exists (nm', k'). auto.
Qed.

Lemma enc_alias_panic e u g st n nd s :
  Inv u g -> AliasInv u g -> get_node g n = Some nd -> nk nd = NAlias ->
  enc_alias e u g st n = RErr (EPanic s) -> bookkeeping_site s = true.
Proof.
  intros HI HA G K. pose proof (alias_source_reflects u g n HI HA) as R. rewrite G, K in R.
  destruct R as (src & i & nm & A & _ & _).
  destruct (alias_source_data _ _ _ _ _ A) as (sn & ex & k & Gs & U & Ak).
  unfold enc_alias. rewrite A, Gs, U, Ak.
  destruct (nat_assoc src (e_nidx st)); [|intros H; injection H as E; subst; reflexivity].
  intros H. apply set_nidx_err in H. injection H as E. subst. reflexivity.
Qed.

(** 1. one node: on a consistent graph, encoding a live non-import node never reaches XNoPackage, XUnexpectedEdge,
       XAliasNoSource, XAliasNotInstance, XDefNoName or XBadNode, whatever the encoder state and the type encoder *)
Theorem enc_node_panics_classified : forall e u g dc tau st n s,
  Inv u g -> AliasInv u g -> KindInv u g -> ArgsChecked u g ->
  live g n = true -> is_import g n = false ->
  enc_node e u g dc tau st n = RErr (EPanic s) -> bookkeeping_site s = true.
Proof.
  intros e u g dc tau st n s HI HA HK HC L Im. unfold enc_node.
  unfold live in L. unfold is_import in Im. destruct (get_node g n) as [nd|] eqn:G; [|discriminate].
  destruct (nk nd) as [|nm|sat|] eqn:K.
  - apply enc_definition_panic. exact (proj2 (ki_def _ _ HK n nd G K)).
  - discriminate.
  - eapply enc_instantiation_panic; eauto.
  - eapply enc_alias_panic; eauto.
Qed.

(** * the import phase *)
Lemma resolve_implicit_no_panic e u g s : resolve_implicit e u g <> RErr (EPanic s).
Proof.
  unfold resolve_implicit. intros H. apply fold_err_gen in H; [|intros; reflexivity].
  destruct H as [H | ([a impl] & [n p] & _ & H)]; [discriminate|]. cbn [bind] in H.
  destruct (alist_get N.eqb (imports g) (fst p)); [discriminate|].
  destruct (agg_add _ _ _ _); discriminate.
Qed.

Lemma resolve_explicit_panic e g a0 l s : resolve_explicit e g a0 l = RErr (EPanic s) -> s = XBadNode.
Proof.
  unfold resolve_explicit. intros H. apply fold_err_gen in H; [|intros; reflexivity].
  destruct H as [H | ([a ex] & n & _ & H)]; [discriminate|]. cbn [bind] in H.
  destruct (get_node g n) as [nd|]; [|congruence].
  destruct (nk nd); try discriminate. destruct (agg_add _ _ _ _); [discriminate|congruence].
Qed.

(** on live nodes, the panic of the second loop of [resolve_imports] is the [unwrap] of a failed merge of an
    explicit import (never the indexing of a dead node) *)
Lemma resolve_explicit_panic_is_merge e g a0 l s :
  (forall n, In n l -> live g n = true) ->
  resolve_explicit e g a0 l = RErr (EPanic s) ->
  exists a n nd nm, In n l /\ get_node g n = Some nd /\ nk nd = NImport nm /\
    agg_add a (nstr e nm) (we_sort e (nitem nd)) (we_iid e (nitem nd)) = AggKindMismatch.
Proof.
  intros HL. unfold resolve_explicit. intros H. apply fold_err_gen in H; [|intros; reflexivity].
  destruct H as [H | ([a ex] & n & Hin & H)]; [discriminate|]. cbn [bind] in H.
  specialize (HL n Hin). unfold live in HL.
  destruct (get_node g n) as [nd|] eqn:G; [|discriminate].
  destruct (nk nd) as [|nm| |] eqn:K; try discriminate.
  destruct (agg_add a _ _ _) eqn:Ag; [discriminate|].
  exists a, n, nd, nm. auto.
Qed.

Lemma import_err tau st a er : EncodeModel.import_ tau st a = RErr er -> er = EOracle.
Proof.
  unfold EncodeModel.import_. cbv zeta. intros H.
  destruct (ae_sort a); destruct (ae_iid a);
    try (destruct (reg_lookup _ _) as [[idx under]|]; [discriminate|]);
    (apply bind_err in H as [H | ([st1 x] & _ & H)]; [now apply run_ty_err in H | cbv beta iota in H; discriminate]).
Qed.

Lemma encode_imports_panic e u g tau st l s :
  encode_imports e u g tau st l = RErr (EPanic s) ->
  s = XEncodedMissing \/
  (s = XBadNode /\ exists a0 impl, resolve_implicit e u g = ROk (a0, impl) /\
     resolve_explicit e g a0 l = RErr (EPanic XBadNode)).
Proof.
  unfold encode_imports. intros H.
  apply bind_err in H as [H | ([a0 impl] & R0 & H)]; [now apply resolve_implicit_no_panic in H|].
  cbv beta iota in H. apply bind_err in H as [H | ([a expl] & R1 & H)].
  - right. pose proof (resolve_explicit_panic _ _ _ _ _ H) as ->. split; auto. exists a0, impl. auto.
  - left. cbv beta iota zeta in H. apply bind_err in H as [H | ([st1 encoded] & R2 & H)].
    + (* the imports themselves: only the type encoder can fail *)
      apply fold_err_gen in H; [|intros; reflexivity]. destruct H as [H | ([st' enc] & x & _ & H)]; [discriminate|].
      cbn [bind] in H.
      apply bind_err in H as [H | ([st'' idx] & _ & H)]; [apply import_err in H; discriminate | cbv beta iota in H; discriminate].
    + cbv beta iota in H. apply bind_err in H as [H | (st2 & R3 & H)].
      * apply fold_err_gen in H; [|intros; reflexivity].
        destruct H as [H | (st' & [[nm k] node] & _ & H)]; [discriminate|]. cbn [bind] in H.
        destruct (str_assoc _ encoded) as [[s0 idx]|]; [discriminate|]. injection H as E. subst. reflexivity.
      * cbv beta in H. apply fold_err_gen in H; [|intros; reflexivity].
        destruct H as [H | (st' & p & _ & H)]; [discriminate|]. cbn [bind] in H.
        destruct (str_assoc _ encoded) as [[s0 idx]|]; [discriminate|]. injection H as E. subst. reflexivity.
Qed.

(** * the exports loop and the name section *)
Lemma enc_exports_panic e g st s : enc_exports e g st = RErr (EPanic s) -> s = XNodeIndexMissing.
Proof.
  unfold enc_exports. intros H. apply fold_err_gen in H; [|intros; reflexivity].
  destruct H as [H | (st' & p & _ & H)]; [discriminate|]. cbn [bind] in H.
  destruct (is_def g (snd p)); [discriminate|]. destruct (nat_assoc _ _); [discriminate|]. congruence.
Qed.

Lemma enc_names_panic e g st s : enc_names e g st = RErr (EPanic s) -> s = XNodeIndexMissing.
Proof.
  unfold enc_names. intros H. apply fold_err_gen in H; [|intros; reflexivity].
  destruct H as [H | (l & [s0 n] & _ & H)]; [discriminate|]. cbn [bind] in H.
  destruct (get_node g n) as [nd|]; [|discriminate]. destruct (nname nd); [|discriminate].
  destruct (sort_eqb _ _); [|discriminate]. destruct (nat_assoc _ _); [discriminate|]. congruence.
Qed.

(** 2. the whole encoder, for every emission order that enumerates live nodes: the only panics left are the
       bookkeeping ones and XBadNode, and XBadNode only as the model's rendering of a failed merge of an EXPLICIT import
       ([resolve_explicit] returns [EPanic XBadNode] for [AggKindMismatch]; the current code reports
       ImportTypeMergeConflict there) *)
Theorem encode_panics_classified : forall e u g dc tau ord s,
  Inv u g -> AliasInv u g -> KindInv u g -> ArgsChecked u g ->
  (forall n, In n ord -> live g n = true) ->
  encode_with_order e u g dc tau ord = RErr (EPanic s) ->
  bookkeeping_site s = true \/
  (s = XBadNode /\ exists a0 impl, resolve_implicit e u g = ROk (a0, impl) /\
     resolve_explicit e g a0 (filter (is_import g) ord) = RErr (EPanic XBadNode)).
Proof.
  intros e u g dc tau ord s HI HA HK HC HL. unfold encode_with_order. cbv zeta. intros H.
  apply bind_err in H as [H | (st0 & R0 & H)].
  - apply encode_imports_panic in H as [-> | H]; [left; reflexivity | right; exact H].
  - left. cbv beta in H. apply bind_err in H as [H | (st1 & R1 & H)].
    + apply fold_err_gen in H; [|intros; reflexivity]. destruct H as [H | (st' & n & Hin & H)]; [discriminate|].
      cbn [bind] in H. apply filter_In in Hin as [Hin Ni]. apply negb_true_iff in Ni.
      eapply enc_node_panics_classified; eauto.
    + cbv beta in H. apply bind_err in H as [H | (st2 & R2 & H)].
      * apply enc_exports_panic in H as ->. reflexivity.
      * cbv beta in H. apply bind_err in H as [H | (ns & R3 & H)]; [apply enc_names_panic in H as ->; reflexivity | discriminate].
Qed.

(** the second disjunct, read on the graph: some live explicit import node fails to merge into the aggregate *)
Corollary encode_bad_node_is_import_merge : forall e u g dc tau ord,
  Inv u g -> AliasInv u g -> KindInv u g -> ArgsChecked u g ->
  (forall n, In n ord -> live g n = true) ->
  encode_with_order e u g dc tau ord = RErr (EPanic XBadNode) ->
  exists a n nd nm, In n ord /\ get_node g n = Some nd /\ nk nd = NImport nm /\
    agg_add a (nstr e nm) (we_sort e (nitem nd)) (we_iid e (nitem nd)) = AggKindMismatch.
Proof.
  intros e u g dc tau ord HI HA HK HC HL H.
  destruct (encode_panics_classified _ _ _ _ _ _ _ HI HA HK HC HL H) as [B | (_ & a0 & impl & _ & R)]; [discriminate|].
  apply resolve_explicit_panic_is_merge in R.
  - destruct R as (a & n & nd & nm & Hin & G & K & Ag). apply filter_In in Hin as [Hin _]. exists a, n, nd, nm. auto.
  - intros n Hin. apply filter_In in Hin as [Hin _]. auto.
Qed.

(** 3. for graphs reachable through the API *)
Theorem encode_panics_classified_reachable : forall e u ops dc tau ord s,
  (forall n, In n ord -> live (run u ops) n = true) ->
  encode_with_order e u (run u ops) dc tau ord = RErr (EPanic s) ->
  bookkeeping_site s = true \/
  (s = XBadNode /\ exists a0 impl, resolve_implicit e u (run u ops) = ROk (a0, impl) /\
     resolve_explicit e (run u ops) a0 (filter (is_import (run u ops)) ord) = RErr (EPanic XBadNode)).
Proof.
  intros e u ops dc tau ord s HL H.
  eapply encode_panics_classified; eauto.
  - apply reach_inv.
  - apply reach_alias_inv.
  - apply reach_kind_inv.
  - apply reach_args_checked.
Qed.
