(** The import phase of the model encoder ([encode_imports]): after it, the decoded log binds every
    explicit import node and every implicit argument to the import named for the canonical (highest)
    name of its track — provided no import request was answered by a differently named import
    (interface-id de-duplication, a known finding of the real code). *)
From Coq Require Import List Arith Bool NArith Lia Permutation.
From WacV Require Import Str Ord Semver Names NamesProofs SemverProofs Graph Wiring WiringSpec EncodeModel
  WiringDecode EncodeBasics WiringOrder WiringSim AggProofs.
Import ListNotations.
Local Open Scope nat_scope.
Arguments node_prov : simpl never.
Arguments node_sort : simpl never.
Arguments cnt : simpl never.
Arguments nat_assoc : simpl never.

(** * the type encoder's registrations *)
Lemma ty_items_reg its : forall d ninst reg d',
  ninst = length (d_sp d SInstance) -> ty_items_ok ninst its = true -> decode_from d its = Some d' ->
  forall k idx under, In (k, (idx, under)) (reg_deps ninst its reg) ->
    In (k, (idx, under)) reg \/ look (d_sp d') SInstance idx = Some (PImp under).
Proof.
  induction its as [|it r IH]; intros d ninst reg d' Hn Ok D k idx under I; cbn in *; auto.
  apply andb_true_iff in Ok as [Ok1 Ok2].
  destruct (dstep d it) as [d1|] eqn:St; try discriminate.
  pose proof (decode_from_ext _ _ _ D) as X.
  destruct it; cbn in Ok1; try discriminate; cbn in St.
  - (* IDepImport *)
    injection St as St.
    assert (Sp : d_sp d1 = push (d_sp d) SInstance (PImp nm)) by (rewrite <- St; reflexivity).
    assert (L1 : S ninst = length (d_sp d1 SInstance)) by (rewrite Sp, push_same, app_length; cbn; lia).
    destruct (IH d1 _ _ _ L1 Ok2 D _ _ _ I) as [[E|?]|?]; auto.
    injection E as <- <- <-. right. eapply sp_ext_look; [exact X|]. rewrite Sp. subst ninst. apply look_push_new.
  - injection St as St.
    assert (L1 : ninst = length (d_sp d1 SInstance)) by (rewrite <- St; cbn; unfold push; cbn; exact Hn).
    eapply (IH d1); eauto.
  - injection St as St.
    assert (L1 : ninst = length (d_sp d1 SInstance)) by (rewrite <- St; cbn; unfold push; cbn; exact Hn).
    eapply (IH d1); eauto.
  - apply andb_true_iff in Ok1 as [Os _]. apply sort_eqb_eq in Os. subst s.
    destruct (look (d_sp d) SInstance inst); try discriminate. injection St as St.
    assert (L1 : ninst = length (d_sp d1 SInstance)) by (rewrite <- St; cbn; unfold push; cbn; exact Hn).
    eapply (IH d1); eauto.
  - injection St as St.
    assert (L1 : ninst = length (d_sp d1 SInstance)).
    { rewrite <- St. cbn. apply orb_true_iff in Ok1 as [O|O]; apply sort_eqb_eq in O; subst s; unfold push; cbn; exact Hn. }
    eapply (IH d1); eauto.
Qed.

Lemma reg_lookup_in i reg v : reg_lookup i reg = Some v -> exists k, In (k, v) reg.
Proof.
  induction reg as [|[k w] r IH]; cbn; try discriminate.
  destruct (compat k i); [intros H; injection H as <-; eauto | intros H; apply IH in H as [k' ?]; eauto].
Qed.

Lemma node_ids_NoDup g : NoDup (node_ids g).
Proof.
  unfold node_ids, nodes_where.
  assert (G : forall (l : list (option node)) k,
            let r := flat_map (fun p : nat * option node => match snd p with Some _ => [fst p] | None => [] end) (combine (seq k (length l)) l) in
            NoDup r /\ forall x, In x r -> k <= x).
  { induction l as [|o l IH]; intros k; cbn; [split; [constructor | tauto]|].
    destruct (IH (S k)) as [N B]. destruct o; cbn.
    - split.
      + constructor; auto. intros I. apply B in I. lia.
      + intros x [<-|I]; [lia | apply B in I; lia].
    - split; auto. intros x I. apply B in I. lia. }
  apply (G (nodes g) 0).
Qed.

Section Imports.
  Variable e : wenv.
  Variable u : universe.
  Variable g : gstate.
  Variable dc : bool.
  Variable tau : tyenc.
  Variable ord : list nat.
  Hypothesis EI : EncInv e u g.
  Hypothesis T : Topo g ord.

  Notation ns := (node_sort e g).
  Notation np := (node_prov e u g ord).
  Notation import_nodes := (filter (is_import g) ord).

  (** ** the aggregation history *)
  Definition req_hist (np0 : nat * (name * kid)) : str * sort := (nstr e (fst (snd np0)), we_sort e (snd (snd np0))).
  Definition imp_name (n : nat) : name :=
    match get_node g n with Some nd => match nk nd with NImport nm => nm | _ => 0%N end | None => 0%N end.
  Definition imp_hist (n : nat) : str * sort := (nstr e (imp_name n), ns n).
  Definition hist : list (str * sort) := map req_hist (implicit_requests u g) ++ map imp_hist import_nodes.

  Lemma is_import_true n : is_import g n = true -> exists nd, get_node g n = Some nd /\ nk nd = NImport (imp_name n).
  Proof.
    unfold is_import, imp_name. destruct (get_node g n) as [nd|]; try discriminate.
    destruct (nk nd) eqn:K; try discriminate. intros _. exists nd. auto.
  Qed.

  Lemma resolve_implicit_ok a0 impl :
    resolve_implicit e u g = ROk (a0, impl) ->
    AggInv a0 (map req_hist (implicit_requests u g)) /\
    impl = map (fun np0 : nat * (name * kid) => (fst (snd np0), snd (snd np0), fst np0)) (implicit_requests u g).
  Proof.
    unfold resolve_implicit. intros F.
    set (f := fun (s : agg * list (name * kid * nat)) (np0 : nat * (name * kid)) =>
                let '(a, impl) := s in let '(n, p) := np0 in
                match alist_get N.eqb (imports g) (fst p) with
                | Some imp => RErr (EImplicitImportConflict imp n (nstr e (fst p)))
                | None => match agg_add a (nstr e (fst p)) (we_sort e (snd p)) (we_iid e (snd p)) with
                          | AggOk a' => ROk (a', impl ++ [(fst p, snd p, n)])
                          | AggKindMismatch => RErr (EMergeConflict (nstr e (fst p)))
                          end
                end).
    apply (fold_res_ind f (fun pre s => AggInv (fst s) (map req_hist pre) /\
             snd s = map (fun np0 : nat * (name * kid) => (fst (snd np0), snd (snd np0), fst np0)) pre) _ _ _ F).
    - split; [apply agg_inv_empty | reflexivity].
    - intros pre [n [nm k]] post [a im] [a1 im1] _ [AI Ei] R. unfold f in R. cbn in *.
      destruct (alist_get N.eqb (imports g) nm); try discriminate.
      destruct (agg_add a (nstr e nm) (we_sort e k) (we_iid e k)) as [a'|] eqn:A; try discriminate.
      injection R as <- <-. rewrite !map_app. cbn. split.
      + eapply agg_add_inv; eauto.
      + now rewrite Ei.
  Qed.

  Lemma resolve_explicit_ok a0 a expl :
    AggInv a0 (map req_hist (implicit_requests u g)) ->
    resolve_explicit e g a0 import_nodes = ROk (a, expl) ->
    AggInv a hist /\ expl = map (fun n => (nstr e (imp_name n), n)) import_nodes.
  Proof.
    intros AI0 F. unfold resolve_explicit in F.
    set (f := fun (s : agg * list (str * nat)) (n : nat) =>
                let '(a, ex) := s in
                match get_node g n with
                | Some nd => match nk nd with
                             | NImport nm => match agg_add a (nstr e nm) (we_sort e (nitem nd)) (we_iid e (nitem nd)) with
                                             | AggOk a' => ROk (a', ex ++ [(nstr e nm, n)])
                                             | AggKindMismatch => RErr (EPanic XBadNode)
                                             end
                             | _ => ROk (a, ex)
                             end
                | None => RErr (EPanic XBadNode)
                end).
    apply (fold_res_ind f (fun pre s => AggInv (fst s) (map req_hist (implicit_requests u g) ++ map imp_hist pre) /\
             snd s = map (fun n => (nstr e (imp_name n), n)) pre) _ _ _ F).
    - cbn. rewrite app_nil_r. auto.
    - intros pre n post [a1 ex1] [a2 ex2] El [AI Ee] R. unfold f in R. cbn in *.
      assert (In_n : In n import_nodes) by (rewrite El; apply in_or_app; cbn; auto).
      apply filter_In in In_n as [_ Im]. destruct (is_import_true _ Im) as [nd [G K]].
      rewrite G, K in R.
      destruct (agg_add a1 _ _ _) as [a'|] eqn:A; try discriminate. injection R as <- <-.
      rewrite !map_app. cbn. split.
      + rewrite app_assoc. eapply agg_add_inv; [exact AI|]. unfold node_sort. rewrite G. exact A.
      + now rewrite Ee.
  Qed.

  (** ** the names the aggregator saw are the names the specification ranges over *)
  Lemma hist_names_set x : In x (map fst hist) <-> In x (all_import_names e u g).
  Proof.
    unfold hist, all_import_names. rewrite map_app, !in_app_iff.
    assert (A : In x (map fst (map req_hist (implicit_requests u g))) <-> In x (implicit_names e u g)).
    { unfold implicit_requests, implicit_names. rewrite map_map, !in_map_iff. setoid_rewrite in_flat_map. split.
      - intros [[n [nm k]] [E [m [Im I]]]]. apply in_map_iff in I as [p [Ep I]]. injection Ep as -> ->. cbn in E.
        apply filter_In in Im as [Im _]. exists n. split; auto. apply in_map_iff. exists (nm, k). auto.
      - intros [m [Im I]]. apply in_map_iff in I as [[nm k] [E I]]. cbn in E.
        exists (m, (nm, k)). split; auto. exists m. split.
        + apply filter_In. split; auto. unfold unsat_args in I. unfold is_inst.
          destruct (get_node g m) as [nd|]; [|destruct I]. destruct (nk nd); auto; destruct I.
        + apply in_map_iff. eauto. }
    assert (B : In x (map fst (map imp_hist import_nodes)) <-> In x (explicit_names e g)).
    { unfold explicit_names. rewrite map_map, in_map_iff, in_flat_map. split.
      - intros [n [E I]]. apply filter_In in I as [Io Im]. destruct (is_import_true _ Im) as [nd [G K]].
        exists n. split.
        + apply node_ids_In. now apply (to_live _ _ T).
        + rewrite G, K. cbn in E. left. exact E.
      - intros [n [I H]]. destruct (get_node g n) as [nd|] eqn:G; [|destruct H].
        destruct (nk nd) eqn:K; try destruct H as [H|[]]; try destruct H.
        exists n. split.
        + cbn. unfold imp_name. now rewrite G, K.
        + apply filter_In. split; [now apply (to_all _ _ T)|]. unfold is_import. now rewrite G, K. }
    tauto.
  Qed.

  Lemma canonical_is_canon a nm s : AggInv a hist -> In (nm, s) hist -> canonical_name a nm = canon e u g nm.
  Proof.
    intros AI I. rewrite (agg_canon_eq _ _ _ _ AI I). unfold canon. apply canon_in_set, hist_names_set.
  Qed.

  (** ** emission of the imports *)
  Record AInv (pre : list aentry) (st : est) (enc : list (str * (sort * nat))) (d : dstate) : Prop := {
    av_dec : decode_from d_init (e_log st) = Some d;
    av_struct : d_insts d = [] /\ d_exports d = [] /\ d_comps d = [];
    av_fields : e_nidx st = [] /\ e_pkgs st = [] /\ e_impl st = [];
    av_reg : forall k idx under, In (k, (idx, under)) (e_reg st) -> look (d_sp d) SInstance idx = Some (PImp under);
    av_enc : forall nm s idx, In (nm, (s, idx)) enc ->
             exists under, look (d_sp d) s idx = Some (PImp under) /\ (under = nm \/ In (nm, under) (e_dedup st));
    av_dom : forall x, In x pre -> exists idx, str_assoc (ae_name x) enc = Some (ae_sort x, idx) }.

  Lemma run_ty_reg st rq st1 ty :
    run_ty tau st rq = ROk (st1, ty) ->
    exists its, e_log st1 = e_log st ++ its /\ ty_items_ok (cnt SInstance (e_log st)) its = true /\
                e_reg st1 = reg_deps (cnt SInstance (e_log st)) its (e_reg st).
  Proof.
    unfold run_ty. destruct (tau (e_log st) rq) as [its idx].
    destruct (ty_items_ok _ its) eqn:O; try discriminate. intros H. injection H as <- <-. exists its. auto.
  Qed.

  Lemma import_step pre st enc d x st1 idx :
    AInv pre st enc d -> ~ In (ae_name x) (map ae_name pre) ->
    import_ tau st x = ROk (st1, idx) ->
    exists d1, AInv (pre ++ [x]) st1 ((ae_name x, (ae_sort x, idx)) :: enc) d1.
  Proof.
    intros [A [S1 [S2 S3]] [F1 [F2 F3]] RG EN DM] Nx R.
    assert (DM' : forall enc0 y, In y pre -> (exists i, str_assoc (ae_name y) enc = Some (ae_sort y, i)) ->
                  exists i, str_assoc (ae_name y) ((ae_name x, enc0) :: enc) = Some (ae_sort y, i)).
    { intros enc0 y Iy H. cbn. destruct (str_eqb (ae_name x) (ae_name y)) eqn:E; auto.
      apply str_eqb_eq in E. exfalso. apply Nx. rewrite E. now apply in_map. }
    (* the two ways [import_] can go *)
    assert (Fresh : (bind (run_ty tau st (TImport (ae_name x) (ae_sort x)))
               (fun p => let '(st1, _) := p in
                 let idx := cnt (ae_sort x) (e_log st1) in
                 let st2 := emit st1 (IImport (ae_name x) (ae_sort x)) in
                 ROk (match ae_sort x, ae_iid x with
                      | SInstance, Some i =>
                          {| e_log := e_log st2; e_nidx := e_nidx st2; e_pkgs := e_pkgs st2; e_reg := (i, (idx, ae_name x)) :: e_reg st2;
                             e_impl := e_impl st2; e_dedup := e_dedup st2 |}
                      | _, _ => st2
                      end, idx)) = ROk (st1, idx)) ->
             exists d1, AInv (pre ++ [x]) st1 ((ae_name x, (ae_sort x, idx)) :: enc) d1).
    { intros Rf. apply bind_ok in Rf as [[st' ty] [Rt Rf]].
      pose proof (run_ty_inv _ _ _ _ _ Rt) as [its [L [O [N0 [P0 [I0 D0]]]]]].
      pose proof (run_ty_reg _ _ _ _ Rt) as [its' [L' [_ Rg']]].
      assert (its' = its) by (rewrite L in L'; now apply app_inv_head in L'). subst its'.
      rewrite <- (decode_length _ _ SInstance A) in O.
      destruct (ty_items_decode its d _ eq_refl O) as [d' [D' [X' [T1 [T2 T3]]]]].
      assert (A' : decode_from d_init (e_log st') = Some d') by (rewrite L, decode_from_app, A; exact D').
      set (sx := ae_sort x) in *. set (nx := ae_name x) in *.
      set (d1 := {| d_sp := push (d_sp d') sx (PImp nx); d_insts := d_insts d'; d_exports := d_exports d'; d_comps := d_comps d';
                    d_imports := d_imports d' ++ [(nx, sx, false)] |}).
      assert (Lnew : look (d_sp d1) sx (cnt sx (e_log st')) = Some (PImp nx)).
      { rewrite <- (decode_length _ _ sx A'). cbn. apply look_push_new. }
      assert (X1 : sp_ext (d_sp d) (d_sp d1)) by (eapply sp_ext_trans; [exact X' | apply sp_ext_push]).
      assert (RG' : forall k i un, In (k, (i, un)) (e_reg st') -> look (d_sp d1) SInstance i = Some (PImp un)).
      { intros k i un Ik. rewrite Rg' in Ik. rewrite <- (decode_length _ _ SInstance A) in Ik.
        destruct (ty_items_reg its d _ (e_reg st) d' eq_refl O D' _ _ _ Ik) as [Io|Ln].
        - eapply sp_ext_look; [exact X1 | eauto].
        - cbn. now apply look_push_old. }
      exists d1.
      assert (Common : forall st2, e_log st2 = e_log st' ++ [IImport nx sx] -> e_nidx st2 = e_nidx st' -> e_pkgs st2 = e_pkgs st' ->
                 e_impl st2 = e_impl st' -> e_dedup st2 = e_dedup st' ->
                 (forall k i un, In (k, (i, un)) (e_reg st2) -> look (d_sp d1) SInstance i = Some (PImp un)) ->
                 AInv (pre ++ [x]) st2 ((nx, (sx, cnt sx (e_log st'))) :: enc) d1).
      { intros st2 L2 N2 P2 I2 D2 R2. constructor.
        - rewrite L2, (decode_from_snoc _ _ _ _ A'). reflexivity.
        - cbn. rewrite T1, T2, T3. auto.
        - rewrite N2, P2, I2, N0, P0, I0. auto.
        - exact R2.
        - intros nm s i [E|I].
          + injection E as <- <- <-. exists nx. split; auto.
          + destruct (EN _ _ _ I) as [un [Lu Hu]]. exists un. split.
            * eapply sp_ext_look; eauto.
            * destruct Hu; auto. right. rewrite D2, D0. auto.
        - intros y Iy. apply in_app_or in Iy as [Iy|[<-|[]]].
          + apply DM'; auto.
          + exists (cnt sx (e_log st')). cbn. fold nx. now rewrite str_eqb_refl. }
      destruct (ae_iid x) as [i|] eqn:Ei.
      2:{ assert (Rf' : ROk (emit st' (IImport nx sx), cnt sx (e_log st')) = ROk (st1, idx)) by (destruct sx; exact Rf).
          injection Rf' as <- <-. apply Common; auto. }
      destruct sx eqn:Esx; try (injection Rf as <- <-; apply Common; auto; fail).
      injection Rf as <- <-. apply Common; auto.
      cbn. intros k i0 un [E|Ik]; [injection E as <- <- <-; exact Lnew | eauto]. }
    unfold import_ in R.
    destruct (ae_sort x) eqn:Esx; try (apply Fresh; exact R).
    destruct (ae_iid x) as [i|] eqn:Ei; [|apply Fresh; exact R].
    destruct (reg_lookup i (e_reg st)) as [[ix under]|] eqn:RL; [|apply Fresh; exact R].
    (* answered by an interface that is already imported *)
    injection R as <- <-. apply reg_lookup_in in RL as [k Ik].
    exists d. constructor; cbn; auto.
    - intros nm s i0 [E|I].
      + injection E as <- <- <-. exists under. split; [eapply RG; eauto|]. right. apply in_or_app. right. cbn. auto.
      + destruct (EN _ _ _ I) as [un [Lu Hu]]. exists un. split; auto. destruct Hu; auto. right. apply in_or_app. auto.
    - intros y Iy. apply in_app_or in Iy as [Iy|[<-|[]]].
      + apply DM'; auto.
      + exists ix. cbn. rewrite str_eqb_refl. now rewrite Esx.
  Qed.

  (** ** the whole import phase *)
  Lemma NoDup_partition {A B} (f : A -> B) (p : A -> bool) l :
    NoDup (map f l) -> NoDup (map f (filter p l ++ filter (fun x => negb (p x)) l)).
  Proof.
    induction l as [|x r IH]; cbn; intros N; [constructor|]. inversion N as [|? ? Nx Nr]; subst.
    specialize (IH Nr).
    assert (Hin : forall q, In (f x) (map f (filter q r)) -> In (f x) (map f r)).
    { intros q I. apply in_map_iff in I as [y [E I]]. apply filter_In in I as [I _]. rewrite <- E. now apply in_map. }
    destruct (p x); cbn.
    - constructor; auto. rewrite map_app, in_app_iff. intros [I|I]; apply Hin in I; auto.
    - rewrite map_app in *. cbn. apply (Permutation_NoDup (Permutation_middle _ _ _)). constructor; auto.
      rewrite in_app_iff. intros [I|I]; apply Hin in I; auto.
  Qed.

  Lemma flat_map_select {X} (n : nat) (F : nat -> list X) M :
    NoDup M -> flat_map (fun m => if m =? n then F m else []) M = if existsb (Nat.eqb n) M then F n else [].
  Proof.
    induction M as [|m r IH]; cbn; intros N; auto. inversion N as [|? ? Nm Nr]; subst.
    rewrite (IH Nr). destruct (m =? n) eqn:E.
    - apply Nat.eqb_eq in E. subst m. rewrite Nat.eqb_refl. cbn.
      rewrite (existsb_eqb_false n r Nm), app_nil_r. reflexivity.
    - rewrite Nat.eqb_sym, E. cbn. reflexivity.
  Qed.

  Definition Rimp (a : agg) (encoded : list (str * (sort * nat))) (p : name * kid * nat) (q : nat * arg) : Prop :=
    let '(nm, _, node) := p in let '(node', (nm', s, idx)) := q in
    node' = node /\ nm' = nstr e nm /\ str_assoc (canonical_name a (nstr e nm)) encoded = Some (s, idx).

  Definition exp_arg (r : nat * (name * kid)) : parg :=
    (nstr e (fst (snd r)), we_sort e (snd (snd r)), PImp (canon e u g (nstr e (fst (snd r))))).

  Lemma implicit_args_select n :
    flat_map (fun r : nat * (name * kid) => if fst r =? n then [exp_arg r] else []) (implicit_requests u g)
    = implicit_args e u g n.
  Proof.
    unfold implicit_requests.
    assert (FF : forall {A B C} (F : B -> list C) (G : A -> list B) (M : list A),
                 flat_map F (flat_map G M) = flat_map (fun m => flat_map F (G m)) M).
    { intros A B C F G M. induction M as [|m r IH]; cbn; auto. now rewrite flat_map_app, IH. }
    rewrite FF.
    assert (E : forall m, flat_map (fun r : nat * (name * kid) => if fst r =? n then [exp_arg r] else [])
                                   (map (fun p => (m, p)) (unsat_args u g m))
                          = if m =? n then implicit_args e u g m else []).
    { intros m. unfold implicit_args. induction (unsat_args u g m) as [|p r IH]; cbn; [now destruct (m =? n)|].
      rewrite IH. destruct (m =? n); reflexivity. }
    rewrite (flat_map_ext _ _ E).
    rewrite (flat_map_select n (implicit_args e u g)).
    2:{ apply NoDup_filter, node_ids_NoDup. }
    destruct (existsb (Nat.eqb n) (filter (is_inst g) (node_ids g))) eqn:X; auto.
    (* a node that is not a live instantiation has no unsatisfied arguments *)
    unfold implicit_args, unsat_args. destruct (get_node g n) as [nd|] eqn:G; auto.
    destruct (nk nd) eqn:K; auto. exfalso.
    assert (I : In n (filter (is_inst g) (node_ids g))).
    { apply filter_In. split; [apply node_ids_In; unfold live; now rewrite G | unfold is_inst; now rewrite G, K]. }
    rewrite (existsb_eqb_true n _ I) in X. discriminate.
  Qed.

  Lemma encode_imports_ok st0 :
    encode_imports e u g tau est_init import_nodes = ROk st0 ->
    (forall p, In p (e_dedup st0) -> fst p = snd p) ->
    exists d0, LInv e u g dc ord [] st0 d0.
  Proof.
    intros R Cons. unfold encode_imports in R.
    apply bind_ok in R as [[a0 impl] [R1 R]]. apply bind_ok in R as [[a expl] [R2 R]].
    apply bind_ok in R as [[st1 encoded] [R3 R]]. apply bind_ok in R as [st2 [R4 R5]].
    destruct (resolve_implicit_ok _ _ R1) as [AI0 Eimpl]. destruct (resolve_explicit_ok _ _ _ AI0 R2) as [AI Eexpl].
    set (order := filter is_instance_entry (a_imps a) ++ filter (fun x => negb (is_instance_entry x)) (a_imps a)) in *.
    assert (Nord : NoDup (map ae_name order)) by (apply NoDup_partition, (ai_nodup _ _ AI)).
    assert (Iord : forall x, In x (a_imps a) -> In x order).
    { intros x I. unfold order. rewrite in_app_iff, !filter_In. destruct (is_instance_entry x); cbn; auto. }
    (* emission of the imports *)
    assert (E3 : exists d1, AInv order st1 encoded d1).
    { set (f := fun (s : est * list (str * (sort * nat))) (x : aentry) =>
                  let '(st, enc) := s in
                  bind (import_ tau st x) (fun p => let '(st', idx) := p in ROk (st', (ae_name x, (ae_sort x, idx)) :: enc))).
      apply (fold_res_ind f (fun pre s => exists d, AInv pre (fst s) (snd s) d) _ _ _ R3).
      - exists d_init. constructor; cbn; auto; try tauto; intros; tauto.
      - intros pre x post [st enc] [st' enc'] El [d AV] Rs. unfold f in Rs.
        apply bind_ok in Rs as [[st'' idx] [Ri Rs]]. injection Rs as <- <-. cbn.
        eapply import_step; eauto.
        rewrite El, map_app in Nord. cbn in Nord. apply NoDup_remove_2 in Nord. intros I. apply Nord. apply in_or_app. auto. }
    destruct E3 as [d1 [A1 [S1 [S2 S3]] [F1 [F2 F3]] RG EN DM]].
    (* implicit argument table *)
    assert (E4 : e_log st2 = e_log st1 /\ e_nidx st2 = [] /\ e_pkgs st2 = [] /\ e_dedup st2 = e_dedup st1 /\
                 Forall2 (Rimp a encoded) impl (e_impl st2)).
    { set (f := fun (st : est) (p : name * kid * nat) =>
                  let '(nm, _, node) := p in
                  match str_assoc (canonical_name a (nstr e nm)) encoded with
                  | Some (s, idx) =>
                      ROk {| e_log := e_log st; e_nidx := e_nidx st; e_pkgs := e_pkgs st; e_reg := e_reg st;
                             e_impl := e_impl st ++ [(node, (nstr e nm, s, idx))]; e_dedup := e_dedup st |}
                  | None => RErr (EPanic XEncodedMissing)
                  end).
      apply (fold_res_ind f (fun pre st => e_log st = e_log st1 /\ e_nidx st = [] /\ e_pkgs st = [] /\ e_dedup st = e_dedup st1 /\
                                           Forall2 (Rimp a encoded) pre (e_impl st)) _ _ _ R4).
      - rewrite F3. repeat split; auto.
      - intros pre [[nm k] node] post st st' _ [L [N [P [D FA]]]] Rs. unfold f in Rs.
        destruct (str_assoc (canonical_name a (nstr e nm)) encoded) as [[s idx]|] eqn:SA; try discriminate.
        injection Rs as <-. cbn. repeat split; auto. apply Forall2_app; auto. constructor; [|constructor]. cbn. auto. }
    destruct E4 as [L2 [N2 [P2 [D2 FA2]]]].
    (* node indexes of the explicit imports *)
    assert (E5 : e_log st0 = e_log st1 /\ e_pkgs st0 = [] /\ e_impl st0 = e_impl st2 /\ e_dedup st0 = e_dedup st1 /\
                 forall n idx, In (n, idx) (e_nidx st0) ->
                   exists nm s, In (nm, n) expl /\ str_assoc (canonical_name a nm) encoded = Some (s, idx)).
    { set (f := fun (st : est) (p : str * nat) =>
                  match str_assoc (canonical_name a (fst p)) encoded with
                  | Some (_, idx) =>
                      ROk {| e_log := e_log st; e_nidx := (snd p, idx) :: e_nidx st; e_pkgs := e_pkgs st; e_reg := e_reg st;
                             e_impl := e_impl st; e_dedup := e_dedup st |}
                  | None => RErr (EPanic XEncodedMissing)
                  end).
      apply (fold_res_ind f (fun pre st => e_log st = e_log st1 /\ e_pkgs st = [] /\ e_impl st = e_impl st2 /\ e_dedup st = e_dedup st1 /\
                 forall n idx, In (n, idx) (e_nidx st) ->
                   exists nm s, In (nm, n) pre /\ str_assoc (canonical_name a nm) encoded = Some (s, idx)) _ _ _ R5).
      - rewrite N2. repeat split; auto. intros n idx [].
      - intros pre [nm n] post st st' _ [L [P [I [D NX]]]] Rs. unfold f in Rs. cbn in Rs.
        destruct (str_assoc (canonical_name a nm) encoded) as [[s idx]|] eqn:SA; try discriminate.
        injection Rs as <-. cbn. repeat split; auto. intros m i [E|Im].
        + injection E as <- <-. exists nm, s. split; auto. apply in_or_app. right. cbn. auto.
        + destruct (NX _ _ Im) as [nm' [s' [? ?]]]. exists nm', s'. split; auto. apply in_or_app. auto. }
    destruct E5 as [L0 [P0 [I0 [D0 NX0]]]].
    (* what a successful lookup in [encoded] means *)
    assert (EL : forall nm s0 s idx, In (nm, s0) hist -> str_assoc (canonical_name a nm) encoded = Some (s, idx) ->
                 s = s0 /\ look (d_sp d1) s idx = Some (PImp (canon e u g nm))).
    { intros nm s0 s idx Ih SA.
      destruct (agg_canonical _ _ _ _ AI Ih) as [Ic _]. apply in_map_iff in Ic as [x [Ex Ix]].
      destruct (DM x (Iord x Ix)) as [i' Hx]. rewrite Ex, SA in Hx. injection Hx as -> ->.
      split; [eapply agg_entry_sort; eauto|].
      apply str_assoc_some in SA. destruct (EN _ _ _ SA) as [under [Lu Hu]].
      assert (under = canonical_name a nm).
      { destruct Hu as [?|Hu]; auto. rewrite <- D0 in Hu. apply Cons in Hu. cbn in Hu. congruence. }
      subst under. now rewrite <- (canonical_is_canon _ _ _ AI Ih). }
    exists d1. constructor.
    - now rewrite L0.
    - intros n idx Hn. apply nat_assoc_in in Hn. destruct (NX0 _ _ Hn) as [nm [s [Ie SA]]].
      rewrite Eexpl in Ie. apply in_map_iff in Ie as [n' [E In_n]]. injection E as <- <-.
      pose proof In_n as In_n'. apply filter_In in In_n' as [Io Im]. destruct (is_import_true _ Im) as [nd [G K]].
      split; auto.
      assert (Ih : In (imp_hist n') hist) by (unfold hist; apply in_or_app; right; now apply in_map).
      destruct (EL _ _ _ _ Ih SA) as [-> Lk].
      rewrite (node_prov_import e u g ord n' nd _ G K). exact Lk.
    - intros n. unfold impl_of. rewrite I0, <- implicit_args_select.
      (* element by element along the requests *)
      assert (G : forall reqs l,
                Forall2 (Rimp a encoded) (map (fun np0 : nat * (name * kid) => (fst (snd np0), snd (snd np0), fst np0)) reqs) l ->
                (forall r, In r reqs -> In (req_hist r) hist) ->
                look_args (d_sp d1) (flat_map (fun p : nat * arg => if fst p =? n then [snd p] else []) l)
                = Some (flat_map (fun r : nat * (name * kid) => if fst r =? n then [exp_arg r] else []) reqs)).
      { induction reqs as [|[m [nm k]] r IH]; intros l FA Hh; inversion FA as [|p q ps qs Rpq FAr]; subst; cbn; auto.
        destruct q as [m' [[nm' s] idx]]. cbn in Rpq. destruct Rpq as [-> [-> SA]].
        assert (Ih : In (req_hist (m, (nm, k))) hist) by (apply Hh; cbn; auto).
        destruct (EL _ _ _ _ Ih SA) as [Es Lk]. cbn in Es. subst s.
        rewrite look_args_app, (IH _ FAr) by (intros; apply Hh; cbn; auto).
        cbn [fst snd]. destruct (m =? n); cbn; auto. cbn in Lk. unfold look in *. now rewrite Lk. }
      rewrite Eimpl in FA2. apply G; auto.
      intros r Ir. unfold hist. apply in_or_app. left. now apply in_map.
    - now rewrite S1.
    - now rewrite S2.
    - intros pid ci Hp. rewrite P0 in Hp. discriminate.
    - intros p [].
    - rewrite S3. cbn. now destruct dc.
  Qed.
End Imports.
