(** C04: the hypotheses of the simulation theorem are satisfiable: a universe with an injective name
    table (strings as positives: every code point in unary), checked against [uok]. *)
From Coq Require Import List Arith Bool NArith String Lia.
From WacV Require Import Str StrLit Token Lexer LexImpl Semver Names Ast Parser Graph Resolver LangSpec
  ResolverProofs ResolverSim ResolverSimStmt ResolverWitness.
Import ListNotations.
Local Open Scope N_scope.

Fixpoint zeros (n : nat) (p : positive) : positive := match n with O => p | Datatypes.S m => xO (zeros m p) end.

Fixpoint enc_str (s : str) : positive :=
  match s with
  | [] => xH
  | c :: r => zeros (N.to_nat c) (xI (enc_str r))
  end.

Fixpoint dec_pos (p : positive) (acc : N) : str :=
  match p with
  | xH => []
  | xO q => dec_pos q (acc + 1)
  | xI q => acc :: dec_pos q 0
  end.

Lemma dec_zeros n q acc : dec_pos (zeros n q) acc = dec_pos q (acc + N.of_nat n).
Proof.
  revert acc. induction n as [|n IH]; intros acc; cbn [zeros dec_pos].
  - now rewrite N.add_0_r.
  - rewrite IH. f_equal. lia.
Qed.

Lemma dec_enc s : dec_pos (enc_str s) 0 = s.
Proof.
  induction s as [|c r IH]; cbn [enc_str]; [reflexivity|].
  rewrite dec_zeros. cbn [dec_pos]. rewrite IH, N.add_0_l, N2Nat.id. reflexivity.
Qed.

Definition intern_str (s : str) : name := Npos (enc_str s).
Definition text_name (n : name) : str := match n with N0 => [] | Npos p => dec_pos p 0 end.

Lemma text_intern s : text_name (intern_str s) = s.
Proof. apply dec_enc. Qed.

(** the witness universe of [ResolverWitness], with this name table *)
Definition n_ (s : str) : name := intern_str s.

Definition v_graph : universe := {|
  u_inst_exports := fun k => if k =? 1 then Some [(n_ (L"f"), 0); (n_ (L"x:y/f"), 0)]
                             else if k =? 2 then Some [(n_ (L"g"), 0)] else None;
  u_pkgs := [ {| pd_inst := 1; pd_imports := [] |};
              {| pd_inst := 2; pd_imports := [(n_ (L"f"), 0); (n_ (L"x:y/f"), 0)] |} ];
  u_tys := [];
  u_lkinds := [0; 1; 2];
  u_sub := N.eqb;
  u_import_name_ok := fun _ => true;
  u_export_name_ok := fun _ => true |}.

Definition v_universe : runiverse := {|
  ru_graph := v_graph;
  ru_intern := intern_str;
  ru_text := text_name;
  ru_pkg_find := ru_pkg_find w_universe;
  ru_pkg_defs := fun _ => [];
  ru_proj_exports := fun _ => None;
  ru_promote := fun k => k;
  ru_kind_id := fun _ => None;
  ru_func_kind := fun s => match s with [] => Some 0 | _ => None end |}.

Definition v_K (k : kid) : Prop := k < 3.

Lemma v_uok : uok v_universe v_K.
Proof.
  constructor.
  - exact text_intern.
  - intros p pd n k Hp Hin. destruct p as [|[|[|p]]]; cbn in Hp; try discriminate; injection Hp as <-; cbn in Hin.
    + destruct Hin.
    + destruct Hin as [[= <- _]|[[= <- _]|[]]]; cbn [ru_text ru_intern v_universe]; unfold n_; now rewrite text_intern.
  - intros k ex n k' He Hin. cbn in He. destruct (k =? 1).
    + injection He as <-. destruct Hin as [[= <- _]|[[= <- _]|[]]]; cbn [ru_text ru_intern v_universe]; unfold n_; now rewrite text_intern.
    + destruct (k =? 2); [|discriminate]. injection He as <-.
      destruct Hin as [[= <- _]|[]]; cbn [ru_text ru_intern v_universe]; unfold n_; now rewrite text_intern.
  - intros nm v p H. cbn in H. destruct v; [discriminate|]. cbn.
    destruct (str_eqb nm _); [injection H as <-; lia|]. destruct (str_eqb nm _); [injection H as <-; lia|discriminate].
  - intros p pd Hp. destruct p as [|[|[|p]]]; cbn in Hp; try discriminate; injection Hp as <-; cbn.
    + constructor.
    + constructor; [|constructor; [intros []|constructor]]. intros [E|[]]. vm_compute in E. discriminate.
  - intros k Hk. unfold v_K in Hk. cbn.
    destruct k as [|[[|[]|]|[|[]|]|]]; try (exfalso; lia); reflexivity.
  - intros k Hk. exact Hk.
  - intros s k H. cbn in H. destruct s; [injection H as <-; unfold v_K; lia|discriminate].
  - intros p s k [].
  - intros k ex s k' _ H. discriminate.
  - intros p pd Hp. destruct p as [|[|[|p]]]; cbn in Hp; try discriminate; injection Hp as <-; unfold v_K; cbn; lia.
  - intros k ex n k' _ He Hin. cbn in He. destruct (k =? 1).
    + injection He as <-. destruct Hin as [[= _ <-]|[[= _ <-]|[]]]; unfold v_K; lia.
    + destruct (k =? 2); [|discriminate]. injection He as <-. destruct Hin as [[= _ <-]|[]]; unfold v_K; lia.
Qed.

(** ... and the simulation theorem applies to a concrete program with all four argument forms *)
Definition v_checks (src : str) : bool :=
  match parse src with
  | Some d =>
      match pd_targets (doc_directive d), resolve v_universe d with
      | None, inl _ => true
      | _, _ => false
      end
  | None => false
  end.

Lemma v_checks_args : v_checks w_args = true.
Proof. vm_compute. reflexivity. Qed.

Lemma v_instance d :
  parse w_args = Some d ->
  exists st env vm, resolve v_universe d = inl st /\ denote impl_flags_c04 v_universe d = inl env /\ Rel v_universe v_K st env vm.
Proof.
  intros P. pose proof v_checks_args as C. unfold v_checks in C. rewrite P in C.
  destruct (pd_targets (doc_directive d)) eqn:NT; [discriminate|].
  pose proof (resolve_simulates_denote v_universe v_K d v_uok NT) as S.
  destruct (resolve v_universe d) as [st|f]; [|discriminate].
  destruct (denote impl_flags_c04 v_universe d) as [env|i]; [|destruct S].
  destruct S as (vm & R). exists st, env, vm. split; [reflexivity|]. split; [reflexivity|exact R].
Qed.

Lemma v_parses : exists d, parse w_args = Some d.
Proof. destruct (parse w_args) as [d|] eqn:P; [eauto|]. exfalso. revert P. vm_compute. discriminate. Qed.
