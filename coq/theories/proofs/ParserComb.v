(** Verified parser-combinator layer: soundness and completeness lemmas for the primitives of
    [Parser.v] ([bind], [next_tok]/[parse_token], [parse_optional], [alt], [delimited]) against the
    grammar combinators of [Grammar.v] ([tok], [opt], [seplist], [many]). Productions are then
    discharged by composition (see [ParserProofs.v]). *)
From WacV Require Import Str Token Lexer Semver Ast Parser Grammar.
From Coq Require Import Lia.
Local Open Scope nat_scope.

(* ------------------------------------------------------------------ tokens *)

Lemma token_eqb_eq a b : token_eqb a b = true <-> a = b.
Proof.
  unfold token_eqb. rewrite N.eqb_eq. split; [|now intros ->].
  destruct a, b; cbn; intros H; try reflexivity; discriminate H.
Qed.

Lemma token_eqb_refl a : token_eqb a a = true.
Proof. now apply token_eqb_eq. Qed.

Lemma token_eqb_neq a b : token_eqb a b = false <-> a <> b.
Proof.
  split.
  - intros H E. apply token_eqb_eq in E. congruence.
  - intros H. destruct (token_eqb a b) eqn:E; auto. apply token_eqb_eq in E. contradiction.
Qed.

Lemma mem_tok_In k l : mem_tok k l = true <-> In k l.
Proof.
  induction l as [|x l IH]; cbn; [split; [discriminate|tauto]|].
  rewrite orb_true_iff, token_eqb_eq, IH. tauto.
Qed.

(* ------------------------------------------------------------------ bind *)

Lemma bind_ok {A B} (m : pres A) (k : A -> list lexitem -> pres B) b r :
  m >>= k = POk b r -> exists a r', m = POk a r' /\ k a r' = POk b r.
Proof. destruct m; cbn; try discriminate. eauto. Qed.

Lemma bind_POk {A B} (a : A) r (k : A -> list lexitem -> pres B) : POk a r >>= k = k a r.
Proof. reflexivity. Qed.

(* ------------------------------------------------------------------ next_tok / parse_token *)

Lemma next_tok_ok e k ts t r : next_tok e k ts = POk t r -> tok k ts r t.
Proof.
  unfold next_tok, tok. destruct ts as [|[t'| | | |] ts]; cbn; try discriminate.
  destruct (token_eqb (tk t') k) eqn:E; try discriminate.
  intros H; inversion H; subst. apply token_eqb_eq in E. auto.
Qed.

Lemma next_tok_complete e k ts t r : tok k ts r t -> next_tok e k ts = POk t r.
Proof. intros [-> <-]. unfold next_tok. now rewrite token_eqb_refl. Qed.

Lemma parse_token_ok e k ts sp r : parse_token e k ts = POk sp r -> exists t, tok k ts r t /\ sp = tsp t.
Proof.
  unfold parse_token. intros H. apply bind_ok in H. destruct H as (t & r' & H1 & H2).
  inversion H2; subst. apply next_tok_ok in H1. eauto.
Qed.

Lemma parse_token_complete e k ts t r : tok k ts r t -> parse_token e k ts = POk (tsp t) r.
Proof. intros H. unfold parse_token. now rewrite (next_tok_complete _ _ _ _ _ H). Qed.

Lemma any_tok_ok ts t r : any_tok ts = POk t r -> ts = LTok t :: r.
Proof. destruct ts as [|[t'| | | |] ts]; cbn; try discriminate. intros H; inversion H; now subst. Qed.

Lemma tok_len k ts r t : tok k ts r t -> length ts = S (length r).
Proof. intros [-> _]. reflexivity. Qed.

Lemma tok_peek k ts r t : tok k ts r t -> peek_kind ts = Some k.
Proof. intros [-> <-]. reflexivity. Qed.

Lemma peek_kind_Some ts k : peek_kind ts = Some k -> exists t r, ts = LTok t :: r /\ tk t = k.
Proof. destruct ts as [|[t| | | |] ts]; cbn; try discriminate. intros H; inversion H. eauto. Qed.

(* ------------------------------------------------------------------ parse_optional *)

Lemma parse_optional_ok {A} k (cb : parser A) (R : drel A) ts o r :
  (forall ts a r, cb ts = POk a r -> R ts r a) ->
  parse_optional k cb ts = POk o r -> opt k R ts r o.
Proof.
  intros Hcb. unfold parse_optional. destruct ts as [|[t| | | |] ts]; cbn; try discriminate.
  - intros H; inversion H; subst. constructor.
  - destruct (token_eqb (tk t) k) eqn:E.
    + intros H. apply bind_ok in H. destruct H as (a & r' & H1 & H2). inversion H2; subst.
      apply token_eqb_eq in E. econstructor; [split; [reflexivity|exact E]|]. now apply Hcb.
    + intros H; inversion H; subst. constructor.
Qed.

(** What may follow an absent optional part: the end of the input or a token other than [k]. *)
Definition not_next (k : token) (r : list lexitem) : Prop :=
  match r with [] => True | LTok t :: _ => tk t <> k | _ => False end.

Lemma parse_optional_complete {A} k (cb : parser A) (R : drel A) ts o r :
  (forall ts a r, R ts r a -> cb ts = POk a r) ->
  opt k R ts r o -> (o = None -> not_next k r) -> parse_optional k cb ts = POk o r.
Proof.
  intros Hcb Ho Hn. destruct Ho as [ts|ts r1 r t a [-> Hk] Ha].
  - specialize (Hn eq_refl). unfold parse_optional. destruct ts as [|[t| | | |] ts]; cbn in *; try tauto.
    apply token_eqb_neq in Hn. now rewrite Hn.
  - unfold parse_optional. rewrite <- Hk, token_eqb_refl. now rewrite (Hcb _ _ _ Ha).
Qed.

(* ------------------------------------------------------------------ alt *)

Lemma alt_ok {A} e (bs : list (list token * parser A)) ts a r :
  alt e bs ts = POk a r ->
  exists k first p, peek_kind ts = Some k /\ alt_find k bs = Some p /\ p ts = POk a r /\
                    In (first, p) bs /\ mem_tok k first = true.
Proof.
  unfold alt. destruct (peek_kind ts) as [k|] eqn:Ek.
  - destruct (alt_find k bs) as [p|] eqn:Ef.
    + intros H. assert (exists first, In (first, p) bs /\ mem_tok k first = true) as (first & Hin & Hm).
      { clear -Ef. induction bs as [|[f q] bs IH]; cbn in *; try discriminate.
        destruct (mem_tok k f) eqn:Em.
        - inversion Ef; subst. eauto.
        - destruct (IH Ef) as (f' & Hin & Hm). eauto. }
      exists k, first, p. auto.
    + unfold la_fail. destruct ts as [|[t| | | |] ts]; cbn; discriminate.
  - unfold la_fail. destruct ts as [|[t| | | |] ts]; cbn in *; discriminate.
Qed.

Lemma alt_complete {A} e (bs : list (list token * parser A)) ts k p a r :
  peek_kind ts = Some k -> alt_find k bs = Some p -> p ts = POk a r -> alt e bs ts = POk a r.
Proof. intros Hk Hf Hp. unfold alt. now rewrite Hk, Hf. Qed.

(* ------------------------------------------------------------------ la_fail never succeeds *)

Lemma la_fail_not_ok {A} e l ts (a : A) r : la_fail e l ts = POk a r -> False.
Proof. unfold la_fail. destruct ts as [|[t| | | |] ts]; cbn; discriminate. Qed.

(* ------------------------------------------------------------------ delimited *)

(** What follows a delimited list: the closing token. *)
Definition next_is (k : token) (r : list lexitem) : Prop := peek_kind r = Some k.

Lemma delim_loop_ok {A} (R : drel A) n e until first (p : parser A) :
  (forall ts a r, p ts = POk a r -> R ts r a) ->
  forall ts x r, delim_loop n e until true first p ts = POk x r -> seplist R ts r x /\ next_is until r.
Proof.
  intros Hp. induction n as [|n IH]; intros ts x r; cbn [delim_loop]; try discriminate.
  destruct (peek_kind ts) as [k|] eqn:Ek; [|intros H; now apply la_fail_not_ok in H].
  destruct (token_eqb k until) eqn:Eu.
  { intros H; inversion H; subst. apply token_eqb_eq in Eu. subst. split; [constructor|exact Ek]. }
  destruct (mem_tok k first); [|intros H; now apply la_fail_not_ok in H].
  intros H. apply bind_ok in H. destruct H as (a & r1 & Hpa & H).
  destruct (peek_kind r1) as [k2|] eqn:Ek2; [|now apply la_fail_not_ok in H].
  destruct (token_eqb k2 until) eqn:Eu2.
  { inversion H; subst. apply token_eqb_eq in Eu2; subst. split; [apply sl_one; auto|exact Ek2]. }
  apply bind_ok in H. destruct H as (sp & r2 & Hc & H).
  apply parse_token_ok in Hc. destruct Hc as (c & Hc & _).
  apply bind_ok in H. destruct H as ([items tr] & r3 & Hrec & H). inversion H; subst.
  destruct (IH _ _ _ Hrec) as [Hs Hn]. split; [|exact Hn].
  destruct items as [|i items].
  - inversion Hs; subst. eapply sl_trail; eauto.
  - eapply sl_cons; eauto. discriminate.
Qed.

Lemma delim_loop_many_ok {A} (R : drel A) n e until first (p : parser A) :
  (forall ts a r, p ts = POk a r -> R ts r a) ->
  forall ts x r, delim_loop n e until false first p ts = POk x r -> many R ts r (fst x) /\ next_is until r.
Proof.
  intros Hp. induction n as [|n IH]; intros ts x r; cbn [delim_loop]; try discriminate.
  destruct (peek_kind ts) as [k|] eqn:Ek; [|intros H; now apply la_fail_not_ok in H].
  destruct (token_eqb k until) eqn:Eu.
  { intros H; inversion H; subst. apply token_eqb_eq in Eu. subst. split; [constructor|exact Ek]. }
  destruct (mem_tok k first); [|intros H; now apply la_fail_not_ok in H].
  intros H. apply bind_ok in H. destruct H as (a & r1 & Hpa & H).
  destruct (peek_kind r1) as [k2|] eqn:Ek2; [|now apply la_fail_not_ok in H].
  destruct (token_eqb k2 until) eqn:Eu2.
  { inversion H; subst. apply token_eqb_eq in Eu2; subst. split; [|exact Ek2].
    econstructor; [apply Hp; eauto|constructor]. }
  apply bind_ok in H. destruct H as ([items tr] & r3 & Hrec & H). inversion H; subst.
  destruct (IH _ _ _ Hrec) as [Hs Hn]. split; [|exact Hn]. cbn in *. econstructor; eauto.
Qed.

(** Side conditions under which [delimited] is complete for a list of items: every item starts with
    a token of [first]; [until] is neither in [first] nor a comma. *)
Definition starts_in {A} (R : drel A) (first : list token) : Prop :=
  forall ts r a, R ts r a -> exists t ts', ts = LTok t :: ts' /\ mem_tok (tk t) first = true.

(** An item is followed by a comma or by the closing token. *)
Definition item_follow (until : token) (r : list lexitem) : Prop :=
  peek_kind r = Some TComma \/ peek_kind r = Some until.

Lemma delim_loop_complete {A} (R : drel A) e until first (p : parser A) m :
  mem_tok until first = false -> until <> TComma ->
  (forall ts r a, R ts r a -> length ts <= m -> item_follow until r ->
     (exists t ts', ts = LTok t :: ts' /\ mem_tok (tk t) first = true) /\ p ts = POk a r /\ length r < length ts) ->
  forall ts x r, seplist R ts r x -> length ts <= m -> next_is until r ->
  (forall n, length ts < n -> delim_loop n e until true first p ts = POk x r) /\ length r <= length ts.
Proof.
  intros Hu Hc Hp ts x r Hs.
  induction Hs as [ts|ts r a Ha|ts r1 r a c Ha Hcm|ts r1 r2 r a c l tr Ha Hcm Hs IH Hl]; intros Hm Hn.
  - split; [|lia]. intros n Hlen. destruct n as [|n]; [lia|]. cbn [delim_loop].
    unfold next_is in Hn. rewrite Hn, token_eqb_refl. reflexivity.
  - destruct (Hp _ _ _ Ha Hm (or_intror Hn)) as ((t & ts' & -> & Hmem) & Hpa & Hl1). split; [|lia].
    intros n Hlen. destruct n as [|n]; [lia|]. cbn [delim_loop peek_kind].
    assert (token_eqb (tk t) until = false) as ->.
    { apply token_eqb_neq. intros E. rewrite E in Hmem. congruence. }
    rewrite Hmem, Hpa. cbn [bind]. unfold next_is in Hn. rewrite Hn, token_eqb_refl. reflexivity.
  - destruct (Hp _ _ _ Ha Hm (or_introl (tok_peek _ _ _ _ Hcm))) as ((t & ts' & -> & Hmem) & Hpa & Hl1).
    pose proof (tok_len _ _ _ _ Hcm) as Hl2. split; [|lia].
    intros n Hlen. destruct n as [|n]; [lia|]. cbn [delim_loop peek_kind].
    assert (token_eqb (tk t) until = false) as ->.
    { apply token_eqb_neq. intros E. rewrite E in Hmem. congruence. }
    rewrite Hmem, Hpa. cbn [bind]. rewrite (tok_peek _ _ _ _ Hcm).
    assert (token_eqb TComma until = false) as -> by (apply token_eqb_neq; congruence).
    rewrite (parse_token_complete e _ _ _ _ Hcm). cbn [bind].
    destruct n as [|n]; [cbn in *; lia|]. cbn [delim_loop].
    unfold next_is in Hn. rewrite Hn, token_eqb_refl. reflexivity.
  - destruct (Hp _ _ _ Ha Hm (or_introl (tok_peek _ _ _ _ Hcm))) as ((t & ts' & -> & Hmem) & Hpa & Hl1).
    pose proof (tok_len _ _ _ _ Hcm) as Hl2.
    destruct IH as [IH1 IH2]; [lia|exact Hn|]. split; [|lia].
    intros n Hlen. destruct n as [|n]; [lia|]. cbn [delim_loop peek_kind].
    assert (token_eqb (tk t) until = false) as ->.
    { apply token_eqb_neq. intros E. rewrite E in Hmem. congruence. }
    rewrite Hmem, Hpa. cbn [bind]. rewrite (tok_peek _ _ _ _ Hcm).
    assert (token_eqb TComma until = false) as -> by (apply token_eqb_neq; congruence).
    rewrite (parse_token_complete e _ _ _ _ Hcm). cbn [bind].
    rewrite (IH1 n) by (cbn in *; lia).
    cbn [bind]. destruct l; [contradiction|reflexivity].
Qed.

Lemma delim_loop_many_complete {A} (R : drel A) e until first (p : parser A) m :
  mem_tok until first = false ->
  (forall ts r a, R ts r a -> length ts <= m ->
     (exists t ts', ts = LTok t :: ts' /\ mem_tok (tk t) first = true) /\ p ts = POk a r /\ length r < length ts) ->
  forall ts l r, many R ts r l -> length ts <= m -> next_is until r ->
  (forall n, length ts < n -> exists tr, delim_loop n e until false first p ts = POk (l, tr) r) /\ length r <= length ts.
Proof.
  intros Hu Hp ts l r Hs. induction Hs as [ts|ts r1 r a l Ha Hs IH]; intros Hm Hn.
  - split; [|lia]. intros n Hlen. destruct n as [|n]; [lia|]. cbn [delim_loop].
    unfold next_is in Hn. rewrite Hn, token_eqb_refl. eauto.
  - destruct (Hp _ _ _ Ha Hm) as ((t & ts' & -> & Hmem) & Hpa & Hl1).
    destruct IH as [IH1 IH2]; [cbn in *; lia|exact Hn|]. split; [|lia].
    intros n Hlen. destruct n as [|n]; [lia|]. cbn [delim_loop peek_kind].
    assert (token_eqb (tk t) until = false) as ->.
    { apply token_eqb_neq. intros E. rewrite E in Hmem. congruence. }
    rewrite Hmem, Hpa. cbn [bind].
    inversion Hs; subst.
    + (* last item: the closing token follows *)
      unfold next_is in Hn. rewrite Hn, token_eqb_refl. eauto.
    + (* another item follows: it starts with a token of [first], which is not [until] *)
      match goal with Hx : R r1 _ _ |- _ =>
        destruct (Hp _ _ _ Hx) as ((t2 & ts2 & -> & Hm2) & _); [cbn in *; lia|] end.
      cbn [peek_kind].
      assert (token_eqb (tk t2) until = false) as ->.
      { apply token_eqb_neq. intros E. rewrite E in Hm2. congruence. }
      destruct (IH1 n) as (tr & ->); [cbn in *; lia|]. cbn [bind]. eauto.
Qed.
