(** The generated lexer tables against the tables written from LANGUAGE.md and the property text. *)
From WacV Require Import Str Ord Token Lexer LexTables LexImpl LexSpec.

(** Canonical form of a table: sorted by text (insertion sort on [str_cmp]). *)
Fixpoint insert_row (kv : str * token) (l : list (str * token)) : list (str * token) :=
  match l with
  | [] => [kv]
  | x :: r => match str_cmp (fst kv) (fst x) with Gt => x :: insert_row kv r | _ => kv :: l end
  end.
Definition sort_rows (l : list (str * token)) : list (str * token) := fold_right insert_row [] l.

Fixpoint insert_N (c : N) (l : list N) : list N :=
  match l with [] => [c] | x :: r => if c <=? x then c :: l else x :: insert_N c r end.
Definition sort_N (l : list N) : list N := fold_right insert_N [] l.

Definition norm_arm (a : screen_arm) : screen_arm :=
  match a with
  | ArmAllow cs => ArmAllow (sort_N cs)
  | ArmReject k cs => ArmReject k (sort_N cs)
  | a => a
  end.

Lemma keywords_table_eq : sort_rows gen_keywords = sort_rows doc_keywords.
Proof. vm_compute. reflexivity. Qed.

Lemma symbols_table_eq : sort_rows gen_symbols = sort_rows doc_symbols.
Proof. vm_compute. reflexivity. Qed.

Lemma screen_arms_eq : map norm_arm gen_screen_arms = map norm_arm doc_screen_arms.
Proof. vm_compute. reflexivity. Qed.
