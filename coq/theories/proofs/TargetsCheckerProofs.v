(** C11 with the subtype oracle instantiated by the checker model of C07:
    - the fully threaded model ([resolve_target_full]: one checker, inverted for the imports loop, reverted,
      memo shared by both loops, span index sites) never panics and computes the verdict of the abstract
      model [resolve_target_sv] run with the oracle [chk] (one fresh check per query);
    - for resource-free kinds that verdict is Ok exactly when the component type of the composition is a
      component-model subtype of the world's, names matched up to the semver discipline. *)
From WacV Require Import Str Ord Semver Names NamesSpec Types Checker SubSpec Targets TargetsSpec TargetsChecker.
From WacV Require Import SemverProofs NamesProofs NameMapProofs TargetsProofs.
From WacV Require Import CheckerEq SubSpecProofs CheckerValue CheckerProofs CheckerTheorems.
Require Import Lia.

Lemma kind_promote_ok t k : kind_ok t k <-> kind_ok t (kind_promote k).
Proof. destruct k as [[]| | | | |]; cbn; tauto. Qed.
Lemma kind_promote_rank r k : krank r (kind_promote k) = krank r k.
Proof. destruct k as [[]| | | | |]; reflexivity. Qed.

Lemma unfold_promote F t k : unfold F t (kind_promote k) = option_map tree_promote (unfold F t k).
Proof.
  destruct F as [|f]; [reflexivity|]. rewrite !unfold_eq.
  destruct k as [[r|i|v|i|w|m]|i|i|w|m|v]; cbn [kind_promote unfold_body];
    match goal with |- context [option_map _ ?x] => destruct x end; reflexivity.
Qed.

Section Concrete.
  Variable t : types.
  Variable r : ranking.
  Variable F : nat.
  Hypothesis W : wf_types t r.

  Definition good (k : kind) : Prop := kind_ok t k /\ (krank r k < F)%nat.
  Definition den (k : kind) : tree := match unfold F t k with Some x => x | None => XTRes [] end.

  Lemma good_promote k : good k -> good (kind_promote k).
  Proof. intros [H1 H2]. split; [exact (proj1 (kind_promote_ok t k) H1) | now rewrite kind_promote_rank]. Qed.

  Lemma good_unfold k : good k -> unfold F t k = Some (den k).
  Proof. intros [H1 H2]. unfold den. destruct (unfold_total t r W F k H1 H2) as [tr ->]. reflexivity. Qed.

  Lemma den_promote k : good k -> den (kind_promote k) = tree_promote (den k).
  Proof. intros G. unfold den at 1. rewrite unfold_promote, (good_unfold k G). reflexivity. Qed.

  Let same : t_tag t = t_tag t -> t = t := fun _ => eq_refl.
  Let ND := wf_nodup t r W.

  (** one threaded check: never a panic, the verdict of a fresh check, the memo invariant is kept, the
      variance stack is restored *)
  Lemma step s a b : memo_ok t t (cache s) -> good a -> good b ->
    ((fst (is_subtype F s t a t b) = Ok tt /\ chk F t a b = true) \/
     ((exists e, fst (is_subtype F s t a t b) = Err e) /\ chk F t a b = false)) /\
    memo_ok t t (cache (snd (is_subtype F s t a t b))) /\
    (fst (is_subtype F s t a t b) = Ok tt -> ks (snd (is_subtype F s t a t b)) = ks s).
  Proof.
    intros M Ga Gb.
    destruct (is_subtype_decides t t same ND ND F F s a b _ _ (le_n _) M (good_unfold a Ga) (good_unfold b Gb))
      as [D [M' [_ Ks]]].
    pose proof (verdict_indep_of_variance_and_memo t t same ND ND F F s st0 a b _ _ (le_n _) M (memo_ok_nil t t)
                  (good_unfold a Ga) (good_unfold b Gb)) as V.
    unfold verdict in V. fold (check F t a t b) in V. fold (chk F t a b) in V.
    split; [|split; assumption].
    destruct D as [[E _]|[[e E] _]]; rewrite E in V; cbn in V; [left|right]; split; eauto.
  Qed.

  (** the oracle decides component-model subtyping on resource-free kinds *)
  Lemma chk_iff a b : pages_ok t -> good a -> good b -> resfree (den a) = true -> resfree (den b) = true ->
    (chk F t a b = true <-> SubCM (den a) (den b)).
  Proof.
    intros P [Ka Ra] [Kb Rb] Fa Fb.
    destruct (algo_iff_declarative_wf t t r r a b F W W same Ka Kb Ra Rb) as [ta [tb [Ua [Ub [D H]]]]].
    unfold den in *. rewrite Ua, Ub in *. destruct (H Fa Fb) as [H1 H2]. unfold chk. split.
    - intros E. apply H1. destruct (check F t a t b) as [[]| | |]; try discriminate. reflexivity.
    - intros S. now rewrite (H2 P P S).
  Qed.

  (** * The threaded model against the abstract one *)
  Section Loops.
    Variable spans : list nat.

    Definition flag (i : str * kind * option nat) : str * kind * bool :=
      (fst (fst i), snd (fst i), match snd i with Some _ => true | None => false end).

    Lemma span_of_ok node : (forall n, node = Some n -> In n spans) -> span_of spans node = None.
    Proof.
      destruct node as [n|]; cbn; auto. intros H.
      replace (existsb (Nat.eqb n) spans) with true; auto. symmetry. apply existsb_exists.
      exists n. split; auto. apply Nat.eqb_refl.
    Qed.

    Lemma full_imports_eq wi : (forall q e, nm_get wi q = Some e -> good e) ->
      forall l s, memo_ok t t (cache s) ->
        (forall n k node, In (n, k, node) l -> good k /\ (forall x, node = Some x -> In x spans)) ->
        exists s', full_imports F t spans wi s l =
                   (option_map (fun e => OVerdict (RErr e)) (rs_imports kind_promote (chk F t) wi (map flag l)), s') /\
                   memo_ok t t (cache s') /\
                   (rs_imports kind_promote (chk F t) wi (map flag l) = None -> ks s' = ks s).
    Proof.
      intros Gw. induction l as [|[[n k] node] l IH]; intros s M Gl; cbn [full_imports map flag fst snd rs_imports].
      - exists s. auto.
      - destruct (Gl n k node (or_introl eq_refl)) as [Gk Sp].
        destruct (nm_get wi n) as [e|] eqn:E.
        + pose proof (step s (kind_promote e) k M (good_promote e (Gw _ _ E)) Gk) as [D [M' Ks]].
          destruct (is_subtype F s t (kind_promote e) t k) as [res s'] eqn:IS. cbn [fst snd] in *.
          destruct D as [[-> ->]|[[er ->] ->]].
          * destruct (IH s' M') as [s'' [E' [M'' K'']]]; [intros; eapply Gl; right; eauto|].
            exists s''. split; [exact E'|]. split; auto. intros H. rewrite (K'' H). now apply Ks.
          * exists s'. cbn [of_checker]. unfold raise. rewrite (span_of_ok node Sp). cbn. split; auto.
            split; auto; discriminate.
        + exists s. unfold raise. rewrite (span_of_ok node Sp). cbn. repeat split; auto; discriminate.
    Qed.

    Lemma full_exports_eq ce : (forall q e, nm_get ce q = Some e -> good e) ->
      forall l s, memo_ok t t (cache s) -> (forall n k, In (n, k) l -> good k) ->
        exists s', full_exports F t spans ce s l =
                   (option_map (fun e => OVerdict (RErr e)) (rs_exports kind_promote (chk F t) ce l), s').
    Proof.
      intros Gc. induction l as [|[n k] l IH]; intros s M Gl; cbn [full_exports rs_exports].
      - exists s. auto.
      - pose proof (Gl n k (or_introl eq_refl)) as Gk.
        destruct (nm_get ce n) as [e|] eqn:E.
        + pose proof (step s e (kind_promote k) M (Gc _ _ E) (good_promote k Gk)) as [D [M' Ks]].
          destruct (is_subtype F s t e t (kind_promote k)) as [res s'] eqn:IS. cbn [fst snd] in *.
          destruct D as [[-> ->]|[[er ->] ->]].
          * apply IH; auto. intros; eapply Gl; right; eauto.
          * exists s'. reflexivity.
        + exists s. reflexivity.
    Qed.
  End Loops.

  (** every kind of the pair is well formed and within the fuel *)
  Definition good_pair (w : tworld kind) (c : compn) : Prop :=
    (forall n k, In (n, k) (wtable w ++ tw_exports w ++ cn_exports c) -> good k) /\
    (forall n k node, In (n, k, node) (cn_imports c) -> good k).

  Lemma nm_get_from l (m : namemap kind) q e :
    consistent l -> nm_fill nm_empty l = Some m -> nm_get m q = Some e -> exists n, In (n, e) l.
  Proof.
    intros C Fl G. apply (proj1 (semver_implements l m C Fl q)) in G.
    destruct G as [G|[_ [n [v [I _]]]]]; eauto.
  Qed.

  Theorem resolve_full_eq spans (w : tworld kind) (c : compn) :
    wf_pair w (erase c) -> good_pair w c -> spans_cover spans c ->
    exists v, resolve_target_sv kind_promote (chk F t) w (erase c) = Some v /\
              resolve_target_full F t spans w c = OVerdict v.
  Proof.
    intros [CW CE] [G1 G2] SC.
    unfold resolve_target_sv, resolve_target_full, all_imports. fold (wtable w).
    destruct (nm_fill_total (wtable w)) as [wi [Fw _]]. rewrite Fw.
    cbn [erase c_imports c_exports] in *.
    assert (forall q e, nm_get wi q = Some e -> good e) as Gwi.
    { intros q e H. destruct (nm_get_from _ _ _ _ CW Fw H) as [n I]. apply (G1 n). apply in_or_app. auto. }
    destruct (full_imports_eq spans wi Gwi (cn_imports c) (set_ks st0 (invert (ks st0)))) as [s2 [E [M2 K2]]].
    { apply memo_ok_nil. }
    { intros n k node I. split; [eapply G2; eauto|]. intros x ->. eapply SC; eauto. }
    fold flag. rewrite E.
    destruct (rs_imports kind_promote (chk F t) wi (map flag (cn_imports c))) as [e|] eqn:RI; cbn [option_map].
    - eauto.
    - assert (ks s2 = [Contra]) as Ks by (rewrite (K2 eq_refl); reflexivity).
      unfold revert. rewrite Ks.
      destruct (nm_fill_total (cn_exports c)) as [ce [Fc _]]. rewrite Fc.
      assert (forall q e, nm_get ce q = Some e -> good e) as Gce.
      { intros q e H. destruct (nm_get_from _ _ _ _ CE Fc H) as [n I]. apply (G1 n). apply in_or_app. right.
        apply in_or_app. auto. }
      destruct (full_exports_eq spans ce Gce (tw_exports w) (set_ks s2 [])) as [s4 E4]; [exact M2| |].
      { intros n k I. apply (G1 n). apply in_or_app. right. apply in_or_app. auto. }
      rewrite E4. destruct (rs_exports kind_promote (chk F t) ce (tw_exports w)); cbn; eauto.
  Qed.

  (** * Component-model subtyping, names up to a discipline *)
  Definition mapv {A B} (f : A -> B) (l : list (str * A)) : list (str * B) := map (fun e => (fst e, f (snd e))) l.

  Lemma in_mapv {A B} (f : A -> B) l n y : In (n, y) (mapv f l) <-> exists x, In (n, x) l /\ f x = y.
  Proof.
    unfold mapv. rewrite in_map_iff. split.
    - intros [[n' x] [E I]]. cbn in E. injection E as -> <-. eauto.
    - intros [x [I <-]]. exists (n, x). auto.
  Qed.
  Lemma keys_mapv {A B} (f : A -> B) l : map fst (mapv f l) = map fst l.
  Proof. unfold mapv. rewrite map_map. reflexivity. Qed.

  Lemma consult_mapv {A B} (f : A -> B) d l q y :
    consult d (mapv f l) q y <-> exists x, consult d l q x /\ f x = y.
  Proof.
    destruct d; cbn.
    - apply in_mapv.
    - rewrite keys_mapv, in_mapv. split.
      + intros [[x [I E]]|[N [n [v [I [S [Vn M]]]]]]].
        * eauto.
        * apply in_mapv in I as [x [I E]]. exists x. split; auto. right. split; auto.
          exists n, v. repeat split; auto. intros n' x' v' I'. apply (M n' (f x') v'). apply in_mapv. eauto.
      + intros [x [[I|[N [n [v [I [S [Vn M]]]]]]] E]].
        * eauto.
        * right. split; auto. exists n, v. repeat split; auto; [apply in_mapv; eauto|].
          intros n' y' v' I'. apply in_mapv in I' as [x' [I' _]]. eauto.
  Qed.

  Lemma consult_in {A} d (l : list (str * A)) q x : consult d l q x -> exists n, In (n, x) l.
  Proof. destruct d; cbn; [eauto|]. intros [I|[_ [n [v [I _]]]]]; eauto. Qed.

  (** the component type of the composition against the world's: every import of the composition is
      provided by the world's import consulted for its name, at a subtype; every export of the world is
      provided by the composition's export consulted for its name, at a subtype *)
  Definition TargetSub (d : discipline) (ci ce wi we : list (str * tree)) : Prop :=
    (forall n a, In (n, a) ci -> exists b, consult d wi n b /\ SubCM (tree_promote b) a) /\
    (forall n b, In (n, b) we -> exists a, consult d ce n a /\ SubCM a (tree_promote b)).

  Definition resfree_pair (w : tworld kind) (c : comp kind) : Prop :=
    (forall n k, In (n, k) (wtable w ++ tw_exports w ++ c_exports c) -> resfree (den k) = true) /\
    (forall i, In i (c_imports c) -> resfree (den (ikind i)) = true).
  Definition good_pair' (w : tworld kind) (c : comp kind) : Prop :=
    (forall n k, In (n, k) (wtable w ++ tw_exports w ++ c_exports c) -> good k) /\
    (forall i, In i (c_imports c) -> good (ikind i)).

  Lemma resfree_promote k : good k -> resfree (den k) = true -> resfree (den (kind_promote k)) = true.
  Proof. intros G. rewrite (den_promote k G). destruct (den k); auto. Qed.

  Theorem conforms_is_target_sub d (w : tworld kind) (c : comp kind) :
    pages_ok t -> good_pair' w c -> resfree_pair w c ->
    (Conforms kind_promote (chk F t) d w c <->
     TargetSub d (map (fun i => (iname i, den (ikind i))) (c_imports c)) (mapv den (c_exports c))
                 (mapv den (wtable w)) (mapv den (tw_exports w))).
  Proof.
    intros P [G1 G2] [R1 R2]. unfold Conforms, TargetSub. rewrite !Forall_forall.
    assert (forall n e, In (n, e) (wtable w) -> good e /\ resfree (den e) = true) as Hw.
    { intros n e I. split; [apply (G1 n)|apply (R1 n)]; apply in_or_app; auto. }
    assert (forall n e, In (n, e) (tw_exports w) -> good e /\ resfree (den e) = true) as He.
    { intros n e I. split; [apply (G1 n)|apply (R1 n)]; apply in_or_app; right; apply in_or_app; auto. }
    assert (forall n e, In (n, e) (c_exports c) -> good e /\ resfree (den e) = true) as Hc.
    { intros n e I. split; [apply (G1 n)|apply (R1 n)]; apply in_or_app; right; apply in_or_app; auto. }
    split.
    - intros [HI HE]. split.
      + intros n a I. apply in_map_iff in I as [i [E I]]. injection E as <- <-.
        destruct (HI i I) as [e [C S]]. destruct (consult_in _ _ _ _ C) as [m Im]. destruct (Hw m e Im) as [Ge Re].
        exists (den e). split; [apply consult_mapv; eauto|]. rewrite <- (den_promote e Ge).
        apply chk_iff; auto; [now apply good_promote | now apply resfree_promote].
      + intros n b I. apply in_mapv in I as [k [I <-]]. destruct (HE (n, k) I) as [y [C S]]. cbn in *.
        destruct (consult_in _ _ _ _ C) as [m Im]. destruct (Hc m y Im) as [Gy Ry]. destruct (He n k I) as [Gk Rk].
        exists (den y). split; [apply consult_mapv; eauto|]. rewrite <- (den_promote k Gk).
        apply chk_iff; auto; [now apply good_promote | now apply resfree_promote].
    - intros [HI HE]. split.
      + intros i I. destruct (HI (iname i) (den (ikind i))) as [b [C S]].
        { apply in_map_iff. exists i. auto. }
        apply consult_mapv in C as [e [C <-]]. destruct (consult_in _ _ _ _ C) as [m Im]. destruct (Hw m e Im) as [Ge Re].
        exists e. split; auto. rewrite <- (den_promote e Ge) in S.
        apply chk_iff; auto; [now apply good_promote | now apply resfree_promote].
      + intros [n k] I. destruct (HE n (den k)) as [a [C S]]; [apply in_mapv; eauto|].
        apply consult_mapv in C as [y [C <-]]. cbn. destruct (consult_in _ _ _ _ C) as [m Im].
        destruct (Hc m y Im) as [Gy Ry]. destruct (He n k I) as [Gk Rk].
        exists y. split; auto. rewrite <- (den_promote k Gk) in S.
        apply chk_iff; auto; [now apply good_promote | now apply resfree_promote].
  Qed.

  (** with identical names only, this is the component-model rule for component types *)
  Lemma consistent_mapv {A B} (f : A -> B) l : consistent l -> consistent (mapv f l).
  Proof.
    intros C n x y I1 I2. apply in_mapv in I1 as [a [I1 <-]]. apply in_mapv in I2 as [b [I2 <-]].
    f_equal. eapply C; eauto.
  Qed.

  Lemma target_sub_exact_is_SubCM ci ce wi we : consistent wi -> consistent ce ->
    (TargetSub Exact ci ce wi we <-> SubCM (XComp ci ce) (XComp (mapv tree_promote wi) (mapv tree_promote we))).
  Proof.
    intros Cw Cc. unfold TargetSub, SubCM. cbn [consult]. split.
    - intros [HI HE]. constructor.
      + intros k a I. destruct (HI k a I) as [b [Ib S]]. exists (tree_promote b). split; auto.
        rewrite assoc_im_get. apply (im_get_consistent _ _ _ (consistent_mapv tree_promote wi Cw)). apply in_mapv. eauto.
      + intros k b I. apply in_mapv in I as [b0 [I <-]]. destruct (HE k b0 I) as [a [Ia S]]. exists a. split; auto.
        rewrite assoc_im_get. now apply im_get_consistent.
    - intros H. inversion H as [| |ia ea ib eb HI HE| | | | | | | |]; subst. split.
      + intros n a I. destruct (HI n a I) as [b [G S]]. rewrite assoc_im_get in G. apply im_get_in in G.
        apply in_mapv in G as [b0 [I0 <-]]. eauto.
      + intros n b I. destruct (HE n (tree_promote b)) as [a [G S]]; [apply in_mapv; eauto|].
        rewrite assoc_im_get in G. apply im_get_in in G. eauto.
  Qed.

  (** * The resolution-time verdict (repaired, semver-aware) and component-model subtyping *)
  Definition comp_imports_tree (c : comp kind) : list (str * tree) := map (fun i => (iname i, den (ikind i))) (c_imports c).

  Theorem target_iff_cm (w : tworld kind) (c : comp kind) :
    pages_ok t -> wf_pair w c -> good_pair' w c -> resfree_pair w c ->
    (resolve_target_sv kind_promote (chk F t) w c = Some ROk <->
     TargetSub Semver (comp_imports_tree c) (mapv den (c_exports c)) (mapv den (wtable w)) (mapv den (tw_exports w))).
  Proof.
    intros P WF G R. destruct (resolve_sv_spec kind kind_promote (chk F t) w c WF) as [v [E [HO _]]].
    rewrite E, <- (conforms_is_target_sub Semver w c P G R), <- HO. split; congruence.
  Qed.

  Theorem target_iff_SubCM_exact (w : tworld kind) (c : comp kind) :
    pages_ok t -> wf_pair w c -> good_pair' w c -> resfree_pair w c -> exact_names w c ->
    (resolve_target_sv kind_promote (chk F t) w c = Some ROk <->
     SubCM (XComp (comp_imports_tree c) (mapv den (c_exports c)))
           (XComp (mapv tree_promote (mapv den (wtable w))) (mapv tree_promote (mapv den (tw_exports w))))).
  Proof.
    intros P WF G R EX. destruct (resolve_sv_spec kind kind_promote (chk F t) w c WF) as [v [E [HO _]]].
    rewrite E. rewrite <- target_sub_exact_is_SubCM by (apply consistent_mapv, WF).
    rewrite <- (conforms_is_target_sub Exact w c P G R).
    rewrite <- (conforms_same kind kind_promote (chk F t) w c EX), <- HO. split; congruence.
  Qed.
End Concrete.

(** enough fuel exists for any finite pair whose identifiers are not dangling *)
Lemma rank_bound r (l : list kind) : exists F0, forall F k, (F0 <= F)%nat -> In k l -> (krank r k < F)%nat.
Proof.
  induction l as [|k l [F0 IH]].
  - exists O. intros F k _ [].
  - exists (Nat.max F0 (S (krank r k))). intros F k' HF [<-|I]; [lia|]. apply IH; [lia|assumption].
Qed.

Theorem good_pair_fuel t r (w : tworld kind) (c : comp kind) :
  (forall n k, In (n, k) (wtable w ++ tw_exports w ++ c_exports c) -> kind_ok t k) ->
  (forall i, In i (c_imports c) -> kind_ok t (ikind i)) ->
  exists F0, forall F, (F0 <= F)%nat -> good_pair' t r F w c.
Proof.
  intros K1 K2.
  destruct (rank_bound r (map snd (wtable w ++ tw_exports w ++ c_exports c) ++ map ikind (c_imports c))) as [F0 H].
  exists F0. intros F HF. split.
  - intros n k I. split; [eapply K1; eauto|]. apply (H F k HF). apply in_or_app. left.
    apply in_map_iff. exists (n, k). auto.
  - intros i I. split; [auto|]. apply (H F _ HF). apply in_or_app. right. now apply in_map.
Qed.
