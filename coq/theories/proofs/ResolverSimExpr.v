(** C04 proofs, part 10: simulation of expressions. *)
From Coq Require Import List Arith Bool NArith Lia.
From WacV Require Import Str Token Lexer Semver Names Ast Graph Resolver LangSpec ResolverProofs ResolverNew
  ResolverStmts ResolverInv ResolverSim.
Import ListNotations.
Local Open Scope nat_scope.

Section SimExpr.
  Variable u : runiverse.
  Variable self_name : str.
  Variable K : kid -> Prop.
  Hypothesis U : uok u K.
  Notation dv := impl_flags_c04.
  Notation Rel := (Rel u K).

  (** the outcome of a model computation against the outcome of the reference *)
  Definition sim {A B} (RV : list sval -> A -> B -> Prop) (vm : list sval) (env : senv)
             (mo : (A * rstate) + fail) (so : (B * senv) + illformed) : Prop :=
    match mo, so with
    | inl (a, st'), inl (b, env') => exists vm', prefix vm vm' /\ Rel st' env' vm' /\ env_le env env' /\ RV vm' a b
    | inr f, inr i => fail_matches f i
    | _, _ => False
    end.

  Definition item_rel (vm : list sval) (n : nat) (v : sval) : Prop := nth_error vm n = Some v.

  Lemma rel_live st env vm n v : Rel st env vm -> nth_error vm n = Some v -> exists nd, get_node (rs_g st) n = Some nd.
  Proof.
    intros R V. assert (L : n < length (nodes (rs_g st))).
    { rewrite <- (r_len _ _ _ _ _ R). apply nth_error_Some. congruence. }
    pose proof (r_live _ _ _ _ _ R n L) as X. destruct (get_node (rs_g st) n); eauto. now contradiction X.
  Qed.

  Lemma kind_of_eq st n nd : get_node (rs_g st) n = Some nd -> kind_of n st = inl (nitem nd, st).
  Proof. intros G. unfold kind_of, bind, get_g. now rewrite G. Qed.

  Lemma alias_export_eq st item nd nm at_ op :
    get_node (rs_g st) item = Some nd ->
    alias_export u item nm at_ op st =
      match inst_exports u (nitem nd) with
      | None => inr (FErr (ENotAnInstance op at_))
      | Some ex =>
          if has_key ex nm then
            match alias u (rs_g st) item (ru_intern u nm) with
            | (g', ONode n) => inl (Some n, {| rs_g := g'; rs_scope := rs_scope st |})
            | (_, OPanic p) => inr (FPanic (RGraph p))
            | (_, _) => inr (FPanic RAliasExpect)
            end
          else inl (None, st)
      end.
  Proof.
    intros G. unfold alias_export. unfold bind at 1. rewrite (kind_of_eq _ _ _ G).
    destruct (inst_exports u (nitem nd)) as [ex|]; [|reflexivity]. destruct (has_key ex nm); [|reflexivity].
    unfold bind at 1, gop, bind at 1, get_g at 1.
    destruct (alias u (rs_g st) item (ru_intern u nm)) as [g' o]. unfold bind at 1, put_g at 1, ret at 1.
    destruct o; reflexivity.
  Qed.

  Definition access_of (pe : postfix_expr) (v : sval) : SM sval :=
    match pe with
    | PAccess _ id => access dv u v (id_string id) false
    | PNamedAccess _ s => access dv u v (s_value s) true
    end.

  Lemma access_sim st env vm item v pe parent :
    Rel st env vm -> nth_error vm item = Some v ->
    sim item_rel vm env (eval_postfix u item pe parent st) (access_of pe v env).
  Proof.
    intros R V. destruct (rel_live _ _ _ _ _ R V) as (nd & G).
    destruct (r_node _ _ _ _ _ R item nd v G V) as (HK & VK & _).
    assert (VE : val_exports u env v = inst_exports u (nitem nd)) by (unfold val_exports; now rewrite VK).
    (* the common part, once the export name is known *)
    assert (Core : forall nm at1 at2 ex, inst_exports u (nitem nd) = Some ex ->
      sim item_rel vm env
        (match alias_export u item nm at1 OpAccess st with
         | inl (r, s1) => match r with Some n => inl (n, s1) | None => inr (FErr (EMissingInstanceExport nm at2)) end
         | inr f => inr f end)
        (if has_key ex nm then inl (VAccess v nm, env) else inr (IUnknownExport nm))).
    { intros nm at1 at2 ex IE. rewrite (alias_export_eq _ _ _ nm at1 OpAccess G), IE.
      destruct (has_key ex nm) eqn:HKy; [|reflexivity].
      unfold inst_exports in IE. destruct (u_inst_exports u (nitem nd)) as [exN|] eqn:UE; [|discriminate]. injection IE as <-.
      destruct (alias_sim u K st env vm item nd v exN nm U R G V UE HKy) as (g' & n & vm' & A & P & R' & Vn).
      rewrite A. exists vm'. split; auto. split; auto. split; [apply env_le_refl|exact Vn]. }
    destruct pe as [sp id|sp s]; cbn [eval_postfix access_of]; unfold access, sbind, env_; rewrite VE.
    - unfold bind at 1. rewrite (kind_of_eq _ _ _ G).
      destruct (inst_exports u (nitem nd)) as [ex|] eqn:IE; [|reflexivity].
      rewrite find_matching_is_path_rule. unfold bind at 1.
      specialize (Core (path_or_self dv (id_string id) (map fst ex)) parent (off sp) ex eq_refl).
      destruct (alias_export u item _ parent OpAccess st) as [[[n|] s1]|f]; destruct (has_key ex _); exact Core.
    - unfold bind at 1. destruct (inst_exports u (nitem nd)) as [ex|] eqn:IE.
      + specialize (Core (s_value s) parent (off sp) ex eq_refl).
        destruct (alias_export u item _ parent OpAccess st) as [[[n|] s1]|f]; destruct (has_key ex _); exact Core.
      + rewrite (alias_export_eq _ _ _ _ _ _ G), IE. reflexivity.
  Qed.

  Lemma env_le_trans a b c : env_le a b -> env_le b c -> env_le a c.
  Proof. intros [A1 A2] [B1 B2]. split; eapply prefix_trans; eauto. Qed.

  Lemma sim_weaken {A B} (RV : list sval -> A -> B -> Prop) vm vm' env env' mo so :
    prefix vm vm' -> env_le env env' -> sim RV vm' env' mo so -> sim RV vm env mo so.
  Proof.
    intros P L. unfold sim. destruct mo as [[a st']|f], so as [[b e']|i]; auto.
    intros (vm2 & P2 & R2 & L2 & V2). exists vm2. split; [eapply prefix_trans; eauto|]. split; auto.
    split; [eapply env_le_trans; eauto|auto].
  Qed.

  Lemma lookup_sim st env vm id :
    Rel st env vm -> sim item_rel vm env (local_item id st) (lookup id env).
  Proof.
    intros R. unfold local_item, lookup, bind, sbind, get_scope, env_.
    pose proof (scope_get vm _ _ (id_string id) (r_scope _ _ _ _ _ R)) as X.
    destruct (im_get (rs_scope st) (id_string id)) as [[n a]|].
    - destruct X as (v & -> & V). exists vm. split; [apply prefix_refl|]. split; auto. split; [apply env_le_refl|exact V].
    - rewrite X. reflexivity.
  Qed.

  Lemma chain_sim l : forall st env vm item v parent,
    Rel st env vm -> nth_error vm item = Some v ->
    sim item_rel vm env (postfix_chain u item parent l st) (access_chain dv u v l env).
  Proof.
    induction l as [|pe r IH]; intros st env vm item v parent R V.
    - cbn. exists vm. split; [apply prefix_refl|]. split; auto. split; [apply env_le_refl|exact V].
    - cbn [postfix_chain]. pose proof (access_sim st env vm item v pe parent R V) as S.
      assert (E : access_chain dv u v (pe :: r) env =
                  sbind (access_of pe v) (fun w => access_chain dv u w r) env) by (destruct pe; reflexivity).
      rewrite E. unfold bind, sbind.
      destruct (eval_postfix u item pe parent st) as [[n s1]|f], (access_of pe v env) as [[w e1]|i];
        try exact S; try (exfalso; exact S).
      destruct S as (vm1 & P1 & R1 & L1 & V1). eapply sim_weaken; eauto.
  Qed.

  (** ** packages *)
  Lemma find_pkg_slot_spec (g : gstate) p i :
    find_pkg_slot g p = Some i -> exists sl, nth_error (pkgs g) i = Some sl /\ ps_pkg sl = Some p.
  Proof.
    unfold find_pkg_slot.
    assert (X : forall l off i,
      (fix go (l : list pslot) (i : nat) {struct l} : option nat :=
         match l with
         | [] => None
         | sl :: r => match ps_pkg sl with
                      | Some q => if q =? p then Some i else go r (Datatypes.S i)
                      | None => go r (Datatypes.S i)
                      end
         end) l off = Some i -> off <= i /\ exists sl, nth_error l (i - off) = Some sl /\ ps_pkg sl = Some p).
    { induction l as [|sl r IH]; intros off j H; [discriminate|].
      destruct (ps_pkg sl) as [q|] eqn:E.
      - destruct (Nat.eqb_spec q p) as [->|Ne].
        + injection H as <-. split; auto. rewrite Nat.sub_diag. exists sl. auto.
        + apply IH in H as (L & sl' & N' & P'). split; [lia|]. exists sl'. split; auto.
          replace (j - off) with (Datatypes.S (j - Datatypes.S off)) by lia. exact N'.
      - apply IH in H as (L & sl' & N' & P'). split; [lia|]. exists sl'. split; auto.
        replace (j - off) with (Datatypes.S (j - Datatypes.S off)) by lia. exact N'. }
    intros H. apply X in H as (_ & sl & N' & P'). rewrite Nat.sub_0_r in N'. eauto.
  Qed.

  (** a state that differs from [st] only in the package table *)
  Lemma rel_pkgs st env vm g' :
    Rel st env vm -> nodes g' = nodes (rs_g st) -> edges g' = edges (rs_g st) -> imports g' = imports (rs_g st) ->
    exports g' = exports (rs_g st) -> free_nodes g' = [] -> free_pkgs g' = [] ->
    (forall id p, get_pkg (rs_g st) id = Some p -> get_pkg g' id = Some p) ->
    Rel {| rs_g := g'; rs_scope := rs_scope st |} env vm.
  Proof.
    intros R Hn He Hi Hx F Fp Hp.
    assert (Old : forall k nd, get_node (rs_g st) k = Some nd -> get_node g' k = Some nd).
    { intros k nd G. unfold get_node in *. now rewrite Hn. }
    eapply (Rel_frame u K st env vm); eauto; cbn [rs_g rs_scope].
    - split; auto.
    - rewrite Hn. apply (r_len _ _ _ _ _ R).
    - apply prefix_refl.
    - apply env_le_refl.
    - rewrite Hn. lia.
    - intros k nd G. exists nd. auto.
    - intros e H. now rewrite He.
    - intros e H. left. now rewrite <- He.
    - intros k Lo Hi'. rewrite Hn in Hi'. lia.
    - apply (r_scope _ _ _ _ _ R).
    - rewrite Hx. apply (r_exports _ _ _ _ _ R).
    - eapply imports_ok_mono; [apply prefix_refl|exact Hi| |apply (r_imports _ _ _ _ _ R)].
      intros k nd G. exists nd. auto.
    - apply (r_insts _ _ _ _ _ R).
  Qed.

  Lemma resolve_package_sim st env vm nm v at_ :
    Rel st env vm ->
    match resolve_package u nm v at_ st, ru_pkg_find u nm v with
    | inl (id, st'), Some p => Rel st' env vm /\ get_pkg (rs_g st') id = Some p /\ rs_scope st' = rs_scope st /\
                               exists pd, nth_error (u_pkgs u) p = Some pd
    | inr f, None => f = FErr (EUnknownPackage nm at_)
    | _, _ => False
    end.
  Proof.
    intros R. unfold resolve_package. destruct (ru_pkg_find u nm v) as [p|] eqn:PF; [|reflexivity].
    assert (Pd : exists pd, nth_error (u_pkgs u) p = Some pd).
    { pose proof (uo_pkg_find _ _ U _ _ _ PF) as L. apply nth_error_Some in L. destruct (nth_error (u_pkgs u) p); eauto. now contradiction L. }
    unfold bind at 1, get_g at 1.
    destruct (find_pkg_slot (rs_g st) p) as [slot|] eqn:FS.
    - apply find_pkg_slot_spec in FS as (sl & N' & P'). rewrite N'. cbn.
      split; auto. split; auto. unfold get_pkg. cbn. now rewrite N', Nat.eqb_refl.
    - unfold bind at 1, gop, bind at 1, get_g at 1. unfold register. rewrite FS.
      destruct (r_free _ _ _ _ _ R) as [F Fp]. rewrite Fp. cbn.
      split; [|split; [|split; auto]].
      + apply rel_pkgs; auto. intros id q. unfold get_pkg. cbn.
        destruct (nth_error (pkgs (rs_g st)) (fst id)) as [sl|] eqn:E; [|discriminate].
        rewrite nth_error_app1; [now rewrite E|]. apply nth_error_Some. congruence.
      + unfold get_pkg. cbn. rewrite nth_error_app2, Nat.sub_diag by lia. reflexivity.
  Qed.

  (** ** the first pass *)
  Lemma inferred_name_eq imports id item st nd :
    get_node (rs_g st) item = Some nd ->
    inferred_name u imports id item st =
      inl (infer_arg_name dv (map fst imports) (id_string id) (instance_id u (nitem nd)) (node_source u (rs_g st) item), st).
  Proof.
    intros G.
    destruct (inferred_name u imports id item st) as [[nm st']|f] eqn:E.
    - apply inferred_name_spec in E as (-> & nd' & G' & ->). rewrite G in G'. injection G' as <-. reflexivity.
    - exfalso. unfold inferred_name in E. unfold bind at 1 in E. rewrite (kind_of_eq _ _ _ G) in E.
      destruct (match instance_id u (nitem nd) with Some i => if has_key imports i then Some i else None | None => None end);
        [discriminate|].
      unfold bind at 1, get_g at 1 in E. unfold node_import_name in E. rewrite G in E.
      destruct (match match nk nd with NImport nm => Some nm | _ => None end with
                | Some nm => if has_key imports (ru_text u nm) then Some (ru_text u nm) else None
                | None => match get_alias_source u (rs_g st) item with
                          | Some (_, nm) => if has_key imports (ru_text u nm) then Some (ru_text u nm) else None
                          | None => None end end); [discriminate|].
      destruct (find_matching_interface_name (id_string id) imports); discriminate.
  Qed.

  Definition tbl_ok (vm : list sval) (t : argtbl) (ex : list (str * sval)) : Prop := scope_ok vm t ex.

  Lemma tbl_has_key vm t ex nm : tbl_ok vm t ex -> has_key t nm = has_key ex nm.
  Proof.
    intros H. pose proof (scope_get vm t ex nm H) as X. unfold has_key.
    destruct (im_get t nm) as [[n a]|]; [destruct X as (v & -> & _); reflexivity|now rewrite X].
  Qed.

  Lemma tbl_ok_snoc vm t ex nm n at_ v :
    tbl_ok vm t ex -> nth_error vm n = Some v -> tbl_ok vm (t ++ [(nm, (n, at_))]) (ex ++ [(nm, v)]).
  Proof. intros H V. apply Forall2_app; [exact H|]. constructor; [split; [reflexivity|exact V]|constructor]. Qed.

  Definition expr_sim (e : expr) : Prop :=
    forall st env vm, Rel st env vm -> sim item_rel vm env (eval_expr u self_name e st) (value_of dv u self_name e env).

  Definition args_sim (args : list inst_arg) : Prop :=
    Forall (fun a => match a with ANamed _ e => expr_sim e | _ => True end) args.

  Definition pass1_rel (req0 : bool) (vm : list sval) (a : argtbl * bool) (b : list (str * sval) * bool) : Prop :=
    tbl_ok vm (fst a) (fst b) /\ snd a = (req0 && negb (snd b))%bool.

  Lemma lookup_cases st env vm id :
    Rel st env vm ->
    (exists n v, local_item id st = inl (n, st) /\ lookup id env = inl (v, env) /\ nth_error vm n = Some v) \/
    (local_item id st = inr (FErr (EUndefinedName (id_string id) (off (id_span id)))) /\
     lookup id env = inr (IUndefinedName (id_string id))).
  Proof.
    intros R. unfold local_item, lookup, bind, sbind, get_scope, env_.
    pose proof (scope_get vm _ _ (id_string id) (r_scope _ _ _ _ _ R)) as X.
    destruct (im_get (rs_scope st) (id_string id)) as [[n a]|].
    - destruct X as (v & -> & V). left. exists n, v. auto.
    - rewrite X. right. auto.
  Qed.

  Lemma sim_ret {A B} (RV : list sval -> A -> B -> Prop) vm env st a b :
    Rel st env vm -> RV vm a b -> sim RV vm env (inl (a, st)) (inl (b, env)).
  Proof. intros R H. exists vm. split; [apply prefix_refl|]. split; auto. split; [apply env_le_refl|auto]. Qed.

  Lemma val_path_node st env vm item nd v :
    Rel st env vm -> get_node (rs_g st) item = Some nd -> nth_error vm item = Some v ->
    val_path u env v = instance_id u (nitem nd).
  Proof. intros R G V. destruct (r_node _ _ _ _ _ R item nd v G V) as (_ & VK & _). unfold val_path. now rewrite VK. Qed.

  Lemma pass1_sim imports args : args_sim args -> forall t ex req st env vm,
    Rel st env vm -> tbl_ok vm t ex ->
    sim (pass1_rel req) vm env
        (pass1 u (eval_expr u self_name) imports args t req st)
        (explicit_args dv u (fun y => value_of dv u self_name y) (map fst imports) args ex env).
  Proof.
    induction args as [|a r IH]; intros HA t ex req st env vm R T.
    - cbn. apply sim_ret; auto. split; auto. cbn. now rewrite andb_true_r.
    - inversion HA as [|? ? Ha Hr]; subst. destruct a as [id|id|an e|sp]; cbn [pass1 explicit_args].
      + (* inferred *)
        unfold bind at 1, sbind at 1.
        destruct (lookup_cases st env vm id R) as [(item & v & -> & -> & V)|[-> ->]]; [|reflexivity].
        destruct (rel_live _ _ _ _ _ R V) as (nd & G).
        unfold bind at 1. rewrite (inferred_name_eq imports id item st nd G).
        unfold sbind at 1, env_ at 1.
        rewrite (val_path_node _ _ _ _ _ _ R G V), (node_source_val u K st env vm item nd v U R G V).
        set (nm := infer_arg_name dv (map fst imports) (id_string id) (instance_id u (nitem nd)) (val_source v)).
        unfold bind at 1, sbind at 1, tbl_insert, add_explicit. rewrite (tbl_has_key vm t ex nm T).
        destruct (has_key ex nm); [reflexivity|].
        apply IH; auto. now apply tbl_ok_snoc.
      + now apply IH.
      + (* named *)
        unfold bind at 1, sbind at 1. pose proof (Ha st env vm R) as S.
        destruct (eval_expr u self_name e st) as [[item s1]|f], (value_of dv u self_name e env) as [[v e1]|i];
          try exact S; try (exfalso; exact S).
        destruct S as (vm1 & P1 & R1 & L1 & V1).
        unfold bind at 1, sbind at 1, tbl_insert, add_explicit. rewrite named_name_spec.
        assert (T1 : tbl_ok vm1 t ex) by (eapply scope_ok_mono; eauto).
        rewrite (tbl_has_key vm1 t ex _ T1).
        destruct (has_key ex (arg_name_of dv (map fst imports) an)); [reflexivity|].
        eapply sim_weaken; eauto. apply IH; auto. now apply tbl_ok_snoc.
      + (* fill *)
        destruct r as [|b r]; [|reflexivity]. cbn. apply sim_ret; auto. split; auto. cbn. now rewrite andb_false_r.
  Qed.

  (** ** the second pass *)
  Lemma spread_names_sim item at_ nd exN v : forall expected t tv any st env vm,
    Rel st env vm -> get_node (rs_g st) item = Some nd -> nth_error vm item = Some v ->
    u_inst_exports u (nitem nd) = Some exN -> NoDup expected -> tbl_ok vm t tv ->
    exists st' vm' adds,
      spread_names u item at_ expected t any st = inl ((t ++ adds, (any || negb (is_nil adds))%bool), st') /\
      prefix vm vm' /\ Rel st' env vm' /\ rs_scope st' = rs_scope st /\
      map fst adds = spread_filter t (text_items u exN) expected /\
      tbl_ok vm' (t ++ adds) (tv ++ map (fun i => (i, VAccess v i)) (spread_filter t (text_items u exN) expected)).
  Proof.
    induction expected as [|nm r IH]; intros t tv any st env vm R G V UE ND T.
    - exists st, vm, []. cbn. rewrite !app_nil_r, orb_false_r.
      split; [reflexivity|]. split; [apply prefix_refl|]. split; [exact R|]. split; [reflexivity|]. split; [reflexivity|exact T].
    - inversion ND as [|? ? Hnot ND']; subst. cbn [spread_names]. unfold spread_filter. cbn [filter].
      destruct (has_key t nm) eqn:HKt.
      + cbn [negb andb]. now apply IH.
      + cbn [negb andb]. unfold bind at 1. rewrite (alias_export_eq st item nd nm at_ OpSpread G).
        unfold inst_exports. rewrite UE.
        destruct (has_key (text_items u exN) nm) eqn:HKe.
        * destruct (alias_sim u K st env vm item nd v exN nm U R G V UE HKe) as (g' & n & vm1 & A & P1 & R1 & Vn).
          rewrite A. set (s1 := {| rs_g := g'; rs_scope := rs_scope st |}).
          assert (G1 : get_node (rs_g s1) item = Some nd).
          { destruct (alias_same_nodes u _ _ _ _ _ (r_free _ _ _ _ _ R) A) as (_ & _ & _ & _ & _ & N1). now apply N1. }
          assert (T1 : tbl_ok vm1 (t ++ [(nm, (n, at_))]) (tv ++ [(nm, VAccess v nm)])).
          { apply tbl_ok_snoc; auto. eapply scope_ok_mono; eauto. }
          destruct (IH (t ++ [(nm, (n, at_))]) (tv ++ [(nm, VAccess v nm)]) true s1 env vm1 R1 G1
                       (prefix_nth _ _ _ _ P1 V) UE ND' T1) as (st' & vm' & adds & E & P' & R' & Sc' & MF & T').
          assert (FE : spread_filter (t ++ [(nm, (n, at_))]) (text_items u exN) r = spread_filter t (text_items u exN) r).
          { unfold spread_filter. apply filter_ext_in. intros x Hx. rewrite has_key_snoc_other; auto. intros ->. contradiction. }
          exists st', vm', ((nm, (n, at_)) :: adds). rewrite E. cbn [is_nil negb]. rewrite orb_true_r.
          rewrite <- app_assoc. cbn [app]. split; [reflexivity|]. split; [eapply prefix_trans; eauto|]. split; auto. split; [exact Sc'|].
          split; [cbn; now rewrite MF, FE|]. rewrite <- !app_assoc in T'. cbn [app] in T'. rewrite FE in T'. exact T'.
        * now apply IH.
  Qed.

  Lemma spread_bound_snoc {V} (names : list str) (ex : list (str * V)) : forall rest before sp,
    spread_bound names ex before (rest ++ [sp]) =
    spread_bound names ex before rest ++ map (fun i => (i, sp)) (spread_binds names ex (before ++ rest) sp).
  Proof.
    induction rest as [|q r IH]; intros before sp; cbn [spread_bound app].
    - now rewrite !app_nil_r.
    - rewrite IH, <- !app_assoc. reflexivity.
  Qed.

  Definition spread_vals (names : list str) (explicit : list (str * sval)) (acc : list (spread_src sval)) : list (str * sval) :=
    map (fun b => (fst b, VAccess (sp_val (snd b)) (fst b))) (spread_bound names explicit [] acc).

  Definition pass2_inv (names : list str) (explicit : list (str * sval)) (vm : list sval) (t : argtbl)
             (acc : list (spread_src sval)) : Prop :=
    tbl_ok vm t (explicit ++ spread_vals names explicit acc) /\
    forall i, In i names -> has_key t i = (has_key explicit i || existsb (fun q => mem i (sp_exports q)) acc)%bool.

  Lemma has_key_app {V} (a b : list (str * V)) k : has_key (a ++ b) k = (has_key a k || has_key b k)%bool.
  Proof. unfold has_key. rewrite im_get_app. destruct (im_get a k); auto. Qed.

  Lemma pass2_sim names explicit args : NoDup names -> forall t acc st env vm,
    Rel st env vm -> pass2_inv names explicit vm t acc ->
    sim (pass2_inv names explicit) vm env (pass2 u args names t st) (spread_args u names explicit args acc env).
  Proof.
    intros ND. induction args as [|a r IH]; intros t acc st env vm R I.
    - cbn. apply sim_ret; auto.
    - destruct a as [id|id|an e|sp]; cbn [pass2 spread_args]; try (now apply IH).
      unfold bind at 1, sbind at 1. unfold spread_arg. unfold bind at 1.
      destruct (lookup_cases st env vm id R) as [(item & v & -> & -> & V)|[-> ->]]; [|reflexivity].
      destruct (rel_live _ _ _ _ _ R V) as (nd & G).
      unfold bind at 1. rewrite (kind_of_eq _ _ _ G). unfold sbind at 1, env_ at 1.
      destruct (r_node _ _ _ _ _ R item nd v G V) as (_ & VK & _).
      unfold val_exports. rewrite VK. unfold inst_exports.
      destruct (u_inst_exports u (nitem nd)) as [exN|] eqn:UE; [|reflexivity].
      destruct I as [T Hk].
      destruct (spread_names_sim item (off (id_span id)) nd exN v names t _ false st env vm R G V UE ND T)
        as (st' & vm' & adds & E & P' & R' & Sc' & MF & T').
      unfold bind at 1. rewrite E. cbn [orb].
      set (sp := {| sp_val := v; sp_exports := map fst (text_items u exN) |}).
      assert (FE : spread_filter t (text_items u exN) names = spread_binds names explicit acc sp).
      { unfold spread_filter, spread_binds. apply filter_ext_in. intros i Hi. rewrite (Hk i Hi). cbn [sp_exports sp].
        rewrite (has_key_mem (text_items u exN)). destruct (has_key explicit i), (existsb _ acc), (mem i _); reflexivity. }
      unfold spread_effective. rewrite <- FE, <- MF.
      destruct adds as [|a0 adds]; [reflexivity|]. cbn [is_nil negb map].
      eapply sim_weaken; [exact P'|apply env_le_refl|]. apply IH; auto.
      split.
      + unfold spread_vals. rewrite spread_bound_snoc, map_app, app_assoc. cbn [app]. rewrite <- FE.
        rewrite map_map. cbn [fst snd sp_val sp]. exact T'.
      + intros i Hi. rewrite has_key_app, (Hk i Hi), existsb_app. cbn [existsb sp_exports sp]. rewrite orb_false_r.
        assert (X : has_key (a0 :: adds) i = (negb (has_key t i) && has_key (text_items u exN) i)%bool).
        { destruct (has_key (a0 :: adds) i) eqn:HA.
          - apply has_key_In in HA. rewrite MF in HA. unfold spread_filter in HA. apply filter_In in HA as [_ HA]. now rewrite HA.
          - apply has_key_false in HA. rewrite MF in HA. unfold spread_filter in HA.
            destruct (negb (has_key t i) && has_key (text_items u exN) i)%bool eqn:C; auto. exfalso. apply HA.
            apply filter_In. auto. }
        rewrite X, (Hk i Hi), (has_key_mem (text_items u exN)). destruct (has_key explicit i), (existsb _ acc), (mem i _); reflexivity.
  Qed.
End SimExpr.
