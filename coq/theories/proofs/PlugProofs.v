(** Proofs for property C10 (plugging): the export-first algorithm of [Plug.plug] against the
    import-first reading [PlugSpec]. *)
From Coq Require Import List Arith Bool NArith Lia.
From WacV Require Import Str Names NamesProofs Graph Plug PlugSpec.
Import ListNotations.
Local Open Scope nat_scope.

(** * Part 0: list and graph-state helpers *)

Lemma nth_error_set_nth {A} (l : list A) n x m :
  nth_error (set_nth l n x) m =
  if m =? n then (if n <? length l then Some x else None) else nth_error l m.
Proof.
  revert n m. induction l as [|y l IH]; intros n m.
  - cbn. destruct (m =? n); destruct n, m; reflexivity.
  - destruct n as [|n], m as [|m]; cbn [set_nth nth_error length]; try reflexivity.
    rewrite IH. change (S m =? S n) with (m =? n). change (S n <? S (length l)) with (n <? length l). reflexivity.
Qed.

Lemma length_set_nth {A} (l : list A) n x : length (set_nth l n x) = length l.
Proof. revert n. induction l as [|y l IH]; intros [|n]; cbn; auto. Qed.

Lemma get_node_lt s n nd : get_node s n = Some nd -> n < length (nodes s).
Proof.
  unfold get_node. destruct (nth_error (nodes s) n) eqn:E; [|discriminate].
  intros _. apply nth_error_Some. congruence.
Qed.

Lemma get_node_add_node s nd n : free_nodes s = [] ->
  get_node (fst (add_node s nd)) n = if n =? length (nodes s) then Some nd else get_node s n.
Proof.
  intros F. unfold add_node. rewrite F. cbn [fst]. unfold get_node. cbn [nodes].
  destruct (Nat.eqb_spec n (length (nodes s))) as [->|NE].
  - rewrite nth_error_app2, Nat.sub_diag by lia. reflexivity.
  - destruct (Nat.lt_ge_cases n (length (nodes s))) as [L|G].
    + rewrite nth_error_app1 by exact L. reflexivity.
    + rewrite nth_error_app2 by exact G.
      destruct (n - length (nodes s)) as [|k] eqn:K; [lia|]. cbn.
      replace (nth_error (nodes s) n) with (@None (option node)) by (symmetry; apply nth_error_None; lia).
      destruct k; reflexivity.
Qed.

Lemma add_node_fresh s nd : free_nodes s = [] ->
  snd (add_node s nd) = length (nodes s) /\ free_nodes (fst (add_node s nd)) = [] /\
  edges (fst (add_node s nd)) = edges s /\ exports (fst (add_node s nd)) = exports s /\
  pkgs (fst (add_node s nd)) = pkgs s /\ length (nodes (fst (add_node s nd))) = S (length (nodes s)).
Proof.
  intros F. unfold add_node. rewrite F. cbn. rewrite app_length. cbn. repeat split; lia.
Qed.

Lemma get_node_set_node s n nd0 nd m : get_node s n = Some nd0 ->
  get_node (set_node s n (Some nd)) m = if m =? n then Some nd else get_node s m.
Proof.
  intros G. apply get_node_lt in G. unfold get_node, set_node. cbn [nodes].
  rewrite nth_error_set_nth. destruct (m =? n); [|reflexivity].
  apply Nat.ltb_lt in G. rewrite G. reflexivity.
Qed.

Lemma get_full_spec {B} (l : list (name * B)) k i j v :
  get_full l k i = Some (j, v) ->
  i <= j /\ nth_error l (j - i) = Some (k, v) /\ forall j' v', j' < j - i -> nth_error l j' = Some (k, v') -> False.
Proof.
  revert i. induction l as [|[k' v0] l IH]; intros i; cbn; [discriminate|].
  destruct (N.eqb_spec k' k) as [->|NE].
  - intros E. injection E as <- <-. rewrite Nat.sub_diag. cbn. repeat split; auto. intros; lia.
  - intros E. apply IH in E. destruct E as (L & N & U). split; [lia|].
    replace (j - i) with (S (j - S i)) by lia. cbn. split; [exact N|].
    intros [|j'] v' Lj; cbn; [intros E; injection E as E _; congruence|]. intros E. apply (U j' v'); [lia|exact E].
Qed.

Lemma get_full_none {B} (l : list (name * B)) k i : get_full l k i = None -> ~ In k (map fst l).
Proof.
  revert i. induction l as [|[k' v0] l IH]; intros i; cbn; [tauto|].
  destruct (N.eqb_spec k' k) as [->|NE]; [discriminate|]. intros E [F|F]; [congruence|]. eapply IH; eauto.
Qed.

Lemma get_full_in {B} (l : list (name * B)) k v : NoDup (map fst l) -> In (k, v) l ->
  exists j, get_full l k 0 = Some (j, v) /\ nth_error l j = Some (k, v).
Proof.
  intros ND I. destruct (get_full l k 0) as [[j v']|] eqn:E.
  - destruct (get_full_spec _ _ _ _ _ E) as (_ & N & _). rewrite Nat.sub_0_r in N.
    assert (v' = v).
    { apply nth_error_In in N. clear E. induction l as [|[a b] l IH]; [destruct I|].
      cbn in ND. inversion ND as [|? ? NI ND']; subst.
      destruct I as [I|I], N as [N|N]; try congruence.
      - injection I as -> ->. exfalso. apply NI. apply (in_map fst) in N. exact N.
      - injection N as -> ->. exfalso. apply NI. apply (in_map fst) in I. exact I.
      - auto. }
    subst. eauto.
  - apply get_full_none in E. exfalso. apply E. apply (in_map fst) in I. exact I.
Qed.

Lemma alist_get_in {B} (l : list (name * B)) k v : NoDup (map fst l) -> In (k, v) l -> alist_get N.eqb l k = Some v.
Proof.
  induction l as [|[a b] l IH]; [intros _ []|]. cbn. intros ND I. inversion ND as [|? ? NI ND']; subst.
  destruct (N.eqb_spec a k) as [->|NE].
  - destruct I as [I|I]; [congruence|]. exfalso. apply NI. apply (in_map fst) in I. exact I.
  - destruct I as [I|I]; [congruence|]. auto.
Qed.

Lemma alist_get_some {B} (l : list (name * B)) k v : alist_get N.eqb l k = Some v -> In (k, v) l.
Proof.
  induction l as [|[a b] l IH]; [discriminate|]. cbn. destruct (N.eqb_spec a k) as [->|NE].
  - intros E. injection E as ->. auto.
  - auto.
Qed.

Lemma alist_get_none {B} (l : list (name * B)) k : alist_get N.eqb l k = None -> ~ In k (map fst l).
Proof.
  induction l as [|[a b] l IH]; [tauto|]. cbn. destruct (N.eqb_spec a k) as [->|NE]; [discriminate|].
  intros E [F|F]; [cbn in F; congruence|]. exact (IH E F).
Qed.

Lemma nodup_fst_inj {B} (l : list (name * B)) k v v' : NoDup (map fst l) -> In (k, v) l -> In (k, v') l -> v = v'.
Proof.
  intros ND I I'. apply (alist_get_in _ _ _ ND) in I. apply (alist_get_in _ _ _ ND) in I'. congruence.
Qed.

(** * Part 1: the matching logic -- export-first pairs against import-first offers *)
Section LayerA.
  Variable text : name -> str.
  Variable sub : kid -> kid -> bool.

  Lemma in_plug_matches imps exps e m :
    In (e, m) (plug_matches text sub imps exps) <->
    exists ke t, In (e, ke) exps /\ find_target text imps e = Some (m, t) /\ sub ke t = true.
  Proof.
    unfold plug_matches. rewrite in_flat_map. split.
    - intros ([e0 ke] & I & M). cbn [fst snd] in M.
      destruct (find_target text imps e0) as [[m' t]|] eqn:F; [|destruct M].
      destruct (sub ke t) eqn:S; [|destruct M]. destruct M as [M|[]]. injection M as -> ->.
      exists ke, t. auto.
    - intros (ke & t & I & F & S). exists (e, ke). split; [exact I|]. cbn [fst snd]. rewrite F, S. left. reflexivity.
  Qed.

  Lemma find_target_in imps e m t :
    find_target text imps e = Some (m, t) -> In (m, t) imps /\ compat (text e) (text m) = true.
  Proof.
    unfold find_target. destruct (alist_get N.eqb imps e) as [t0|] eqn:A.
    - intros E. injection E as <- <-. split; [apply alist_get_some; exact A|apply compat_refl].
    - intros F. apply find_some in F. exact F.
  Qed.

  (** every pair of the algorithm is an offer of the import-first reading, when the plug does not
      export two names on one track *)
  Lemma match_is_offer imps exps e m :
    tracks_distinct text (map fst exps) ->
    In (e, m) (plug_matches text sub imps exps) ->
    exists t, In (m, t) imps /\ offer text sub exps (m, t) = Some e.
  Proof.
    intros TD M. apply in_plug_matches in M. destruct M as (ke & t & I & F & S).
    destruct (find_target_in _ _ _ _ F) as (Im & C). exists t. split; [exact Im|].
    unfold offer. cbn [fst snd].
    destruct (find (fun e0 => N.eqb (fst e0) m && sub (snd e0) t) exps) as [e'|] eqn:F1.
    - apply find_some in F1. destruct F1 as (I1 & P1). apply andb_prop in P1. destruct P1 as (P1 & _).
      apply N.eqb_eq in P1. f_equal.
      apply TD; [apply (in_map fst) in I1; exact I1|apply (in_map fst) in I; exact I|].
      rewrite P1. rewrite compat_sym. exact C.
    - destruct (find (fun e0 => compat (text (fst e0)) (text m) && sub (snd e0) t) exps) as [e'|] eqn:F2.
      + apply find_some in F2. destruct F2 as (I2 & P2). apply andb_prop in P2. destruct P2 as (P2 & _). f_equal.
        apply TD; [apply (in_map fst) in I2; exact I2|apply (in_map fst) in I; exact I|].
        eapply compat_trans; [exact P2|]. rewrite compat_sym. exact C.
      + exfalso. apply (find_none _ _ F2) in I. cbn [fst snd] in I. rewrite C, S in I. discriminate.
  Qed.

  (** every offer is a pair of the algorithm, when the socket does not import two names on one track *)
  Lemma offer_is_match imps exps e m t :
    NoDup (map fst imps) -> tracks_distinct text (map fst imps) ->
    In (m, t) imps -> offer text sub exps (m, t) = Some e ->
    In (e, m) (plug_matches text sub imps exps).
  Proof.
    intros ND TD Im O. apply in_plug_matches. unfold offer in O. cbn [fst snd] in O.
    destruct (find (fun e0 => N.eqb (fst e0) m && sub (snd e0) t) exps) as [[e1 k1]|] eqn:F1.
    - injection O as <-. apply find_some in F1. destruct F1 as (I1 & P1). cbn [fst snd] in P1.
      apply andb_prop in P1. destruct P1 as (P1 & S1). apply N.eqb_eq in P1. subst e1.
      exists k1, t. split; [exact I1|]. split; [|exact S1].
      unfold find_target. rewrite (alist_get_in _ _ _ ND Im). reflexivity.
    - destruct (find (fun e0 => compat (text (fst e0)) (text m) && sub (snd e0) t) exps) as [[e2 k2]|] eqn:F2; [|discriminate].
      injection O as <-. apply find_some in F2. destruct F2 as (I2 & P2). cbn [fst snd] in P2.
      apply andb_prop in P2. destruct P2 as (C2 & S2).
      exists k2, t. split; [exact I2|]. split; [|exact S2].
      unfold find_target. destruct (alist_get N.eqb imps e2) as [t0|] eqn:A.
      + (* an import of that very name: it is [m] itself, and then the exact offer would have been made *)
        apply alist_get_some in A.
        assert (e2 = m) as ->.
        { apply TD; [apply (in_map fst) in A; exact A|apply (in_map fst) in Im; exact Im|exact C2]. }
        exfalso. apply (find_none _ _ F1) in I2. cbn [fst snd] in I2. rewrite N.eqb_refl, S2 in I2. discriminate.
      + destruct (find (fun p => compat (text e2) (text (fst p))) imps) as [[m' t']|] eqn:F3.
        * apply find_some in F3. destruct F3 as (I3 & C3). cbn [fst] in C3.
          assert (m' = m) as ->.
          { apply TD; [apply (in_map fst) in I3; exact I3|apply (in_map fst) in Im; exact Im|].
            eapply compat_trans; [rewrite compat_sym; exact C3|exact C2]. }
          rewrite (nodup_fst_inj _ _ _ _ ND I3 Im). reflexivity.
        * exfalso. apply (find_none _ _ F3) in Im. cbn [fst] in Im. rewrite Im in C2. discriminate.
  Qed.

  Lemma in_suppliers_from k0 pls i k e :
    In (k, e) (suppliers_from text sub k0 pls i) <->
    k0 <= k /\ exists exps, nth_error pls (k - k0) = Some exps /\ offer text sub exps i = Some e.
  Proof.
    revert k0. induction pls as [|exps pls IH]; intros k0; cbn [suppliers_from].
    - split; [intros []|]. intros (_ & x & N & _). destruct (k - k0); discriminate.
    - assert (T : In (k, e) (suppliers_from text sub (S k0) pls i) <->
                  k0 <= k /\ k <> k0 /\ exists x, nth_error pls (k - S k0) = Some x /\ offer text sub x i = Some e).
      { rewrite IH. split; [intros (L & R); repeat split; [lia|lia|exact R]|intros (L & NE & R); split; [lia|exact R]]. }
      destruct (offer text sub exps i) as [e0|] eqn:O.
      + cbn [In]. rewrite T. split.
        * intros [E|(L & NE & x & N & Ox)].
          -- injection E as <- <-. split; [lia|]. exists exps. rewrite Nat.sub_diag. auto.
          -- split; [exact L|]. exists x. replace (k - k0) with (S (k - S k0)) by lia. auto.
        * intros (L & x & N & Ox). destruct (Nat.eq_dec k k0) as [->|NE].
          -- rewrite Nat.sub_diag in N. cbn in N. injection N as <-. left. congruence.
          -- right. repeat split; auto. exists x. replace (k - k0) with (S (k - S k0)) in N by lia. auto.
      + rewrite T. split.
        * intros (L & NE & x & N & Ox). split; [exact L|]. exists x. replace (k - k0) with (S (k - S k0)) by lia. auto.
        * intros (L & x & N & Ox). destruct (Nat.eq_dec k k0) as [->|NE].
          -- rewrite Nat.sub_diag in N. cbn in N. injection N as <-. congruence.
          -- repeat split; auto. exists x. replace (k - k0) with (S (k - S k0)) in N by lia. auto.
  Qed.

  Lemma in_suppliers pls i k e :
    In (k, e) (suppliers text sub pls i) <-> exists exps, nth_error pls k = Some exps /\ offer text sub exps i = Some e.
  Proof.
    unfold suppliers. rewrite in_suppliers_from. rewrite Nat.sub_0_r. split; [intros (_ & H); exact H|intros H; split; [lia|exact H]].
  Qed.

  (** two entries mean two different plug positions *)
  Lemma suppliers_from_two k0 pls i :
    2 <= length (suppliers_from text sub k0 pls i) ->
    exists k1 k2 e1 e2, k1 < k2 /\ In (k1, e1) (suppliers_from text sub k0 pls i) /\ In (k2, e2) (suppliers_from text sub k0 pls i).
  Proof.
    revert k0. induction pls as [|exps pls IH]; intros k0; cbn [suppliers_from]; [cbn; lia|].
    destruct (offer text sub exps i) as [e0|] eqn:O.
    - cbn [length]. intros L.
      destruct (suppliers_from text sub (S k0) pls i) as [|[k2 e2] r] eqn:R; [cbn in L; lia|].
      assert (I2 : In (k2, e2) (suppliers_from text sub (S k0) pls i)) by (rewrite R; left; reflexivity).
      pose proof I2 as I2'. apply in_suppliers_from in I2'. destruct I2' as (L2 & _).
      exists k0, k2, e0, e2. split; [lia|]. split; [left; reflexivity|right; rewrite <- R; exact I2].
    - intros L. destruct (IH _ L) as (k1 & k2 & e1 & e2 & Lt & I1 & I2). exists k1, k2, e1, e2. auto.
  Qed.

  Lemma suppliers_from_one k0 pls i :
    (forall k1 k2 e1 e2, In (k1, e1) (suppliers_from text sub k0 pls i) ->
                         In (k2, e2) (suppliers_from text sub k0 pls i) -> k1 = k2) ->
    length (suppliers_from text sub k0 pls i) <= 1.
  Proof.
    intros U. destruct (le_lt_dec (length (suppliers_from text sub k0 pls i)) 1) as [L|G]; [exact L|].
    destruct (suppliers_from_two k0 pls i G) as (k1 & k2 & e1 & e2 & Lt & I1 & I2).
    specialize (U _ _ _ _ I1 I2). lia.
  Qed.
End LayerA.


(** ** the per-import dedupe of the repaired plug.rs ([unique_exports]) *)
Definition is_exact (m : name) (p : name * name) : bool := N.eqb (fst p) m && N.eqb (snd p) m.
Definition targets (m : name) (p : name * name) : bool := N.eqb (snd p) m.
Definition pick (l : list (name * name)) (m : name) : option name :=
  if existsb (is_exact m) l then Some m
  else match find (targets m) l with Some p => Some (fst p) | None => None end.

Lemma find_app_ {A} (f : A -> bool) l l' :
  find f (l ++ l') = match find f l with Some x => Some x | None => find f l' end.
Proof. induction l as [|x l IH]; cbn; [reflexivity|]. destruct (f x); auto. Qed.

Ltac dex l H := match goal with |- context [existsb ?f l] => destruct (existsb f l) eqn:H end.
Ltac dfi l H := match goal with |- context [find ?f l] => destruct (find f l) eqn:H end.

Lemma pick_in l m e : pick l m = Some e -> In (e, m) l.
Proof.
  unfold pick. dex l E.
  - intros Q. injection Q as <-. apply existsb_exists in E. destruct E as ([a b] & I & P). unfold is_exact in P. cbn in P.
    apply andb_prop in P. destruct P as (A & B). apply N.eqb_eq in A, B. subst. exact I.
  - dfi l F; [|discriminate]. destruct p as [a b]. intros Q. injection Q as <-.
    apply find_some in F. destruct F as (I & B). unfold targets in B. cbn in B. apply N.eqb_eq in B. subst. exact I.
Qed.

Lemma pick_none l m e : pick l m = None -> ~ In (e, m) l.
Proof.
  unfold pick. dex l E; [discriminate|]. dfi l F; [discriminate|].
  intros _ I. apply (find_none _ _ F) in I. unfold targets in I. cbn in I. rewrite N.eqb_refl in I. discriminate.
Qed.

Lemma pick_snoc l e1 m1 m :
  pick (l ++ [(e1, m1)]) m =
  if N.eqb m1 m then (if N.eqb e1 m1 then Some m1 else match pick l m with Some v => Some v | None => Some e1 end)
  else pick l m.
Proof.
  unfold pick. rewrite existsb_app, find_app_. cbn [existsb find]. rewrite orb_false_r.
  change (is_exact m (e1, m1)) with (N.eqb e1 m && N.eqb m1 m). change (targets m (e1, m1)) with (N.eqb m1 m).
  destruct (N.eqb_spec m1 m) as [->|NE].
  - rewrite andb_true_r. destruct (N.eqb_spec e1 m) as [->|NE1].
    + rewrite orb_true_r. reflexivity.
    + rewrite orb_false_r. dex l E; [reflexivity|]. dfi l F; reflexivity.
  - rewrite andb_false_r, orb_false_r. dex l E; [reflexivity|]. dfi l F; reflexivity.
Qed.

Lemma replace_first_snd m e acc : map snd (replace_first m e acc) = map snd acc.
Proof. induction acc as [|[e0 m0] r IH]; cbn; [reflexivity|]. destruct (N.eqb m0 m); cbn; congruence. Qed.

Lemma replace_first_in m1 e1 acc e m : NoDup (map snd acc) ->
  (In (e, m) (replace_first m1 e1 acc) <->
   (m = m1 /\ e = e1 /\ In m1 (map snd acc)) \/ (m <> m1 /\ In (e, m) acc)).
Proof.
  induction acc as [|[e0 m0] r IH]; cbn [replace_first map snd In]; intros ND; [tauto|].
  inversion ND as [|? ? NI ND']; subst. destruct (N.eqb_spec m0 m1) as [->|NE].
  - cbn [In]. split.
    + intros [Q|Q]; [injection Q as <- <-; left; auto|]. right. split; [|auto].
      intros ->. apply NI. apply (in_map snd) in Q. exact Q.
    + intros [(-> & -> & _)|(NEm & [Q|Q])]; [left; reflexivity| |right; exact Q]. injection Q as _ Q. congruence.
  - cbn [In]. rewrite (IH ND'). split.
    + intros [Q|[(A & B & C)|(A & B)]]; [injection Q as <- <-; right; split; [congruence|auto]|left; auto|right; auto].
    + intros [(A & B & [C|C])|(A & [Q|Q])]; [congruence|right; left; auto|left; exact Q|right; right; auto].
Qed.

Lemma nodup_snoc {A} (l : list A) a : NoDup l -> ~ In a l -> NoDup (l ++ [a]).
Proof.
  induction l as [|x l IH]; cbn; intros ND NI; [constructor; [tauto|constructor]|].
  inversion ND as [|? ? NIx ND']; subst. constructor; [|apply IH; tauto].
  rewrite in_app_iff. cbn. intros [Q|[Q|[]]]; [tauto|]. apply NI. left. symmetry. exact Q.
Qed.

Lemma unique_pairs_spec l :
  NoDup (map snd (unique_pairs l)) /\ forall m e, In (e, m) (unique_pairs l) <-> pick l m = Some e.
Proof.
  induction l as [|[e1 m1] l (ND & IH)] using rev_ind.
  - split; [constructor|]. intros m e. cbn. split; [intros []|discriminate].
  - unfold unique_pairs in *. rewrite fold_left_app. cbn [fold_left]. set (U := fold_left unique_step l []) in *.
    assert (MEM : In m1 (map snd U) <-> exists e0, pick l m1 = Some e0).
    { split.
      - intros Q. apply in_map_iff in Q. destruct Q as ([e0 m0] & E & I). cbn in E. subst m0. exists e0. apply IH. exact I.
      - intros (e0 & Q). apply IH in Q. apply (in_map snd) in Q. exact Q. }
    unfold unique_step. cbn [fst snd].
    destruct (existsb (fun p => N.eqb (snd p) m1) U) eqn:T.
    + assert (I1 : In m1 (map snd U)).
      { apply existsb_exists in T. destruct T as (p & I & Q). apply N.eqb_eq in Q. subst m1. apply in_map. exact I. }
      destruct (proj1 MEM I1) as (e0 & P0).
      destruct (N.eqb_spec e1 m1) as [->|NE1].
      * split; [rewrite replace_first_snd; exact ND|]. intros m e. rewrite (replace_first_in _ _ _ _ _ ND), pick_snoc, N.eqb_refl.
        destruct (N.eqb_spec m1 m) as [<-|NE].
        -- split; [intros [(_ & -> & _)|(Q & _)]; [reflexivity|congruence]|intros Q; injection Q as <-; left; auto].
        -- rewrite <- IH. split; [intros [(Q & _)|(_ & Q)]; [congruence|exact Q]|intros Q; right; split; [congruence|exact Q]].
      * split; [exact ND|]. intros m e. rewrite pick_snoc. destruct (N.eqb_spec m1 m) as [<-|NE]; [|apply IH].
        destruct (N.eqb_spec e1 m1); [congruence|]. rewrite P0. rewrite IH, P0. tauto.
    + assert (N1 : ~ In m1 (map snd U)).
      { intros Q. apply in_map_iff in Q. destruct Q as (p & E & I).
        assert (existsb (fun p => N.eqb (snd p) m1) U = true); [|congruence].
        apply existsb_exists. exists p. split; [exact I|]. apply N.eqb_eq. exact E. }
      assert (P0 : pick l m1 = None).
      { destruct (pick l m1) as [e0|] eqn:Q; [|reflexivity]. exfalso. apply N1. apply MEM. eauto. }
      split; [rewrite map_app; apply nodup_snoc; assumption|]. intros m e. rewrite in_app_iff, pick_snoc. cbn [In].
      destruct (N.eqb_spec m1 m) as [<-|NE].
      * rewrite P0. split.
        -- intros [Q|[Q|[]]]; [exfalso; apply N1; apply (in_map snd) in Q; exact Q|]. injection Q as <-.
           destruct (N.eqb_spec e1 m1); congruence.
        -- intros Q. right. left. destruct (N.eqb_spec e1 m1); congruence.
      * rewrite <- IH. split; [intros [Q|[Q|[]]]; [exact Q|congruence]|auto].
Qed.

Lemma unique_pairs_incl l e m : In (e, m) (unique_pairs l) -> In (e, m) l.
Proof. intros I. apply pick_in. apply (proj2 (unique_pairs_spec l)). exact I. Qed.

Lemma nodup_fst_of_snd {B} (raw l : list (name * B)) :
  NoDup (map fst raw) -> (forall p, In p l -> In p raw) -> NoDup (map snd l) -> NoDup (map fst l).
Proof.
  intros NR. induction l as [|[a b] r IH]; cbn; intros INC ND; [constructor|].
  inversion ND as [|? ? NI ND']; subst. constructor; [|apply IH; auto].
  intros Q. apply in_map_iff in Q. destruct Q as ([a' b'] & E & I). cbn in E. subst a'.
  assert (b' = b) by (eapply nodup_fst_inj; [exact NR|apply INC; right; exact I|apply INC; left; reflexivity]).
  subst. apply NI. apply (in_map snd) in I. exact I.
Qed.

Section LayerA2.
  Variable text : name -> str.
  Variable sub : kid -> kid -> bool.

  (** under the socket hypothesis the unique pair chosen for an import IS the import-first offer:
      no hypothesis on the plug is needed any more *)
  Lemma pick_matches_is_offer imps exps m t :
    NoDup (map fst imps) -> tracks_distinct text (map fst imps) -> In (m, t) imps ->
    pick (plug_matches text sub imps exps) m = offer text sub exps (m, t).
  Proof.
    intros ND TD Im. unfold plug_matches.
    set (P := fun x : item => compat (text (fst x)) (text m) && sub (snd x) t).
    set (E := fun x : item => N.eqb (fst x) m && sub (snd x) t).
    set (f := fun e0 : name * kid => match find_target text imps (fst e0) with
                                      | Some (m0, t0) => if sub (snd e0) t0 then [(fst e0, m0)] else []
                                      | None => [] end).
    assert (L : forall x, (P x = true -> f x = [(fst x, m)]) /\ (P x = false -> forall p, In p (f x) -> snd p <> m)).
    { intros [e ke]. unfold P, f. cbn [fst snd].
      destruct (find_target text imps e) as [[m' t']|] eqn:F.
      - destruct (find_target_in _ _ _ _ _ F) as (Im' & C').
        destruct (compat (text e) (text m)) eqn:C.
        + assert (m' = m) as ->.
          { apply TD; [apply (in_map fst) in Im'; exact Im'|apply (in_map fst) in Im; exact Im|].
            eapply compat_trans; [rewrite compat_sym; exact C'|exact C]. }
          rewrite (nodup_fst_inj _ _ _ _ ND Im' Im). cbn. split; [intros ->; reflexivity|].
          intros ->. intros p [].
        + cbn. split; [discriminate|]. intros _ p Ip. destruct (sub ke t'); [|destruct Ip].
          destruct Ip as [<-|[]]. cbn. intros ->. rewrite C' in C. discriminate.
      - split; [|intros _ p []]. intros Q. apply andb_prop in Q. destruct Q as (C & _). exfalso.
        unfold find_target in F. destruct (alist_get N.eqb imps e); [discriminate|].
        apply (find_none _ _ F) in Im. cbn in Im. congruence. }
    assert (EX : forall l0, existsb (is_exact m) (flat_map f l0) = existsb E l0).
    { intros l0. induction l0 as [|x xs IH]; [reflexivity|]. cbn [flat_map existsb]. rewrite existsb_app, IH. f_equal.
      destruct (L x) as (LT & LF). destruct (P x) eqn:Px.
      - rewrite (LT eq_refl). unfold is_exact. cbn. rewrite N.eqb_refl, andb_true_r, orb_false_r. unfold E.
        unfold P in Px. apply andb_prop in Px. destruct Px as (_ & ->). rewrite andb_true_r. reflexivity.
      - transitivity false.
        + destruct (existsb (is_exact m) (f x)) eqn:Q; [|reflexivity]. apply existsb_exists in Q. destruct Q as (p & Ip & Q).
          unfold is_exact in Q. apply andb_prop in Q. destruct Q as (_ & Q). apply N.eqb_eq in Q. destruct (LF eq_refl p Ip Q).
        + unfold E. destruct (N.eqb_spec (fst x) m) as [Q|Q]; [|reflexivity]. unfold P in Px. rewrite Q, compat_refl in Px.
          cbn in Px. rewrite Px. reflexivity. }
    assert (FD : forall l0, find (targets m) (flat_map f l0) =
                 match find P l0 with Some x => Some (fst x, m) | None => None end).
    { intros l0. induction l0 as [|x xs IH]; [reflexivity|]. cbn [flat_map find]. rewrite find_app_.
      destruct (L x) as (LT & LF). destruct (P x) eqn:Px.
      - rewrite (LT eq_refl). unfold targets. cbn. rewrite N.eqb_refl. reflexivity.
      - rewrite IH. destruct (find (targets m) (f x)) as [p|] eqn:Q; [|reflexivity]. apply find_some in Q. destruct Q as (Ip & Q).
        unfold targets in Q. apply N.eqb_eq in Q. destruct (LF eq_refl p Ip Q). }
    change (offer text sub exps (m, t)) with
      (match find E exps with Some e => Some (fst e)
       | None => match find P exps with Some e => Some (fst e) | None => None end end).
    unfold pick. rewrite EX, FD.
    destruct (find E exps) as [x|] eqn:FE.
    - apply find_some in FE. destruct FE as (Ix & Ex).
      assert (existsb E exps = true) as -> by (apply existsb_exists; eauto).
      unfold E in Ex. apply andb_prop in Ex. destruct Ex as (Q & _). apply N.eqb_eq in Q. congruence.
    - assert (existsb E exps = false) as ->.
      { destruct (existsb E exps) eqn:Q; [|reflexivity]. apply existsb_exists in Q. destruct Q as (x & Ix & Ex).
        rewrite (find_none _ _ FE x Ix) in Ex. discriminate. }
      destruct (find P exps); reflexivity.
  Qed.

  Lemma pair_iff_offer imps exps e m t :
    NoDup (map fst imps) -> tracks_distinct text (map fst imps) -> In (m, t) imps ->
    (In (e, m) (plug_pairs text sub imps exps) <-> offer text sub exps (m, t) = Some e).
  Proof.
    intros ND TD Im. unfold plug_pairs. rewrite (proj2 (unique_pairs_spec _)).
    rewrite (pick_matches_is_offer imps exps m t ND TD Im). tauto.
  Qed.

  Lemma pair_target_is_import imps exps e m :
    In (e, m) (plug_pairs text sub imps exps) -> exists t, In (m, t) imps.
  Proof.
    intros I. apply unique_pairs_incl in I. apply in_plug_matches in I. destruct I as (ke & t & _ & F & _).
    apply find_target_in in F. destruct F as (Im & _). eauto.
  Qed.
End LayerA2.

(** * Part 2: the graph built by [plug] -- invariant and single operations *)
Definition is_inst (nd : node) : Prop := exists sat, nk nd = NInst sat.

Lemma pkg_desc_same u s s' id : pkgs s' = pkgs s -> pkg_desc u s' id = pkg_desc u s id.
Proof. intros E. unfold pkg_desc, get_pkg. rewrite E. reflexivity. Qed.

Section State.
  Variable u : universe.
  Variable sock : nat.             (* the socket instantiation *)
  Variable sp : pkgid.             (* the socket package *)
  Variable sd : pkgdesc.
  Variable PD : pkgid -> option pkgdesc.   (* the (fixed) package table *)
  Hypothesis PD_sp : PD sp = Some sd.
  Let imps := pd_imports sd.

  Definition arg_e (a i : nat) : edge := {| esrc := a; etgt := sock; ek := EArg i |}.
  Definition alias_e (n a xi : nat) : edge := {| esrc := n; etgt := a; ek := EAlias xi |}.

  Record Good (s : gstate) : Prop := {
    G_free : free_nodes s = [];
    G_pd : forall id, pkg_desc u s id = PD id;
    G_live : forall n, n < length (nodes s) -> exists nd, get_node s n = Some nd;
    G_bound : forall e, In e (edges s) -> esrc e < length (nodes s) /\ etgt e < length (nodes s);
    G_shape : forall e, In e (edges s) ->
                (exists a i, e = arg_e a i) \/ (exists n a xi, e = alias_e n a xi /\ a <> sock);
    G_sock : exists nd sat, get_node s sock = Some nd /\ nk nd = NInst sat /\ npkg nd = Some sp /\
               (forall i, In i sat <-> exists a, In (arg_e a i) (edges s));
    G_arg_valid : forall a i, In (arg_e a i) (edges s) -> exists m t, nth_error imps i = Some (m, t);
    G_arg_uniq : forall a a' i, In (arg_e a i) (edges s) -> In (arg_e a' i) (edges s) -> a = a';
    G_alias_uniq : forall n n' a xi xi', In (alias_e n a xi) (edges s) -> In (alias_e n' a xi') (edges s) ->
                     n = n' /\ xi = xi';
    G_alias_src : forall n a xi, In (alias_e n a xi) (edges s) ->
                    exists nd ex nm k, get_node s n = Some nd /\ is_inst nd /\
                                       u_inst_exports u (nitem nd) = Some ex /\ nth_error ex xi = Some (nm, k);
    (* [plug] defines no type: [export] never renames *)
    G_nodef : forall n nd, get_node s n = Some nd -> nk nd <> NDef
  }.

  (** nodes are only added; the static attributes of a node never change *)
  Definition NP (s s' : gstate) : Prop :=
    forall n nd, get_node s n = Some nd ->
      exists nd', get_node s' n = Some nd' /\ nitem nd' = nitem nd /\ npkg nd' = npkg nd /\ (is_inst nd -> is_inst nd').

  Lemma NP_refl s : NP s s.
  Proof. intros n nd G. exists nd. auto. Qed.

  Lemma NP_trans s1 s2 s3 : NP s1 s2 -> NP s2 s3 -> NP s1 s3.
  Proof.
    intros A B n nd G. destruct (A _ _ G) as (nd2 & G2 & I2 & P2 & S2).
    destruct (B _ _ G2) as (nd3 & G3 & I3 & P3 & S3). exists nd3. repeat split; try congruence. auto.
  Qed.

  Lemma sock_lt s : Good s -> sock < length (nodes s).
  Proof. intros g. destruct (G_sock s g) as (nd & sat & G & _). eapply get_node_lt; eauto. Qed.

  (** ** instantiate *)
  Lemma instantiate_ok s id pd : Good s -> PD id = Some pd ->
    exists s1, instantiate u s id = (s1, ONode (length (nodes s))) /\ Good s1 /\
               edges s1 = edges s /\ exports s1 = exports s /\ length (nodes s1) = S (length (nodes s)) /\
               (forall n, get_node s1 n = if n =? length (nodes s)
                                          then Some (mk_node (NInst []) (pd_inst pd) (Some id)) else get_node s n).
  Proof.
    intros g P. unfold instantiate. rewrite (G_pd s g), P.
    set (nd := mk_node (NInst []) (pd_inst pd) (Some id)).
    destruct (add_node_fresh s nd (G_free s g)) as (Ei & Ef & Ee & Ex & Ep & El).
    pose proof (get_node_add_node s nd) as GN. specialize (fun n => GN n (G_free s g)).
    destruct (add_node s nd) as [s1 idx] eqn:A. cbn [fst snd] in *. subst idx.
    exists s1. split; [reflexivity|]. split; [|auto].
    assert (OLD : forall n x, get_node s n = Some x -> get_node s1 n = Some x).
    { intros n x G. rewrite GN. pose proof (get_node_lt _ _ _ G). destruct (Nat.eqb_spec n (length (nodes s))); [lia|exact G]. }
    constructor.
    - exact Ef.
    - intros i. rewrite (pkg_desc_same u s s1 i Ep). apply (G_pd s g).
    - intros n L. rewrite GN. destruct (Nat.eqb_spec n (length (nodes s))); [eauto|]. apply (G_live s g). lia.
    - intros e I. rewrite Ee in I. destruct (G_bound s g e I). lia.
    - intros e I. rewrite Ee in I. apply (G_shape s g e I).
    - destruct (G_sock s g) as (x & sat & G & K & Pk & S). exists x, sat. rewrite Ee. auto.
    - intros a i I. rewrite Ee in I. apply (G_arg_valid s g a i I).
    - intros a a' i. rewrite Ee. apply (G_arg_uniq s g).
    - intros n n' a xi xi'. rewrite Ee. apply (G_alias_uniq s g).
    - intros n a xi I. rewrite Ee in I. destruct (G_alias_src s g n a xi I) as (x & ex & nm & k & G & R).
      exists x, ex, nm, k. split; [apply OLD; exact G|exact R].
    - intros n x Gx. rewrite GN in Gx. destruct (n =? length (nodes s)); [injection Gx as <-; discriminate|].
      apply (G_nodef s g n x Gx).
  Qed.

  (** ** alias_instance_export *)
  Lemma in_outgoing s n e : In e (outgoing s n) <-> In e (edges s) /\ esrc e = n.
  Proof. unfold outgoing. rewrite filter_In, Nat.eqb_eq. tauto. Qed.
  Lemma in_incoming s n e : In e (incoming s n) <-> In e (edges s) /\ etgt e = n.
  Proof. unfold incoming. rewrite filter_In, Nat.eqb_eq. tauto. Qed.

  Lemma alias_ok s n nd ex e xi k : Good s ->
    get_node s n = Some nd -> is_inst nd -> u_inst_exports u (nitem nd) = Some ex -> get_full ex e 0 = Some (xi, k) ->
    (exists a, alias u s n e = (s, ONode a) /\ In (alias_e n a xi) (edges s)) \/
    (exists s2, alias u s n e = (s2, ONode (length (nodes s))) /\ Good s2 /\
                edges s2 = alias_e n (length (nodes s)) xi :: edges s /\ exports s2 = exports s /\
                length (nodes s2) = S (length (nodes s)) /\
                (forall m, get_node s2 m = if m =? length (nodes s) then Some (mk_node NAlias k (npkg nd)) else get_node s m) /\
                (forall a, ~ In (alias_e n a xi) (edges s))).
  Proof.
    intros g G I X F. unfold alias. rewrite G, X, F.
    destruct (find (fun ed => match ek ed with EAlias i => i =? xi | _ => false end) (outgoing s n)) as [ed|] eqn:Fd.
    - left. apply find_some in Fd. destruct Fd as (Io & P). apply in_outgoing in Io. destruct Io as (Ie & Es).
      exists (etgt ed). split; [reflexivity|]. destruct ed as [a b c]. cbn in *. subst a.
      destruct c as [i|i|]; try discriminate. apply Nat.eqb_eq in P. subst i. exact Ie.
    - right. set (an := mk_node NAlias k (npkg nd)).
      destruct (add_node_fresh s an (G_free s g)) as (Ei & Ef & Ee & Ex & Ep & El).
      pose proof (get_node_add_node s an) as GN. specialize (fun m => GN m (G_free s g)).
      destruct (add_node s an) as [s1 idx] eqn:A. cbn [fst snd] in *. subst idx.
      set (len := length (nodes s)) in *.
      exists (add_edge s1 (alias_e n len xi)). split; [reflexivity|].
      assert (NOALIAS : forall a, ~ In (alias_e n a xi) (edges s)).
      { intros a Ia. assert (Q := find_none _ _ Fd (alias_e n a xi)). cbn in Q. rewrite Nat.eqb_refl in Q.
        assert (true = false); [|discriminate]. apply Q. apply in_outgoing. auto. }
      assert (OLD : forall m x, get_node s m = Some x -> get_node s1 m = Some x).
      { intros m x Gm. rewrite GN. pose proof (get_node_lt _ _ _ Gm). destruct (Nat.eqb_spec m len); [lia|exact Gm]. }
      pose proof (get_node_lt _ _ _ G) as Ln. pose proof (sock_lt s g) as Ls.
      assert (FRESH : forall e0, In e0 (edges s) -> esrc e0 <> len /\ etgt e0 <> len).
      { intros e0 I0. destruct (G_bound s g e0 I0). lia. }
      split; [|cbn [add_edge edges exports nodes]; rewrite Ee, Ex, El; repeat split; auto].
      constructor; cbn [add_edge free_nodes edges nodes].
      + exact Ef.
      + intros i. rewrite <- (G_pd s g i). apply pkg_desc_same. exact Ep.
      + intros m L. change (get_node (add_edge s1 (alias_e n len xi)) m) with (get_node s1 m). rewrite GN.
        destruct (Nat.eqb_spec m len); [eauto|]. apply (G_live s g). lia.
      + intros e0 [<-|I0]; [cbn; lia|]. rewrite Ee in I0. destruct (G_bound s g e0 I0). lia.
      + intros e0 [<-|I0]; [right; exists n, len, xi; split; [reflexivity|lia]|]. rewrite Ee in I0. apply (G_shape s g e0 I0).
      + destruct (G_sock s g) as (x & sat & Gs & K & Pk & S). exists x, sat.
        split; [change (get_node s1 sock = Some x); apply OLD; exact Gs|]. repeat split; auto.
        * intros Hi. apply S in Hi. destruct Hi as (a & Ia). exists a. right. rewrite Ee. exact Ia.
        * intros (a & [Ia|Ia]); [discriminate|]. apply S. exists a. rewrite <- Ee. exact Ia.
      + intros a i [Ia|Ia]; [discriminate|]. rewrite Ee in Ia. apply (G_arg_valid s g a i Ia).
      + intros a a' i [Ia|Ia] [Ia'|Ia']; try discriminate. rewrite Ee in Ia, Ia'. apply (G_arg_uniq s g a a' i Ia Ia').
      + intros n1 n2 a x1 x2 [I1|I1] [I2|I2].
        * injection I1 as <- <- <-. injection I2 as <- <-. auto.
        * injection I1 as <- <- <-. rewrite Ee in I2. destruct (FRESH _ I2) as (_ & Q). cbn in Q. congruence.
        * injection I2 as <- <- <-. rewrite Ee in I1. destruct (FRESH _ I1) as (_ & Q). cbn in Q. congruence.
        * rewrite Ee in I1, I2. apply (G_alias_uniq s g _ _ _ _ _ I1 I2).
      + intros n1 a x1 [I1|I1].
        * injection I1 as <- <- <-. exists nd, ex, e, k. split; [change (get_node s1 n = Some nd); apply OLD; exact G|].
          split; [exact I|]. split; [exact X|]. destruct (get_full_spec _ _ _ _ _ F) as (_ & N & _).
          rewrite Nat.sub_0_r in N. exact N.
        * rewrite Ee in I1. destruct (G_alias_src s g _ _ _ I1) as (x & ex' & nm & k' & Gx & R).
          exists x, ex', nm, k'. split; [change (get_node s1 n1 = Some x); apply OLD; exact Gx|exact R].
      + intros m x Gx. change (get_node s1 m = Some x) in Gx. rewrite GN in Gx.
        destruct (m =? len); [injection Gx as <-; discriminate|]. apply (G_nodef s g m x Gx).
  Qed.

  (** ** set_instantiation_argument on the socket *)
  Lemma incoming_sock_args s : Good s -> forall e, In e (incoming s sock) -> exists a i, e = arg_e a i.
  Proof.
    intros g e I. apply in_incoming in I. destruct I as (I & T).
    destruct (G_shape s g e I) as [(a & i & ->)|(n & a & xi & -> & NE)]; [eauto|]. cbn in T. congruence.
  Qed.

  Lemma scan_none es im a :
    (forall e, In e es -> exists a' i, e = arg_e a' i) -> (forall a', ~ In (arg_e a' im) es) ->
    scan_incoming es im a = ScanNone.
  Proof.
    induction es as [|e es IH]; intros A N; [reflexivity|].
    destruct (A e (or_introl eq_refl)) as (a' & i & ->). cbn.
    destruct (Nat.eqb_spec i im) as [->|NE]; [exfalso; apply (N a'); left; reflexivity|].
    apply IH; [intros e I; apply A; right; exact I|intros a'' I; apply (N a''); right; exact I].
  Qed.

  Lemma scan_other es im a a' :
    (forall e, In e es -> exists a0 i, e = arg_e a0 i) -> In (arg_e a' im) es ->
    (forall a0, In (arg_e a0 im) es -> a0 = a') -> a' <> a ->
    scan_incoming es im a = ScanOther.
  Proof.
    induction es as [|e es IH]; intros A I U NE; [destruct I|].
    destruct (A e (or_introl eq_refl)) as (a0 & i & ->). cbn.
    destruct (Nat.eqb_spec i im) as [->|NEi].
    - assert (a0 = a') as -> by (apply U; left; reflexivity).
      destruct (Nat.eqb_spec a' a); [congruence|reflexivity].
    - destruct I as [I|I]; [injection I as _ E; congruence|].
      apply IH; auto. intros e I0; apply A; right; exact I0. intros a1 I1. apply U. right. exact I1.
  Qed.

  Lemma inst_imports_sock s nd : Good s -> npkg nd = Some sp -> inst_imports u s nd = Some imps.
  Proof. intros g P. unfold inst_imports. rewrite P, (G_pd s g), PD_sp. reflexivity. Qed.

  Lemma set_arg_busy s m a im t a' : Good s ->
    get_full imps m 0 = Some (im, t) -> In (arg_e a' im) (edges s) -> a' <> a ->
    set_arg u s sock m a = (s, OErr ArgumentAlreadyPassed).
  Proof.
    intros g F I NE. destruct (G_sock s g) as (nd & sat & G & K & P & S).
    unfold set_arg. rewrite G, K, (inst_imports_sock s nd g P), F.
    rewrite (scan_other (incoming s sock) im a a'); auto.
    - apply incoming_sock_args; exact g.
    - apply in_incoming. auto.
    - intros a0 I0. apply in_incoming in I0. destruct I0 as (I0 & _). apply (G_arg_uniq s g a0 a' im I0 I).
  Qed.

  Lemma set_arg_ok s m a an im t : Good s ->
    get_node s a = Some an -> get_full imps m 0 = Some (im, t) -> u_sub u (nitem an) t = true ->
    (forall a', ~ In (arg_e a' im) (edges s)) ->
    exists s3, set_arg u s sock m a = (s3, OUnit) /\ Good s3 /\ edges s3 = arg_e a im :: edges s /\
               exports s3 = exports s /\ length (nodes s3) = length (nodes s) /\ NP s s3 /\
               (forall x, x <> sock -> get_node s3 x = get_node s x).
  Proof.
    intros g Ga F Sb N. destruct (G_sock s g) as (nd & sat & G & K & P & S).
    unfold set_arg. rewrite G, K, (inst_imports_sock s nd g P), F.
    rewrite (scan_none (incoming s sock) im a); [|apply incoming_sock_args; exact g|
      intros a' I; apply in_incoming in I; destruct I as (I & _); exact (N a' I)].
    rewrite Ga, Sb. cbn [negb].
    set (s1 := add_edge s {| esrc := a; etgt := sock; ek := EArg im |}).
    unfold add_satisfied. change (get_node s1 sock) with (get_node s sock). rewrite G, K.
    assert (NS : existsb (Nat.eqb im) sat = false).
    { destruct (existsb (Nat.eqb im) sat) eqn:Ex; [|reflexivity]. apply existsb_exists in Ex.
      destruct Ex as (i & Ii & Ei). apply Nat.eqb_eq in Ei. subst i. apply S in Ii. destruct Ii as (a' & Ia). destruct (N a' Ia). }
    rewrite NS.
    set (nd' := {| nk := NInst (im :: sat); npkg := npkg nd; nitem := nitem nd; nname := nname nd; nexport := nexport nd |}).
    exists (set_node s1 sock (Some nd')). split; [reflexivity|].
    assert (GN : forall x, get_node (set_node s1 sock (Some nd')) x = if x =? sock then Some nd' else get_node s x).
    { intros x. apply (get_node_set_node s1 sock nd nd' x). exact G. }
    assert (LEN : length (nodes (set_node s1 sock (Some nd'))) = length (nodes s)).
    { cbn. apply length_set_nth. }
    assert (np : NP s (set_node s1 sock (Some nd'))).
    { intros x xd Gx. rewrite GN. destruct (Nat.eqb_spec x sock) as [->|NEx].
      - rewrite G in Gx. injection Gx as <-. exists nd'. repeat split. intros _. exists (im :: sat). reflexivity.
      - exists xd. auto. }
    pose proof (get_node_lt _ _ _ Ga) as La. pose proof (sock_lt s g) as Ls.
    split; [|repeat split; auto; intros x NEx; rewrite GN; destruct (Nat.eqb_spec x sock); [congruence|reflexivity]].
    constructor; cbn [set_node add_edge free_nodes edges]; fold (arg_e a im).
    - apply (G_free s g).
    - intros i. rewrite <- (G_pd s g i). apply pkg_desc_same. reflexivity.
    - intros x L. rewrite LEN in L. rewrite GN. destruct (x =? sock); [eauto|]. apply (G_live s g x L).
    - rewrite LEN. intros e [<-|I]; [cbn; lia|]. apply (G_bound s g e I).
    - intros e [<-|I]; [left; exists a, im; reflexivity|]. apply (G_shape s g e I).
    - exists nd', (im :: sat). rewrite GN, Nat.eqb_refl. repeat split; auto.
      + intros [<-|Ii]; [exists a; left; reflexivity|]. apply S in Ii. destruct Ii as (a' & Ia). exists a'. right. exact Ia.
      + intros (a' & [Ia|Ia]); [injection Ia as _ <-; left; reflexivity|]. right. apply S. eauto.
    - intros a' i [Ia|Ia]; [injection Ia as _ <-|apply (G_arg_valid s g a' i Ia)].
      destruct (get_full_spec _ _ _ _ _ F) as (_ & Nt & _). rewrite Nat.sub_0_r in Nt. eauto.
    - intros a1 a2 i [I1|I1] [I2|I2].
      + injection I1 as <- <-. injection I2 as <-. reflexivity.
      + injection I1 as <- <-. destruct (N a2 I2).
      + injection I2 as <- <-. destruct (N a1 I1).
      + apply (G_arg_uniq s g a1 a2 i I1 I2).
    - intros n1 n2 a0 x1 x2 [I1|I1] [I2|I2]; try discriminate. apply (G_alias_uniq s g _ _ _ _ _ I1 I2).
    - intros n1 a0 x1 [I1|I1]; [discriminate|].
      destruct (G_alias_src s g _ _ _ I1) as (x & ex & nm & k & Gx & Ix & R).
      destruct (np _ _ Gx) as (x' & Gx' & It & _ & Is). exists x', ex, nm, k. rewrite It. auto.
    - intros x xd Gx. rewrite GN in Gx. destruct (x =? sock); [injection Gx as <-; discriminate|].
      apply (G_nodef s g x xd Gx).
  Qed.

  (** ** export *)
  Lemma export_ok s a nd x : Good s ->
    get_node s a = Some nd -> alist_get N.eqb (exports s) x = None -> u_export_name_ok u x = true ->
    exists s', export_ u s a x = (s', OUnit) /\ Good s' /\ edges s' = edges s /\
               exports s' = exports s ++ [(x, a)] /\ length (nodes s') = length (nodes s) /\ NP s s' /\
               (forall y, get_node s' y = if y =? a then Some {| nk := nk nd; npkg := npkg nd; nitem := nitem nd;
                                                                  nname := nname nd; nexport := Some x |}
                                          else get_node s y).
  Proof.
    intros g G A Ok.
    assert (ER : exports_renamed s a = exports s).
    { unfold exports_renamed. rewrite G. pose proof (G_nodef s g a nd G) as ND. destruct (nk nd); auto. now contradiction ND. }
    unfold export_. rewrite A, Ok. cbn [negb]. unfold update_node. rewrite G, ER.
    set (nd' := {| nk := nk nd; npkg := npkg nd; nitem := nitem nd; nname := nname nd; nexport := Some x |}).
    set (s1 := set_node s a (Some nd')).
    exists (with_maps s1 (imports s1) (exports s1 ++ [(x, a)]) (defined s1)). split; [reflexivity|].
    assert (GN : forall y, get_node (with_maps s1 (imports s1) (exports s1 ++ [(x, a)]) (defined s1)) y
                           = if y =? a then Some nd' else get_node s y).
    { intros y. apply (get_node_set_node s a nd nd' y G). }
    assert (LEN : length (nodes s1) = length (nodes s)) by (cbn; apply length_set_nth).
    assert (np : NP s (with_maps s1 (imports s1) (exports s1 ++ [(x, a)]) (defined s1))).
    { intros y yd Gy. rewrite GN. destruct (Nat.eqb_spec y a) as [->|NE].
      - rewrite G in Gy. injection Gy as <-. exists nd'. repeat split. intros (sat & K). exists sat. exact K.
      - exists yd. auto. }
    split; [|repeat split; auto].
    constructor; cbn [with_maps set_node free_nodes edges nodes].
    - apply (G_free s g).
    - intros i. rewrite <- (G_pd s g i). apply pkg_desc_same. reflexivity.
    - intros y L. rewrite LEN in L. rewrite GN. destruct (y =? a); [eauto|]. apply (G_live s g y L).
    - rewrite LEN. apply (G_bound s g).
    - apply (G_shape s g).
    - destruct (G_sock s g) as (sn & sat & Gs & K & P & S). destruct (np _ _ Gs) as (sn' & Gs' & _ & P' & _).
      rewrite GN in Gs'. destruct (Nat.eqb_spec sock a) as [<-|NE].
      + rewrite G in Gs. injection Gs as ->. exists nd', sat. rewrite GN, Nat.eqb_refl. repeat split; auto; apply S.
      + exists sn, sat. rewrite GN. destruct (Nat.eqb_spec sock a); [congruence|]. repeat split; auto; apply S.
    - apply (G_arg_valid s g).
    - apply (G_arg_uniq s g).
    - apply (G_alias_uniq s g).
    - intros n1 a0 x1 I1. destruct (G_alias_src s g _ _ _ I1) as (y & ex & nm & k & Gy & Iy & R).
      destruct (np _ _ Gy) as (y' & Gy' & It & _ & Is). exists y', ex, nm, k. rewrite It. auto.
    - intros y yd Gy. rewrite GN in Gy. destruct (y =? a); [injection Gy as <-; cbn [nd' nk]; apply (G_nodef s g a nd G)|].
      apply (G_nodef s g y yd Gy).
  Qed.

  (** ** one plug: the [wire] loop *)
  Definition Mok (exps : list item) (em : name * name) : Prop :=
    exists xi ke im t, get_full exps (fst em) 0 = Some (xi, ke) /\ get_full imps (snd em) 0 = Some (im, t) /\
                       u_sub u ke t = true.

  (** the pair (export [e] of an instantiation of [p], socket import [m]) is wired in [s] *)
  Definition Wired (s : gstate) (p : pkgid) (pd : pkgdesc) (exps : list item) (e m : name) : Prop :=
    exists im t a n xi ke nd,
      get_full imps m 0 = Some (im, t) /\ get_full exps e 0 = Some (xi, ke) /\
      In (arg_e a im) (edges s) /\ In (alias_e n a xi) (edges s) /\
      get_node s n = Some nd /\ is_inst nd /\ npkg nd = Some p /\ nitem nd = pd_inst pd.

  Definition Step (P : pkgid -> Prop) (s s' : gstate) : Prop :=
    NP s s' /\ length (nodes s) <= length (nodes s') /\ exports s' = exports s /\ incl (edges s) (edges s') /\
    (forall n nd', get_node s' n = Some nd' -> length (nodes s) <= n -> exists p, npkg nd' = Some p /\ P p).

  Lemma Step_refl P s : Step P s s.
  Proof.
    split; [apply NP_refl|]. split; [lia|]. split; [reflexivity|]. split; [apply incl_refl|].
    intros n nd G L. apply get_node_lt in G. lia.
  Qed.

  Lemma Step_trans P s1 s2 s3 : Good s2 -> Step P s1 s2 -> Step P s2 s3 -> Step P s1 s3.
  Proof.
    intros g (N1 & L1 & X1 & I1 & W1) (N2 & L2 & X2 & I2 & W2).
    split; [eapply NP_trans; eauto|]. split; [lia|]. split; [congruence|]. split; [eapply incl_tran; eauto|].
    intros n nd G L. destruct (le_lt_dec (length (nodes s2)) n) as [Ge|Lt]; [apply (W2 n nd G Ge)|].
    destruct (G_live s2 g n Lt) as (nd2 & G2). destruct (N2 _ _ G2) as (nd3 & G3 & _ & P3 & _).
    rewrite G in G3. injection G3 as <-. rewrite P3. apply (W1 n nd2 G2 L).
  Qed.

  Lemma Step_weaken (P Q : pkgid -> Prop) s s' : (forall p, P p -> Q p) -> Step P s s' -> Step Q s s'.
  Proof.
    intros PQ (N & L & X & I & W). repeat split; auto. intros n nd G Ln.
    destruct (W n nd G Ln) as (p & E & Pp). eauto.
  Qed.

  (** a state that extends [s] by one node *)
  Lemma Step_push (P : pkgid -> Prop) s s' x p :
    (forall m, get_node s' m = if m =? length (nodes s) then Some x else get_node s m) ->
    length (nodes s') = S (length (nodes s)) -> exports s' = exports s -> incl (edges s) (edges s') ->
    npkg x = Some p -> P p -> Step P s s'.
  Proof.
    intros GN L X I Px Pp. split.
    - intros n nd G. rewrite GN. pose proof (get_node_lt _ _ _ G). destruct (Nat.eqb_spec n (length (nodes s))); [lia|].
      exists nd. auto.
    - split; [lia|]. split; [exact X|]. split; [exact I|].
      intros n nd G Ln. rewrite GN in G. destruct (Nat.eqb_spec n (length (nodes s))).
      + injection G as <-. eauto.
      + apply get_node_lt in G. lia.
  Qed.

  Lemma Wired_mono s s' p pd exps e m : NP s s' -> incl (edges s) (edges s') ->
    Wired s p pd exps e m -> Wired s' p pd exps e m.
  Proof.
    intros N I (im & t & a & n & xi & ke & nd & F1 & F2 & E1 & E2 & G & Is & P & It).
    destruct (N _ _ G) as (nd' & G' & It' & P' & Is').
    exists im, t, a, n, xi, ke, nd'. repeat split; auto; congruence.
  Qed.

  Lemma get_full_inj {B} (l : list (name * B)) k1 k2 j v1 v2 :
    get_full l k1 0 = Some (j, v1) -> get_full l k2 0 = Some (j, v2) -> k1 = k2.
  Proof.
    intros A B0. destruct (get_full_spec _ _ _ _ _ A) as (_ & N1 & _). destruct (get_full_spec _ _ _ _ _ B0) as (_ & N2 & _).
    congruence.
  Qed.

  Definition IS (s : gstate) (p : pkgid) (pd : pkgdesc) (exps : list item) (inst : option nat) (l : list (name * name)) : Prop :=
    match inst with
    | None => True
    | Some n => exists nd, get_node s n = Some nd /\ is_inst nd /\ npkg nd = Some p /\ nitem nd = pd_inst pd /\
                  forall a xi e ke, In (alias_e n a xi) (edges s) -> nth_error exps xi = Some (e, ke) -> ~ In e (map fst l)
    end.

  Lemma wire_gen (P : pkgid -> Prop) p pd exps : PD p = Some pd -> u_inst_exports u (pd_inst pd) = Some exps -> P p ->
    forall l s inst s' r, Good s -> Forall (Mok exps) l -> NoDup (map fst l) -> IS s p pd exps inst l ->
      wire u s sock p inst l = (s', r) ->
      Step P s s' /\ (l = [] -> s' = s) /\
      match r with
      | None => Good s' /\
          (forall e m, In (e, m) l -> Wired s' p pd exps e m) /\
          (forall e m im t a, In (e, m) l -> get_full imps m 0 = Some (im, t) -> ~ In (arg_e a im) (edges s)) /\
          (forall e1 e2 m, In (e1, m) l -> In (e2, m) l -> e1 = e2) /\
          (forall a i, In (arg_e a i) (edges s') ->
             In (arg_e a i) (edges s) \/ exists e m t, In (e, m) l /\ get_full imps m 0 = Some (i, t))
      | Some o => o = PGraphError ArgumentAlreadyPassed /\
          exists e m im t, In (e, m) l /\ get_full imps m 0 = Some (im, t) /\
            ((exists a, In (arg_e a im) (edges s)) \/ exists e', e' <> e /\ In (e', m) l)
      end.
  Proof.
    intros Pp Xp PP. induction l as [|[e m] r IH]; intros s inst s' res g MO ND is W.
    - cbn in W. injection W as <- <-. split; [apply Step_refl|]. split; [reflexivity|].
      split; [exact g|]. repeat split; try (intros; contradiction). intros a i I. left. exact I.
    - inversion MO as [|? ? (xi & ke & im & t & Fe & Fm & Sb) MO']; subst. cbn [fst snd] in Fe, Fm.
      cbn [map fst] in ND. inversion ND as [|? ? NIe ND']; subst.
      (* the instantiation *)
      assert (A1 : exists s1 n ndn,
                 (match inst with Some n0 => (s, ONode n0) | None => instantiate u s p end) = (s1, ONode n) /\
                 Good s1 /\ Step P s s1 /\ edges s1 = edges s /\
                 get_node s1 n = Some ndn /\ is_inst ndn /\ npkg ndn = Some p /\ nitem ndn = pd_inst pd /\
                 forall a x e0 k0, In (alias_e n a x) (edges s1) -> nth_error exps x = Some (e0, k0) -> ~ In e0 (e :: map fst r)).
      { destruct inst as [n|].
        - destruct is as (ndn & Gn & In' & Pn & Itn & AL). exists s, n, ndn. split; [reflexivity|].
          split; [exact g|]. split; [apply Step_refl|]. repeat split; auto.
        - destruct (instantiate_ok s p pd g Pp) as (s1 & E1 & g1 & Ee & Ex & El & GN).
          exists s1, (length (nodes s)), (mk_node (NInst []) (pd_inst pd) (Some p)). split; [exact E1|]. split; [exact g1|].
          split; [eapply Step_push; eauto; [rewrite Ee; apply incl_refl|reflexivity]|].
          split; [exact Ee|]. rewrite GN, Nat.eqb_refl. repeat split; auto; [exists []; reflexivity|].
          intros a x e0 k0 I. rewrite Ee in I. destruct (G_bound s g _ I) as (Q & _). cbn in Q. lia. }
      destruct A1 as (s1 & n & ndn & E1 & g1 & St1 & Ee1 & Gn & Isn & Pn & Itn & AL).
      cbn [wire] in W. rewrite E1 in W.
      (* the alias is fresh *)
      assert (Xn : u_inst_exports u (nitem ndn) = Some exps) by (rewrite Itn; exact Xp).
      destruct (alias_ok s1 n ndn exps e xi ke g1 Gn Isn Xn Fe) as [(a & _ & Ia)|(s2 & E2 & g2 & Ee2 & Ex2 & El2 & GN2 & NoA)].
      { exfalso. destruct (get_full_spec _ _ _ _ _ Fe) as (_ & Nx & _). rewrite Nat.sub_0_r in Nx.
        apply (AL a xi e ke Ia Nx). left. reflexivity. }
      set (a := length (nodes s1)) in *. rewrite E2 in W.
      assert (St2 : Step P s1 s2).
      { eapply Step_push; eauto. rewrite Ee2; apply incl_tl, incl_refl. }
      assert (Ga : get_node s2 a = Some (mk_node NAlias ke (npkg ndn))) by (rewrite GN2, Nat.eqb_refl; reflexivity).
      (* is the import already supplied? *)
      destruct (G_sock s2 g2) as (snd0 & sat & Gs & Ks & Ps & Ss).
      destruct (in_dec Nat.eq_dec im sat) as [Busy|Free].
      + apply Ss in Busy. destruct Busy as (a0 & Ia0).
        assert (Ia0' : In (arg_e a0 im) (edges s)).
        { rewrite Ee2 in Ia0. destruct Ia0 as [Q|Q]; [discriminate|]. rewrite <- Ee1. exact Q. }
        assert (a0 <> a).
        { rewrite <- Ee1 in Ia0'. destruct (G_bound s1 g1 _ Ia0') as (Q & _). cbn in Q. unfold a. lia. }
        rewrite (set_arg_busy s2 m a im t a0 g2 Fm Ia0 H) in W. injection W as <- <-.
        split; [eapply Step_trans; [exact g1|exact St1|exact St2]|]. split; [discriminate|].
        split; [reflexivity|]. exists e, m, im, t. split; [left; reflexivity|]. split; [exact Fm|]. left. eauto.
      + assert (NoArg : forall a', ~ In (arg_e a' im) (edges s2)).
        { intros a' I. apply Free. apply Ss. eauto. }
        destruct (set_arg_ok s2 m a _ im t g2 Ga Fm Sb NoArg) as (s3 & E3 & g3 & Ee3 & Ex3 & El3 & NP3 & Oth3).
        rewrite E3 in W.
        assert (St3 : Step P s2 s3).
        { split; [exact NP3|]. split; [lia|]. split; [exact Ex3|]. split; [rewrite Ee3; apply incl_tl, incl_refl|].
          intros x xd Gx Lx. apply get_node_lt in Gx. lia. }
        assert (St03 : Step P s s3).
        { eapply Step_trans; [exact g2| |exact St3]. eapply Step_trans; [exact g1|exact St1|exact St2]. }
        assert (is3 : IS s3 p pd exps (Some n) r).
        { assert (Gn2 : get_node s2 n = Some ndn).
          { rewrite GN2. pose proof (get_node_lt _ _ _ Gn). destruct (Nat.eqb_spec n a); [unfold a in *; lia|exact Gn]. }
          destruct (NP3 _ _ Gn2) as (nd3 & G3 & It3 & P3 & Is3). exists nd3. split; [exact G3|].
          split; [auto|]. split; [congruence|]. split; [congruence|].
          intros a' x e0 k0 I Nx. rewrite Ee3, Ee2 in I. destruct I as [Q|[Q|Q]]; [discriminate| |].
          - injection Q as Q1 Q2. subst x. destruct (get_full_spec _ _ _ _ _ Fe) as (_ & Nx' & _). rewrite Nat.sub_0_r in Nx'.
            pose proof (eq_trans (eq_sym Nx) Nx') as EQ. injection EQ as -> ->. exact NIe.
          - intros Q'. apply (AL a' x e0 k0 Q Nx). right. exact Q'. }
        destruct (IH s3 (Some n) s' res g3 MO' ND' is3 W) as (St & _ & R).
        split; [eapply Step_trans; [exact g3|exact St03|exact St]|]. split; [discriminate|].
        assert (NoArg0 : forall a', ~ In (arg_e a' im) (edges s)).
        { intros a' I. apply (NoArg a'). rewrite Ee2. right. rewrite Ee1. exact I. }
        assert (E3' : edges s3 = arg_e a im :: alias_e n a xi :: edges s) by (rewrite Ee3, Ee2, Ee1; reflexivity).
        destruct res as [o|].
        * destruct R as (-> & e1 & m1 & im1 & t1 & I1 & F1 & D). split; [reflexivity|].
          destruct D as [(a1 & Ia1)|(e' & NE & I')].
          -- rewrite E3' in Ia1. destruct Ia1 as [Q|[Q|Q]]; [|discriminate|].
             ++ injection Q as _ <-. assert (m1 = m) as -> by (eapply get_full_inj; eauto).
                exists e1, m, im, t1. split; [right; exact I1|]. split; [exact F1|]. right. exists e.
                split; [|left; reflexivity]. intros ->. apply NIe. apply (in_map fst) in I1. exact I1.
             ++ exists e1, m1, im1, t1. split; [right; exact I1|]. split; [exact F1|]. left. eauto.
          -- exists e1, m1, im1, t1. split; [right; exact I1|]. split; [exact F1|]. right. exists e'. split; [exact NE|right; exact I'].
        * destruct R as (g' & WD & FR & UQ & AR). split; [exact g'|].
          destruct St as (NPs & _ & _ & Inc & _).
          assert (Whead : Wired s3 p pd exps e m).
          { assert (Gn2 : get_node s2 n = Some ndn).
            { rewrite GN2. pose proof (get_node_lt _ _ _ Gn). destruct (Nat.eqb_spec n a); [unfold a in *; lia|exact Gn]. }
            destruct (NP3 _ _ Gn2) as (nd3 & G3 & It3 & P3 & Is3).
            exists im, t, a, n, xi, ke, nd3. rewrite E3'. repeat split; auto; try congruence; cbn; auto. }
          split; [|split; [|split]].
          -- intros e0 m0 [Q|Q]; [injection Q as <- <-; eapply Wired_mono; eauto|apply WD; exact Q].
          -- intros e0 m0 im0 t0 a0 [Q|Q] F0.
             ++ injection Q as <- <-. rewrite Fm in F0. injection F0 as <- <-. apply NoArg0.
             ++ intros I. apply (FR e0 m0 im0 t0 a0 Q F0). rewrite E3'. right. right. exact I.
          -- intros e1 e2 m0 [Q1|Q1] [Q2|Q2].
             ++ congruence.
             ++ injection Q1 as <- <-. exfalso. apply (FR e2 m im t a Q2 Fm). rewrite E3'. left. reflexivity.
             ++ injection Q2 as <- <-. exfalso. apply (FR e1 m im t a Q1 Fm). rewrite E3'. left. reflexivity.
             ++ apply (UQ e1 e2 m0 Q1 Q2).
          -- intros a0 i I. destruct (AR a0 i I) as [Q|(e0 & m0 & t0 & Q & F0)].
             ++ rewrite E3' in Q. destruct Q as [Q|[Q|Q]]; [|discriminate|left; exact Q].
                injection Q as _ <-. right. exists e, m, t. split; [left; reflexivity|exact Fm].
             ++ right. exists e0, m0, t0. split; [right; exact Q|exact F0].
  Qed.

  (** ** all plugs: [plug_loop] *)
  Variable text : name -> str.
  Let pu : puniverse := {| pu_graph := u; pu_name_text := text |}.
  Let raw (exps : list item) := plug_matches text (u_sub u) imps exps.
  Let matches (exps : list item) := plug_pairs text (u_sub u) imps exps.
  Hypothesis imps_nodup : NoDup (map fst imps).

  Lemma matches_Mok exps : NoDup (map fst exps) -> Forall (Mok exps) (matches exps).
  Proof.
    intros ND. apply Forall_forall. intros [e m] I. apply unique_pairs_incl in I. apply in_plug_matches in I.
    destruct I as (ke & t & Ie & F & S). apply find_target_in in F. destruct F as (Im & _).
    destruct (get_full_in _ _ _ ND Ie) as (xi & Fx & _). destruct (get_full_in _ _ _ imps_nodup Im) as (im & Fi & _).
    exists xi, ke, im, t. auto.
  Qed.

  Lemma raw_fst_incl exps e m : In (e, m) (raw exps) -> In e (map fst exps).
  Proof.
    intros I. apply in_plug_matches in I. destruct I as (ke & _ & Ie & _). apply (in_map fst) in Ie. exact Ie.
  Qed.

  Lemma raw_nodup exps : NoDup (map fst exps) -> NoDup (map fst (raw exps)).
  Proof.
    unfold raw, plug_matches. induction exps as [|[e ke] r IH]; intros ND; cbn [flat_map map fst]; [constructor|].
    cbn [map fst] in ND. inversion ND as [|? ? NI ND']; subst. rewrite map_app. cbn [fst snd].
    assert (T : forall x, In x (map fst (flat_map (fun e0 : name * kid =>
                  match find_target text imps (fst e0) with
                  | Some (m, t) => if u_sub u (snd e0) t then [(fst e0, m)] else []
                  | None => [] end) r)) -> In x (map fst r)).
    { intros x Ix. apply in_map_iff in Ix. destruct Ix as ([e1 m1] & <- & I1). eapply raw_fst_incl. exact I1. }
    destruct (find_target text imps e) as [[m t]|]; [|cbn; auto].
    destruct (u_sub u ke t); [|cbn; auto]. cbn. constructor; [|auto]. intros Q. apply NI. apply T. exact Q.
  Qed.

  Lemma matches_nodup exps : NoDup (map fst exps) -> NoDup (map fst (matches exps)).
  Proof.
    intros ND. apply (nodup_fst_of_snd (raw exps)); [apply raw_nodup; exact ND| |apply (proj1 (unique_pairs_spec _))].
    intros [e m] I. apply unique_pairs_incl. exact I.
  Qed.

  Definition PR (p : pkgid) (exps : list item) : Prop :=
    exists pd, PD p = Some pd /\ u_inst_exports u (pd_inst pd) = Some exps.

  (** the packages that contribute *)
  Definition Contrib (plugs : list pkgid) (pls : list (list item)) (p : pkgid) : Prop :=
    exists k exps, nth_error plugs k = Some p /\ nth_error pls k = Some exps /\ matches exps <> [].

  Definition Dup (pls : list (list item)) : Prop :=
    exists k1 k2 x1 x2 e1 e2 m, nth_error pls k1 = Some x1 /\ nth_error pls k2 = Some x2 /\
      In (e1, m) (matches x1) /\ In (e2, m) (matches x2) /\ (k1, e1) <> (k2, e2).

  Definition Taken (s : gstate) (pls : list (list item)) : Prop :=
    exists k x e m im t a, nth_error pls k = Some x /\ In (e, m) (matches x) /\
      get_full imps m 0 = Some (im, t) /\ In (arg_e a im) (edges s).

  Lemma plug_loop_gen : forall plugs pls, Forall2 PR plugs pls -> Forall (fun exps => NoDup (map fst exps)) pls ->
    forall s s' r, Good s -> plug_loop pu s sock imps plugs = (s', r) ->
    Step (Contrib plugs pls) s s' /\
    match r with
    | None => Good s' /\
        (forall k p exps e m, nth_error plugs k = Some p -> nth_error pls k = Some exps -> In (e, m) (matches exps) ->
           exists pd, PD p = Some pd /\ Wired s' p pd exps e m) /\
        (forall k exps e m im t a, nth_error pls k = Some exps -> In (e, m) (matches exps) ->
           get_full imps m 0 = Some (im, t) -> ~ In (arg_e a im) (edges s)) /\
        (forall k1 k2 x1 x2 e1 e2 m, nth_error pls k1 = Some x1 -> nth_error pls k2 = Some x2 ->
           In (e1, m) (matches x1) -> In (e2, m) (matches x2) -> k1 = k2 /\ e1 = e2) /\
        (forall a i, In (arg_e a i) (edges s') ->
           In (arg_e a i) (edges s) \/
           exists k exps e m t, nth_error pls k = Some exps /\ In (e, m) (matches exps) /\ get_full imps m 0 = Some (i, t))
    | Some o => o = PGraphError ArgumentAlreadyPassed /\ (Dup pls \/ Taken s pls)
    end.
  Proof.
    induction 1 as [|p exps plugs pls (pd & Pp & Xp) F2 IH]; intros NDs s s' r g W.
    - cbn in W. injection W as <- <-. split; [apply Step_refl|]. split; [exact g|].
      split; [intros [|?]; intros; discriminate|]. split; [intros [|?]; intros; discriminate|].
      split; [intros [|?]; intros; discriminate|]. intros a i I. left. exact I.
    - inversion NDs as [|? ? NDx NDs']; subst.
      cbn [plug_loop] in W. unfold world_exports in W. cbn [pu pu_graph pu_name_text] in W.
      rewrite (G_pd s g), Pp, Xp in W. fold (matches exps) in W.
      destruct (wire u s sock p None (matches exps)) as [s1 r1] eqn:W1.
      assert (Shift : forall q, Contrib plugs pls q -> Contrib (p :: plugs) (exps :: pls) q).
      { intros q (k & x & A & B & C). exists (S k), x. auto. }
      destruct (list_eq_dec (fun a b : name * name =>
                  match N.eq_dec (fst a) (fst b), N.eq_dec (snd a) (snd b) with
                  | left A, left B => left (eq_trans (eq_trans (surjective_pairing a) (f_equal2 pair A B)) (eq_sym (surjective_pairing b)))
                  | right A, _ => right (fun E => A (f_equal fst E))
                  | _, right B => right (fun E => B (f_equal snd E))
                  end) (matches exps) []) as [Emp|NEmp].
      + (* nothing to wire: the plug is not even instantiated *)
        rewrite Emp in W1. cbn in W1. injection W1 as <- <-.
        destruct (IH NDs' s s' r g W) as (St & R).
        split; [eapply Step_weaken; [exact Shift|exact St]|].
        destruct r as [o|].
        * destruct R as (-> & [D|T]); (split; [reflexivity|]).
          -- left. destruct D as (k1 & k2 & x1 & x2 & e1 & e2 & m & A & B & C & D & E).
             exists (S k1), (S k2), x1, x2, e1, e2, m. repeat split; auto. intros Q. apply E. congruence.
          -- right. destruct T as (k & x & e & m & im & t & a & A & B & C & D). exists (S k), x, e, m, im, t, a. auto.
        * destruct R as (g' & L1 & L2 & L3 & L4). split; [exact g'|]. split; [|split; [|split]].
          -- intros [|k] q x e m A B C; cbn in A, B.
             ++ injection B as <-. rewrite Emp in C. destruct C.
             ++ eapply L1; eauto.
          -- intros [|k] x e m im t a B C; cbn in B.
             ++ injection B as <-. rewrite Emp in C. destruct C.
             ++ eapply L2; eauto.
          -- intros [|k1] [|k2] x1 x2 e1 e2 m A B C D; cbn in A, B;
               try (injection A as <-; rewrite Emp in C; destruct C); try (injection B as <-; rewrite Emp in D; destruct D).
             destruct (L3 k1 k2 x1 x2 e1 e2 m A B C D). auto.
          -- intros a i I. destruct (L4 a i I) as [Q|(k & x & e & m & t & A & B & C)]; [left; exact Q|].
             right. exists (S k), x, e, m, t. auto.
      + assert (Cp : Contrib (p :: plugs) (exps :: pls) p) by (exists 0, exps; auto).
        destruct (wire_gen (Contrib (p :: plugs) (exps :: pls)) p pd exps Pp Xp Cp (matches exps) s None s1 r1 g
                    (matches_Mok exps NDx) (matches_nodup exps NDx) I W1) as (St1 & _ & R1).
        destruct r1 as [o|].
        * injection W as <- <-. split; [exact St1|]. destruct R1 as (-> & e & m & im & t & Ie & Fm & D).
          split; [reflexivity|]. destruct D as [(a & Ia)|(e' & NE & I')].
          -- right. exists 0, exps, e, m, im, t, a. auto.
          -- left. exists 0, 0, exps, exps, e', e, m. repeat split; auto. intros Q. apply NE. congruence.
        * destruct R1 as (g1 & WD & FR & UQ & AR).
          destruct (IH NDs' s1 s' r g1 W) as (St & R).
          split; [eapply Step_trans; [exact g1|exact St1|eapply Step_weaken; [exact Shift|exact St]]|].
          destruct St as (NPs & _ & _ & Inc & _). destruct St1 as (_ & _ & _ & Inc1 & _).
          destruct r as [o|].
          -- destruct R as (-> & [D|T]); (split; [reflexivity|]).
             ++ left. destruct D as (k1 & k2 & x1 & x2 & e1 & e2 & m & A & B & C & D & E).
                exists (S k1), (S k2), x1, x2, e1, e2, m. repeat split; auto. intros Q. apply E. congruence.
             ++ destruct T as (k & x & e & m & im & t & a & A & B & C & D).
                destruct (AR a im D) as [Q|(e0 & m0 & t0 & Q & F0)].
                ** right. exists (S k), x, e, m, im, t, a. auto.
                ** left. assert (m0 = m) as -> by (eapply get_full_inj; eauto).
                   exists 0, (S k), exps, x, e0, e, m. repeat split; auto. discriminate.
          -- destruct R as (g' & L1 & L2 & L3 & L4). split; [exact g'|]. split; [|split; [|split]].
             ++ intros [|k] q x e m A B C; cbn in A, B.
                ** injection A as <-. injection B as <-. exists pd. split; [exact Pp|].
                   eapply Wired_mono; [exact NPs|exact Inc|]. apply WD. exact C.
                ** eapply L1; eauto.
             ++ intros [|k] x e m im t a B C Fm; cbn in B.
                ** injection B as <-. eapply FR; eauto.
                ** intros Q. apply (L2 k x e m im t a B C Fm). apply Inc1. exact Q.
             ++ assert (Cross : forall k2 x2 e1 e2 m, nth_error pls k2 = Some x2 -> In (e1, m) (matches exps) ->
                                  In (e2, m) (matches x2) -> False).
                { intros k2 x2 e1 e2 m B C D. destruct (WD e1 m C) as (im & t & a & n & xi & ke & nd & Fm & _ & Ia & _).
                  apply (L2 k2 x2 e2 m im t a B D Fm Ia). }
                intros [|k1] [|k2] x1 x2 e1 e2 m A B C D; cbn in A, B.
                ** injection A as <-. injection B as <-. split; [reflexivity|]. eapply UQ; eauto.
                ** injection A as <-. exfalso. eapply Cross; eauto.
                ** injection B as <-. exfalso. eapply Cross; eauto.
                ** destruct (L3 k1 k2 x1 x2 e1 e2 m A B C D). auto.
             ++ intros a i I. destruct (L4 a i I) as [Q|(k & x & e & m & t & A & B & C)].
                ** destruct (AR a i Q) as [Q'|(e & m & t & Q' & F0)]; [left; exact Q'|].
                   right. exists 0, exps, e, m, t. auto.
                ** right. exists (S k), x, e, m, t. auto.
  Qed.

  (** ** re-exporting the socket *)
  Lemma alias_ok' (P : pkgid -> Prop) s n nd ex e xi k p : Good s ->
    get_node s n = Some nd -> is_inst nd -> u_inst_exports u (nitem nd) = Some ex -> get_full ex e 0 = Some (xi, k) ->
    npkg nd = Some p -> P p ->
    exists s2 a an, alias u s n e = (s2, ONode a) /\ Good s2 /\ Step P s s2 /\ In (alias_e n a xi) (edges s2) /\
                 (forall a0 i, In (arg_e a0 i) (edges s2) <-> In (arg_e a0 i) (edges s)) /\ get_node s2 a = Some an.
  Proof.
    intros g G I X F Pn Pp.
    destruct (alias_ok s n nd ex e xi k g G I X F) as [(a & E & Ia)|(s2 & E & g2 & Ee & Ex & El & GN & _)].
    - destruct (G_bound s g _ Ia) as (_ & La). cbn in La. destruct (G_live s g a La) as (an & Ga).
      exists s, a, an. split; [exact E|]. split; [exact g|]. split; [apply Step_refl|]. split; [exact Ia|]. split; [tauto|exact Ga].
    - exists s2, (length (nodes s)), (mk_node NAlias k (npkg nd)). split; [exact E|]. split; [exact g2|].
      split; [eapply Step_push; eauto; rewrite Ee; apply incl_tl, incl_refl|].
      split; [rewrite Ee; left; reflexivity|]. split.
      + intros a0 i. rewrite Ee. split; [intros [Q|Q]; [discriminate|exact Q]|intros Q; right; exact Q].
      + rewrite GN, Nat.eqb_refl. reflexivity.
  Qed.

  Lemma alist_get_app_one {B} (l : list (name * B)) x a y :
    alist_get N.eqb (l ++ [(x, a)]) y =
    match alist_get N.eqb l y with Some v => Some v | None => if N.eqb x y then Some a else None end.
  Proof. induction l as [|[k v] l IH]; cbn; [reflexivity|]. destruct (N.eqb k y); auto. Qed.

  Variable sx : list item.
  Hypothesis sx_exports : u_inst_exports u (pd_inst sd) = Some sx.
  Hypothesis sx_nodup : NoDup (map fst sx).

  Lemma reexport_gen : forall names s s' r, Good s ->
    (exists nd, get_node s sock = Some nd /\ nitem nd = pd_inst sd) ->
    NoDup names ->
    (forall x, In x names -> In x (map fst sx) /\ u_export_name_ok u x = true /\ alist_get N.eqb (exports s) x = None) ->
    reexport u s sock names = (s', r) ->
    r = None /\ Good s' /\ NP s s' /\ incl (edges s) (edges s') /\
    (forall a i, In (arg_e a i) (edges s') <-> In (arg_e a i) (edges s)) /\
    (forall n nd', get_node s' n = Some nd' -> length (nodes s) <= n -> npkg nd' = Some sp) /\
    (forall x, In x names -> exists a xi k, alist_get N.eqb (exports s') x = Some a /\
                                            In (alias_e sock a xi) (edges s') /\ nth_error sx xi = Some (x, k)) /\
    (forall z b, alist_get N.eqb (exports s) z = Some b -> alist_get N.eqb (exports s') z = Some b).
  Proof.
    induction names as [|x names IH]; intros s s' r g Hs ND Hn W.
    - cbn in W. injection W as <- <-. split; [reflexivity|]. split; [exact g|]. split; [apply NP_refl|].
      split; [apply incl_refl|]. split; [tauto|]. split; [|split; [intros x []|auto]].
      intros n nd G L. apply get_node_lt in G. lia.
    - inversion ND as [|? ? NIx ND']; subst. destruct (Hn x (or_introl eq_refl)) as (Ix & Okx & Ax).
      destruct (G_sock s g) as (nd & sat & Gs & Ks & Ps & _). destruct Hs as (nd0 & Gs0 & It0).
      rewrite Gs in Gs0. injection Gs0 as <-.
      apply in_map_iff in Ix. destruct Ix as ([x0 k] & Ex0 & Ix). cbn in Ex0. subst x0.
      destruct (get_full_in _ _ _ sx_nodup Ix) as (xi & Fx & Nx).
      assert (Xs : u_inst_exports u (nitem nd) = Some sx) by (rewrite It0; exact sx_exports).
      destruct (alias_ok' (fun p => p = sp) s sock nd sx x xi k sp g Gs (ex_intro _ sat Ks) Xs Fx Ps eq_refl)
        as (s2 & a & an & E2 & g2 & St2 & Ia & Args2 & Ga).
      cbn [reexport] in W. rewrite E2 in W.
      destruct St2 as (NP2 & L2 & X2 & Inc2 & New2).
      assert (Ax2 : alist_get N.eqb (exports s2) x = None) by (rewrite X2; exact Ax).
      destruct (export_ok s2 a an x g2 Ga Ax2 Okx) as (s3 & E3 & g3 & Ee3 & Ex3 & El3 & NP3 & GN3).
      rewrite E3 in W.
      assert (Hs3 : exists nd3, get_node s3 sock = Some nd3 /\ nitem nd3 = pd_inst sd).
      { destruct (NP2 _ _ Gs) as (n2 & G2 & I2 & _). destruct (NP3 _ _ G2) as (n3 & G3 & I3 & _).
        exists n3. split; [exact G3|congruence]. }
      assert (Hn3 : forall y, In y names -> In y (map fst sx) /\ u_export_name_ok u y = true /\ alist_get N.eqb (exports s3) y = None).
      { intros y Iy. destruct (Hn y (or_intror Iy)) as (A & B & C). split; [exact A|]. split; [exact B|].
        rewrite Ex3, alist_get_app_one, X2, C. destruct (N.eqb_spec x y) as [->|NE]; [contradiction|reflexivity]. }
      destruct (IH s3 s' r g3 Hs3 ND' Hn3 W) as (-> & g' & NP' & Inc' & Args' & New' & Ex' & Mono').
      split; [reflexivity|]. split; [exact g'|].
      split; [eapply NP_trans; [exact NP2|eapply NP_trans; [exact NP3|exact NP']]|].
      split; [eapply incl_tran; [exact Inc2|]; rewrite <- Ee3; exact Inc'|].
      split; [intros a0 i; rewrite Args', Ee3; apply Args2|].
      split; [|split].
      + intros n nd' G L. destruct (le_lt_dec (length (nodes s3)) n) as [Ge|Lt]; [apply (New' n nd' G Ge)|].
        rewrite El3 in Lt. destruct (G_live s2 g2 n Lt) as (n2 & G2).
        destruct (NP3 _ _ G2) as (n3 & G3 & _ & P3 & _). destruct (NP' _ _ G3) as (n4 & G4 & _ & P4 & _).
        rewrite G in G4. injection G4 as <-. rewrite P4, P3.
        destruct (New2 n n2 G2 L) as (q & Q1 & Q2). congruence.
      + intros y [<-|Iy]; [|apply Ex'; exact Iy].
        exists a, xi, k. split; [|split; [apply Inc'; rewrite Ee3; exact Ia|exact Nx]].
        apply Mono'. rewrite Ex3, alist_get_app_one, X2, Ax, N.eqb_refl. reflexivity.
      + intros z b Az. apply Mono'. rewrite Ex3, alist_get_app_one, X2, Az. reflexivity.
  Qed.

  (** ** what the queries say in a good state *)
  Lemma get_args_in s m a : Good s ->
    (In (m, a) (get_args u s sock) <-> exists im t, In (arg_e a im) (edges s) /\ nth_error imps im = Some (m, t)).
  Proof.
    intros g. destruct (G_sock s g) as (nd & sat & G & K & P & _).
    unfold get_args. rewrite G, K, (inst_imports_sock s nd g P). rewrite in_flat_map. split.
    - intros (e & Ie & Q). destruct (incoming_sock_args s g e Ie) as (a0 & i & ->). cbn in Q.
      destruct (nth_error imps i) as [[nm t]|] eqn:N; [|destruct Q]. destruct Q as [Q|[]]. injection Q as -> ->.
      apply in_incoming in Ie. exists i, t. tauto.
    - intros (im & t & I & N). exists (arg_e a im). split; [apply in_incoming; auto|]. cbn. rewrite N. left. reflexivity.
  Qed.

  Lemma alias_source_of s n a xi nd ex nm k : Good s -> In (alias_e n a xi) (edges s) ->
    get_node s n = Some nd -> u_inst_exports u (nitem nd) = Some ex -> nth_error ex xi = Some (nm, k) ->
    get_alias_source u s a = Some (n, nm).
  Proof.
    intros g I G X N. unfold get_alias_source.
    destruct (find (fun e => match ek e with EAlias _ => true | _ => false end) (incoming s a)) as [e0|] eqn:F.
    - apply find_some in F. destruct F as (I0 & K0). apply in_incoming in I0. destruct I0 as (I0 & T0).
      destruct (G_shape s g e0 I0) as [(a0 & i & ->)|(n' & a' & xi' & -> & _)]; [discriminate|].
      cbn in T0. subst a'. destruct (G_alias_uniq s g _ _ _ _ _ I0 I) as (-> & ->). cbn. rewrite G, X, N. reflexivity.
    - exfalso. assert (Q := find_none _ _ F (alias_e n a xi)). cbn in Q.
      assert (true = false); [|discriminate]. apply Q. apply in_incoming. auto.
  Qed.

  Lemma in_combine_seq {A} (l : list A) a n x : nth_error l n = Some x -> In (a + n, x) (combine (seq a (length l)) l).
  Proof.
    revert a n. induction l as [|y l IH]; intros a [|n] N; try discriminate; cbn in *.
    - injection N as ->. left. f_equal. lia.
    - right. replace (a + S n) with (S a + n) by lia. apply IH. exact N.
  Qed.

  Lemma in_node_ids s n nd : get_node s n = Some nd -> In n (node_ids s).
  Proof.
    unfold get_node, node_ids, nodes_where. intros G. destruct (nth_error (nodes s) n) as [[x|]|] eqn:N; try discriminate.
    apply in_flat_map. exists (n, Some x). split; [apply (in_combine_seq (nodes s) 0 n); exact N|]. cbn. left. reflexivity.
  Qed.

  Lemma list_imports_in s nd sat i m t : Good s ->
    get_node s sock = Some nd -> nk nd = NInst sat -> npkg nd = Some sp ->
    nth_error imps i = Some (m, t) -> ~ In i sat -> In (m, t, None) (list_imports u s).
  Proof.
    intros g G K P N NI. unfold list_imports. apply in_or_app. left. apply in_flat_map.
    exists sock. split; [eapply in_node_ids; eauto|]. rewrite G, K, (inst_imports_sock s nd g P).
    apply in_flat_map. exists (i, (m, t)). split; [apply (in_combine_seq imps 0 i); exact N|]. cbn [fst snd].
    destruct (existsb (Nat.eqb i) sat) eqn:E; [|left; reflexivity].
    apply existsb_exists in E. destruct E as (j & Ij & Ej). apply Nat.eqb_eq in Ej. subst j. contradiction.
  Qed.
End State.

Lemma nth_error_fst_inj {B} (l : list (name * B)) i j k v v' :
  NoDup (map fst l) -> nth_error l i = Some (k, v) -> nth_error l j = Some (k, v') -> i = j.
Proof.
  intros ND A B0. rewrite NoDup_nth_error in ND. apply ND.
  - rewrite map_length. apply nth_error_Some. congruence.
  - rewrite !nth_error_map, A, B0. reflexivity.
Qed.

Lemma get_full_of_nth {B} (l : list (name * B)) i k v :
  NoDup (map fst l) -> nth_error l i = Some (k, v) -> get_full l k 0 = Some (i, v).
Proof.
  intros ND N. destruct (get_full_in l k v ND (nth_error_In _ _ N)) as (j & F & Nj).
  rewrite (nth_error_fst_inj l i j k v v ND N Nj). exact F.
Qed.

(** * Part 3: the whole of [plug] on a blank graph *)
Lemma Forall2_nth_right {A B} (R : A -> B -> Prop) l l' k x :
  Forall2 R l l' -> nth_error l' k = Some x -> exists p, nth_error l k = Some p /\ R p x.
Proof.
  intros F. revert k. induction F as [|a b l l' Rab _ IH]; intros [|k] N; try discriminate; cbn in *.
  - injection N as <-. eauto.
  - apply IH. exact N.
Qed.

Definition plug_result (pu : puniverse) (plugs : list pkgid) (socket : pkgid) (imps sx : list item)
           (pls : list (list item)) (r : gstate * plug_outcome) : Prop :=
  let u : universe := pu_graph pu in
  let sup := suppliers (pu_name_text pu) (u_sub u) pls in
  let sock := 0 in
  let (s', out) := r in
  (out = PGraphError ArgumentAlreadyPassed /\ exists i, In i imps /\ 2 <= length (sup i)) \/
  (out = PNoPlugHappened /\ forall i, In i imps -> sup i = []) \/
  (out = POk /\ (forall i, In i imps -> length (sup i) <= 1) /\ (exists i, In i imps /\ sup i <> []) /\
   (forall m t, In (m, t) imps ->
      match sup (m, t) with
      | [] => stays_import u s' sock m t
      | [(k, e)] => exists p, nth_error plugs k = Some p /\ supplied_by u s' sock m p e
      | _ => False
      end) /\
   (forall x k, In (x, k) sx -> reexported u s' sock x) /\
   (forall p, p <> socket ->
      (forall k, nth_error plugs k = Some p -> forall i, In i imps -> forall e, ~ In (k, e) (sup i)) ->
      not_instantiated s' p)).

Theorem plug_master pu s plugs socket imps sx pls :
  blank s -> resolved pu s plugs socket imps sx pls -> wf_case pu imps sx pls ->
  tracks_distinct (pu_name_text pu) (map fst imps) ->
  plug_result pu plugs socket imps sx pls (plug pu s plugs socket).
Proof.
  destruct pu as [u text]. cbn [pu_graph pu_name_text]. intros Hblank Hres Hwf H1.
  unfold plug_result. unfold resolved, wf_case in *. cbn [pu_graph pu_name_text] in *.
  set (sup := suppliers text (u_sub u) pls). pose (sock := 0).
    destruct Hblank as (Bn & Bf & Be & Bx).
    destruct Hres as ((sd & Psd & Ei & Xsd) & F2).
    destruct Hwf as (NDi & NDx & NDp & OKx).
    set (PD := pkg_desc u s).
    assert (PDsp : PD socket = Some sd) by exact Psd.
    (* the socket instantiation *)
    unfold plug. cbn [pu_graph pu_name_text]. rewrite Psd. unfold instantiate. rewrite Psd. unfold add_node. rewrite Bf, Bn. cbn [length app].
    set (nd0 := mk_node (NInst []) (pd_inst sd) (Some socket)).
    set (s0 := {| nodes := [Some nd0]; free_nodes := []; edges := edges s; imports := imports s; exports := exports s;
                  defined := defined s; pkgs := pkgs s; free_pkgs := free_pkgs s |}).
    assert (g0 : Good u sock socket sd PD s0).
    { constructor.
      - reflexivity.
      - intros id. apply pkg_desc_same. reflexivity.
      - intros [|n] L; [|cbn in L; lia]. exists nd0. reflexivity.
      - cbn [s0 edges]. rewrite Be. intros e [].
      - cbn [s0 edges]. rewrite Be. intros e [].
      - exists nd0, []. cbn [s0 edges]. rewrite Be. repeat split; auto; [intros []|intros (a & [])].
      - cbn [s0 edges]. rewrite Be. intros a i [].
      - cbn [s0 edges]. rewrite Be. intros a a' i [].
      - cbn [s0 edges]. rewrite Be. intros n n' a xi xi' [].
      - cbn [s0 edges]. rewrite Be. intros n a xi [].
      - intros [|n] x Gx; [injection Gx as <-; discriminate|]. destruct n; discriminate. }
    assert (E0 : edges s0 = []) by exact Be.
    assert (PRs : Forall2 (PR u PD) plugs pls).
    { clear - F2. induction F2 as [|p x ps xs (pd & A & B) _ IH]; constructor; [exists pd; auto|exact IH]. }
    subst imps. set (imps := pd_imports sd) in *.
    destruct (plug_loop {| pu_graph := u; pu_name_text := text |} s0 0 imps plugs) as [s1 r1] eqn:LP.
    destruct (plug_loop_gen u sock socket sd PD PDsp text NDi plugs pls PRs NDp s0 s1 r1 g0 LP) as (St1 & R1).
    set (matches := fun exps => plug_pairs text (u_sub u) imps exps) in *.
    (* offers and pairs coincide *)
    assert (M2O : forall k exps e m, nth_error pls k = Some exps -> In (e, m) (matches exps) ->
                    exists t, In (m, t) imps /\ In (k, e) (sup (m, t))).
    { intros k exps e m N I. destruct (pair_target_is_import text (u_sub u) imps exps e m I) as (t & Im).
      exists t. split; [exact Im|]. apply in_suppliers. exists exps. split; [exact N|].
      apply (pair_iff_offer text (u_sub u) imps exps e m t NDi H1 Im). exact I. }
    assert (O2M : forall k e m t, In (m, t) imps -> In (k, e) (sup (m, t)) ->
                    exists exps, nth_error pls k = Some exps /\ In (e, m) (matches exps)).
    { intros k e m t Im I. apply in_suppliers in I. destruct I as (exps & N & O). exists exps. split; [exact N|].
      apply (pair_iff_offer text (u_sub u) imps exps e m t NDi H1 Im). exact O. }
    destruct r1 as [o|].
    - (* the loop failed *)
      destruct R1 as (-> & [D|T]).
      + left. split; [reflexivity|]. destruct D as (k1 & k2 & x1 & x2 & e1 & e2 & m & N1 & N2 & I1 & I2 & NE).
        destruct (M2O _ _ _ _ N1 I1) as (t & Im & S1). destruct (M2O _ _ _ _ N2 I2) as (t' & Im' & S2).
        rewrite (nodup_fst_inj _ _ _ _ NDi Im' Im) in S2. exists (m, t). split; [exact Im|].
        destruct (le_lt_dec 2 (length (sup (m, t)))) as [G|L]; [exact G|]. exfalso. apply NE.
        destruct (sup (m, t)) as [|a [|b r]]; [destruct S1| |cbn in L; lia].
        destruct S1 as [<-|[]]. destruct S2 as [Q|[]]. exact Q.
      + exfalso. destruct T as (k & x & e & m & im & t & a & _ & _ & _ & I). rewrite E0 in I. destruct I.
    - destruct R1 as (g1 & L1 & L2 & L3 & L4).
      assert (ARGS : forall a i, In (arg_e sock a i) (edges s1) ->
                       exists k exps e m t, nth_error pls k = Some exps /\ In (e, m) (matches exps) /\ get_full imps m 0 = Some (i, t)).
      { intros a i I. destruct (L4 a i I) as [Q|Q]; [rewrite E0 in Q; destruct Q|exact Q]. }
      assert (LE1 : forall i, In i imps -> length (sup i) <= 1).
      { intros [m t] Im. apply suppliers_from_one. intros k1 k2 e1 e2 S1 S2.
        destruct (O2M _ _ _ _ Im S1) as (x1 & N1 & I1). destruct (O2M _ _ _ _ Im S2) as (x2 & N2 & I2).
        destruct (L3 _ _ _ _ _ _ _ N1 N2 I1 I2). auto. }
      destruct (get_args u s1 0) as [|[m0 a0] rest] eqn:GA.
      + (* no argument: nothing matched *)
        right. left. split; [reflexivity|]. intros [m t] Im.
        destruct (sup (m, t)) as [|[k e] r] eqn:Sm; [reflexivity|]. exfalso.
        assert (Sk : In (k, e) (sup (m, t))) by (rewrite Sm; left; reflexivity).
        destruct (O2M _ _ _ _ Im Sk) as (exps & N & I).
        destruct (Forall2_nth_right _ _ _ _ _ PRs N) as (p & Np & _).
        destruct (L1 _ _ _ _ _ Np N I) as (pd & _ & (im & t' & a & n & xi & ke & nd & Fm & _ & Ia & _)).
        assert (Q : In (m, a) (get_args u s1 0)).
        { apply (get_args_in u sock socket sd PD PDsp text s1 m a g1). exists im, t'. split; [exact Ia|].
          destruct (get_full_spec _ _ _ _ _ Fm) as (_ & Q & _). rewrite Nat.sub_0_r in Q. exact Q. }
        rewrite GA in Q. destruct Q.
      + (* something was plugged: re-export *)
        rewrite Xsd.
        destruct (reexport u s1 0 (map fst sx)) as [s2 r2] eqn:RX.
        assert (Hs1 : exists nd, get_node s1 sock = Some nd /\ nitem nd = pd_inst sd).
        { destruct St1 as (NP1 & _). destruct (NP1 sock nd0 eq_refl) as (nd & G & It & _). exists nd. auto. }
        assert (X1 : exports s1 = []) by (destruct St1 as (_ & _ & X & _); rewrite X; exact Bx).
        assert (Hn : forall x, In x (map fst sx) -> In x (map fst sx) /\ u_export_name_ok u x = true /\
                               alist_get N.eqb (exports s1) x = None).
        { intros x Ix. split; [exact Ix|]. split; [|rewrite X1; reflexivity].
          apply in_map_iff in Ix. destruct Ix as (y & <- & Iy). rewrite Forall_forall in OKx. apply OKx. exact Iy. }
        destruct (reexport_gen u sock socket sd PD text sx Xsd NDx (map fst sx) s1 s2 r2 g1 Hs1 NDx Hn RX)
          as (-> & g2 & NP2 & Inc2 & Args2 & New2 & Ex2 & _).
        right. right. split; [reflexivity|]. split; [exact LE1|].
        assert (I0 : In (m0, a0) (get_args u s1 0)) by (rewrite GA; left; reflexivity).
        apply (get_args_in u sock socket sd PD PDsp text s1 m0 a0 g1) in I0. destruct I0 as (im0 & t0 & Ia0 & N0).
        split.
        { destruct (ARGS _ _ Ia0) as (k & exps & e & m & t & N & I & Fm).
          destruct (M2O _ _ _ _ N I) as (t' & Im & S'). exists (m, t'). split; [exact Im|]. intros Q. rewrite Q in S'. destruct S'. }
        destruct (G_sock _ _ _ _ _ _ g2) as (snd2 & sat2 & Gs2 & Ks2 & Ps2 & Ss2).
        split; [|split].
        * (* every import: supplied by its unique supplier, or still an import *)
          intros m t Im. destruct (In_nth_error _ _ Im) as (im & Nm).
          pose proof (get_full_of_nth imps im m t NDi Nm) as Fm.
          assert (ONLY : forall a' , In (m, a') (get_args u s2 0) -> In (arg_e sock a' im) (edges s2)).
          { intros a' Q. apply (get_args_in u sock socket sd PD PDsp text s2 m a' g2) in Q.
            destruct Q as (im' & t' & Ia' & N'). rewrite (nth_error_fst_inj imps im im' m t t' NDi Nm N'). exact Ia'. }
          pose proof (LE1 _ Im) as Le. destruct (sup (m, t)) as [|[k e] [|b r]] eqn:Sm; [| |cbn in Le; lia].
          -- assert (NOARG : forall a, ~ In (arg_e sock a im) (edges s2)).
             { intros a Ia. apply Args2 in Ia. destruct (ARGS _ _ Ia) as (k & exps & e & m' & t' & N & I & Fm').
               assert (m' = m) as -> by (eapply get_full_inj; eauto).
               destruct (M2O _ _ _ _ N I) as (t'' & Im'' & S'').
               rewrite (nodup_fst_inj _ _ _ _ NDi Im'' Im), Sm in S''. destruct S''. }
             split; [intros a Q; apply (NOARG a), ONLY, Q|].
             apply (list_imports_in u sock socket sd PD PDsp text sx s2 snd2 sat2 im m t g2 Gs2 Ks2 Ps2 Nm).
             intros Q. apply Ss2 in Q. destruct Q as (a & Ia). exact (NOARG a Ia).
          -- assert (Sk : In (k, e) (sup (m, t))) by (rewrite Sm; left; reflexivity).
             destruct (O2M _ _ _ _ Im Sk) as (exps & N & I).
             destruct (Forall2_nth_right _ _ _ _ _ PRs N) as (p & Np & (pd0 & Ppd0 & Xpd0)).
             exists p. split; [exact Np|].
             destruct (L1 _ _ _ _ _ Np N I) as (pd & Ppd & W1).
             apply (Wired_mono sock sd s1 s2 p pd exps e m NP2 Inc2) in W1.
             destruct W1 as (im' & t' & a & n & xi & ke & nd & Fm' & Fe & Ia & Il & Gn & (sat & Kn) & Pn & Itn).
             pose proof (eq_trans (eq_sym Fm) Fm') as EQ. injection EQ as <- <-.
             exists a, n, nd, sat. split; [|split; [|split; [|auto]]].
             ++ apply (get_args_in u sock socket sd PD PDsp text s2 m a g2). eauto.
             ++ intros a' Q. apply ONLY in Q. apply (G_arg_uniq _ _ _ _ _ _ g2 a' a im Q Ia).
             ++ destruct (get_full_spec _ _ _ _ _ Fe) as (_ & Nx & _). rewrite Nat.sub_0_r in Nx.
                assert (Xp : u_inst_exports u (nitem nd) = Some exps).
                { rewrite Itn. rewrite Ppd0 in Ppd. injection Ppd as <-. exact Xpd0. }
                eapply (alias_source_of u sock socket sd PD s2 n a xi nd exps e ke g2 Il Gn Xp Nx).
        * (* the socket's exports *)
          intros x k Ix. destruct (Ex2 x (in_map fst _ _ Ix)) as (a & xi & k' & Ax & Ia & Nx).
          exists a. split; [exact Ax|].
          destruct Hs1 as (n1 & G1 & It1). destruct (NP2 _ _ G1) as (n2 & G2 & It2 & _).
          assert (Xs : u_inst_exports u (nitem n2) = Some sx) by (rewrite It2, It1; exact Xsd).
          apply (alias_source_of u sock socket sd PD s2 sock a xi n2 sx x k' g2 Ia G2 Xs Nx).
        * (* idle plugs *)
          intros p NEp Idle n nd Gn Q.
          destruct (le_lt_dec (length (nodes s1)) n) as [Ge|Lt].
          -- rewrite (New2 n nd Gn Ge) in Q. congruence.
          -- destruct (G_live _ _ _ _ _ _ g1 n Lt) as (n1 & G1). destruct (NP2 _ _ G1) as (n2 & G2 & _ & P2 & _).
             rewrite Gn in G2. injection G2 as <-. rewrite P2 in Q.
             destruct n as [|n].
             ++ destruct Hs1 as (x & Gx & _). destruct (G_sock _ _ _ _ _ _ g1) as (y & _ & Gy & _ & Py & _).
                fold sock in G1. rewrite Gy in G1. injection G1 as <-. congruence.
             ++ destruct St1 as (_ & _ & _ & _ & New1). destruct (New1 (S n) n1 G1) as (q & Pq & (k & exps & Nk & Nx & NE)); [cbn; lia|].
                pose proof (eq_trans (eq_sym Pq) Q) as EQ. injection EQ as ->.
                destruct (matches exps) as [|[e m] r] eqn:Me; [exact (NE Me)|].
                assert (I : In (e, m) (matches exps)) by (rewrite Me; left; reflexivity).
                destruct (M2O _ _ _ _ Nx I) as (t & Im & Sk). exact (Idle k Nk (m, t) Im e Sk).
  Qed.

Lemma existsb_map_ {A B} (f : A -> B) (g : B -> bool) l : existsb g (map f l) = existsb (fun x => g (f x)) l.
Proof. induction l as [|x l IH]; cbn; [reflexivity|]. rewrite IH. reflexivity. Qed.
Lemma forallb_map_ {A B} (f : A -> B) (g : B -> bool) l : forallb g (map f l) = forallb (fun x => g (f x)) l.
Proof. induction l as [|x l IH]; cbn; [reflexivity|]. rewrite IH. reflexivity. Qed.

(** * Part 4: the property's clauses *)
Section Clauses.
  Variable pu : puniverse.
  Variable s : gstate.
  Variable plugs : list pkgid.
  Variable socket : pkgid.
  Variables imps sx : list item.
  Variable pls : list (list item).
  Hypothesis Hcase : plug_case pu s plugs socket imps sx pls.
  Hypothesis H1 : socket_tracks_distinct pu imps.

  Let sup := suppliers (pu_name_text pu) (u_sub pu) pls.
  Let res := plug pu s plugs socket.

  Lemma master : plug_result pu plugs socket imps sx pls res.
  Proof. destruct Hcase as (B & R & W). apply plug_master; assumption. Qed.

  Lemma two_not_le1 (i : item) : 2 <= length (sup i) -> length (sup i) <= 1 -> False.
  Proof. lia. Qed.

  Lemma supplies_spec : snd res = POk -> forall m t, In (m, t) imps ->
    match sup (m, t) with
    | [] => stays_import pu (fst res) 0 m t
    | [(k, e)] => exists p, nth_error plugs k = Some p /\ supplied_by pu (fst res) 0 m p e
    | _ => False
    end.
  Proof.
    pose proof master as M. unfold plug_result in M. fold res in M. destruct res as [s' out]. cbn [fst snd].
    intros ->. destruct M as [(E & _)|[(E & _)|(_ & _ & _ & T & _)]]; try discriminate. exact T.
  Qed.

  Lemma reexports_socket : snd res = POk -> forall x k, In (x, k) sx -> reexported pu (fst res) 0 x.
  Proof.
    pose proof master as M. unfold plug_result in M. destruct res as [s' out]. cbn [fst snd].
    intros ->. destruct M as [(E & _)|[(E & _)|(_ & _ & _ & _ & T & _)]]; try discriminate. exact T.
  Qed.

  Lemma idle_not_instantiated : snd res = POk -> forall p, p <> socket ->
    (forall k, nth_error plugs k = Some p -> forall i, In i imps -> forall e, ~ In (k, e) (sup i)) ->
    not_instantiated (fst res) p.
  Proof.
    pose proof master as M. unfold plug_result in M. destruct res as [s' out]. cbn [fst snd].
    intros ->. destruct M as [(E & _)|[(E & _)|(_ & _ & _ & _ & _ & T)]]; try discriminate. exact T.
  Qed.

  Lemma no_plug_iff_ : snd res = PNoPlugHappened <-> forall i, In i imps -> sup i = [].
  Proof.
    pose proof master as M. unfold plug_result in M. destruct res as [s' out]. cbn [fst snd].
    destruct M as [(E & i & Ii & L)|[(E & A)|(E & _ & (i & Ii & NE) & _)]]; subst out.
    - split; [discriminate|]. intros A. exfalso. fold sup in L. rewrite (A i Ii) in L. cbn in L. lia.
    - split; auto.
    - split; [discriminate|]. intros A. destruct (NE (A i Ii)).
  Qed.

  Lemma ambiguous_fail : (exists i, In i imps /\ 2 <= length (sup i)) -> snd res = PGraphError ArgumentAlreadyPassed.
  Proof.
    pose proof master as M. unfold plug_result in M. destruct res as [s' out]. cbn [fst snd].
    intros (i & Ii & L). destruct M as [(E & _)|[(E & A)|(E & LE & _)]]; [exact E| |].
    - exfalso. fold sup in A. rewrite (A i Ii) in L. cbn in L. lia.
    - exfalso. apply (two_not_le1 i L). apply LE. exact Ii.
  Qed.

  (** the converse: the only failure is that one, and it means an ambiguity; and there is no panic *)
  Lemma fails_only_if_ambiguous : forall e, snd res = PGraphError e ->
    e = ArgumentAlreadyPassed /\ exists i, In i imps /\ 2 <= length (sup i).
  Proof.
    pose proof master as M. unfold plug_result in M. destruct res as [s' out]. cbn [fst snd].
    intros e ->. destruct M as [(E & A)|[(E & _)|(E & _)]]; try discriminate. injection E as ->. auto.
  Qed.

  Lemma never_panics : forall p, snd res <> PPanic p.
  Proof.
    pose proof master as M. unfold plug_result in M. destruct res as [s' out]. cbn [fst snd].
    intros p ->. destruct M as [(E & _)|[(E & _)|(E & _)]]; discriminate.
  Qed.

  (** the verdict of the executable specification *)
  Lemma agrees_with_spec_verdict :
    match spec_plug (pu_name_text pu) (u_sub pu) imps pls with
    | VFail => snd res = PGraphError ArgumentAlreadyPassed
    | VNoPlug => snd res = PNoPlugHappened
    | VOk _ => snd res = POk
    end.
  Proof.
    unfold spec_plug. rewrite existsb_map_, forallb_map_. cbn [snd fst]. fold sup.
    match goal with |- context [existsb ?f imps] => destruct (existsb f imps) eqn:E end.
    - apply ambiguous_fail. apply existsb_exists in E. destruct E as (i & Ii & L). apply Nat.leb_le in L. eauto.
    - match goal with |- context [forallb ?f imps] => destruct (forallb f imps) eqn:F end.
      + apply no_plug_iff_. intros i Ii. rewrite forallb_forall in F. specialize (F i Ii). destruct (sup i); [reflexivity|discriminate].
      + pose proof master as M. unfold plug_result in M. destruct res as [s' out]. cbn [fst snd].
        destruct M as [(_ & i & Ii & L)|[(_ & A)|(Eo & _)]]; [| |exact Eo].
        * exfalso. match type of E with ?x = false => assert (x = true); [|congruence] end.
          apply existsb_exists. exists i. split; [exact Ii|apply Nat.leb_le; exact L].
        * exfalso. match type of F with ?x = false => assert (x = true); [|congruence] end.
          apply forallb_forall. intros i Ii. fold sup in A. rewrite (A i Ii). reflexivity.
  Qed.
End Clauses.
