(** Proofs for property C11: the two target checks against the declarative conformance. *)
From WacV Require Import Str Ord Semver Names NamesSpec Targets TargetsSpec.
From WacV Require Import SemverProofs SemverText NamesProofs NameMapProofs.

(** * Association lists *)
Lemma im_get_none_iff {V} (l : list (str * V)) k : im_get l k = None <-> ~ In k (map fst l).
Proof.
  induction l as [|[k0 v0] l IH]; cbn; [tauto|].
  destruct (str_eqb k0 k) eqn:E.
  - apply str_eqb_eq in E. subst. split; [discriminate|]. intros H. exfalso. apply H. now left.
  - apply str_eqb_neq in E. rewrite IH. split.
    + intros H [H1|H1]; auto.
    + intros H H1. apply H. now right.
Qed.

Lemma im_get_some_key {V} (l : list (str * V)) k : In k (map fst l) -> exists x, im_get l k = Some x.
Proof.
  intros H. destruct (im_get l k) as [x|] eqn:E; eauto. apply im_get_none_iff in E. contradiction.
Qed.

Lemma im_get_consistent {V} (l : list (str * V)) k x :
  consistent l -> (im_get l k = Some x <-> In (k, x) l).
Proof.
  intros C. split; [apply im_get_in|]. intros H.
  destruct (im_get_some_key l k) as [y E].
  - apply in_map_iff. exists (k, x). auto.
  - rewrite E. f_equal. apply im_get_in in E. eapply C; eauto.
Qed.

Lemma consistent_app_l {V} (a b : list (str * V)) : consistent (a ++ b) -> consistent a.
Proof. intros C n x y H1 H2. apply (C n x y); apply in_or_app; auto. Qed.

Lemma in_keys {V} (l : list (str * V)) k : In k (map fst l) <-> exists x, In (k, x) l.
Proof.
  rewrite in_map_iff. split.
  - intros [[k' x] [E H]]. cbn in E. subst. eauto.
  - intros [x H]. exists (k, x). auto.
Qed.

(** * The two lookup disciplines, abstractly: a lookup function that implements a discipline on a table *)
Definition implements {V} (d : discipline) (es : list (str * V)) (get : str -> option V) : Prop :=
  forall q, (forall x, get q = Some x <-> consult d es q x) /\ (get q = None <-> absent d es q).

Lemma exact_implements {V} (es : list (str * V)) : consistent es -> implements Exact es (im_get es).
Proof.
  intros C q. split.
  - intros x. cbn. now apply im_get_consistent.
  - cbn. apply im_get_none_iff.
Qed.

(** * Scans that stop at the first failure *)
Fixpoint scan {A E} (f : A -> option E) (l : list A) : option E :=
  match l with
  | [] => None
  | a :: r => match f a with Some e => Some e | None => scan f r end
  end.

Lemma scan_none {A E} (f : A -> option E) l : scan f l = None <-> Forall (fun a => f a = None) l.
Proof.
  induction l as [|a l IH]; cbn.
  - split; auto.
  - destruct (f a) eqn:E0.
    + split; [discriminate|]. intros H. inversion H; congruence.
    + rewrite IH. split; intros H; [constructor; auto | now inversion H].
Qed.

Lemma scan_some {A E} (f : A -> option E) l e :
  scan f l = Some e <->
  exists pre a post, l = pre ++ a :: post /\ Forall (fun a => f a = None) pre /\ f a = Some e.
Proof.
  induction l as [|a l IH]; cbn.
  - split; [discriminate|]. intros [pre [a [post [H _]]]]. destruct pre; discriminate.
  - destruct (f a) eqn:E0.
    + split.
      * intros H. exists [], a, l. repeat split; auto. congruence.
      * intros [pre [a' [post [H [F Fa]]]]]. destruct pre as [|p pre]; cbn in H.
        -- injection H as <- _. congruence.
        -- injection H as <- _. inversion F; congruence.
    + rewrite IH. split.
      * intros [pre [a' [post [H [F Fa]]]]]. exists (a :: pre), a', post. subst. repeat split; auto.
      * intros [pre [a' [post [H [F Fa]]]]]. destruct pre as [|p pre]; cbn in H.
        -- injection H as <- _. congruence.
        -- injection H as <- ->. exists pre, a', post. inversion F; auto.
Qed.

Lemma Forall_iff {A} (P Q : A -> Prop) l : (forall a, In a l -> (P a <-> Q a)) -> (Forall P l <-> Forall Q l).
Proof.
  intros H. rewrite !Forall_forall. split; intros F a Ha; apply (H a Ha); auto.
Qed.

Section Checks.
  Variable K : Type.
  Variable promote : K -> K.
  Variable sub : K -> K -> bool.

  (** One step of each loop, over an arbitrary lookup. *)
  Definition imp_step (get : str -> option K) (i : str * K * bool) : option terror :=
    match get (iname i) with
    | None => Some (ImportNotInTarget (iname i))
    | Some e => if sub (promote e) (ikind i) then None else Some (TargetMismatch EImport (iname i))
    end.
  Definition exp_step (get : str -> option K) (x : str * K) : option terror :=
    match get (fst x) with
    | None => Some (MissingTargetExport (fst x))
    | Some y => if sub y (promote (snd x)) then None else Some (TargetMismatch EExport (fst x))
    end.

  Lemma rt_imports_scan w l : rt_imports promote sub w l = scan (imp_step (rt_expected w)) l.
  Proof.
    induction l as [|[[n k] b] l IH]; cbn; auto. unfold imp_step at 1. cbn.
    destruct (rt_expected w n); auto. destruct (sub _ _); auto.
  Qed.

  Lemma rt_exports_scan c l : rt_exports promote sub c l = scan (exp_step (im_get (c_exports c))) l.
  Proof.
    induction l as [|[n e] l IH]; cbn; auto. unfold exp_step at 1. cbn.
    destruct (im_get _ n); auto. destruct (sub _ _); auto.
  Qed.

  Lemma rt_expected_wtable (w : tworld K) n : rt_expected w n = im_get (wtable w) n.
  Proof. unfold rt_expected, wtable. now rewrite im_get_app. Qed.

  (** Per-item classification under a lookup that implements discipline [d]. *)
  Section Item.
    Variable d : discipline.
    Variable tbl : list (str * K).
    Variable get : str -> option K.
    Hypothesis G : implements d tbl get.

    Lemma consult_fun q x y : consult d tbl q x -> consult d tbl q y -> x = y.
    Proof.
      intros H1 H2. apply (proj1 (G q)) in H1, H2. congruence.
    Qed.
    Lemma consult_not_absent q x : consult d tbl q x -> absent d tbl q -> False.
    Proof.
      intros H1 H2. apply (proj1 (G q)) in H1. apply (proj2 (G q)) in H2. congruence.
    Qed.
    Lemma consult_or_absent q : (exists x, consult d tbl q x) \/ absent d tbl q.
    Proof.
      destruct (get q) as [x|] eqn:E.
      - left. exists x. now apply (proj1 (G q)).
      - right. now apply (proj2 (G q)).
    Qed.
  End Item.

  Section ImportItem.
    Variable d : discipline.
    Variable w : tworld K.
    Variable get : str -> option K.
    Hypothesis G : implements d (wtable w) get.

    Lemma imp_step_none i : imp_step get i = None <-> import_ok promote sub d w i.
    Proof.
      unfold imp_step, import_ok. destruct (get (iname i)) as [e|] eqn:E.
      - apply (proj1 (G _)) in E. destruct (sub (promote e) (ikind i)) eqn:S; split; try discriminate; eauto.
        intros [e' [C S']]. rewrite (consult_fun _ _ _ G _ _ _ C E) in S'. congruence.
      - apply (proj2 (G _)) in E. split; [discriminate|]. intros [e [C _]]. exfalso.
        eapply consult_not_absent; eauto.
    Qed.

    Lemma imp_step_outside i n :
      imp_step get i = Some (ImportNotInTarget n) <-> iname i = n /\ import_outside d w i.
    Proof.
      unfold imp_step, import_outside. destruct (get (iname i)) as [e|] eqn:E.
      - apply (proj1 (G _)) in E. destruct (sub _ _); split; try discriminate.
        + intros [_ A]. exfalso. eapply consult_not_absent; eauto.
        + intros [_ A]. exfalso. eapply consult_not_absent; eauto.
      - apply (proj2 (G _)) in E. split.
        + intros H. injection H as <-. auto.
        + intros [<- _]. reflexivity.
    Qed.

    Lemma imp_step_mismatch i n :
      imp_step get i = Some (TargetMismatch EImport n) <-> iname i = n /\ import_mismatch promote sub d w i.
    Proof.
      unfold imp_step, import_mismatch. destruct (get (iname i)) as [e|] eqn:E.
      - apply (proj1 (G _)) in E. destruct (sub (promote e) (ikind i)) eqn:S; split; try discriminate.
        + intros [_ [e' [C S']]]. rewrite (consult_fun _ _ _ G _ _ _ C E) in S'. congruence.
        + intros H. injection H as <-. eauto.
        + intros [<- _]. reflexivity.
      - apply (proj2 (G _)) in E. split; [discriminate|]. intros [_ [e [C _]]]. exfalso.
        eapply consult_not_absent; eauto.
    Qed.

    Lemma imp_step_other i : (forall n, imp_step get i <> Some (MissingTargetExport n)) /\
                             (forall n, imp_step get i <> Some (TargetMismatch EExport n)).
    Proof.
      unfold imp_step. destruct (get (iname i)); [destruct (sub _ _)|]; split; intros n; discriminate.
    Qed.

    (** exactly one of the three classes *)
    Lemma import_trichotomy i :
      import_ok promote sub d w i <-> ~ import_outside d w i /\ ~ import_mismatch promote sub d w i.
    Proof.
      rewrite <- imp_step_none. split.
      - intros H. split; intros H'.
        + assert (imp_step get i = Some (ImportNotInTarget (iname i))) by (apply imp_step_outside; auto). congruence.
        + assert (imp_step get i = Some (TargetMismatch EImport (iname i))) by (apply imp_step_mismatch; auto).
          congruence.
      - intros [H1 H2]. destruct (imp_step get i) as [e|] eqn:E; auto. exfalso. destruct e as [n|[|] n|n].
        + apply imp_step_outside in E as [_ E]. auto.
        + apply imp_step_mismatch in E as [_ E]. auto.
        + destruct (imp_step_other i) as [_ O]. exact (O n E).
        + destruct (imp_step_other i) as [O _]. exact (O n E).
    Qed.
  End ImportItem.

  Section ExportItem.
    Variable d : discipline.
    Variable c : comp K.
    Variable get : str -> option K.
    Hypothesis G : implements d (c_exports c) get.

    Lemma exp_step_none x : exp_step get x = None <-> export_ok promote sub d c x.
    Proof.
      unfold exp_step, export_ok. destruct (get (fst x)) as [y|] eqn:E.
      - apply (proj1 (G _)) in E. destruct (sub y (promote (snd x))) eqn:S; split; try discriminate; eauto.
        intros [y' [C S']]. rewrite (consult_fun _ _ _ G _ _ _ C E) in S'. congruence.
      - apply (proj2 (G _)) in E. split; [discriminate|]. intros [y [C _]]. exfalso.
        eapply consult_not_absent; eauto.
    Qed.

    Lemma exp_step_missing x n :
      exp_step get x = Some (MissingTargetExport n) <-> fst x = n /\ export_missing d c x.
    Proof.
      unfold exp_step, export_missing. destruct (get (fst x)) as [y|] eqn:E.
      - apply (proj1 (G _)) in E. destruct (sub _ _); split; try discriminate;
          intros [_ A]; exfalso; eapply consult_not_absent; eauto.
      - apply (proj2 (G _)) in E. split.
        + intros H. injection H as <-. auto.
        + intros [<- _]. reflexivity.
    Qed.

    Lemma exp_step_mismatch x n :
      exp_step get x = Some (TargetMismatch EExport n) <-> fst x = n /\ export_mismatch promote sub d c x.
    Proof.
      unfold exp_step, export_mismatch. destruct (get (fst x)) as [y|] eqn:E.
      - apply (proj1 (G _)) in E. destruct (sub y (promote (snd x))) eqn:S; split; try discriminate.
        + intros [_ [y' [C S']]]. rewrite (consult_fun _ _ _ G _ _ _ C E) in S'. congruence.
        + intros H. injection H as <-. eauto.
        + intros [<- _]. reflexivity.
      - apply (proj2 (G _)) in E. split; [discriminate|]. intros [_ [y [C _]]]. exfalso.
        eapply consult_not_absent; eauto.
    Qed.

    Lemma exp_step_other x : (forall n, exp_step get x <> Some (ImportNotInTarget n)) /\
                             (forall n, exp_step get x <> Some (TargetMismatch EImport n)).
    Proof.
      unfold exp_step. destruct (get (fst x)); [destruct (sub _ _)|]; split; intros n; discriminate.
    Qed.

    Lemma export_trichotomy x :
      export_ok promote sub d c x <-> ~ export_missing d c x /\ ~ export_mismatch promote sub d c x.
    Proof.
      rewrite <- exp_step_none. split.
      - intros H. split; intros H'.
        + assert (exp_step get x = Some (MissingTargetExport (fst x))) by (apply exp_step_missing; auto). congruence.
        + assert (exp_step get x = Some (TargetMismatch EExport (fst x))) by (apply exp_step_mismatch; auto).
          congruence.
      - intros [H1 H2]. destruct (exp_step get x) as [e|] eqn:E; auto. exfalso. destruct e as [n|[|] n|n].
        + destruct (exp_step_other x) as [O _]. exact (O n E).
        + destruct (exp_step_other x) as [_ O]. exact (O n E).
        + apply exp_step_mismatch in E as [_ E]. auto.
        + apply exp_step_missing in E as [_ E]. auto.
    Qed.
  End ExportItem.

  (** * The resolution-time check *)
  Section Resolve.
    Variable w : tworld K.
    Variable c : comp K.
    Hypothesis WF : wf_pair w c.

    Let GI : implements Exact (wtable w) (rt_expected w).
    Proof.
      intros q. rewrite rt_expected_wtable. apply exact_implements. apply WF.
    Qed.
    Let GE : implements Exact (c_exports c) (im_get (c_exports c)).
    Proof. apply exact_implements. apply WF. Qed.

    Lemma forall_imp_ok l :
      Forall (fun a => imp_step (rt_expected w) a = None) l <-> Forall (import_ok promote sub Exact w) l.
    Proof. apply Forall_iff. intros a _. now apply imp_step_none. Qed.
    Lemma forall_exp_ok l :
      Forall (fun a => exp_step (im_get (c_exports c)) a = None) l <-> Forall (export_ok promote sub Exact c) l.
    Proof. apply Forall_iff. intros a _. now apply exp_step_none. Qed.

    Lemma rt_imports_none : rt_imports promote sub w (c_imports c) = None <->
                            Forall (import_ok promote sub Exact w) (c_imports c).
    Proof. rewrite rt_imports_scan, scan_none. apply forall_imp_ok. Qed.

    Lemma rt_exports_none : rt_exports promote sub c (tw_exports w) = None <->
                            Forall (export_ok promote sub Exact c) (tw_exports w).
    Proof. rewrite rt_exports_scan, scan_none. apply forall_exp_ok. Qed.

    Lemma resolve_ok_iff : resolve_target promote sub w c = ROk <-> Conforms promote sub Exact w c.
    Proof.
      unfold resolve_target, Conforms. rewrite <- rt_imports_none, <- rt_exports_none.
      destruct (rt_imports _ _ _ _); [split; [discriminate|intros [H _]; discriminate]|].
      destruct (rt_exports _ _ _ _); [split; [discriminate|intros [_ H]; discriminate]|]. tauto.
    Qed.

    Lemma rt_imports_first (P : str * K * bool -> Prop) e :
      (forall i, imp_step (rt_expected w) i = Some e <-> P i) ->
      (rt_imports promote sub w (c_imports c) = Some e <->
       exists i, first_failing (import_ok promote sub Exact w) P (c_imports c) i).
    Proof.
      intros HP. rewrite rt_imports_scan, scan_some. unfold first_failing. split.
      - intros [pre [a [post [H [F Fa]]]]]. exists a, pre, post. rewrite <- forall_imp_ok, <- HP. auto.
      - intros [a [pre [post [H [F Fa]]]]]. exists pre, a, post. rewrite forall_imp_ok, HP. auto.
    Qed.

    Lemma rt_exports_first (P : str * K -> Prop) e :
      (forall x, exp_step (im_get (c_exports c)) x = Some e <-> P x) ->
      (rt_exports promote sub c (tw_exports w) = Some e <->
       exists x, first_failing (export_ok promote sub Exact c) P (tw_exports w) x).
    Proof.
      intros HP. rewrite rt_exports_scan, scan_some. unfold first_failing. split.
      - intros [pre [a [post [H [F Fa]]]]]. exists a, pre, post. rewrite <- forall_exp_ok, <- HP. auto.
      - intros [a [pre [post [H [F Fa]]]]]. exists pre, a, post. rewrite forall_exp_ok, HP. auto.
    Qed.

    Lemma ff_name {A} (ok P : A -> Prop) (nm : A -> str) n l :
      (exists a, first_failing ok (fun a => nm a = n /\ P a) l a) <->
      (exists a, nm a = n /\ first_failing ok P l a).
    Proof.
      unfold first_failing. split.
      - intros [a [pre [post [H [F [N Pa]]]]]]. exists a. split; auto. exists pre, post. auto.
      - intros [a [N [pre [post [H [F Pa]]]]]]. exists a, pre, post. auto.
    Qed.

    Lemma rt_imports_never e : rt_imports promote sub w (c_imports c) = Some e ->
      (forall n, e <> MissingTargetExport n) /\ (forall n, e <> TargetMismatch EExport n).
    Proof.
      rewrite rt_imports_scan, scan_some. intros [pre [a [post [_ [_ Fa]]]]].
      destruct (imp_step_other (rt_expected w) a) as [O1 O2]. split; intros n ->; [apply (O1 n)|apply (O2 n)]; auto.
    Qed.
    Lemma rt_exports_never e : rt_exports promote sub c (tw_exports w) = Some e ->
      (forall n, e <> ImportNotInTarget n) /\ (forall n, e <> TargetMismatch EImport n).
    Proof.
      rewrite rt_exports_scan, scan_some. intros [pre [a [post [_ [_ Fa]]]]].
      destruct (exp_step_other (im_get (c_exports c)) a) as [O1 O2]. split; intros n ->; [apply (O1 n)|apply (O2 n)]; auto.
    Qed.

    Lemma resolve_import_not_in_target n :
      resolve_target promote sub w c = RErr (ImportNotInTarget n) <-> diag_import_not_in_target promote sub Exact w c n.
    Proof.
      unfold diag_import_not_in_target. rewrite <- ff_name.
      rewrite <- (rt_imports_first _ (ImportNotInTarget n)) by (intros i; now apply imp_step_outside).
      unfold resolve_target. destruct (rt_imports _ _ _ _) as [e|] eqn:E1.
      - split; congruence.
      - destruct (rt_exports _ _ _ _) as [e|] eqn:E2; [|split; discriminate].
        apply rt_exports_never in E2 as [O _]. split; [|discriminate]. intros H. injection H as ->. now destruct (O n).
    Qed.

    Lemma resolve_import_mismatch n :
      resolve_target promote sub w c = RErr (TargetMismatch EImport n) <-> diag_import_mismatch promote sub Exact w c n.
    Proof.
      unfold diag_import_mismatch. rewrite <- ff_name.
      rewrite <- (rt_imports_first _ (TargetMismatch EImport n)) by (intros i; now apply imp_step_mismatch).
      unfold resolve_target. destruct (rt_imports _ _ _ _) as [e|] eqn:E1.
      - split; congruence.
      - destruct (rt_exports _ _ _ _) as [e|] eqn:E2; [|split; discriminate].
        apply rt_exports_never in E2 as [_ O]. split; [|discriminate]. intros H. injection H as ->. now destruct (O n).
    Qed.

    Lemma resolve_missing_export n :
      resolve_target promote sub w c = RErr (MissingTargetExport n) <-> diag_missing_export promote sub Exact w c n.
    Proof.
      unfold diag_missing_export. rewrite <- ff_name, <- rt_imports_none.
      rewrite <- (rt_exports_first _ (MissingTargetExport n)) by (intros i; now apply exp_step_missing).
      unfold resolve_target. destruct (rt_imports _ _ _ _) as [e|] eqn:E1.
      - apply rt_imports_never in E1 as [O _]. split.
        + intros H. injection H as ->. now destruct (O n).
        + intros [H _]. discriminate.
      - destruct (rt_exports _ _ _ _) as [e|] eqn:E2.
        + split; [intros H; injection H as ->; auto | intros [_ H]; congruence].
        + split; [discriminate | intros [_ H]; discriminate].
    Qed.

    Lemma resolve_export_mismatch n :
      resolve_target promote sub w c = RErr (TargetMismatch EExport n) <-> diag_export_mismatch promote sub Exact w c n.
    Proof.
      unfold diag_export_mismatch. rewrite <- ff_name, <- rt_imports_none.
      rewrite <- (rt_exports_first _ (TargetMismatch EExport n)) by (intros i; now apply exp_step_mismatch).
      unfold resolve_target. destruct (rt_imports _ _ _ _) as [e|] eqn:E1.
      - apply rt_imports_never in E1 as [_ O]. split.
        + intros H. injection H as ->. now destruct (O n).
        + intros [H _]. discriminate.
      - destruct (rt_exports _ _ _ _) as [e|] eqn:E2.
        + split; [intros H; injection H as ->; auto | intros [_ H]; congruence].
        + split; [discriminate | intros [_ H]; discriminate].
    Qed.
  End Resolve.
End Checks.

(** * [NameMap] filled with shadowing inserts (targets.rs [all_imports], [component_exports]) *)
Section Shadow.
  Context {V : Type}.
  Implicit Types (es : list (str * V)) (m : namemap V).

  Definition sh_step es (op : str * V) : list (str * V) := fst (im_insert es (fst op) (snd op)).
  Definition shadowed_from es (l : list (str * V)) := fold_left sh_step l es.
  Definition shadowed (l : list (str * V)) := shadowed_from [] l.

  Lemma im_insert_keys_present es n x p :
    im_get es n = Some p -> map fst (fst (im_insert es n x)) = map fst es.
  Proof.
    induction es as [|[k0 v0] es IH]; cbn; try discriminate.
    destruct (str_eqb k0 n) eqn:E; cbn; auto.
    intros H. specialize (IH H). destruct (im_insert es n x); cbn in *. now rewrite IH.
  Qed.

  Lemma sh_step_nodup es op : NoDup (map fst es) -> NoDup (map fst (sh_step es op)).
  Proof.
    intros ND. unfold sh_step. destruct (im_get es (fst op)) as [p|] eqn:E.
    - now rewrite (im_insert_keys_present _ _ _ _ E).
    - rewrite im_insert_fresh by auto. rewrite map_app. cbn. apply NoDup_app_one; auto.
      now apply im_get_none_iff.
  Qed.

  Lemma shadowed_from_nodup l : forall es, NoDup (map fst es) -> NoDup (map fst (shadowed_from es l)).
  Proof. induction l as [|op l IH]; intros es ND; cbn; auto. apply IH, sh_step_nodup, ND. Qed.

  Lemma shadowed_nodup l : NoDup (map fst (shadowed l)).
  Proof. apply shadowed_from_nodup. constructor. Qed.

  (** the value under a name is the one inserted last *)
  Lemma shadowed_from_get l : forall es k,
    im_get (shadowed_from es l) k = match im_get (rev l) k with Some x => Some x | None => im_get es k end.
  Proof.
    induction l as [|[n x] l IH]; intros es k; cbn; auto.
    unfold shadowed_from in IH. rewrite IH. rewrite im_get_app. destruct (im_get (rev l) k); auto.
    unfold sh_step. cbn. rewrite im_get_insert. destruct (str_eqb n k) eqn:E; auto.
  Qed.

  Lemma consistent_rev (l : list (str * V)) : consistent l -> consistent (rev l).
  Proof. intros C n x y H1 H2. apply in_rev in H1, H2. eapply C; eauto. Qed.

  Lemma shadowed_in l n x : consistent l -> (In (n, x) (shadowed l) <-> In (n, x) l).
  Proof.
    intros C. pose proof (shadowed_nodup l) as ND.
    assert (im_get (shadowed l) n = Some x <-> In (n, x) l) as H.
    { unfold shadowed. rewrite shadowed_from_get. cbn.
      rewrite (in_rev l). rewrite <- (im_get_consistent (rev l) n x (consistent_rev _ C)).
      destruct (im_get (rev l) n); split; auto; discriminate. }
    rewrite <- H. split; [now apply in_im_get | apply im_get_in].
  Qed.

  Lemma shadowed_keys l n : consistent l -> (In n (map fst (shadowed l)) <-> In n (map fst l)).
  Proof.
    intros C. rewrite !in_keys. split; intros [x H]; exists x; now apply (shadowed_in l n x C).
  Qed.

  (** the alternate table only depends on the names *)
  Lemma alt_best_names k es es' : map fst es = map fst es' -> alt_best k es = alt_best k es'.
  Proof.
    unfold alt_best. generalize (@None (str * version)).
    revert es'. induction es as [|e es IH]; intros [|e' es'] acc H; try discriminate; auto.
    cbn in H. injection H as H0 H. cbn. rewrite (IH es' _ H). f_equal.
    unfold alt_step. now rewrite H0.
  Qed.

  (** two names with one alternate key and one version are one name *)
  Lemma alt_key_inj a b k v : alt_key a = Some (k, v) -> alt_key b = Some (k, v) -> a = b.
  Proof.
    intros A B.
    pose proof (alt_key_same_track _ _ _ _ _ _ A B) as S. rewrite str_eqb_refl in S. symmetry in S.
    apply alt_key_sound in A as [ba [ta [TA _]]]. apply alt_key_sound in B as [bb [tb [TB _]]].
    eapply same_track_same_version_name; eauto; unfold version_of; [now rewrite TA | now rewrite TB].
  Qed.

  Lemma lt_vle_trans a b c : version_ltb a b = true -> vle b c -> version_ltb a c = true.
  Proof.
    pose proof cmp_version_total as T. rewrite !version_ltb_lt. unfold vle. intros H1 H2.
    destruct (cmp_version b c) eqn:E; try congruence.
    - apply (tc_eq _ T) in E. now subst.
    - eapply (tc_trans _ T); eauto.
  Qed.

  (** [n] (key [k], version [v]) has been seen: the best entry is at least as high, and is [n] itself on a tie *)
  Definition seen (n : str) (v : version) (acc : option (str * version)) : Prop :=
    exists pn pv, acc = Some (pn, pv) /\ (version_ltb v pv = true \/ (pn, pv) = (n, v)).

  Lemma seen_step n k v acc (e : str * V) : alt_key n = Some (k, v) -> seen n v acc -> seen n v (alt_step k acc e).
  Proof.
    pose proof cmp_version_total as T.
    intros AK [pn [pv [-> H]]]. unfold alt_step.
    destruct (alt_key (fst e)) as [[k' v']|] eqn:AE; [|exists pn, pv; auto].
    destruct (str_eqb k' k) eqn:EK; [|exists pn, pv; auto]. apply str_eqb_eq in EK. subst k'.
    destruct (version_ltb v' pv) eqn:L; [exists pn, pv; auto|].
    exists (fst e), v'. split; auto. apply not_lt_vle in L.
    destruct H as [H|H].
    - left. eapply lt_vle_trans; eauto.
    - injection H as -> ->. unfold vle in L. destruct (cmp_version v v') eqn:C; try congruence.
      + apply (tc_eq _ T) in C. subst v'. right. f_equal. eapply alt_key_inj; eauto.
      + left. now apply version_ltb_lt.
  Qed.

  Lemma seen_fold n k v es : alt_key n = Some (k, v) ->
    forall acc, seen n v acc -> seen n v (fold_left (alt_step k) es acc).
  Proof. intros AK. induction es as [|e es IH]; intros acc S; cbn; auto. apply IH. now apply seen_step. Qed.

  Lemma seen_here n k v acc (x : V) : alt_key n = Some (k, v) -> seen n v (alt_step k acc (n, x)).
  Proof.
    intros AK. unfold alt_step. cbn. rewrite AK, str_eqb_refl. destruct acc as [[pn pv]|].
    - destruct (version_ltb v pv) eqn:L; [exists pn, pv | exists n, v]; auto.
    - exists n, v. auto.
  Qed.

  Lemma alt_best_seen n k v es : alt_key n = Some (k, v) -> In n (map fst es) -> seen n v (alt_best k es).
  Proof.
    intros AK. unfold alt_best. generalize (@None (str * version)).
    induction es as [|[n0 x0] es IH]; intros acc H; [destruct H|]. destruct H as [H|H]; cbn.
    - cbn in H. subst n0. apply seen_fold with (k := k); auto. now apply seen_here.
    - now apply IH.
  Qed.

  (** one shadowing insert keeps the invariant of NameMapProofs *)
  Lemma Rel_insert_sh m es n x : Rel m es -> NoDup (map fst es) ->
    exists m', nm_insert m n true x = Some m' /\ Rel m' (sh_step es (n, x)).
  Proof.
    intros R ND. destruct (im_get es n) as [p|] eqn:G.
    - (* the name is present: the value is replaced in place, the alternate table is unchanged *)
      destruct R as [Hd Ha]. unfold nm_insert, sh_step. cbn [fst snd]. rewrite Hd.
      destruct (im_insert es n x) as [d prev] eqn:I.
      assert (prev = Some p) as -> by (rewrite <- G, <- im_insert_snd with (v := x); now rewrite I).
      assert (map fst d = map fst es) as Hk.
      { replace d with (fst (im_insert es n x)) by now rewrite I. eapply im_insert_keys_present; eauto. }
      assert (forall k, alt_best k d = alt_best k es) as Hb by (intros k; now apply alt_best_names).
      cbn [fst].
      destruct (alt_key n) as [[ak v]|] eqn:AK.
      + destruct (im_insert (alts m) ak (n, v)) as [a prevk] eqn:IA.
        assert (prevk = alt_best ak es) as Hpk.
        { rewrite <- Ha. rewrite <- im_insert_snd with (v := (n, v)). now rewrite IA. }
        assert (forall k, im_get a k = if str_eqb ak k then Some (n, v) else alt_best k es) as Hga.
        { intros k. replace a with (fst (im_insert (alts m) ak (n, v))) by now rewrite IA.
          rewrite im_get_insert. now rewrite Ha. }
        assert (In n (map fst es)) as Hin.
        { apply im_get_in in G. apply in_map_iff. exists (n, p). auto. }
        destruct (alt_best_seen n ak v es AK Hin) as [pn [pv [Eb Hs]]].
        rewrite Eb in Hpk. subst prevk.
        destruct (version_ltb v pv) eqn:L.
        * eexists. split; [reflexivity|]. split; [reflexivity|]. intros k. cbn [alts]. rewrite Hb.
          rewrite im_get_insert, Hga. destruct (str_eqb ak k) eqn:E; auto.
          apply str_eqb_eq in E. subst k. now rewrite Eb.
        * destruct Hs as [Hs|Hs]; [congruence|]. injection Hs as -> ->.
          eexists. split; [reflexivity|]. split; [reflexivity|]. intros k. cbn [alts]. rewrite Hb, Hga.
          destruct (str_eqb ak k) eqn:E; auto. apply str_eqb_eq in E. subst k. now rewrite Eb.
      + eexists. split; [reflexivity|]. split; [reflexivity|]. intros k. cbn [alts]. rewrite Hb. apply Ha.
    - (* a fresh name: as a non-shadowing insert *)
      pose proof (Rel_step m es (n, x) R) as R'.
      assert (nm_insert m n true x = nm_insert m n false x) as E.
      { unfold nm_insert. destruct R as [Hd _]. rewrite Hd.
        destruct (im_insert es n x) as [d prev] eqn:I.
        assert (prev = None) as -> by (rewrite <- G, <- im_insert_snd with (v := x); now rewrite I).
        reflexivity. }
      unfold nm_step in R'. cbn [fst snd] in R'. rewrite <- E in R'.
      assert (acc_step es (n, x) = sh_step es (n, x)) as E2.
      { unfold acc_step, sh_step. cbn [fst snd].
        replace (existsb (str_eqb n) (map fst es)) with false
          by (symmetry; now apply im_get_none_existsb).
        now rewrite im_insert_fresh. }
      rewrite E2 in R'.
      destruct (nm_insert m n true x) as [m'|] eqn:I; [eauto|].
      (* the insert cannot fail *)
      exfalso. unfold nm_insert in I. destruct R as [Hd _]. rewrite Hd in I.
      destruct (im_insert es n x) as [d prev]. destruct prev; destruct (alt_key n) as [[ak vv]|];
        try discriminate; destruct (im_insert (alts m) ak (n, vv)) as [a [[pk pv]|]];
        try discriminate; destruct (version_ltb vv pv); discriminate.
  Qed.

  Lemma nm_fill_rel l : forall m es, Rel m es -> NoDup (map fst es) ->
    exists m', nm_fill m l = Some m' /\ Rel m' (shadowed_from es l).
  Proof.
    induction l as [|[n x] l IH]; intros m es R ND; cbn.
    - eauto.
    - destruct (Rel_insert_sh m es n x R ND) as [m1 [-> R1]].
      apply IH; auto. now apply sh_step_nodup.
  Qed.

  Lemma nm_fill_total l : exists m', nm_fill nm_empty l = Some m' /\ Rel m' (shadowed l).
  Proof. apply nm_fill_rel; [split; auto | constructor]. Qed.

  (** lookups in a map that satisfies the invariant (as [nm_get_spec], for any table with distinct names) *)
  Lemma nm_get_rel m es q : Rel m es -> NoDup (map fst es) ->
    nm_get m q = match im_get es q with
                 | Some x => Some x
                 | None => match best_on_track q es None with Some (_, x) => Some x | None => None end
                 end.
  Proof.
    intros [Hd Ha] ND. unfold nm_get. rewrite Hd.
    destruct (im_get es q) as [x|]; auto.
    destruct (alt_key q) as [[ak vq]|] eqn:AQ.
    - rewrite Ha. unfold alt_best.
      pose proof (alt_best_vs_best q ak vq es AQ ND es None None (incl_refl _) I) as H. unfold RelAcc in H.
      destruct (fold_left (alt_step ak) es None) as [[n v]|],
               (best_on_track q es None) as [[v' x]|]; try contradiction; auto.
      destruct H as [_ H]. exact H.
    - apply alt_key_none in AQ.
      assert (forall es0 acc, best_on_track (V := V) q es0 acc = acc) as B.
      { induction es0 as [|[n x] es0 IH]; intros acc; cbn; auto.
        unfold same_track. rewrite AQ. destruct (name_track n) as [[[? ?] ?]|]; auto. }
      now rewrite B.
  Qed.

  Lemma Highest_is_highest es q x : Highest es q x <-> is_highest es q x.
  Proof. unfold Highest, is_highest, vle. tauto. Qed.

  Lemma Highest_ext es es' q x :
    (forall n y, In (n, y) es <-> In (n, y) es') -> Highest es q x -> Highest es' q x.
  Proof.
    intros H [n [v [I [S [Vn M]]]]]. exists n, v. repeat split; auto.
    - now apply H.
    - intros n' x' v' I'. apply (M n' x' v'). now apply H.
  Qed.

  (** the semver-aware lookup implements the [Semver] discipline on the inserted list *)
  Theorem semver_implements l m :
    consistent l -> nm_fill nm_empty l = Some m -> implements Semver l (nm_get m).
  Proof.
    intros C F. destruct (nm_fill_total l) as [m' [F' R]]. rewrite F in F'. injection F' as <-.
    pose proof (shadowed_nodup l) as ND. set (es := shadowed l) in *.
    assert (forall n y, In (n, y) es <-> In (n, y) l) as Hin by (intros; now apply shadowed_in).
    assert (forall q, im_get es q = None <-> ~ In q (map fst l)) as Hnone.
    { intros q. rewrite im_get_none_iff. unfold es. now rewrite shadowed_keys. }
    (* soundness of both answers *)
    assert (forall q x, nm_get m q = Some x -> consult Semver l q x) as S1.
    { intros q x. rewrite (nm_get_rel m es q R ND). destruct (im_get es q) as [y|] eqn:G.
      - intros H. injection H as ->. left. apply Hin. now apply im_get_in.
      - destruct (best_on_track q es None) as [[v y]|] eqn:B; try discriminate.
        intros H. injection H as ->. right. split; [now apply Hnone|].
        apply best_on_track_some in B. apply Highest_is_highest in B.
        eapply Highest_ext; [|exact B]. intros. now rewrite Hin. }
    assert (forall q, nm_get m q = None -> absent Semver l q) as S2.
    { intros q. rewrite (nm_get_rel m es q R ND). destruct (im_get es q) as [y|] eqn:G; try discriminate.
      destruct (best_on_track q es None) as [[v y]|] eqn:B; try discriminate.
      intros _ n x I. apply Hin in I. split.
      - intros ->. rewrite (in_im_get _ _ _ ND I) in G. discriminate.
      - destruct (same_track n q) eqn:St; auto.
        pose proof (best_on_track_none _ _ B _ _ I St) as Vn.
        apply same_track_version in St as [v Vn']. congruence. }
    (* the two answers exclude each other, and the consulted entry is unique *)
    assert (forall q x, consult Semver l q x -> absent Semver l q -> False) as X.
    { intros q x [H|[_ [n [v [I [St _]]]]]] A.
      - destruct (A _ _ H) as [N _]. now apply N.
      - destruct (A _ _ I) as [_ N]. congruence. }
    assert (forall q x y, consult Semver l q x -> consult Semver l q y -> x = y) as U.
    { intros q x y [H1|[N1 H1]] [H2|[N2 H2]].
      - eapply C; eauto.
      - exfalso. apply N2. apply in_keys. eauto.
      - exfalso. apply N1. apply in_keys. eauto.
      - apply (highest_unique es q x y ND); apply Highest_is_highest;
          (eapply Highest_ext; [|eassumption]); intros; now rewrite Hin. }
    intros q. split.
    - intros x. split; [apply S1|]. intros Cx. destruct (nm_get m q) as [y|] eqn:G.
      + f_equal. eapply U; eauto.
      + exfalso. eapply X; eauto.
    - split; [apply S2|]. intros A. destruct (nm_get m q) as [y|] eqn:G; auto.
      exfalso. eapply X; eauto.
  Qed.
End Shadow.

(** * The stand-alone check *)
Lemma set_add_in s x y : In y (set_add s x) <-> In y s \/ y = x.
Proof.
  unfold set_add. destruct (existsb (str_eqb x) s) eqn:E.
  - apply existsb_exists in E as [z [Hz E]]. apply str_eqb_eq in E. subst z. split; auto.
    intros [H| ->]; auto.
  - rewrite in_app_iff. cbn. intuition.
Qed.

Lemma map_put_keys (m : list (str * extern)) k v y :
  In y (map fst (map_put m k v)) <-> In y (map fst m) \/ y = k.
Proof.
  unfold map_put. induction m as [|[k0 v0] m IH]; cbn.
  - intuition.
  - destruct (str_eqb k0 k) eqn:E; cbn.
    + apply str_eqb_eq in E. subst. intuition.
    + destruct (im_insert m k v) as [m' o]; cbn in *. rewrite IH. intuition.
Qed.

Lemma fold_mem {A R} (step : R -> A -> R) (mem : R -> str -> Prop) (hit : A -> str -> Prop) :
  (forall r a n, mem (step r a) n <-> mem r n \/ hit a n) ->
  forall l r n, mem (fold_left step l r) n <-> mem r n \/ exists a, In a l /\ hit a n.
Proof.
  intros H. induction l as [|a l IH]; intros r n; cbn.
  - split; auto. intros [M|[a [[] _]]]; auto.
  - rewrite IH, H. split.
    + intros [[M|M]|[b [Hb M]]]; eauto.
    + intros [M|[b [[->|Hb] M]]]; eauto.
Qed.

Lemma nil_iff {A} (l : list A) : l = [] <-> forall x, ~ In x l.
Proof.
  split; [intros -> x []|]. destruct l as [|a l]; auto. intros H. exfalso. apply (H a). now left.
Qed.

Section Standalone.
  Variable K : Type.
  Variable promote : K -> K.
  Variable sub : K -> K -> bool.
  Notation istep := (imp_step K promote sub).
  Notation estep := (exp_step K promote sub).

  Lemma st_import_nit wi r i n :
    In n (r_not_in_target (st_import promote sub wi r i)) <->
    In n (r_not_in_target r) \/ istep (nm_get wi) i = Some (ImportNotInTarget n).
  Proof.
    unfold st_import, imp_step. destruct i as [[nm k] b]. cbn.
    destruct (nm_get wi nm) as [e|]; [destruct (sub _ _)|]; cbn.
    - intuition discriminate.
    - intuition discriminate.
    - rewrite set_add_in. split; intros [H|H]; auto; [subst; auto | injection H as ->; auto].
  Qed.
  Lemma st_import_missing wi r i n :
    In n (r_missing (st_import promote sub wi r i)) <-> In n (r_missing r) \/ False.
  Proof.
    unfold st_import. destruct i as [[nm k] b]. destruct (nm_get wi nm) as [e|]; [destruct (sub _ _)|]; cbn; tauto.
  Qed.
  Lemma st_import_mm wi r i n :
    In n (map fst (r_mismatched (st_import promote sub wi r i))) <->
    In n (map fst (r_mismatched r)) \/ istep (nm_get wi) i = Some (TargetMismatch EImport n).
  Proof.
    unfold st_import, imp_step. destruct i as [[nm k] b]. cbn.
    destruct (nm_get wi nm) as [e|]; [destruct (sub _ _)|]; cbn.
    - intuition discriminate.
    - rewrite map_put_keys. split; intros [H|H]; auto; [subst; auto | injection H as ->; auto].
    - intuition discriminate.
  Qed.

  Lemma st_export_nit ce r x n :
    In n (r_not_in_target (st_export promote sub ce r x)) <-> In n (r_not_in_target r) \/ False.
  Proof.
    unfold st_export. destruct x as [nm e]. destruct (nm_get ce nm) as [y|]; [destruct (sub _ _)|]; cbn; tauto.
  Qed.
  Lemma st_export_missing ce r x n :
    In n (r_missing (st_export promote sub ce r x)) <->
    In n (r_missing r) \/ estep (nm_get ce) x = Some (MissingTargetExport n).
  Proof.
    unfold st_export, exp_step. destruct x as [nm e]. cbn.
    destruct (nm_get ce nm) as [y|]; [destruct (sub _ _)|]; cbn.
    - intuition discriminate.
    - intuition discriminate.
    - rewrite set_add_in. split; intros [H|H]; auto; [subst; auto | injection H as ->; auto].
  Qed.
  Lemma st_export_mm ce r x n :
    In n (map fst (r_mismatched (st_export promote sub ce r x))) <->
    In n (map fst (r_mismatched r)) \/ estep (nm_get ce) x = Some (TargetMismatch EExport n).
  Proof.
    unfold st_export, exp_step. destruct x as [nm e]. cbn.
    destruct (nm_get ce nm) as [y|]; [destruct (sub _ _)|]; cbn.
    - intuition discriminate.
    - rewrite map_put_keys. split; intros [H|H]; auto; [subst; auto | injection H as ->; auto].
    - intuition discriminate.
  Qed.

  Theorem standalone_never_panics (w : tworld K) (c : comp K) : standalone_target promote sub w c <> SPanic.
  Proof.
    unfold standalone_target, all_imports.
    destruct (nm_fill_total (tw_implicit w ++ tw_imports w)) as [wi [-> _]].
    destruct (nm_fill_total (c_exports c)) as [ce [-> _]]. discriminate.
  Qed.

  Section Pair.
    Variable w : tworld K.
    Variable c : comp K.
    Hypothesis WF : wf_pair w c.

    Lemma standalone_report :
      exists r, standalone_target promote sub w c = SReport r /\
        (forall n, In n (r_not_in_target r) <-> in_not_in_target Semver w c n) /\
        (forall n, In n (r_missing r) <-> in_missing Semver w c n) /\
        (forall n, In n (map fst (r_mismatched r)) <-> in_mismatched promote sub Semver w c n).
    Proof.
      destruct WF as [CW CE].
      unfold standalone_target, all_imports.
      destruct (nm_fill_total (tw_implicit w ++ tw_imports w)) as [wi [Fw _]]. rewrite Fw.
      destruct (nm_fill_total (c_exports c)) as [ce [Fc _]]. rewrite Fc.
      pose proof (semver_implements _ _ CW Fw) as GI. pose proof (semver_implements _ _ CE Fc) as GE.
      fold (wtable w) in GI.
      eexists. split; [reflexivity|]. repeat split.
      - rewrite (fold_mem _ (fun r n => In n (r_not_in_target r)) (fun _ _ => False))
          by (intros; apply st_export_nit).
        rewrite (fold_mem _ (fun r n => In n (r_not_in_target r))
                   (fun i n => istep (nm_get wi) i = Some (ImportNotInTarget n)))
          by (intros; apply st_import_nit).
        cbn. intros [[[]|[i [Hi E]]]|[x [_ []]]].
        exists i. apply (imp_step_outside K promote sub Semver w _ GI) in E. tauto.
      - intros [i [Hi [N O]]].
        rewrite (fold_mem _ (fun r n => In n (r_not_in_target r)) (fun _ _ => False))
          by (intros; apply st_export_nit).
        rewrite (fold_mem _ (fun r n => In n (r_not_in_target r))
                   (fun i n => istep (nm_get wi) i = Some (ImportNotInTarget n)))
          by (intros; apply st_import_nit).
        left. right. exists i. split; auto. apply (imp_step_outside K promote sub Semver w _ GI). auto.
      - rewrite (fold_mem _ (fun r n => In n (r_missing r))
                   (fun x n => estep (nm_get ce) x = Some (MissingTargetExport n)))
          by (intros; apply st_export_missing).
        rewrite (fold_mem _ (fun r n => In n (r_missing r)) (fun _ _ => False))
          by (intros; apply st_import_missing).
        cbn. intros [[[]|[i [_ []]]]|[x [Hx E]]].
        exists x. apply (exp_step_missing K promote sub Semver c _ GE) in E. tauto.
      - intros [x [Hx [N O]]].
        rewrite (fold_mem _ (fun r n => In n (r_missing r))
                   (fun x n => estep (nm_get ce) x = Some (MissingTargetExport n)))
          by (intros; apply st_export_missing).
        right. exists x. split; auto. apply (exp_step_missing K promote sub Semver c _ GE). auto.
      - rewrite (fold_mem _ (fun r n => In n (map fst (r_mismatched r)))
                   (fun x n => estep (nm_get ce) x = Some (TargetMismatch EExport n)))
          by (intros; apply st_export_mm).
        rewrite (fold_mem _ (fun r n => In n (map fst (r_mismatched r)))
                   (fun i n => istep (nm_get wi) i = Some (TargetMismatch EImport n)))
          by (intros; apply st_import_mm).
        cbn. intros [[[]|[i [Hi E]]]|[x [Hx E]]].
        + left. exists i. apply (imp_step_mismatch K promote sub Semver w _ GI) in E. tauto.
        + right. exists x. apply (exp_step_mismatch K promote sub Semver c _ GE) in E. tauto.
      - rewrite (fold_mem _ (fun r n => In n (map fst (r_mismatched r)))
                   (fun x n => estep (nm_get ce) x = Some (TargetMismatch EExport n)))
          by (intros; apply st_export_mm).
        rewrite (fold_mem _ (fun r n => In n (map fst (r_mismatched r)))
                   (fun i n => istep (nm_get wi) i = Some (TargetMismatch EImport n)))
          by (intros; apply st_import_mm).
        intros [[i [Hi [N M]]]|[x [Hx [N M]]]].
        + left. right. exists i. split; auto. apply (imp_step_mismatch K promote sub Semver w _ GI). auto.
        + right. exists x. split; auto. apply (exp_step_mismatch K promote sub Semver c _ GE). auto.
    Qed.

    (** conformance = none of the three sets has a member (for any discipline with a lookup) *)
    Lemma conforms_no_failure d gi ge :
      implements d (wtable w) gi -> implements d (c_exports c) ge ->
      (Conforms promote sub d w c <->
       (forall n, ~ in_not_in_target d w c n) /\ (forall n, ~ in_missing d w c n) /\
       (forall n, ~ in_mismatched promote sub d w c n)).
    Proof.
      intros GI GE. unfold Conforms. rewrite !Forall_forall. split.
      - intros [HI HE]. repeat split.
        + intros n [i [Hi [_ O]]]. apply HI in Hi. apply (import_trichotomy K promote sub d w gi GI) in Hi. tauto.
        + intros n [x [Hx [_ O]]]. apply HE in Hx. apply (export_trichotomy K promote sub d c ge GE) in Hx. tauto.
        + intros n [[i [Hi [_ O]]]|[x [Hx [_ O]]]].
          * apply HI in Hi. apply (import_trichotomy K promote sub d w gi GI) in Hi. tauto.
          * apply HE in Hx. apply (export_trichotomy K promote sub d c ge GE) in Hx. tauto.
      - intros [H1 [H2 H3]]. split.
        + intros i Hi. apply (import_trichotomy K promote sub d w gi GI). split; intros O.
          * apply (H1 (iname i)). exists i. auto.
          * apply (H3 (iname i)). left. exists i. auto.
        + intros x Hx. apply (export_trichotomy K promote sub d c ge GE). split; intros O.
          * apply (H2 (fst x)). exists x. auto.
          * apply (H3 (fst x)). right. exists x. auto.
    Qed.

    Lemma standalone_ok_iff : standalone_ok promote sub w c = true <-> Conforms promote sub Semver w c.
    Proof.
      destruct standalone_report as [r [E [H1 [H2 H3]]]]. unfold standalone_ok. rewrite E.
      destruct WF as [CW CE].
      destruct (nm_fill_total (wtable w)) as [wi [Fw _]]. destruct (nm_fill_total (c_exports c)) as [ce [Fc _]].
      rewrite (conforms_no_failure Semver _ _ (semver_implements _ _ CW Fw) (semver_implements _ _ CE Fc)).
      unfold report_ok. rewrite !andb_true_iff.
      assert (forall {A} (l : list A), is_nil l = true <-> l = []) as N by (intros A [|? ?]; cbn; split; congruence).
      rewrite !N. rewrite (nil_iff (r_not_in_target r)), (nil_iff (r_missing r)).
      assert (r_mismatched r = [] <-> forall n, ~ In n (map fst (r_mismatched r))) as ->.
      { rewrite <- nil_iff. destruct (r_mismatched r); cbn; split; congruence. }
      split.
      - intros [[A B] C]. repeat split; intros n; [rewrite <- H1|rewrite <- H2|rewrite <- H3]; auto.
      - intros [A [B C]]. repeat split; intros n; [rewrite H1|rewrite H2|rewrite H3]; auto.
    Qed.
  End Pair.
End Standalone.

(** * The two verdicts against each other *)
Section Agree.
  Variable K : Type.
  Variable promote : K -> K.
  Variable sub : K -> K -> bool.
  Variable w : tworld K.
  Variable c : comp K.
  Hypothesis WF : wf_pair w c.
  Hypothesis EX : exact_names w c.

  Lemma consult_same {V} (es : list (str * V)) q :
    (forall m, In m (map fst es) -> same_track m q = true -> m = q) ->
    (forall x, consult Semver es q x <-> consult Exact es q x) /\ (absent Semver es q <-> absent Exact es q).
  Proof.
    intros H. split.
    - intros x. cbn. split; auto. intros [I|[N [n [v [I [S _]]]]]]; auto.
      exfalso. apply N. assert (n = q) as <- by (apply H; auto; apply in_keys; eauto). apply in_keys. eauto.
    - cbn. split.
      + intros A I. apply in_keys in I as [x I]. destruct (A _ _ I) as [N _]. now apply N.
      + intros A n x I. split.
        * intros ->. apply A. apply in_keys. eauto.
        * destruct (same_track n q) eqn:S; auto. exfalso. apply A.
          assert (n = q) as <- by (apply H; auto; apply in_keys; eauto). apply in_keys; eauto.
  Qed.

  Lemma imp_same i : In i (c_imports c) ->
    (import_ok promote sub Semver w i <-> import_ok promote sub Exact w i) /\
    (import_outside Semver w i <-> import_outside Exact w i) /\
    (import_mismatch promote sub Semver w i <-> import_mismatch promote sub Exact w i).
  Proof.
    intros Hi. destruct EX as [E1 _].
    destruct (consult_same (wtable w) (iname i)) as [C A]; [intros m Hm; now apply E1|].
    unfold import_ok, import_outside, import_mismatch. split; [|split]; [|exact A|];
      split; intros [e [H S]]; exists e; split; auto; now apply C.
  Qed.

  Lemma exp_same x : In x (tw_exports w) ->
    (export_ok promote sub Semver c x <-> export_ok promote sub Exact c x) /\
    (export_missing Semver c x <-> export_missing Exact c x) /\
    (export_mismatch promote sub Semver c x <-> export_mismatch promote sub Exact c x).
  Proof.
    intros Hx. destruct EX as [_ E2].
    destruct (consult_same (c_exports c) (fst x)) as [C A].
    { intros m Hm. apply E2; auto. apply in_map_iff. eauto. }
    unfold export_ok, export_missing, export_mismatch. split; [|split]; [|exact A|];
      split; intros [e [H S]]; exists e; split; auto; now apply C.
  Qed.

  Lemma conforms_same : Conforms promote sub Semver w c <-> Conforms promote sub Exact w c.
  Proof.
    unfold Conforms. rewrite (Forall_iff (import_ok promote sub Semver w) (import_ok promote sub Exact w)),
      (Forall_iff (export_ok promote sub Semver c) (export_ok promote sub Exact c)); [tauto| |].
    - intros x Hx. apply exp_same, Hx.
    - intros i Hi. apply imp_same, Hi.
  Qed.

  Lemma ff_in {A} (ok P : A -> Prop) l a : first_failing ok P l a -> In a l /\ P a.
  Proof. intros [pre [post [-> [_ H]]]]. split; auto. apply in_or_app. right. now left. Qed.

  Theorem agree_when_exact : agree (resolve_target promote sub w c) (standalone_target promote sub w c).
  Proof.
    destruct (standalone_report K promote sub w c WF) as [r [E [H1 [H2 H3]]]].
    pose proof (standalone_ok_iff K promote sub w c WF) as OK. unfold standalone_ok in OK.
    rewrite E in *. unfold agree. destruct (resolve_target promote sub w c) as [|e] eqn:R.
    - apply OK, conforms_same. now apply (resolve_ok_iff K promote sub w c WF).
    - destruct e as [n|[|] n|n].
      + apply (resolve_import_not_in_target K promote sub w c WF) in R as [i [N F]].
        apply ff_in in F as [Hi O]. destruct (imp_same i Hi) as [_ [S2 _]].
        apply H1. exists i. split; [exact Hi|]. split; [exact N|]. now apply S2.
      + apply (resolve_import_mismatch K promote sub w c WF) in R as [i [N F]].
        apply ff_in in F as [Hi O]. destruct (imp_same i Hi) as [_ [_ S3]].
        apply H3. left. exists i. split; [exact Hi|]. split; [exact N|]. now apply S3.
      + apply (resolve_export_mismatch K promote sub w c WF) in R as [_ [x [N F]]].
        apply ff_in in F as [Hx O]. destruct (exp_same x Hx) as [_ [_ S3]].
        apply H3. right. exists x. split; [exact Hx|]. split; [exact N|]. now apply S3.
      + apply (resolve_missing_export K promote sub w c WF) in R as [_ [x [N F]]].
        apply ff_in in F as [Hx O]. destruct (exp_same x Hx) as [_ [S2 _]].
        apply H2. exists x. split; [exact Hx|]. split; [exact N|]. now apply S2.
  Qed.
End Agree.

(** The witness of the disagreement: the composition imports [x:y/z@0.2.0], the world [x:y/z@0.2.1]. *)
Definition n_xyz_020 : str := [120;58;121;47;122;64;48;46;50;46;48].
Definition n_xyz_021 : str := [120;58;121;47;122;64;48;46;50;46;49].
Definition w_refute : tworld N := mktworld [] [(n_xyz_021, 0)] [].
Definition c_refute : comp N := mkcomp [(n_xyz_020, 0, false)] [].

Lemma consistent_single {V} n (x : V) : consistent [(n, x)].
Proof. intros m a b [H1|[]] [H2|[]]. congruence. Qed.
Lemma consistent_nil {V} : consistent (@nil (str * V)).
Proof. intros m a b []. Qed.

Lemma refute_wf : wf_pair w_refute c_refute.
Proof. split; cbn; [apply consistent_single | apply consistent_nil]. Qed.

Lemma refute_facts :
  resolve_target (fun k => k) N.eqb w_refute c_refute = RErr (ImportNotInTarget n_xyz_020) /\
  standalone_target (fun k => k) N.eqb w_refute c_refute = SReport (mkreport [] [] []).
Proof. vm_compute. split; reflexivity. Qed.

(** * Component-model subtyping (through the declarative [SubCM] of SubSpec.v) *)
From WacV Require Import Types SubSpec.

Lemma str_eqb_sym a b : str_eqb a b = str_eqb b a.
Proof.
  destruct (str_eqb a b) eqn:E.
  - apply str_eqb_eq in E. subst. now rewrite str_eqb_refl.
  - symmetry. apply str_eqb_neq. apply str_eqb_neq in E. congruence.
Qed.

Lemma assoc_im_get {B} (l : list (str * B)) k : assoc k l = im_get l k.
Proof. induction l as [|[k0 v0] l IH]; cbn; auto. rewrite str_eqb_sym. destruct (str_eqb k0 k); auto. Qed.

Lemma forall_in_iff {A} (P Q : A -> Prop) (l : list A) :
  (forall a, P a <-> Q a) -> ((forall a, In a l -> P a) <-> (forall a, In a l -> Q a)).
Proof. intros H. split; intros F a Ha; apply H; auto. Qed.

Section Core.
  Variable K : Type.
  Variable promote : K -> K.
  Variable sub : K -> K -> bool.

  (** the Ok verdict without any assumption on the tables: first entries are consulted *)
  Lemma resolve_ok_core (w : tworld K) (c : comp K) :
    resolve_target promote sub w c = ROk <->
    (forall i, In i (c_imports c) ->
       exists e, im_get (wtable w) (iname i) = Some e /\ sub (promote e) (ikind i) = true) /\
    (forall x, In x (tw_exports w) ->
       exists y, im_get (c_exports c) (fst x) = Some y /\ sub y (promote (snd x)) = true).
  Proof.
    assert (rt_imports promote sub w (c_imports c) = None <->
            forall i, In i (c_imports c) ->
              exists e, im_get (wtable w) (iname i) = Some e /\ sub (promote e) (ikind i) = true) as HI.
    { rewrite rt_imports_scan, scan_none, Forall_forall. apply forall_in_iff. intros i.
      unfold imp_step. rewrite rt_expected_wtable. destruct (im_get (wtable w) (iname i)) as [e|].
      - destruct (sub (promote e) (ikind i)) eqn:S; split; try discriminate; eauto.
        intros [e' [H S']]. injection H as <-. congruence.
      - split; [discriminate|]. intros [e [H _]]. discriminate. }
    assert (rt_exports promote sub c (tw_exports w) = None <->
            forall x, In x (tw_exports w) ->
              exists y, im_get (c_exports c) (fst x) = Some y /\ sub y (promote (snd x)) = true) as HE.
    { rewrite rt_exports_scan, scan_none, Forall_forall. apply forall_in_iff. intros x.
      unfold exp_step. destruct (im_get (c_exports c) (fst x)) as [y|].
      - destruct (sub y (promote (snd x))) eqn:S; split; try discriminate; eauto.
        intros [y' [H S']]. injection H as <-. congruence.
      - split; [discriminate|]. intros [y [H _]]. discriminate. }
    rewrite <- HI, <- HE. unfold resolve_target.
    destruct (rt_imports _ _ _ _); [split; [discriminate|intros [H _]; discriminate]|].
    destruct (rt_exports _ _ _ _); [split; [discriminate|intros [_ H]; discriminate]|]. tauto.
  Qed.
End Core.

Section CM.
  Variable sub : tree -> tree -> bool.
  Hypothesis sub_dec : forall a b, sub a b = true <-> SubCM a b.

  Definition promote_stable (w : tworld tree) : Prop :=
    forall n e, In (n, e) (wtable w ++ tw_exports w) -> tree_promote e = e.
  (** the component type of the output and of the world *)
  Definition comp_tree (c : comp tree) : tree := XComp (map fst (c_imports c)) (c_exports c).
  Definition world_tree (w : tworld tree) : tree := XComp (wtable w) (tw_exports w).

  Theorem target_iff_cm_subtype (w : tworld tree) (c : comp tree) :
    promote_stable w ->
    (resolve_target tree_promote sub w c = ROk <-> SubCM (comp_tree c) (world_tree w)).
  Proof.
    intros PS. rewrite resolve_ok_core. unfold comp_tree, world_tree, SubCM. split.
    - intros [HI HE]. constructor.
      + intros k a Hin. apply in_map_iff in Hin as [i [Ei Hi]].
        destruct (HI i Hi) as [e [G S]]. exists e. rewrite assoc_im_get.
        unfold iname, ikind in *. rewrite Ei in *. cbn in *. split; auto.
        apply sub_dec. rewrite <- (PS k e); auto. apply in_or_app. left. now apply im_get_in.
      + intros k b Hin. destruct (HE (k, b) Hin) as [y [G S]]. cbn in *. exists y. rewrite assoc_im_get.
        split; auto. apply sub_dec. rewrite <- (PS k b); auto. apply in_or_app. now right.
    - intros H. inversion H as [| |ia ea ib eb HI HE| | | | | | | |]; subst. split.
      + intros i Hi. destruct (HI (iname i) (ikind i)) as [e [G S]].
        { apply in_map_iff. exists i. split; auto. unfold iname, ikind. now destruct (fst i). }
        rewrite assoc_im_get in G. exists e. split; auto. apply sub_dec.
        rewrite (PS (iname i) e); auto. apply in_or_app. left. now apply im_get_in.
      + intros [k b] Hx. destruct (HE k b Hx) as [y [G S]]. rewrite assoc_im_get in G. exists y. cbn.
        split; auto. apply sub_dec. rewrite (PS k b); auto. apply in_or_app. now right.
  Qed.
End CM.

(** * The executable specification decides the declarative one *)
Section SpecBProofs.
  Variable K : Type.
  Variable promote : K -> K.
  Variable sub : K -> K -> bool.

  Lemma has_name_iff {V} (es : list (str * V)) q : has_name es q = true <-> In q (map fst es).
  Proof.
    unfold has_name. rewrite existsb_exists, in_map_iff. split.
    - intros [e [H E]]. apply str_eqb_eq in E. eauto.
    - intros [e [E H]]. exists e. split; auto. now apply str_eqb_eq.
  Qed.

  Lemma vle_b_iff a b : vle_b a b = true <-> cmp_version a b <> Gt.
  Proof. unfold vle_b. destruct (cmp_version a b); split; congruence. Qed.

  Lemma highest_b_iff {V} (es : list (str * V)) q e :
    highest_b es q e = true <->
    same_track (fst e) q = true /\ exists v, version_of (fst e) = Some v /\
      forall n' x' v', In (n', x') es -> same_track n' q = true -> version_of n' = Some v' -> cmp_version v' v <> Gt.
  Proof.
    unfold highest_b. rewrite andb_true_iff. apply and_iff_compat_l.
    destruct (version_of (fst e)) as [v|].
    - rewrite forallb_forall. split.
      + intros H. exists v. split; auto. intros n' x' v' I S Vn. specialize (H _ I). cbn in H.
        rewrite S, Vn in H. now apply vle_b_iff.
      + intros [v0 [E H]]. injection E as <-. intros [n' x'] I. cbn.
        destruct (same_track n' q) eqn:S; auto. destruct (version_of n') as [v'|] eqn:Vn; auto.
        apply vle_b_iff. eapply H; eauto.
    - split; [discriminate|]. intros [v [E _]]. discriminate.
  Qed.

  Lemma consulted_iff {V} d (es : list (str * V)) q x :
    (exists e, In e (consulted d es q) /\ snd e = x) <-> consult d es q x.
  Proof.
    assert ((exists e, In e (filter (fun e => str_eqb (fst e) q) es) /\ snd e = x) <-> In (q, x) es) as EX.
    { split.
      - intros [[n y] [H E]]. apply filter_In in H as [H Q]. cbn in *. apply str_eqb_eq in Q. now subst.
      - intros H. exists (q, x). split; auto. apply filter_In. split; auto. apply str_eqb_refl. }
    destruct d; cbn; auto.
    destruct (has_name es q) eqn:Hn.
    - apply has_name_iff in Hn. rewrite EX. split; auto. intros [H|[N _]]; auto. contradiction.
    - assert (~ In q (map fst es)) as N by (rewrite <- has_name_iff; congruence). split.
      + intros [[n y] [H E]]. apply filter_In in H as [H Q]. cbn in E. subst y. right. split; auto.
        apply highest_b_iff in Q as [S [v [Vn M]]]. exists n, v. cbn in *. auto.
      + intros [H|[_ [n [v [I [S [Vn M]]]]]]].
        * exfalso. apply N. apply in_keys. eauto.
        * exists (n, x). split; auto. apply filter_In. split; auto. apply highest_b_iff. cbn. eauto.
  Qed.

  Lemma classify_ok {V} d (es : list (str * V)) q test :
    classify d es q test = StOk <-> exists x, consult d es q x /\ test x = true.
  Proof.
    unfold classify.
    assert (existsb (fun e => test (snd e)) (consulted d es q) = true <-> exists x, consult d es q x /\ test x = true) as H.
    { rewrite existsb_exists. split.
      - intros [e [I T]]. exists (snd e). split; auto. apply consulted_iff. eauto.
      - intros [x [C T]]. apply consulted_iff in C as [e [I E]]. exists e. subst. auto. }
    rewrite <- H. destruct (consulted d es q) as [|e l]; cbn; [split; discriminate|].
    destruct (test (snd e) || existsb _ l); split; congruence.
  Qed.

  Theorem conforms_b_iff d (w : tworld K) (c : comp K) :
    conforms_b promote sub d w c = true <-> Conforms promote sub d w c.
  Proof.
    unfold conforms_b, Conforms. rewrite andb_true_iff, !forallb_forall, !Forall_forall.
    assert (forall s, is_ok s = true <-> s = StOk) as OK by (intros []; cbn; split; congruence).
    split; intros [HI HE]; split.
    - intros i Hi. apply HI, OK, classify_ok in Hi. exact Hi.
    - intros x Hx. apply HE, OK, classify_ok in Hx. exact Hx.
    - intros i Hi. apply OK, classify_ok. exact (HI i Hi).
    - intros x Hx. apply OK, classify_ok. exact (HE x Hx).
  Qed.
End SpecBProofs.

(** * First-failure verdicts over any pair of lookups (generalises Section Resolve), and the
      resolution-time check with semver-aware lookups (the code after the proposed repair) *)
Section FirstFailure.
  Variable K : Type.
  Variable promote : K -> K.
  Variable sub : K -> K -> bool.
  Variable d : discipline.
  Variable w : tworld K.
  Variable c : comp K.
  Variable gi ge : str -> option K.
  Hypothesis GI : implements d (wtable w) gi.
  Hypothesis GE : implements d (c_exports c) ge.
  Notation istep := (imp_step K promote sub).
  Notation estep := (exp_step K promote sub).

  Definition ff_verdict : rverdict :=
    match scan (istep gi) (c_imports c) with
    | Some e => RErr e
    | None => match scan (estep ge) (tw_exports w) with
              | Some e => RErr e
              | None => ROk
              end
    end.

  Lemma ff_imp_ok l : Forall (fun a => istep gi a = None) l <-> Forall (import_ok promote sub d w) l.
  Proof. apply Forall_iff. intros a _. now apply imp_step_none. Qed.
  Lemma ff_exp_ok l : Forall (fun a => estep ge a = None) l <-> Forall (export_ok promote sub d c) l.
  Proof. apply Forall_iff. intros a _. now apply exp_step_none. Qed.

  Lemma ff_ok_iff : ff_verdict = ROk <-> Conforms promote sub d w c.
  Proof.
    unfold ff_verdict, Conforms. rewrite <- ff_imp_ok, <- ff_exp_ok, <- !scan_none.
    destruct (scan (istep gi) _); [split; [discriminate|intros [H _]; discriminate]|].
    destruct (scan (estep ge) _); [split; [discriminate|intros [_ H]; discriminate]|]. tauto.
  Qed.

  Lemma ff_imports_first (P : str * K * bool -> Prop) e :
    (forall i, istep gi i = Some e <-> P i) ->
    (scan (istep gi) (c_imports c) = Some e <->
     exists i, first_failing (import_ok promote sub d w) P (c_imports c) i).
  Proof.
    intros HP. rewrite scan_some. unfold first_failing. split.
    - intros [pre [a [post [H [F Fa]]]]]. exists a, pre, post. rewrite <- ff_imp_ok, <- HP. auto.
    - intros [a [pre [post [H [F Fa]]]]]. exists pre, a, post. rewrite ff_imp_ok, HP. auto.
  Qed.

  Lemma ff_exports_first (P : str * K -> Prop) e :
    (forall x, estep ge x = Some e <-> P x) ->
    (scan (estep ge) (tw_exports w) = Some e <->
     exists x, first_failing (export_ok promote sub d c) P (tw_exports w) x).
  Proof.
    intros HP. rewrite scan_some. unfold first_failing. split.
    - intros [pre [a [post [H [F Fa]]]]]. exists a, pre, post. rewrite <- ff_exp_ok, <- HP. auto.
    - intros [a [pre [post [H [F Fa]]]]]. exists pre, a, post. rewrite ff_exp_ok, HP. auto.
  Qed.

  Lemma ff_imports_never e : scan (istep gi) (c_imports c) = Some e ->
    (forall n, e <> MissingTargetExport n) /\ (forall n, e <> TargetMismatch EExport n).
  Proof.
    rewrite scan_some. intros [pre [a [post [_ [_ Fa]]]]].
    destruct (imp_step_other K promote sub gi a) as [O1 O2]. split; intros n ->; [apply (O1 n)|apply (O2 n)]; auto.
  Qed.
  Lemma ff_exports_never e : scan (estep ge) (tw_exports w) = Some e ->
    (forall n, e <> ImportNotInTarget n) /\ (forall n, e <> TargetMismatch EImport n).
  Proof.
    rewrite scan_some. intros [pre [a [post [_ [_ Fa]]]]].
    destruct (exp_step_other K promote sub ge a) as [O1 O2]. split; intros n ->; [apply (O1 n)|apply (O2 n)]; auto.
  Qed.

  Lemma ff_import_not_in_target n :
    ff_verdict = RErr (ImportNotInTarget n) <-> diag_import_not_in_target promote sub d w c n.
  Proof.
    unfold diag_import_not_in_target. rewrite <- ff_name.
    rewrite <- (ff_imports_first _ (ImportNotInTarget n)) by (intros i; now apply imp_step_outside).
    unfold ff_verdict. destruct (scan (istep gi) _) as [e|] eqn:E1.
    - split; congruence.
    - destruct (scan (estep ge) _) as [e|] eqn:E2; [|split; discriminate].
      apply ff_exports_never in E2 as [O _]. split; [|discriminate]. intros H. injection H as ->. now destruct (O n).
  Qed.

  Lemma ff_import_mismatch n :
    ff_verdict = RErr (TargetMismatch EImport n) <-> diag_import_mismatch promote sub d w c n.
  Proof.
    unfold diag_import_mismatch. rewrite <- ff_name.
    rewrite <- (ff_imports_first _ (TargetMismatch EImport n)) by (intros i; now apply imp_step_mismatch).
    unfold ff_verdict. destruct (scan (istep gi) _) as [e|] eqn:E1.
    - split; congruence.
    - destruct (scan (estep ge) _) as [e|] eqn:E2; [|split; discriminate].
      apply ff_exports_never in E2 as [_ O]. split; [|discriminate]. intros H. injection H as ->. now destruct (O n).
  Qed.

  Lemma ff_missing_export n :
    ff_verdict = RErr (MissingTargetExport n) <-> diag_missing_export promote sub d w c n.
  Proof.
    unfold diag_missing_export. rewrite <- ff_name, <- ff_imp_ok, <- scan_none.
    rewrite <- (ff_exports_first _ (MissingTargetExport n)) by (intros i; now apply exp_step_missing).
    unfold ff_verdict. destruct (scan (istep gi) _) as [e|] eqn:E1.
    - apply ff_imports_never in E1 as [O _]. split.
      + intros H. injection H as ->. now destruct (O n).
      + intros [H _]. discriminate.
    - destruct (scan (estep ge) _) as [e|] eqn:E2.
      + split; [intros H; injection H as ->; auto | intros [_ H]; congruence].
      + split; [discriminate | intros [_ H]; discriminate].
  Qed.

  Lemma ff_export_mismatch n :
    ff_verdict = RErr (TargetMismatch EExport n) <-> diag_export_mismatch promote sub d w c n.
  Proof.
    unfold diag_export_mismatch. rewrite <- ff_name, <- ff_imp_ok, <- scan_none.
    rewrite <- (ff_exports_first _ (TargetMismatch EExport n)) by (intros i; now apply exp_step_mismatch).
    unfold ff_verdict. destruct (scan (istep gi) _) as [e|] eqn:E1.
    - apply ff_imports_never in E1 as [_ O]. split.
      + intros H. injection H as ->. now destruct (O n).
      + intros [H _]. discriminate.
    - destruct (scan (estep ge) _) as [e|] eqn:E2.
      + split; [intros H; injection H as ->; auto | intros [_ H]; congruence].
      + split; [discriminate | intros [_ H]; discriminate].
  Qed.
End FirstFailure.

Section ResolveSemver.
  Variable K : Type.
  Variable promote : K -> K.
  Variable sub : K -> K -> bool.

  Lemma rs_imports_scan wi l : rs_imports promote sub wi l = scan (imp_step K promote sub (nm_get wi)) l.
  Proof.
    induction l as [|[[n k] b] l IH]; cbn; auto. unfold imp_step at 1. cbn.
    destruct (nm_get wi n); auto. destruct (sub _ _); auto.
  Qed.
  Lemma rs_exports_scan ce l : rs_exports promote sub ce l = scan (exp_step K promote sub (nm_get ce)) l.
  Proof.
    induction l as [|[n e] l IH]; cbn; auto. unfold exp_step at 1. cbn.
    destruct (nm_get ce n); auto. destruct (sub _ _); auto.
  Qed.

  (** the semver-aware resolution check is a first-failure verdict over the two semver lookups *)
  Lemma resolve_sv_ff (w : tworld K) (c : comp K) :
    exists wi ce, nm_fill nm_empty (wtable w) = Some wi /\ nm_fill nm_empty (c_exports c) = Some ce /\
      resolve_target_sv promote sub w c = Some (ff_verdict K promote sub w c (nm_get wi) (nm_get ce)).
  Proof.
    destruct (nm_fill_total (wtable w)) as [wi [Fw _]]. destruct (nm_fill_total (c_exports c)) as [ce [Fc _]].
    exists wi, ce. repeat split; auto.
    unfold resolve_target_sv, all_imports, ff_verdict. fold (wtable w). rewrite Fw, Fc.
    rewrite rs_imports_scan, rs_exports_scan.
    destruct (scan _ (c_imports c)); auto. destruct (scan _ (tw_exports w)); auto.
  Qed.

  Section Pair.
    Variable w : tworld K.
    Variable c : comp K.
    Hypothesis WF : wf_pair w c.

    Theorem resolve_sv_spec :
      exists v, resolve_target_sv promote sub w c = Some v /\
        (v = ROk <-> Conforms promote sub Semver w c) /\
        (forall n, v = RErr (ImportNotInTarget n) <-> diag_import_not_in_target promote sub Semver w c n) /\
        (forall n, v = RErr (TargetMismatch EImport n) <-> diag_import_mismatch promote sub Semver w c n) /\
        (forall n, v = RErr (MissingTargetExport n) <-> diag_missing_export promote sub Semver w c n) /\
        (forall n, v = RErr (TargetMismatch EExport n) <-> diag_export_mismatch promote sub Semver w c n).
    Proof.
      destruct WF as [CW CE]. destruct (resolve_sv_ff w c) as [wi [ce [Fw [Fc E]]]].
      pose proof (semver_implements _ _ CW Fw) as GI. pose proof (semver_implements _ _ CE Fc) as GE.
      eexists. split; [exact E|]. split; [|split; [|split; [|split]]].
      - now apply ff_ok_iff.
      - intros n. now apply ff_import_not_in_target.
      - intros n. now apply ff_import_mismatch.
      - intros n. now apply ff_missing_export.
      - intros n. now apply ff_export_mismatch.
    Qed.

    (** with semver-aware lookups on both sides the two verdicts are the same, for every pair *)
    Theorem agree_sv :
      exists v, resolve_target_sv promote sub w c = Some v /\ agree v (standalone_target promote sub w c).
    Proof.
      destruct resolve_sv_spec as [v [E [HO [H1 [H2 [H3 H4]]]]]]. exists v. split; auto.
      destruct (standalone_report K promote sub w c WF) as [r [Er [R1 [R2 R3]]]].
      pose proof (standalone_ok_iff K promote sub w c WF) as OK. unfold standalone_ok in OK.
      rewrite Er in *. unfold agree. destruct v as [|e].
      - apply OK, HO. reflexivity.
      - destruct e as [n|[|] n|n].
        + destruct (proj1 (H1 n) eq_refl) as [i [N F]]. apply ff_in in F as [Hi O]. apply R1. exists i. auto.
        + destruct (proj1 (H2 n) eq_refl) as [i [N F]]. apply ff_in in F as [Hi O]. apply R3. left. exists i. auto.
        + destruct (proj1 (H4 n) eq_refl) as [_ [x [N F]]]. apply ff_in in F as [Hx O]. apply R3. right. exists x. auto.
        + destruct (proj1 (H3 n) eq_refl) as [_ [x [N F]]]. apply ff_in in F as [Hx O]. apply R2. exists x. auto.
    Qed.
  End Pair.
End ResolveSemver.

(** * The executable specification ([spec_first], the three set printers) against the declarative one.
      The lookup the executable specification performs, [get_b], implements its discipline on a consistent
      table; hence it agrees pointwise with the lookups of the models, [spec_first] is the first-failure
      verdict, and the printers enumerate the failure classes. *)
Section SpecExec.
  Variable K : Type.
  Variable promote : K -> K.
  Variable sub : K -> K -> bool.

  Definition get_b {V} (d : discipline) (es : list (str * V)) (q : str) : option V :=
    match consulted d es q with [] => None | e :: _ => Some (snd e) end.

  Lemma implements_exists {V} d (es : list (str * V)) : consistent es -> exists get, implements d es get.
  Proof.
    intros C. destruct d.
    - exists (im_get es). now apply exact_implements.
    - destruct (nm_fill_total es) as [m [F _]]. exists (nm_get m). now apply semver_implements.
  Qed.

  Lemma implements_ext {V} d (es : list (str * V)) g g' : implements d es g -> implements d es g' -> forall q, g q = g' q.
  Proof.
    intros G G' q. destruct (g q) as [x|] eqn:E.
    - apply (proj1 (G q)) in E. apply (proj1 (G' q)) in E. now rewrite E.
    - apply (proj2 (G q)) in E. apply (proj2 (G' q)) in E. now rewrite E.
  Qed.

  Lemma get_b_implements {V} d (es : list (str * V)) : consistent es -> implements d es (get_b d es).
  Proof.
    intros C. destruct (implements_exists d es C) as [g G]. intros q.
    assert (forall x, get_b d es q = Some x -> consult d es q x) as S1.
    { unfold get_b. intros x. destruct (consulted d es q) as [|e l] eqn:E; [discriminate|].
      intros H. injection H as <-. apply consulted_iff. exists e. rewrite E. split; auto. now left. }
    assert (forall x, consult d es q x -> get_b d es q = Some x) as S2.
    { intros x Cx. apply consulted_iff in Cx as [e [I Ex]]. unfold get_b.
      destruct (consulted d es q) as [|e0 l] eqn:E; [destruct I|]. f_equal.
      eapply (consult_fun V d es g G q).
      - apply consulted_iff. exists e0. rewrite E. split; auto. now left.
      - apply consulted_iff. exists e. rewrite E. auto. }
    split.
    - intros x. split; auto.
    - split.
      + intros N. destruct (consult_or_absent V d es g G q) as [[x Cx]|A]; auto.
        rewrite (S2 x Cx) in N. discriminate.
      + intros A. destruct (get_b d es q) as [x|] eqn:E; auto. exfalso.
        eapply (consult_not_absent V d es g G q); eauto.
  Qed.

  (** all consulted entries of a consistent table carry one value: [classify] is a lookup followed by the test *)
  Lemma classify_get_b {V} d (es : list (str * V)) q test : consistent es ->
    classify d es q test = match get_b d es q with
                           | None => StOutside
                           | Some x => if test x then StOk else StMismatch
                           end.
  Proof.
    intros C. destruct (implements_exists d es C) as [g G]. unfold classify, get_b.
    destruct (consulted d es q) as [|e l] eqn:E; auto.
    assert (forall e', In e' (e :: l) -> snd e' = snd e) as Same.
    { intros e' I. apply (consult_fun V d es g G q).
      - apply consulted_iff. exists e'. rewrite E. auto.
      - apply consulted_iff. exists e. rewrite E. split; auto. now left. }
    assert (existsb (fun e0 => test (snd e0)) (e :: l) = test (snd e)) as ->; auto.
    destruct (test (snd e)) eqn:T.
    - cbn. now rewrite T.
    - destruct (existsb _ (e :: l)) eqn:X; auto. apply existsb_exists in X as [e' [I T']].
      rewrite (Same e' I) in T'. congruence.
  Qed.

  Section Pair.
    Variable d : discipline.
    Variable w : tworld K.
    Variable c : comp K.
    Hypothesis WF : wf_pair w c.
    Let gi := get_b d (wtable w).
    Let ge := get_b d (c_exports c).
    Let GI : implements d (wtable w) gi. Proof. apply get_b_implements, WF. Qed.
    Let GE : implements d (c_exports c) ge. Proof. apply get_b_implements, WF. Qed.

    Lemma import_status_step i :
      import_status promote sub d w i =
      match imp_step K promote sub gi i with
      | None => StOk
      | Some (ImportNotInTarget _) => StOutside
      | Some _ => StMismatch
      end.
    Proof.
      unfold import_status. rewrite classify_get_b by apply WF. unfold imp_step. fold gi.
      destruct (gi (iname i)); auto. destruct (sub _ _); auto.
    Qed.
    Lemma export_status_step x :
      export_status promote sub d c x =
      match exp_step K promote sub ge x with
      | None => StOk
      | Some (MissingTargetExport _) => StOutside
      | Some _ => StMismatch
      end.
    Proof.
      unfold export_status. rewrite classify_get_b by apply WF. unfold exp_step. fold ge.
      destruct (ge (fst x)); auto. destruct (sub _ _); auto.
    Qed.

    Lemma first_bad_imports l :
      match first_bad (import_status promote sub d w) l with
      | Some (i, StOutside) => Some (ImportNotInTarget (iname i))
      | Some (i, _) => Some (TargetMismatch EImport (iname i))
      | None => None
      end = scan (imp_step K promote sub gi) l.
    Proof.
      induction l as [|i l IH]; cbn [first_bad scan]; auto. rewrite import_status_step.
      destruct (imp_step K promote sub gi i) as [e|] eqn:E; [|exact IH].
      unfold imp_step in E. destruct (gi (iname i)); [destruct (sub _ _)|]; try discriminate;
        injection E as <-; reflexivity.
    Qed.
    Lemma first_bad_exports l :
      match first_bad (export_status promote sub d c) l with
      | Some (x, StOutside) => Some (MissingTargetExport (fst x))
      | Some (x, _) => Some (TargetMismatch EExport (fst x))
      | None => None
      end = scan (exp_step K promote sub ge) l.
    Proof.
      induction l as [|x l IH]; cbn [first_bad scan]; auto. rewrite export_status_step.
      destruct (exp_step K promote sub ge x) as [e|] eqn:E; [|exact IH].
      unfold exp_step in E. destruct (ge (fst x)); [destruct (sub _ _)|]; try discriminate;
        injection E as <-; reflexivity.
    Qed.

    (** [spec_first] is the first-failure verdict over the specification's own lookups *)
    Lemma spec_first_ff : spec_first promote sub d w c = ff_verdict K promote sub w c gi ge.
    Proof.
      unfold spec_first, ff_verdict. rewrite <- first_bad_imports, <- first_bad_exports.
      destruct (first_bad (import_status promote sub d w) (c_imports c)) as [[i []]|]; auto.
      destruct (first_bad (export_status promote sub d c) (tw_exports w)) as [[x []]|]; auto.
    Qed.

    Theorem spec_first_spec :
      (spec_first promote sub d w c = ROk <-> Conforms promote sub d w c) /\
      (forall n, spec_first promote sub d w c = RErr (ImportNotInTarget n) <-> diag_import_not_in_target promote sub d w c n) /\
      (forall n, spec_first promote sub d w c = RErr (TargetMismatch EImport n) <-> diag_import_mismatch promote sub d w c n) /\
      (forall n, spec_first promote sub d w c = RErr (MissingTargetExport n) <-> diag_missing_export promote sub d w c n) /\
      (forall n, spec_first promote sub d w c = RErr (TargetMismatch EExport n) <-> diag_export_mismatch promote sub d w c n).
    Proof.
      rewrite spec_first_ff. split; [|split; [|split; [|split]]].
      - now apply ff_ok_iff.
      - intros n. now apply ff_import_not_in_target.
      - intros n. now apply ff_import_mismatch.
      - intros n. now apply ff_missing_export.
      - intros n. now apply ff_export_mismatch.
    Qed.

    (** the set printers enumerate the three failure classes *)
    Theorem spec_sets_spec :
      (forall n, In n (spec_not_in_target promote sub d w c) <-> in_not_in_target d w c n) /\
      (forall n, In n (spec_missing promote sub d w c) <-> in_missing d w c n) /\
      (forall n, In n (spec_mismatched promote sub d w c) <-> in_mismatched promote sub d w c n).
    Proof.
      assert (forall i, import_status promote sub d w i = StOutside <-> import_outside d w i) as IO.
      { intros i. rewrite import_status_step. split.
        - intros H. destruct (imp_step K promote sub gi i) as [[m|ex m|m]|] eqn:E; try discriminate.
          now apply (imp_step_outside K promote sub d w gi GI) in E.
        - intros O. assert (imp_step K promote sub gi i = Some (ImportNotInTarget (iname i))) as ->; auto.
          apply (imp_step_outside K promote sub d w gi GI). auto. }
      assert (forall i, import_status promote sub d w i = StMismatch <-> import_mismatch promote sub d w i) as IM.
      { intros i. rewrite import_status_step. split.
        - intros H. destruct (imp_step K promote sub gi i) as [[m|[|] m|m]|] eqn:E; try discriminate.
          + now apply (imp_step_mismatch K promote sub d w gi GI) in E.
          + exfalso. destruct (imp_step_other K promote sub gi i) as [_ O]. exact (O m E).
          + exfalso. destruct (imp_step_other K promote sub gi i) as [O _]. exact (O m E).
        - intros M. assert (imp_step K promote sub gi i = Some (TargetMismatch EImport (iname i))) as ->; auto.
          apply (imp_step_mismatch K promote sub d w gi GI). auto. }
      assert (forall x, export_status promote sub d c x = StOutside <-> export_missing d c x) as EO.
      { intros x. rewrite export_status_step. split.
        - intros H. destruct (exp_step K promote sub ge x) as [[m|ex m|m]|] eqn:E; try discriminate.
          now apply (exp_step_missing K promote sub d c ge GE) in E.
        - intros O. assert (exp_step K promote sub ge x = Some (MissingTargetExport (fst x))) as ->; auto.
          apply (exp_step_missing K promote sub d c ge GE). auto. }
      assert (forall x, export_status promote sub d c x = StMismatch <-> export_mismatch promote sub d c x) as EM.
      { intros x. rewrite export_status_step. split.
        - intros H. destruct (exp_step K promote sub ge x) as [[m|[|] m|m]|] eqn:E; try discriminate.
          + exfalso. destruct (exp_step_other K promote sub ge x) as [O _]. exact (O m E).
          + exfalso. destruct (exp_step_other K promote sub ge x) as [_ O]. exact (O m E).
          + now apply (exp_step_mismatch K promote sub d c ge GE) in E.
        - intros M. assert (exp_step K promote sub ge x = Some (TargetMismatch EExport (fst x))) as ->; auto.
          apply (exp_step_mismatch K promote sub d c ge GE). auto. }
      assert (forall (s : status), (match s with StOutside => true | _ => false end) = true <-> s = StOutside) as BO
          by (intros []; split; congruence).
      assert (forall (s : status), (match s with StMismatch => true | _ => false end) = true <-> s = StMismatch) as BM
          by (intros []; split; congruence).
      split; [|split]; intros n.
      - unfold spec_not_in_target, in_not_in_target. rewrite in_map_iff. split.
        + intros [i [N H]]. apply filter_In in H as [H S]. apply BO, IO in S. eauto.
        + intros [i [H [N O]]]. exists i. split; auto. apply filter_In. split; auto. now apply BO, IO.
      - unfold spec_missing, in_missing. rewrite in_map_iff. split.
        + intros [x [N H]]. apply filter_In in H as [H S]. apply BO, EO in S. eauto.
        + intros [x [H [N O]]]. exists x. split; auto. apply filter_In. split; auto. now apply BO, EO.
      - unfold spec_mismatched, in_mismatched. rewrite in_app_iff, !in_map_iff. split.
        + intros [[i [N H]]|[x [N H]]]; apply filter_In in H as [H S].
          * left. apply BM, IM in S. eauto.
          * right. apply BM, EM in S. eauto.
        + intros [[i [H [N O]]]|[x [H [N O]]]].
          * left. exists i. split; auto. apply filter_In. split; auto. now apply BM, IM.
          * right. exists x. split; auto. apply filter_In. split; auto. now apply BM, EM.
    Qed.
  End Pair.

  (** hence the executable specification and the models compute the same verdicts *)
  Theorem spec_first_exact_is_model (w : tworld K) (c : comp K) : wf_pair w c ->
    spec_first promote sub Exact w c = resolve_target promote sub w c.
  Proof.
    intros WF. rewrite (spec_first_ff Exact w c WF).
    unfold resolve_target, ff_verdict. rewrite rt_imports_scan, rt_exports_scan.
    assert (forall q, get_b Exact (wtable w) q = rt_expected w q) as E1.
    { intros q. rewrite rt_expected_wtable. apply (implements_ext Exact (wtable w)).
      - apply get_b_implements, WF.
      - apply exact_implements, WF. }
    assert (forall q, get_b Exact (c_exports c) q = im_get (c_exports c) q) as E2.
    { intros q. apply (implements_ext Exact (c_exports c)).
      - apply get_b_implements, WF.
      - apply exact_implements, WF. }
    assert (forall l, scan (imp_step K promote sub (get_b Exact (wtable w))) l = scan (imp_step K promote sub (rt_expected w)) l) as ->.
    { induction l as [|i l IH]; cbn; auto. unfold imp_step at 1 3. rewrite E1, IH. reflexivity. }
    assert (forall l, scan (exp_step K promote sub (get_b Exact (c_exports c))) l = scan (exp_step K promote sub (im_get (c_exports c))) l) as ->.
    { induction l as [|x l IH]; cbn; auto. unfold exp_step at 1 3. rewrite E2, IH. reflexivity. }
    reflexivity.
  Qed.

  Theorem spec_first_semver_is_model (w : tworld K) (c : comp K) : wf_pair w c ->
    resolve_target_sv promote sub w c = Some (spec_first promote sub Semver w c).
  Proof.
    intros WF. destruct (resolve_sv_ff K promote sub w c) as [wi [ce [Fw [Fc E]]]]. rewrite E. f_equal.
    rewrite (spec_first_ff Semver w c WF). unfold ff_verdict.
    assert (forall q, get_b Semver (wtable w) q = nm_get wi q) as E1.
    { intros q. apply (implements_ext Semver (wtable w)).
      - apply get_b_implements, WF.
      - apply semver_implements; [apply WF | exact Fw]. }
    assert (forall q, get_b Semver (c_exports c) q = nm_get ce q) as E2.
    { intros q. apply (implements_ext Semver (c_exports c)).
      - apply get_b_implements, WF.
      - apply semver_implements; [apply WF | exact Fc]. }
    assert (forall l, scan (imp_step K promote sub (get_b Semver (wtable w))) l = scan (imp_step K promote sub (nm_get wi)) l) as ->.
    { induction l as [|i l IH]; cbn; auto. unfold imp_step at 1 3. rewrite E1, IH. reflexivity. }
    assert (forall l, scan (exp_step K promote sub (get_b Semver (c_exports c))) l = scan (exp_step K promote sub (nm_get ce)) l) as ->.
    { induction l as [|x l IH]; cbn; auto. unfold exp_step at 1 3. rewrite E2, IH. reflexivity. }
    reflexivity.
  Qed.
End SpecExec.
