(** C16: proofs about the order-parametrised models of [model/Determinism.v] and the site obligations. *)
From Coq Require Import List Arith Bool NArith String Permutation Sorting.Sorted Lia.
From WacV Require Import Graph HashSiteTypes HashSites Determinism.
Import ListNotations.

(** * 0. the tie to the sources *)

Theorem sites_all_modelled : incl found_sites modelled_sites.
Proof. apply site_inclb_sound. vm_compute. reflexivity. Qed.

Lemma forallb_In {A} (f : A -> bool) (l : list A) : forallb f l = true -> forall x, In x l -> f x = true.
Proof. intros H x Hx. rewrite forallb_forall in H. auto. Qed.

Theorem frontend_has_no_hash_iteration :
  (forall f, In f frontend_files -> In f scanned_files /\ is_frontend_file f = true) /\
  (forall s, In s found_sites -> is_frontend_file (s_file s) = false) /\
  (forall b, In b hash_bindings -> is_frontend_file (b_file b) = false).
Proof.
  split; [|split].
  - intros f Hf.
    assert (H : forallb (fun f => string_mem f scanned_files && is_frontend_file f) frontend_files = true)
      by (vm_compute; reflexivity).
    pose proof (forallb_In _ _ H f Hf) as E. apply andb_prop in E. destruct E as [E1 E2]. split; [|exact E2].
    unfold string_mem in E1. apply existsb_exists in E1. destruct E1 as [y [Hy Ey]]. apply String.eqb_eq in Ey. subst. exact Hy.
  - intros s Hs.
    assert (H : forallb (fun s => negb (is_frontend_file (s_file s))) found_sites = true) by (vm_compute; reflexivity).
    pose proof (forallb_In _ _ H s Hs) as E. apply negb_true_iff in E. exact E.
  - intros b Hb.
    assert (H : forallb (fun b => negb (is_frontend_file (b_file b))) hash_bindings = true) by (vm_compute; reflexivity).
    pose proof (forallb_In _ _ H b Hb) as E. apply negb_true_iff in E. exact E.
Qed.

(** every site the translator found was typed as a hash container by declarations (nothing ambiguous, nothing
    in a position the translator has no rule for) *)
Theorem sites_all_resolved : forall s, In s found_sites -> s_res s = RHash.
Proof.
  intros s Hs.
  assert (H : forallb (fun s => resolution_eqb (s_res s) RHash) found_sites = true) by (vm_compute; reflexivity).
  apply resolution_eqb_eq. exact (forallb_In _ _ H s Hs).
Qed.

(** * 1. association lists under permutation *)

Section Alist.
  Context {K V : Type} (eqb : K -> K -> bool).
  Hypothesis eqb_spec : forall a b, eqb a b = true <-> a = b.

  Lemma alist_get_Some_In : forall (l : list (K * V)) k v, alist_get eqb l k = Some v -> In (k, v) l.
  Proof.
    induction l as [|[k' v'] r IH]; simpl; intros k v H; [discriminate|].
    destruct (eqb k' k) eqn:E.
    - apply eqb_spec in E. inversion H. subst. left. reflexivity.
    - right. apply IH. exact H.
  Qed.

  Lemma alist_get_In_Some : forall (l : list (K * V)) k v, NoDup (map fst l) -> In (k, v) l -> alist_get eqb l k = Some v.
  Proof.
    induction l as [|[k' v'] r IH]; simpl; intros k v Hnd Hin; [contradiction|].
    inversion Hnd as [|? ? Hni Hnd']; subst.
    destruct Hin as [E|Hin].
    - inversion E; subst. assert (eqb k k = true) as -> by (apply eqb_spec; reflexivity). reflexivity.
    - destruct (eqb k' k) eqn:E.
      + apply eqb_spec in E. subst. exfalso. apply Hni. apply in_map_iff. exists (k, v). split; [reflexivity|exact Hin].
      + apply IH; assumption.
  Qed.

  Lemma alist_get_None_notin : forall (l : list (K * V)) k, alist_get eqb l k = None -> ~ In k (map fst l).
  Proof.
    induction l as [|[k' v'] r IH]; simpl; intros k H; [tauto|].
    destruct (eqb k' k) eqn:E; [discriminate|].
    intros [E'|Hin]; [subst; assert (eqb k k = true) by (apply eqb_spec; reflexivity); congruence|].
    exact (IH k H Hin).
  Qed.

  Lemma alist_get_perm : forall (l1 l2 : list (K * V)) k,
      NoDup (map fst l1) -> Permutation l1 l2 -> alist_get eqb l1 k = alist_get eqb l2 k.
  Proof.
    intros l1 l2 k Hnd Hp.
    assert (Hnd2 : NoDup (map fst l2)) by (eapply Permutation_NoDup; [apply Permutation_map; exact Hp|exact Hnd]).
    destruct (alist_get eqb l1 k) as [v|] eqn:E1.
    - symmetry. apply alist_get_In_Some; [exact Hnd2|]. eapply Permutation_in; [exact Hp|]. apply alist_get_Some_In. exact E1.
    - destruct (alist_get eqb l2 k) as [v|] eqn:E2; [|reflexivity].
      exfalso. apply alist_get_Some_In in E2. apply (alist_get_None_notin _ _ E1).
      apply in_map_iff. exists (k, v). split; [reflexivity|]. eapply Permutation_in; [apply Permutation_sym; exact Hp|exact E2].
  Qed.
End Alist.

Lemma nat_eqb_spec : forall a b, Nat.eqb a b = true <-> a = b. Proof. intros. apply Nat.eqb_eq. Qed.
Lemma N_eqb_spec : forall a b, N.eqb a b = true <-> a = b. Proof. intros. apply N.eqb_eq. Qed.

(** * (a) retain *)

Lemma canon_retain {A} (eqb : A -> A -> bool) (eqb_spec : forall a b, eqb a b = true <-> a = b)
      (keep : A -> bool) (m visit : list A) :
  Permutation visit m -> canon eqb m (retain_visit keep visit) = filter keep m.
Proof.
  intros Hp. unfold canon, retain_visit. apply filter_ext_in. intros x Hx.
  destruct (keep x) eqn:Ek.
  - apply existsb_exists. exists x. split; [|apply eqb_spec; reflexivity].
    apply filter_In. split; [|exact Ek]. eapply Permutation_in; [apply Permutation_sym; exact Hp|exact Hx].
  - destruct (existsb (eqb x) (filter keep visit)) eqn:E; [|reflexivity].
    apply existsb_exists in E. destruct E as [y [Hy Ey]]. apply eqb_spec in Ey. subst y.
    apply filter_In in Hy. destruct Hy as [_ Hy]. congruence.
Qed.

(** the set of entries that survive a [retain] does not depend on the visiting order *)
Theorem retain_order_indep {A} (keep : A -> bool) (l1 l2 : list A) :
  Permutation l1 l2 -> Permutation (retain_visit keep l1) (retain_visit keep l2).
Proof.
  unfold retain_visit. induction 1; simpl.
  - constructor.
  - destruct (keep x); [constructor|]; assumption.
  - destruct (keep x), (keep y); try (apply perm_swap); try (apply perm_skip); apply Permutation_refl.
  - eapply Permutation_trans; eassumption.
Qed.

Lemma nn_eqb_spec : forall a b, nn_eqb a b = true <-> a = b.
Proof.
  intros [a1 a2] [b1 b2]. unfold nn_eqb. simpl. rewrite andb_true_iff, !Nat.eqb_eq. split; [intros [-> ->]; reflexivity|].
  intros E. inversion E. auto.
Qed.
Lemma np_eqb_spec : forall a b, np_eqb a b = true <-> a = b.
Proof.
  intros [a1 a2] [b1 b2]. unfold np_eqb. simpl. rewrite andb_true_iff, N.eqb_eq, Nat.eqb_eq. split; [intros [-> ->]; reflexivity|].
  intros E. inversion E. auto.
Qed.

Theorem unregister_with_canonical : forall o k s id, valid_oracle o -> unregister_with o k s id = unregister s id.
Proof.
  intros o k s id [Hd Hi]. unfold unregister_with, unregister.
  rewrite (canon_retain np_eqb np_eqb_spec _ (imports s) (o_imports o k (imports s)) (Hi k (imports s))).
  rewrite (canon_retain nn_eqb nn_eqb_spec _ (defined s) (o_defined o k (defined s)) (Hd k (defined s))).
  reflexivity.
Qed.

Theorem unregister_retains_order_indep : forall o1 o2 k1 k2 s id,
    valid_oracle o1 -> valid_oracle o2 -> unregister_with o1 k1 s id = unregister_with o2 k2 s id.
Proof. intros. rewrite !unregister_with_canonical by assumption. reflexivity. Qed.

(** * (b) define_type: sorting by a unique key erases the iteration order *)

Definition le_node (a b : nat * nat) : Prop := snd a <= snd b.

Lemma insert_sorted_perm : forall p l, Permutation (insert_sorted_by_node p l) (p :: l).
Proof.
  intros p l. unfold insert_sorted_by_node. induction l as [|q r IH]; simpl.
  - apply Permutation_refl.
  - destruct (snd p <=? snd q); [apply Permutation_refl|].
    eapply Permutation_trans; [apply perm_skip; exact IH|]. apply perm_swap.
Qed.

Lemma sort_by_node_perm : forall d, Permutation (sort_by_node d) d.
Proof.
  unfold sort_by_node. induction d as [|p r IH]; simpl; [constructor|].
  eapply Permutation_trans; [apply insert_sorted_perm|]. apply perm_skip. exact IH.
Qed.

Lemma insert_sorted_sorted : forall p l, StronglySorted le_node l -> StronglySorted le_node (insert_sorted_by_node p l).
Proof.
  intros p l. unfold insert_sorted_by_node. induction l as [|q r IH]; simpl; intros Hs.
  - constructor; constructor.
  - destruct (snd p <=? snd q) eqn:E.
    + apply Nat.leb_le in E. constructor; [exact Hs|].
      constructor; [exact E|]. inversion Hs as [|? ? Hr Hall]; subst.
      eapply Forall_impl; [|exact Hall]. intros x Hx. unfold le_node in *. lia.
    + apply Nat.leb_gt in E. inversion Hs as [|? ? Hr Hall]; subst.
      constructor; [apply IH; exact Hr|].
      assert (Hp : Permutation ((fix go (l : list (nat * nat)) := match l with
                                  | [] => [p] | q :: r => if snd p <=? snd q then p :: q :: r else q :: go r end) r) (p :: r))
        by (apply (insert_sorted_perm p r)).
      apply Forall_forall. intros x Hx. eapply Permutation_in in Hx; [|exact Hp].
      destruct Hx as [->|Hx]; [unfold le_node; lia|]. rewrite Forall_forall in Hall. auto.
Qed.

Lemma sort_by_node_sorted : forall d, StronglySorted le_node (sort_by_node d).
Proof.
  unfold sort_by_node. induction d as [|p r IH]; simpl; [constructor|]. apply insert_sorted_sorted. exact IH.
Qed.

Lemma NoDup_map_inj {A B} (f : A -> B) (l : list A) x y :
  NoDup (map f l) -> In x l -> In y l -> f x = f y -> x = y.
Proof.
  induction l as [|a r IH]; simpl; intros Hnd Hx Hy E; [contradiction|].
  inversion Hnd as [|? ? Hni Hnd']; subst.
  destruct Hx as [->|Hx], Hy as [->|Hy]; auto.
  - exfalso. apply Hni. rewrite E. apply in_map. exact Hy.
  - exfalso. apply Hni. rewrite <- E. apply in_map. exact Hx.
Qed.

Lemma sorted_unique : forall l1 l2,
    StronglySorted le_node l1 -> StronglySorted le_node l2 -> NoDup (map snd l1) -> Permutation l1 l2 -> l1 = l2.
Proof.
  induction l1 as [|a r1 IH]; intros l2 H1 H2 Hnd Hp.
  - apply Permutation_nil in Hp. subst. reflexivity.
  - destruct l2 as [|b r2]; [apply Permutation_sym, Permutation_nil in Hp; discriminate|].
    assert (Eab : a = b).
    { assert (Hb : In b (a :: r1)) by (eapply Permutation_in; [apply Permutation_sym; exact Hp|left; reflexivity]).
      assert (Ha : In a (b :: r2)) by (eapply Permutation_in; [exact Hp|left; reflexivity]).
      inversion H1 as [|? ? _ Hall1]; subst. inversion H2 as [|? ? _ Hall2]; subst.
      rewrite Forall_forall in Hall1, Hall2.
      destruct Hb as [E|Hb]; [exact E|]. destruct Ha as [E|Ha]; [symmetry; exact E|].
      pose proof (Hall1 b Hb) as L1. pose proof (Hall2 a Ha) as L2. unfold le_node in *.
      apply (NoDup_map_inj snd (a :: r1)); [exact Hnd|left; reflexivity|right; exact Hb|lia]. }
    subst b. f_equal. apply IH.
    + inversion H1; assumption.
    + inversion H2; assumption.
    + inversion Hnd; assumption.
    + eapply Permutation_cons_inv. exact Hp.
Qed.

Theorem sort_by_node_order_indep : forall d1 d2,
    Permutation d1 d2 -> NoDup (map snd d1) -> sort_by_node d1 = sort_by_node d2.
Proof.
  intros d1 d2 Hp Hnd. apply sorted_unique.
  - apply sort_by_node_sorted.
  - apply sort_by_node_sorted.
  - eapply Permutation_NoDup; [apply Permutation_map; apply Permutation_sym; apply sort_by_node_perm|exact Hnd].
  - eapply Permutation_trans; [apply sort_by_node_perm|]. eapply Permutation_trans; [exact Hp|].
    apply Permutation_sym. apply sort_by_node_perm.
Qed.

Theorem define_type_order_indep : forall u s d1 d2 nm t,
    Permutation d1 d2 -> NoDup (map snd d1) -> define_type_with u s d1 nm t = define_type_with u s d2 nm t.
Proof.
  intros u s d1 d2 nm t Hp Hnd. unfold define_type_with.
  rewrite (sort_by_node_order_indep d1 d2 Hp Hnd). reflexivity.
Qed.

(** what the fix removed: without the sort the result follows the iteration order *)
Definition u_refute : universe :=
  {| u_inst_exports := fun _ => None; u_pkgs := [];
     u_tys := [ {| td_res := false; td_kind := 0%N; td_deps := [] |};
                {| td_res := false; td_kind := 1%N; td_deps := [0] |};
                {| td_res := false; td_kind := 2%N; td_deps := [0] |} ];
     u_lkinds := []; u_sub := fun _ _ => true; u_import_name_ok := fun _ => true; u_export_name_ok := fun _ => true |}.

Theorem define_type_unsorted_refuted :
  exists u ops o1 o2, valid_oracle o1 /\ valid_oracle o2 /\
    edges (run_unsorted_from o1 u 0 empty_graph ops) <> edges (run_unsorted_from o2 u 0 empty_graph ops).
Proof.
  exists u_refute, [DefineType 1%N 1; DefineType 2%N 2; DefineType 0%N 0], id_oracle, rev_oracle.
  split; [|split].
  - split; intros; apply Permutation_refl.
  - split; intros; simpl; apply Permutation_sym, Permutation_rev.
  - vm_compute. discriminate.
Qed.

(** * (c) encode_imports: inserting under distinct keys *)

Lemma populate_lookup : forall encoded canonical visit ni res node,
    NoDup (map snd visit) ->
    populate_node_indexes encoded canonical visit ni = Some res ->
    alist_get Nat.eqb res node =
      match find (fun p => snd p =? node) visit with
      | Some p => encoded (canonical (fst p))
      | None => alist_get Nat.eqb ni node
      end.
Proof.
  intros encoded canonical. induction visit as [|[nm nd] r IH]; simpl; intros ni res node Hnd H.
  - inversion H. reflexivity.
  - inversion Hnd as [|? ? Hni Hnd']; subst.
    destruct (encoded (canonical nm)) as [idx|] eqn:E; [|discriminate].
    rewrite (IH _ _ node Hnd' H).
    destruct (nd =? node) eqn:En.
    + apply Nat.eqb_eq in En. subst node.
      destruct (find (fun p => snd p =? nd) r) as [p|] eqn:Ef.
      * exfalso. apply find_some in Ef. destruct Ef as [Hin Ep]. apply Nat.eqb_eq in Ep. apply Hni. rewrite <- Ep. apply in_map. exact Hin.
      * simpl. rewrite Nat.eqb_refl. symmetry. exact E.
    + destruct (find (fun p => snd p =? node) r); [reflexivity|]. simpl. rewrite En. reflexivity.
Qed.

Lemma populate_none_iff : forall encoded canonical visit ni,
    populate_node_indexes encoded canonical visit ni = None <->
    exists p, In p visit /\ encoded (canonical (fst p)) = None.
Proof.
  intros encoded canonical. induction visit as [|[nm nd] r IH]; simpl; intros ni.
  - split; [discriminate|intros [p [[] _]]].
  - destruct (encoded (canonical nm)) as [idx|] eqn:E.
    + rewrite IH. split; intros [p [Hin Hp]].
      * exists p. split; [right; exact Hin|exact Hp].
      * destruct Hin as [<-|Hin]; [simpl in Hp; congruence|]. exists p. split; assumption.
    + split; [|reflexivity]. intros _. exists (nm, nd). split; [left; reflexivity|exact E].
Qed.

Lemma find_perm_unique {A} (f : A -> bool) (key : A -> nat) (l1 l2 : list A) :
  (forall x, f x = true -> forall y, f y = true -> key x = key y) ->
  NoDup (map key l1) -> Permutation l1 l2 -> find f l1 = find f l2.
Proof.
  intros Hk Hnd Hp.
  assert (Hnd2 : NoDup (map key l2)) by (eapply Permutation_NoDup; [apply Permutation_map; exact Hp|exact Hnd]).
  destruct (find f l1) as [x|] eqn:E1, (find f l2) as [y|] eqn:E2; try reflexivity.
  - apply find_some in E1. apply find_some in E2. destruct E1 as [Hx Fx], E2 as [Hy Fy].
    f_equal. apply (NoDup_map_inj key l2); auto. eapply Permutation_in; eassumption.
  - apply find_some in E1. destruct E1 as [Hx Fx].
    pose proof (find_none _ _ E2 x (Permutation_in _ Hp Hx)). congruence.
  - apply find_some in E2. destruct E2 as [Hy Fy].
    pose proof (find_none _ _ E1 y (Permutation_in _ (Permutation_sym Hp) Hy)). congruence.
Qed.

(** the loop over the [explicit_imports] HashMap: whichever order the map yields its entries in, the resulting
    [node_indexes] answers every lookup in the same way (and panics in the same cases) *)
Theorem encode_explicit_imports_order_indep : forall encoded canonical v1 v2 ni node,
    Permutation v1 v2 -> NoDup (map snd v1) ->
    ni_lookup (populate_node_indexes encoded canonical v1 ni) node =
    ni_lookup (populate_node_indexes encoded canonical v2 ni) node.
Proof.
  intros encoded canonical v1 v2 ni node Hp Hnd.
  assert (Hnd2 : NoDup (map snd v2)) by (eapply Permutation_NoDup; [apply Permutation_map; exact Hp|exact Hnd]).
  destruct (populate_node_indexes encoded canonical v1 ni) as [r1|] eqn:E1,
           (populate_node_indexes encoded canonical v2 ni) as [r2|] eqn:E2; simpl.
  - f_equal. rewrite (populate_lookup _ _ _ _ _ node Hnd E1), (populate_lookup _ _ _ _ _ node Hnd2 E2).
    rewrite (find_perm_unique (fun p => snd p =? node) snd v1 v2); [reflexivity| |exact Hnd|exact Hp].
    intros x Hx y Hy. apply Nat.eqb_eq in Hx, Hy. congruence.
  - exfalso. apply populate_none_iff in E2. destruct E2 as [p [Hin Hn]].
    assert (populate_node_indexes encoded canonical v1 ni = None); [|congruence].
    apply populate_none_iff. exists p. split; [eapply Permutation_in; [apply Permutation_sym; exact Hp|exact Hin]|exact Hn].
  - exfalso. apply populate_none_iff in E1. destruct E1 as [p [Hin Hn]].
    assert (populate_node_indexes encoded canonical v2 ni = None); [|congruence].
    apply populate_none_iff. exists p. split; [eapply Permutation_in; [exact Hp|exact Hin]|exact Hn].
  - reflexivity.
Qed.

(** * (e) name_redirects.values_mut() *)

Theorem redirect_update_order_indep : forall old new v1 v2 key,
    Permutation v1 v2 -> NoDup (map fst v1) ->
    alist_get N.eqb (redirect_visit old new v1) key = alist_get N.eqb (redirect_visit old new v2) key.
Proof.
  intros old new v1 v2 key Hp Hnd. apply (alist_get_perm N.eqb N_eqb_spec).
  - unfold redirect_visit. rewrite map_map. simpl. exact Hnd.
  - unfold redirect_visit. apply Permutation_map. exact Hp.
Qed.

(** * (f) the scan of [interfaces] *)

Lemma find_track_some : forall track key l id,
    find_track track key l = Some id -> exists nm, In (nm, id) l /\ track nm = Some key.
Proof.
  intros track key. induction l as [|[nm i] r IH]; simpl; intros id H; [discriminate|].
  destruct (track nm) as [k|] eqn:E.
  - destruct (N.eqb k key) eqn:Ek.
    + apply N.eqb_eq in Ek. subst. inversion H. subst. exists nm. split; [left; reflexivity|exact E].
    + destruct (IH _ H) as [n [Hin Ht]]. exists n. split; [right; exact Hin|exact Ht].
  - destruct (IH _ H) as [n [Hin Ht]]. exists n. split; [right; exact Hin|exact Ht].
Qed.

Lemma find_track_none : forall track key l,
    find_track track key l = None -> forall nm id, In (nm, id) l -> track nm <> Some key.
Proof.
  intros track key. induction l as [|[nm i] r IH]; simpl; intros H n id Hin; [contradiction|].
  destruct (track nm) as [k|] eqn:E.
  - destruct (N.eqb k key) eqn:Ek; [discriminate|].
    destruct Hin as [Ei|Hin]; [inversion Ei; subst; rewrite E; intros C; inversion C; subst; rewrite N.eqb_refl in Ek; discriminate|].
    eapply IH; eassumption.
  - destruct Hin as [Ei|Hin]; [inversion Ei; subst; congruence|]. eapply IH; eassumption.
Qed.

(** if all names of a track map to one interface, the first match does not depend on the order *)
Theorem find_track_order_indep : forall track key l1 l2,
    track_consistent track l1 -> Permutation l1 l2 -> find_track track key l1 = find_track track key l2.
Proof.
  intros track key l1 l2 Hc Hp.
  destruct (find_track track key l1) as [a|] eqn:E1, (find_track track key l2) as [b|] eqn:E2; try reflexivity.
  - apply find_track_some in E1. apply find_track_some in E2.
    destruct E1 as [n1 [H1 T1]], E2 as [n2 [H2 T2]]. f_equal.
    apply (Hc n1 a n2 b key); auto. eapply Permutation_in; [apply Permutation_sym; exact Hp|exact H2].
  - apply find_track_some in E1. destruct E1 as [n1 [H1 T1]].
    exfalso. eapply (find_track_none _ _ _ E2); [eapply Permutation_in; [exact Hp|exact H1]|exact T1].
  - apply find_track_some in E2. destruct E2 as [n2 [H2 T2]].
    exfalso. eapply (find_track_none _ _ _ E1); [eapply Permutation_in; [apply Permutation_sym; exact Hp|exact H2]|exact T2].
Qed.

(** ... but [remap_interface] does not keep tracks consistent: an interface that uses a type of another
    interface of its own semver track registers both (names 0, 1, 2 share track 7; interface 0 uses interface 1) *)
Definition track_w (n : name) : option N := if N.leb n 2 then Some 7%N else None.
Definition src_w : list iface :=
  [ {| if_name := Some 0%N; if_uses := [1] |}; {| if_name := Some 1%N; if_uses := [] |}; {| if_name := Some 2%N; if_uses := [] |} ].

Theorem remap_breaks_track_consistency :
  ~ track_consistent track_w (a_interfaces (fst (remap 5 src_w track_w (fun l => l) empty_agg 0))).
Proof.
  intros H. specialize (H 0%N 1 1%N 0 7%N). vm_compute in H.
  assert (1 = 0) by (apply H; auto). discriminate.
Qed.

(** the aggregated interface that a third name of the track is merged into depends on the iteration order *)
Theorem find_semver_compatible_interface_refuted :
  exists src track o1 o2,
    (forall l, Permutation (o1 l) l) /\ (forall l, Permutation (o2 l) l) /\
    let a1 := fst (remap 5 src track o1 empty_agg 0) in
    let a2 := fst (remap 5 src track o2 empty_agg 0) in
    a1 = a2 /\ snd (remap 5 src track o1 a1 2) <> snd (remap 5 src track o2 a2 2).
Proof.
  exists src_w, track_w, (fun l => l), (fun l => rev l).
  split; [intros; apply Permutation_refl|].
  split; [intros; apply Permutation_sym, Permutation_rev|].
  vm_compute. split; [reflexivity|discriminate].
Qed.

(** * (g) world_include *)

Theorem world_include_missing_refuted :
  exists l1 l2 : list name, Permutation l1 l2 /\ missing_reported l1 <> missing_reported l2.
Proof.
  exists [1%N; 2%N], [2%N; 1%N]. split; [apply perm_swap|]. vm_compute. discriminate.
Qed.

Theorem world_include_missing_fixed_order_indep : forall with_items r1 r2,
    Permutation r1 r2 -> missing_reported_fixed with_items r1 = missing_reported_fixed with_items r2.
Proof.
  intros w r1 r2 Hp. unfold missing_reported_fixed. induction w as [|n r IH]; simpl; [reflexivity|].
  assert (E : existsb (N.eqb n) r1 = existsb (N.eqb n) r2).
  { destruct (existsb (N.eqb n) r1) eqn:E1, (existsb (N.eqb n) r2) eqn:E2; try reflexivity.
    - apply existsb_exists in E1. destruct E1 as [x [Hx Ex]].
      assert (existsb (N.eqb n) r2 = true) by (apply existsb_exists; exists x; split; [eapply Permutation_in; eassumption|exact Ex]). congruence.
    - apply existsb_exists in E2. destruct E2 as [x [Hx Ex]].
      assert (existsb (N.eqb n) r1 = true) by (apply existsb_exists; exists x; split; [eapply Permutation_in; [apply Permutation_sym|]; eassumption|exact Ex]). congruence. }
  rewrite E. destruct (existsb (N.eqb n) r2); [reflexivity|exact IH].
Qed.

(** * (h) wac plug (C19) *)
Theorem plug_sequence_refuted :
  exists g1 g2 : list (name * list nat), Permutation g1 g2 /\ plug_sequence g1 <> plug_sequence g2.
Proof.
  exists [(1%N, [0]); (2%N, [1])], [(2%N, [1]); (1%N, [0])]. split; [apply perm_swap|]. vm_compute. discriminate.
Qed.


(** [resolve_imports] (fix 591363d): the minimum does not depend on the iteration order of the two hash maps. *)
Lemma fold_min_le_all l x : forall y, In y (x :: l) -> fold_left Nat.min l x <= y.
Proof.
  revert x. induction l as [|a l IH]; intros x y Hin; cbn in *.
  - destruct Hin as [->|[]]. apply Nat.le_refl.
  - destruct Hin as [->|[->|Hin]].
    + etransitivity; [apply IH; left; reflexivity | apply Nat.le_min_l].
    + etransitivity; [apply IH; left; reflexivity | apply Nat.le_min_r].
    + apply IH. right. exact Hin.
Qed.

Lemma fold_min_in l x : In (fold_left Nat.min l x) (x :: l).
Proof.
  revert x. induction l as [|a l IH]; intros x; cbn.
  - left; reflexivity.
  - destruct (IH (Nat.min x a)) as [H|H].
    + rewrite <- H. destruct (Nat.min_dec x a) as [E|E]; rewrite E; [left|right; left]; reflexivity.
    + right; right; exact H.
Qed.

Lemma min_order_indep_list (l1 l2 : list nat) :
  Permutation l1 l2 ->
  match l1, l2 with
  | x :: r, y :: s => fold_left Nat.min r x = fold_left Nat.min s y
  | [], [] => True
  | _, _ => False
  end.
Proof.
  intros P. destruct l1 as [|x r], l2 as [|y s]; auto.
  - apply Permutation_nil in P. discriminate.
  - apply Permutation_sym, Permutation_nil in P. discriminate.
  - apply Nat.le_antisymm.
    + apply fold_min_le_all. eapply Permutation_in; [apply Permutation_sym; exact P|]. apply fold_min_in.
    + apply fold_min_le_all. eapply Permutation_in; [exact P|]. apply fold_min_in.
Qed.

Lemma Permutation_filter_compat {A} (f : A -> bool) (l l' : list A) :
  Permutation l l' -> Permutation (filter f l) (filter f l').
Proof.
  induction 1 as [|x l l' P IH|x y l|l l' l'' P1 IH1 P2 IH2]; cbn.
  - constructor.
  - destruct (f x); [constructor|]; exact IH.
  - destruct (f x), (f y); try constructor; try apply Permutation_refl. 
  - eapply Permutation_trans; eassumption.
Qed.

Theorem conflict_first_order_indep compat v1 v1' v2 v2' dflt :
  Permutation v1 v1' -> Permutation v2 v2' ->
  conflict_first compat v1 v2 dflt = conflict_first compat v1' v2' dflt.
Proof.
  intros P1 P2. unfold conflict_first.
  assert (Permutation (map snd (filter (fun p => compat (fst p)) (v1 ++ v2)))
                      (map snd (filter (fun p => compat (fst p)) (v1' ++ v2')))) as P.
  { apply Permutation_map. rewrite !filter_app. apply Permutation_app; apply Permutation_filter_compat; assumption. }
  pose proof (min_order_indep_list _ _ P) as H.
  destruct (map snd (filter (fun p => compat (fst p)) (v1 ++ v2))),
           (map snd (filter (fun p => compat (fst p)) (v1' ++ v2'))); try contradiction; auto.
Qed.

(** * the classification on the CURRENT tree *)
Definition class_is_relevant (c : class) : bool := match c with OrderRelevant _ _ => true | OrderIrrelevant _ _ => false end.

(** backed by a theorem about a model function, or explicitly "by inspection" ([DebugNotRendered]) *)
Definition class_justified (c : class) : bool :=
  match c with
  | OrderIrrelevant DebugNotRendered None => true          (* by inspection *)
  | OrderIrrelevant DebugNotRendered (Some _) => false
  | OrderIrrelevant NotAHashContainer _ => false           (* would need a reason of its own *)
  | OrderIrrelevant _ (Some _) => true                     (* a model function with an order-independence theorem *)
  | OrderIrrelevant _ None => false
  | OrderRelevant _ _ => false
  end.

Definition classes_of (s : site) : list class := map snd (filter (fun p => site_eqb s (fst p)) modelled).

Theorem current_sites_order_irrelevant_and_justified :
  forall s, In s found_sites ->
    classes_of s <> [] /\ forall c, In c (classes_of s) -> class_is_relevant c = false /\ class_justified c = true.
Proof.
  intros s Hs.
  assert (H : forallb (fun s => negb (match classes_of s with [] => true | _ => false end) &&
                                forallb (fun c => negb (class_is_relevant c) && class_justified c) (classes_of s))
                      found_sites = true) by (vm_compute; reflexivity).
  pose proof (forallb_In _ _ H s Hs) as E. apply andb_prop in E. destruct E as [E1 E2]. split.
  - intros C. rewrite C in E1. discriminate.
  - intros c Hc. pose proof (forallb_In _ _ E2 c Hc) as E. apply andb_prop in E. destruct E as [A B].
    split; [apply negb_true_iff; exact A|exact B].
Qed.
