(** C06: the theorems about whole operations and whole histories, assembled from
    [GraphSteps]/[GraphRemove]/[GraphUnreg]. *)
From Coq Require Import List Arith Bool NArith Lia.
From WacV Require Import Graph GraphInv GraphPrims GraphSteps GraphRemove GraphUnreg.
Import ListNotations.

Lemma step_invC u s o : InvC u s -> InvC u (fst (step u s o)).
Proof.
  intros H. destruct o; cbn [step].
  - now apply register_inv.
  - now apply unregister_inv.
  - now apply define_type_inv.
  - now apply import_inv.
  - now apply instantiate_inv.
  - now apply alias_inv.
  - now apply set_arg_inv.
  - now apply unset_arg_inv.
  - now apply export_inv.
  - now apply unexport_inv.
  - now apply set_name_inv.
  - now apply remove_node_inv.
Qed.

Lemma step_inv u s o : Inv u s -> Inv u (fst (step u s o)).
Proof. rewrite !Inv_iff. apply step_invC. Qed.

Lemma run_app u ops o : run u (ops ++ [o]) = fst (step u (run u ops) o).
Proof. unfold run. now rewrite fold_left_app. Qed.

Lemma reach_inv u ops : Inv u (run u ops).
Proof.
  unfold run. generalize (inv_empty u). generalize empty_graph.
  induction ops as [|o ops IH]; intros s H; cbn; auto. apply IH. now apply step_inv.
Qed.

Lemma step_ok u s o : InvC u s -> ok_outcome (snd (step u s o)).
Proof.
  intros H. destruct o; cbn [step].
  - apply register_ok.
  - now apply (unregister_ok u).
  - apply define_type_ok.
  - apply import_ok.
  - apply instantiate_ok.
  - apply alias_ok.
  - now apply set_arg_ok.
  - now apply unset_arg_ok.
  - apply export_ok.
  - now apply (unexport_ok u).
  - apply set_name_ok.
  - now apply (remove_node_ok u).
Qed.

Lemma step_no_bookkeeping_panic u s o :
  Inv u s ->
  snd (step u s o) <> OPanic PSatInsert /\ snd (step u s o) <> OPanic PSatRemove /\
  snd (step u s o) <> OPanic PNotInstantiation /\ snd (step u s o) <> OPanic PUnexpectedEdge /\
  snd (step u s o) <> OPanic PDeadNodeInMap /\ snd (step u s o) <> OPanic PExportMissing /\
  snd (step u s o) <> OPanic PImportMissing /\ snd (step u s o) <> OPanic PDefinedMissing.
Proof.
  intros H. apply Inv_iff in H. pose proof (step_ok u s o H) as K.
  repeat split; intros E; apply K in E; discriminate.
Qed.

(** the only panics a reachable state can produce *)
Lemma step_panics_classified u s o p :
  Inv u s -> snd (step u s o) = OPanic p ->
  p = PInvalidNodeId \/ p = PInvalidPackageId \/ p = PBadUniverse \/ p = POutOfFuel.
Proof.
  intros H E. apply Inv_iff in H. apply (step_ok u s o H) in E. destruct p; try discriminate; auto.
Qed.

(** * removal leaves no trace *)
Lemma remove_no_trace u s n s' :
  Inv u s -> remove_node s n = (s', OUnit) ->
  live s' n = false /\ (forall e, In e (edges s') -> esrc e <> n /\ etgt e <> n) /\
  (forall nm, ~ In (nm, n) (exports s')) /\ (forall nm, ~ In (nm, n) (imports s')) /\
  (forall t, ~ In (t, n) (defined s')).
Proof.
  intros H R. apply Inv_iff in H. destruct (remove_node_gone u s n s' H R) as (_ & G & _). exact G.
Qed.

(** nothing is created, and no edge either *)
Lemma remove_only_removes u s n s' :
  Inv u s -> remove_node s n = (s', OUnit) ->
  (forall m, live s' m = true -> live s m = true) /\ (forall e, In e (edges s') -> In e (edges s)).
Proof.
  intros H R. apply Inv_iff in H. destruct (remove_node_gone u s n s' H R) as (_ & _ & G). exact G.
Qed.

Lemma node_pkg_is_true s id n :
  node_pkg_is s id n = true <-> exists nd, get_node s n = Some nd /\ npkg nd = Some id.
Proof.
  unfold node_pkg_is. destruct (get_node s n) as [nd|].
  - rewrite pkg_eqb_true. split; [eauto|]. now intros [x [[= <-] H]].
  - split; [discriminate|]. intros [x [H _]]. discriminate.
Qed.

Lemma unregister_no_trace u s id s' :
  Inv u s -> unregister s id = (s', OUnit) ->
  get_pkg s' id = None /\
  forall n nd, get_node s n = Some nd -> npkg nd = Some id ->
    live s' n = false /\ (forall e, In e (edges s') -> esrc e <> n /\ etgt e <> n) /\
    (forall nm, ~ In (nm, n) (exports s')) /\ (forall nm, ~ In (nm, n) (imports s')) /\
    (forall t, ~ In (t, n) (defined s')).
Proof.
  intros H R. apply Inv_iff in H. destruct (unregister_spec u s id H) as (I' & _ & _ & G).
  rewrite R in *. cbn [fst snd] in *. destruct (G eq_refl) as (G1 & G2 & G3). split; auto.
  intros n nd Gn K. eapply dead_gone; eauto. apply G1. apply node_pkg_is_true. eauto.
Qed.

Lemma unregister_only_removes u s id s' :
  Inv u s -> unregister s id = (s', OUnit) -> forall m, live s' m = true -> live s m = true.
Proof.
  intros H R. apply Inv_iff in H. destruct (unregister_spec u s id H) as (I' & _ & _ & G).
  rewrite R in *. cbn [fst snd] in *. apply (G eq_refl).
Qed.
