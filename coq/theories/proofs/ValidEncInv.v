(** C02: the side condition [EncInv] of [wiring_correct] holds of every reachable graph, given how the
    per-case universe is built and that no definition is exported under two names (the real API allows
    [export(definition_node, other_name)]: a known finding, so this one hypothesis stays).
    A new history invariant [KindInv] records what item a node carries (an instantiation the instance
    kind of its package, a definition the kind of a definable type together with an export name) and
    that the occupied slots of the package table hold distinct packages. *)
From Coq Require Import List Arith Bool NArith Lia.
From WacV Require Import Str Graph Wiring WiringSpec EncodeModel GraphInv GraphPrims GraphSteps GraphRemove GraphUnreg GraphTheorems GraphLive GraphAcyclic GraphRank GraphAlias GraphFrame GraphQueries WiringSim SemverProofs.
Import ListNotations.
Local Open Scope nat_scope.

(** how the universe of a case is built (facts about wac-types data, checked per case by the harness) *)
Record UnivOK (e : wenv) (u : universe) : Prop := {
  uo_inst_sort : forall k ex, u_inst_exports u k = Some ex -> we_sort e k = SInstance;
  uo_pkg_inst : forall p pd, nth_error (u_pkgs u) p = Some pd -> exists ex, u_inst_exports u (pd_inst pd) = Some ex;
  uo_ty_sort : forall t td, nth_error (u_tys u) t = Some td -> we_sort e (td_kind td) = SType;
  uo_exports_nodup : forall k ex, u_inst_exports u k = Some ex -> NoDup (map fst ex);
  uo_names_inj : forall a b, we_name e a = we_name e b -> a = b }.

(** new history invariant: what kind of item a node carries, and registered packages are distinct *)
Record KindInv (u : universe) (s : gstate) : Prop := {
  ki_inst : forall n nd sat, get_node s n = Some nd -> nk nd = NInst sat ->
            exists id pd, npkg nd = Some id /\ pkg_desc u s id = Some pd /\ nitem nd = pd_inst pd;
  ki_def : forall n nd, get_node s n = Some nd -> nk nd = NDef ->
           (exists t td, nth_error (u_tys u) t = Some td /\ nitem nd = td_kind td) /\ nexport nd <> None;
  ki_pkg_inj : forall id1 id2 p, get_pkg s id1 = Some p -> get_pkg s id2 = Some p -> id1 = id2 }.

Lemma kind_inv_empty : forall u, KindInv u empty_graph.
Proof.
  intros u. assert (G : forall n, get_node empty_graph n = None) by (intros n; apply getn_nil).
  constructor.
  - intros n nd sat H. rewrite G in H. discriminate.
  - intros n nd H. rewrite G in H. discriminate.
  - intros [i g] id2 p H. unfold get_pkg in H. cbn in H. destruct i; discriminate.
Qed.

(** * the generic step *)
(** what a newly created node must look like *)
Definition newok (u : universe) (s : gstate) (b : node) : Prop :=
  match nk b with
  | NInst _ => exists id pd, npkg b = Some id /\ pkg_desc u s id = Some pd /\ nitem b = pd_inst pd
  | NDef => (exists t td, nth_error (u_tys u) t = Some td /\ nitem b = td_kind td) /\ nexport b <> None
  | _ => True
  end.

(** a surviving node keeps item, package and kind class, and a definition keeps an export name *)
Definition nrel4 (a b : node) : Prop :=
  nrel3 a b /\ (nk a = NDef -> nexport a <> None -> nexport b <> None).

Lemma nrel4_refl a : nrel4 a a.
Proof. split; [apply nrel3_refl|auto]. Qed.

Lemma nrel5_nrel4 a b : nrel5 a b -> nrel4 a b.
Proof. intros (A1 & A2 & A3 & A4 & A5). split; [repeat split; auto|]. intros _ H. now rewrite A4. Qed.

Definition PInjS (s : gstate) : Prop :=
  forall id1 id2 p, get_pkg s id1 = Some p -> get_pkg s id2 = Some p -> id1 = id2.

Lemma kind_step u s s' :
  KindInv u s ->
  (forall m a b, get_node s m = Some a -> get_node s' m = Some b -> nrel4 a b) ->
  (forall m b, get_node s m = None -> get_node s' m = Some b -> newok u s b) ->
  (forall m b id, get_node s' m = Some b -> npkg b = Some id -> get_pkg s' id = get_pkg s id) ->
  PInjS s' -> KindInv u s'.
Proof.
  intros [A B C] O Nw P J. constructor; auto.
  - intros n nd sat G K. destruct (get_node s n) as [a|] eqn:Ga.
    + destruct (O _ _ _ Ga G) as [(I1 & P1 & C1) _]. rewrite K in C1.
      destruct (nk a) as [| |sat0|] eqn:Ka; cbn in C1; try discriminate.
      destruct (A n a sat0 Ga Ka) as (id & pd & Np & Pd & It). exists id, pd.
      assert (Np' : npkg nd = Some id) by congruence.
      split; [exact Np'|split; [|congruence]]. unfold pkg_desc in *. now rewrite (P n nd id G Np').
    + specialize (Nw n nd Ga G). unfold newok in Nw. rewrite K in Nw. destruct Nw as (id & pd & Np & Pd & It).
      exists id, pd. split; [exact Np|split; [|exact It]]. unfold pkg_desc in *. now rewrite (P n nd id G Np).
  - intros n nd G K. destruct (get_node s n) as [a|] eqn:Ga.
    + destruct (O _ _ _ Ga G) as [(I1 & P1 & C1) E1].
      assert (Ka : nk a = NDef) by (now apply (kclass_def _ _ C1)).
      destruct (B n a Ga Ka) as [(t & td & T & It) Ex]. split; [|auto].
      exists t, td. split; [exact T|congruence].
    + specialize (Nw n nd Ga G). unfold newok in Nw. now rewrite K in Nw.
Qed.

(** the ten operations that leave the package table alone *)
Record KD (u : universe) (s s' : gstate) : Prop := {
  kd_old : forall m a b, get_node s m = Some a -> get_node s' m = Some b -> nrel4 a b;
  kd_new : forall m b, get_node s m = None -> get_node s' m = Some b -> newok u s b;
  kd_pkgs : pkgs s' = pkgs s }.

Lemma kind_step_kd u s s' : KindInv u s -> KD u s s' -> KindInv u s'.
Proof.
  intros HK [O Nw P]. eapply kind_step; eauto.
  - intros m b id _ _. unfold get_pkg. now rewrite P.
  - intros id1 id2 p. unfold get_pkg. rewrite P. apply (ki_pkg_inj _ _ HK).
Qed.

Lemma KD_eq u s s' : nodes s' = nodes s -> pkgs s' = pkgs s -> KD u s s'.
Proof.
  intros Hn Hp. constructor; auto.
  - intros m a b G1 G2. unfold get_node in *. rewrite Hn in G2. rewrite G1 in G2. injection G2 as <-. apply nrel4_refl.
  - intros m b G1 G2. unfold get_node in *. rewrite Hn in G2. congruence.
Qed.

Lemma KD_refl u s : KD u s s.
Proof. now apply KD_eq. Qed.

Lemma KD_set_node u s s' n nd nd' :
  get_node s n = Some nd -> nrel4 nd nd' -> nodes s' = set_nth (nodes s) n (Some nd') -> pkgs s' = pkgs s -> KD u s s'.
Proof.
  intros G R Hn Hp. rewrite get_node_getn in G. constructor; auto.
  - intros m a b G1 G2. rewrite get_node_getn in *. rewrite Hn in G2. erewrite getn_set_live in G2 by eauto.
    destruct (Nat.eqb_spec m n) as [->|_]; [congruence|]. rewrite G1 in G2. injection G2 as <-. apply nrel4_refl.
  - intros m b G1 G2. rewrite get_node_getn in *. rewrite Hn in G2. erewrite getn_set_live in G2 by eauto.
    destruct (Nat.eqb_spec m n) as [->|_]; congruence.
Qed.

Lemma KD_add_node u s nd s1 idx s' :
  InvC u s -> add_node s nd = (s1, idx) -> newok u s nd -> nodes s' = nodes s1 -> pkgs s' = pkgs s1 -> KD u s s'.
Proof.
  intros HI A K Hn Hp. apply add_node_spec in A as ([Fd Fu] & _ & _ & _ & _ & _ & Pk & _); [|apply HI]. constructor.
  - intros m a b G1 G2. rewrite get_node_getn in *. rewrite Hn, Fu in G2.
    destruct (Nat.eqb_spec m idx) as [->|_]; [congruence|]. rewrite G1 in G2. injection G2 as <-. apply nrel4_refl.
  - intros m b G1 G2. rewrite get_node_getn in *. rewrite Hn, Fu in G2.
    destruct (Nat.eqb_spec m idx) as [->|_]; congruence.
  - congruence.
Qed.

Lemma import_kd u s nm k : InvC u s -> KD u s (fst (Graph.import_ u s nm k)).
Proof.
  intros HI. unfold Graph.import_. destruct (nth_error (u_lkinds u) k); [|apply KD_refl].
  destruct (alist_get N.eqb (imports s) nm); [apply KD_refl|]. destruct (negb _); [apply KD_refl|].
  destruct (add_node s _) as [s1 idx] eqn:A. cbn [fst]. eapply KD_add_node; eauto; cbn; auto.
Qed.

Lemma instantiate_kd u s id : InvC u s -> KD u s (fst (instantiate u s id)).
Proof.
  intros HI. unfold instantiate. destruct (pkg_desc u s id) as [pd|] eqn:Pd; [|apply KD_refl].
  destruct (add_node s _) as [s1 idx] eqn:A. cbn [fst]. eapply KD_add_node; eauto; cbn; eauto.
Qed.

Lemma alias_kd u s n e : InvC u s -> KD u s (fst (alias u s n e)).
Proof.
  intros HI. unfold alias. destruct (get_node s n) as [nd|]; [|apply KD_refl].
  destruct (u_inst_exports u (nitem nd)); [|apply KD_refl].
  destruct (get_full l e 0) as [[index kind]|]; [|apply KD_refl]. destruct (find _ (outgoing s n)); [apply KD_refl|].
  destruct (add_node s _) as [s1 idx] eqn:A. cbn [fst]. eapply KD_add_node; eauto; cbn; auto.
Qed.

Lemma set_name_kd u s n nm : KD u s (fst (set_name s n nm)).
Proof.
  unfold set_name, update_node. destruct (get_node s n) as [nd|] eqn:G; [|apply KD_refl]. cbn [fst].
  eapply KD_set_node; [exact G| |reflexivity|reflexivity]. split; [repeat split; apply kclass_refl|auto].
Qed.

Lemma export_kd u s n e : KD u s (fst (export_ u s n e)).
Proof.
  unfold export_, update_node. destruct (alist_get N.eqb (exports s) e); [apply KD_refl|].
  destruct (negb _); [apply KD_refl|]. destruct (get_node s n) as [nd|] eqn:G; [|apply KD_refl]. cbn [fst].
  eapply KD_set_node; [exact G| |reflexivity|reflexivity]. split; [repeat split; apply kclass_refl|].
  cbn. discriminate.
Qed.

Lemma unexport_kd u s n : KD u s (fst (unexport s n)).
Proof.
  unfold unexport. destruct (get_node s n) as [nd|] eqn:G; [|apply KD_refl].
  destruct (nk nd) eqn:K; [apply KD_refl| | |];
    (match goal with |- context [match ?x with inl _ => _ | inr _ => _ end] => destruct x end;
     [|apply KD_refl]; cbn [fst]; eapply KD_set_node; [exact G| |reflexivity|reflexivity];
     split; [repeat split; cbn; rewrite K; apply kclass_refl|intros; congruence]).
Qed.

Lemma set_arg_kd u s inst a arg : KD u s (fst (set_arg u s inst a arg)).
Proof.
  unfold set_arg. destruct (get_node s inst) as [nd|] eqn:G; [|apply KD_refl].
  destruct (nk nd) eqn:K; try apply KD_refl. destruct (inst_imports u s nd); [|apply KD_refl].
  destruct (get_full l a 0) as [[index expected]|]; [|apply KD_refl].
  destruct (scan_incoming _ index arg); try apply KD_refl.
  destruct (get_node s arg) as [an|]; [|apply KD_refl]. destruct (negb _); [apply KD_refl|].
  destruct (add_satisfied _ inst index) as [[s2|]|] eqn:AS; try apply KD_refl. cbn [fst].
  unfold add_satisfied in AS. change (get_node (add_edge s _) inst) with (get_node s inst) in AS.
  rewrite G, K in AS. destruct (existsb _ sat); [discriminate|]. injection AS as <-.
  eapply KD_set_node; [exact G| |reflexivity|reflexivity].
  split; [repeat split; cbn; now rewrite K|intros; congruence].
Qed.

Lemma unset_arg_kd u s inst a arg : KD u s (fst (unset_arg u s inst a arg)).
Proof.
  unfold unset_arg. destruct (get_node s inst) as [nd|] eqn:G; [|apply KD_refl].
  destruct (nk nd) eqn:K; try apply KD_refl. destruct (inst_imports u s nd); [|apply KD_refl].
  destruct (get_full l a 0) as [[index expected]|]; [|apply KD_refl].
  destruct (scan_connecting _ index); try apply KD_refl.
  destruct (remove_satisfied s inst index) as [s1|] eqn:RS; [|apply KD_refl].
  apply remove_satisfied_inv in RS as [x [st [G' [K' ->]]]]. cbn [fst]. rewrite G in G'. injection G' as <-.
  eapply KD_set_node; [exact G| |reflexivity|reflexivity].
  split; [repeat split; cbn; now rewrite K'|intros; congruence].
Qed.

Lemma define_type_kd u s nm t : InvC u s -> KD u s (fst (define_type u s nm t)).
Proof.
  intros HI. unfold define_type. destruct (nth_error (u_tys u) t) as [td|] eqn:T; [|apply KD_refl].
  destruct (existsb (fun p => fst p =? t) (defined s)); [apply KD_refl|]. destruct (td_res td); [apply KD_refl|].
  destruct (existsb (fun p => N.eqb (fst p) nm) (exports s)); [apply KD_refl|].
  destruct (negb (u_import_name_ok u nm)); [apply KD_refl|].
  destruct (add_node s _) as [s1 idx] eqn:A. cbn [fst].
  set (Q := fun s' : gstate => nodes s' = nodes s1 /\ pkgs s' = pkgs s1).
  assert (Qadd : forall s' a b, Q s' -> Q (add_edge s' {| esrc := a; etgt := b; ek := EDep |})).
  { intros s' a b [Q1 Q2]. split; [exact Q1|exact Q2]. }
  assert (Q1 : Q s1) by (split; reflexivity).
  match goal with |- KD u s (with_maps ?s3 _ _ _) => assert (Q3 : Q s3) end.
  { apply fold_left_ind.
    - intros a0 [ot on] _ Qa. cbn [fst snd]. destruct (nth_error (u_tys u) ot); auto.
      apply fold_left_ind; auto. intros b d _ Qb. destruct ((d =? t) && _); auto.
    - apply fold_left_ind; auto. intros a0 d _ Qa. destruct (d =? t); auto.
      destruct (alist_get Nat.eqb (defined a0) d); auto. destruct (has_dep_edge a0 n idx); auto. }
  destruct Q3 as [Q3n Q3p]. eapply KD_add_node; eauto; cbn.
  split; [eauto|discriminate].
Qed.
