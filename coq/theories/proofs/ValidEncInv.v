(** C02: the side condition [EncInv] of [wiring_correct] holds of every reachable graph, given how the
    per-case universe is built. That no definition is exported under two names ([DefsSingle]) is DERIVED
    for every reachable graph ([GraphDefExport.reach_def_exp]: [export(definition_node, other_name)]
    renames the definition; before the repair of that operation it was a hypothesis).
    A new history invariant [KindInv] records what item a node carries (an instantiation the instance
    kind of its package, a definition the kind of a definable type together with an export name) and
    that the occupied slots of the package table hold distinct packages. *)
From Coq Require Import List Arith Bool NArith Lia.
From WacV Require Import Str Graph Wiring WiringSpec EncodeModel GraphInv GraphPrims GraphSteps GraphRemove GraphUnreg GraphTheorems GraphLive GraphAcyclic GraphRank GraphAlias GraphFrame GraphDefExport GraphQueries WiringSim SemverProofs.
Import ListNotations.
Local Open Scope nat_scope.

(** how the universe of a case is built (facts about wac-types data, checked per case by the harness) *)
Record UnivOK (e : wenv) (u : universe) : Prop := {
  uo_inst_sort : forall k ex, u_inst_exports u k = Some ex -> we_sort e k = SInstance;
  uo_pkg_inst : forall p pd, nth_error (u_pkgs u) p = Some pd -> exists ex, u_inst_exports u (pd_inst pd) = Some ex;
  uo_ty_sort : forall t td, nth_error (u_tys u) t = Some td -> we_sort e (td_kind td) = SType;
  uo_exports_nodup : forall k ex, u_inst_exports u k = Some ex -> NoDup (map fst ex);
  uo_names_inj : forall a b, we_name e a = we_name e b -> a = b }.

(** new history invariant: what kind of item a node carries, and registered packages are distinct *)
Record KindInv (u : universe) (s : gstate) : Prop := {
  ki_inst : forall n nd sat, get_node s n = Some nd -> nk nd = NInst sat ->
            exists id pd, npkg nd = Some id /\ pkg_desc u s id = Some pd /\ nitem nd = pd_inst pd;
  ki_def : forall n nd, get_node s n = Some nd -> nk nd = NDef ->
           (exists t td, nth_error (u_tys u) t = Some td /\ nitem nd = td_kind td) /\ nexport nd <> None;
  ki_pkg_inj : forall id1 id2 p, get_pkg s id1 = Some p -> get_pkg s id2 = Some p -> id1 = id2 }.

Lemma kind_inv_empty : forall u, KindInv u empty_graph.
Proof.
  intros u. assert (G : forall n, get_node empty_graph n = None) by (intros n; apply getn_nil).
  constructor.
  - intros n nd sat H. rewrite G in H. discriminate.
  - intros n nd H. rewrite G in H. discriminate.
  - intros [i g] id2 p H. unfold get_pkg in H. cbn in H. destruct i; discriminate.
Qed.

(** * the generic step *)
(** what a newly created node must look like *)
Definition newok (u : universe) (s : gstate) (b : node) : Prop :=
  match nk b with
  | NInst _ => exists id pd, npkg b = Some id /\ pkg_desc u s id = Some pd /\ nitem b = pd_inst pd
  | NDef => (exists t td, nth_error (u_tys u) t = Some td /\ nitem b = td_kind td) /\ nexport b <> None
  | _ => True
  end.

(** a surviving node keeps item, package and kind class, and a definition keeps an export name *)
Definition nrel4 (a b : node) : Prop :=
  nrel3 a b /\ (nk a = NDef -> nexport a <> None -> nexport b <> None).

Lemma nrel4_refl a : nrel4 a a.
Proof. split; [apply nrel3_refl|auto]. Qed.

Lemma nrel5_nrel4 a b : nrel5 a b -> nrel4 a b.
Proof. intros (A1 & A2 & A3 & A4 & A5). split; [repeat split; auto|]. intros _ H. now rewrite A4. Qed.

Definition PInjS (s : gstate) : Prop :=
  forall id1 id2 p, get_pkg s id1 = Some p -> get_pkg s id2 = Some p -> id1 = id2.

Lemma kind_step u s s' :
  KindInv u s ->
  (forall m a b, get_node s m = Some a -> get_node s' m = Some b -> nrel4 a b) ->
  (forall m b, get_node s m = None -> get_node s' m = Some b -> newok u s b) ->
  (forall m b id, get_node s' m = Some b -> npkg b = Some id -> get_pkg s' id = get_pkg s id) ->
  PInjS s' -> KindInv u s'.
Proof.
  intros [A B C] O Nw P J. constructor; auto.
  - intros n nd sat G K. destruct (get_node s n) as [a|] eqn:Ga.
    + destruct (O _ _ _ Ga G) as [(I1 & P1 & C1) _]. rewrite K in C1.
      destruct (nk a) as [| |sat0|] eqn:Ka; cbn in C1; try discriminate.
      destruct (A n a sat0 Ga Ka) as (id & pd & Np & Pd & It). exists id, pd.
      assert (Np' : npkg nd = Some id) by congruence.
      split; [exact Np'|split; [|congruence]]. unfold pkg_desc in *. now rewrite (P n nd id G Np').
    + specialize (Nw n nd Ga G). unfold newok in Nw. rewrite K in Nw. destruct Nw as (id & pd & Np & Pd & It).
      exists id, pd. split; [exact Np|split; [|exact It]]. unfold pkg_desc in *. now rewrite (P n nd id G Np).
  - intros n nd G K. destruct (get_node s n) as [a|] eqn:Ga.
    + destruct (O _ _ _ Ga G) as [(I1 & P1 & C1) E1].
      assert (Ka : nk a = NDef) by (now apply (kclass_def _ _ C1)).
      destruct (B n a Ga Ka) as [(t & td & T & It) Ex]. split; [|auto].
      exists t, td. split; [exact T|congruence].
    + specialize (Nw n nd Ga G). unfold newok in Nw. now rewrite K in Nw.
Qed.

(** the ten operations that leave the package table alone *)
Record KD (u : universe) (s s' : gstate) : Prop := {
  kd_old : forall m a b, get_node s m = Some a -> get_node s' m = Some b -> nrel4 a b;
  kd_new : forall m b, get_node s m = None -> get_node s' m = Some b -> newok u s b;
  kd_pkgs : pkgs s' = pkgs s }.

Lemma kind_step_kd u s s' : KindInv u s -> KD u s s' -> KindInv u s'.
Proof.
  intros HK [O Nw P]. eapply kind_step; eauto.
  - intros m b id _ _. unfold get_pkg. now rewrite P.
  - intros id1 id2 p. unfold get_pkg. rewrite P. apply (ki_pkg_inj _ _ HK).
Qed.

Lemma KD_eq u s s' : nodes s' = nodes s -> pkgs s' = pkgs s -> KD u s s'.
Proof.
  intros Hn Hp. constructor; auto.
  - intros m a b G1 G2. unfold get_node in *. rewrite Hn in G2. rewrite G1 in G2. injection G2 as <-. apply nrel4_refl.
  - intros m b G1 G2. unfold get_node in *. rewrite Hn in G2. congruence.
Qed.

Lemma KD_refl u s : KD u s s.
Proof. now apply KD_eq. Qed.

Lemma KD_set_node u s s' n nd nd' :
  get_node s n = Some nd -> nrel4 nd nd' -> nodes s' = set_nth (nodes s) n (Some nd') -> pkgs s' = pkgs s -> KD u s s'.
Proof.
  intros G R Hn Hp. rewrite get_node_getn in G. constructor; auto.
  - intros m a b G1 G2. rewrite get_node_getn in *. rewrite Hn in G2. erewrite getn_set_live in G2 by eauto.
    destruct (Nat.eqb_spec m n) as [->|_]; [congruence|]. rewrite G1 in G2. injection G2 as <-. apply nrel4_refl.
  - intros m b G1 G2. rewrite get_node_getn in *. rewrite Hn in G2. erewrite getn_set_live in G2 by eauto.
    destruct (Nat.eqb_spec m n) as [->|_]; congruence.
Qed.

Lemma KD_add_node u s nd s1 idx s' :
  InvC u s -> add_node s nd = (s1, idx) -> newok u s nd -> nodes s' = nodes s1 -> pkgs s' = pkgs s1 -> KD u s s'.
Proof.
  intros HI A K Hn Hp. apply add_node_spec in A as ([Fd Fu] & _ & _ & _ & _ & _ & Pk & _); [|apply HI]. constructor.
  - intros m a b G1 G2. rewrite get_node_getn in *. rewrite Hn, Fu in G2.
    destruct (Nat.eqb_spec m idx) as [->|_]; [congruence|]. rewrite G1 in G2. injection G2 as <-. apply nrel4_refl.
  - intros m b G1 G2. rewrite get_node_getn in *. rewrite Hn, Fu in G2.
    destruct (Nat.eqb_spec m idx) as [->|_]; congruence.
  - congruence.
Qed.

Lemma import_kd u s nm k : InvC u s -> KD u s (fst (Graph.import_ u s nm k)).
Proof.
  intros HI. unfold Graph.import_. destruct (nth_error (u_lkinds u) k); [|apply KD_refl].
  destruct (alist_get N.eqb (imports s) nm); [apply KD_refl|]. destruct (negb _); [apply KD_refl|].
  destruct (add_node s _) as [s1 idx] eqn:A. cbn [fst]. eapply KD_add_node; eauto; cbn; auto.
Qed.

Lemma instantiate_kd u s id : InvC u s -> KD u s (fst (instantiate u s id)).
Proof.
  intros HI. unfold instantiate. destruct (pkg_desc u s id) as [pd|] eqn:Pd; [|apply KD_refl].
  destruct (add_node s _) as [s1 idx] eqn:A. cbn [fst]. eapply KD_add_node; eauto; cbn; eauto.
Qed.

Lemma alias_kd u s n e : InvC u s -> KD u s (fst (alias u s n e)).
Proof.
  intros HI. unfold alias. destruct (get_node s n) as [nd|]; [|apply KD_refl].
  destruct (u_inst_exports u (nitem nd)); [|apply KD_refl].
  destruct (get_full l e 0) as [[index kind]|]; [|apply KD_refl]. destruct (find _ (outgoing s n)); [apply KD_refl|].
  destruct (add_node s _) as [s1 idx] eqn:A. cbn [fst]. eapply KD_add_node; eauto; cbn; auto.
Qed.

Lemma set_name_kd u s n nm : KD u s (fst (set_name s n nm)).
Proof.
  unfold set_name, update_node. destruct (get_node s n) as [nd|] eqn:G; [|apply KD_refl]. cbn [fst].
  eapply KD_set_node; [exact G| |reflexivity|reflexivity]. split; [repeat split; apply kclass_refl|auto].
Qed.

Lemma export_kd u s n e : KD u s (fst (export_ u s n e)).
Proof.
  unfold export_, update_node. destruct (alist_get N.eqb (exports s) e); [apply KD_refl|].
  destruct (negb _); [apply KD_refl|]. destruct (get_node s n) as [nd|] eqn:G; [|apply KD_refl]. cbn [fst].
  eapply KD_set_node; [exact G| |reflexivity|reflexivity]. split; [repeat split; apply kclass_refl|].
  cbn. discriminate.
Qed.

Lemma unexport_kd u s n : KD u s (fst (unexport s n)).
Proof.
  unfold unexport. destruct (get_node s n) as [nd|] eqn:G; [|apply KD_refl].
  destruct (nk nd) eqn:K; [apply KD_refl| | |];
    (match goal with |- context [match ?x with inl _ => _ | inr _ => _ end] => destruct x end;
     [|apply KD_refl]; cbn [fst]; eapply KD_set_node; [exact G| |reflexivity|reflexivity];
     split; [repeat split; cbn; rewrite K; apply kclass_refl|intros; congruence]).
Qed.

Lemma set_arg_kd u s inst a arg : KD u s (fst (set_arg u s inst a arg)).
Proof.
  unfold set_arg. destruct (get_node s inst) as [nd|] eqn:G; [|apply KD_refl].
  destruct (nk nd) eqn:K; try apply KD_refl. destruct (inst_imports u s nd); [|apply KD_refl].
  destruct (get_full l a 0) as [[index expected]|]; [|apply KD_refl].
  destruct (scan_incoming _ index arg); try apply KD_refl.
  destruct (get_node s arg) as [an|]; [|apply KD_refl]. destruct (negb _); [apply KD_refl|].
  destruct (add_satisfied _ inst index) as [[s2|]|] eqn:AS; try apply KD_refl. cbn [fst].
  unfold add_satisfied in AS. change (get_node (add_edge s _) inst) with (get_node s inst) in AS.
  rewrite G, K in AS. destruct (existsb _ sat); [discriminate|]. injection AS as <-.
  eapply KD_set_node; [exact G| |reflexivity|reflexivity].
  split; [repeat split; cbn; now rewrite K|intros; congruence].
Qed.

Lemma unset_arg_kd u s inst a arg : KD u s (fst (unset_arg u s inst a arg)).
Proof.
  unfold unset_arg. destruct (get_node s inst) as [nd|] eqn:G; [|apply KD_refl].
  destruct (nk nd) eqn:K; try apply KD_refl. destruct (inst_imports u s nd); [|apply KD_refl].
  destruct (get_full l a 0) as [[index expected]|]; [|apply KD_refl].
  destruct (scan_connecting _ index); try apply KD_refl.
  destruct (remove_satisfied s inst index) as [s1|] eqn:RS; [|apply KD_refl].
  apply remove_satisfied_inv in RS as [x [st [G' [K' ->]]]]. cbn [fst]. rewrite G in G'. injection G' as <-.
  eapply KD_set_node; [exact G| |reflexivity|reflexivity].
  split; [repeat split; cbn; now rewrite K'|intros; congruence].
Qed.

Lemma define_type_kd u s nm t : InvC u s -> KD u s (fst (define_type u s nm t)).
Proof.
  intros HI. unfold define_type. destruct (nth_error (u_tys u) t) as [td|] eqn:T; [|apply KD_refl].
  destruct (existsb (fun p => fst p =? t) (defined s)); [apply KD_refl|]. destruct (td_res td); [apply KD_refl|].
  destruct (existsb (fun p => N.eqb (fst p) nm) (exports s)); [apply KD_refl|].
  destruct (negb (u_import_name_ok u nm)); [apply KD_refl|].
  destruct (add_node s _) as [s1 idx] eqn:A. cbn [fst].
  set (Q := fun s' : gstate => nodes s' = nodes s1 /\ pkgs s' = pkgs s1).
  assert (Qadd : forall s' a b, Q s' -> Q (add_edge s' {| esrc := a; etgt := b; ek := EDep |})).
  { intros s' a b [Q1 Q2]. split; [exact Q1|exact Q2]. }
  assert (Q1 : Q s1) by (split; reflexivity).
  match goal with |- KD u s (with_maps ?s3 _ _ _) => assert (Q3 : Q s3) end.
  { apply fold_left_ind.
    - intros a0 [ot on] _ Qa. cbn [fst snd]. destruct (nth_error (u_tys u) ot); auto.
      apply fold_left_ind; auto. intros b d _ Qb. destruct ((d =? t) && _); auto.
    - apply fold_left_ind; auto. intros a0 d _ Qa. destruct (d =? t); auto.
      destruct (alist_get Nat.eqb (defined a0) d); auto. destruct (has_dep_edge a0 n idx); auto. }
  destruct Q3 as [Q3n Q3p]. eapply KD_add_node; eauto; cbn.
  split; [eauto|discriminate].
Qed.

Lemma remove_node_kd u s n : Inv u s -> KD u s (fst (remove_node s n)).
Proof.
  intros HI. destruct (remove_node s n) as [s' o] eqn:R. cbn [fst].
  assert (Hs : o <> OUnit -> s' = s).
  { revert R. unfold remove_node. destruct (remove_node_rec _ s n); intros [= <- <-]; [intros H; now contradiction H|auto]. }
  destruct o; try (rewrite Hs by discriminate; apply KD_refl).
  pose proof (remove_frame u s n s' HI R) as [L Nd _ _ _ _ Pk]. constructor; auto.
  - intros m a b G1 G2. assert (Lm : live s' m = true) by (unfold live; now rewrite G2).
    specialize (Nd m Lm). rewrite G1, G2 in Nd. now apply nrel5_nrel4.
  - intros m b G1 G2. assert (Lm : live s' m = true) by (unfold live; now rewrite G2).
    apply L in Lm. unfold live in Lm. rewrite G1 in Lm. discriminate.
Qed.

(** * the package table *)
Definition PInj (pk : list pslot) : Prop :=
  forall i j si sj p, nth_error pk i = Some si -> nth_error pk j = Some sj ->
    ps_pkg si = Some p -> ps_pkg sj = Some p -> i = j.

Lemma PInjS_iff s : PInjS s <-> PInj (pkgs s).
Proof.
  split.
  - intros H i j si sj p Hi Hj Pi Pj. specialize (H (i, ps_gen si) (j, ps_gen sj) p). unfold get_pkg in H.
    cbn [fst snd] in H. rewrite Hi, Hj, !Nat.eqb_refl in H. specialize (H Pi Pj). now injection H.
  - intros H [i g] [j h] p. unfold get_pkg. cbn [fst snd].
    destruct (nth_error (pkgs s) i) as [si|] eqn:Hi; [|discriminate].
    destruct (nth_error (pkgs s) j) as [sj|] eqn:Hj; [|discriminate].
    destruct (Nat.eqb_spec (ps_gen si) g) as [Eg|_]; [|discriminate].
    destruct (Nat.eqb_spec (ps_gen sj) h) as [Eh|_]; [|discriminate].
    intros Pi Pj. assert (E : i = j) by (eapply H; eauto). subst j. rewrite Hi in Hj. injection Hj as <-. congruence.
Qed.

Lemma PInj_update pk pk' i :
  PInj pk -> (forall j, j <> i -> nth_error pk' j = nth_error pk j) ->
  (forall x p, nth_error pk' i = Some x -> ps_pkg x = Some p ->
     forall j sl, nth_error pk j = Some sl -> ps_pkg sl <> Some p) ->
  PInj pk'.
Proof.
  intros H Ho Hi a b sa sb p Ha Hb Pa Pb.
  destruct (Nat.eq_dec a i) as [->|Na], (Nat.eq_dec b i) as [->|Nb]; auto.
  - exfalso. rewrite (Ho b Nb) in Hb. exact (Hi sa p Ha Pa b sb Hb Pb).
  - exfalso. rewrite (Ho a Na) in Ha. exact (Hi sb p Hb Pb a sa Ha Pa).
  - rewrite (Ho a Na) in Ha. rewrite (Ho b Nb) in Hb. exact (H a b sa sb p Ha Hb Pa Pb).
Qed.

Lemma find_pkg_slot_None s p :
  find_pkg_slot s p = None -> forall i sl, nth_error (pkgs s) i = Some sl -> ps_pkg sl <> Some p.
Proof.
  unfold find_pkg_slot. generalize 0 as a. induction (pkgs s) as [|x l IH]; intros a H i sl Hn.
  - destruct i; discriminate.
  - cbn in H. destruct i; cbn in Hn.
    + injection Hn as ->. destruct (ps_pkg sl) as [q|]; [|discriminate].
      destruct (Nat.eqb_spec q p); [discriminate|congruence].
    + refine (IH (S a) _ i sl Hn). destruct (ps_pkg x) as [q|]; auto. destruct (q =? p); [discriminate|auto].
Qed.

Lemma nth_error_snoc_other {A} (l : list A) x j : j <> length l -> nth_error (l ++ [x]) j = nth_error l j.
Proof.
  intros H. destruct (Nat.lt_ge_cases j (length l)) as [L|L]; [now apply nth_error_app1|].
  rewrite nth_error_app2 by lia. destruct (j - length l) as [|k] eqn:E; [lia|]. cbn.
  assert (nth_error l j = None) as -> by (apply nth_error_None; lia). now destruct k.
Qed.

Lemma register_kind u s p : Inv u s -> KindInv u s -> KindInv u (fst (register u s p)).
Proof.
  intros HI HK. unfold register. destruct (find_pkg_slot s p) eqn:F; [exact HK|].
  pose proof (find_pkg_slot_None s p F) as Fn.
  assert (Gen : forall s', nodes s' = nodes s -> (forall id q, get_pkg s id = Some q -> get_pkg s' id = Some q) ->
                PInj (pkgs s') -> KindInv u s').
  { intros s' Hn Hg Hj. eapply kind_step; eauto.
    - intros m a b G1 G2. unfold get_node in *. rewrite Hn in G2. rewrite G1 in G2. injection G2 as <-. apply nrel4_refl.
    - intros m b G1 G2. unfold get_node in *. rewrite Hn in G2. congruence.
    - intros m b id G Np. unfold get_node in G. rewrite Hn in G.
      destruct (inv_pkg_live _ _ HI m b id G Np) as [q Q]. rewrite Q. now apply Hg.
    - now apply PInjS_iff. }
  destruct (free_pkgs s) as [|i fp] eqn:Fp.
  - cbn [fst]. apply Gen; [reflexivity| |].
    + intros id q. rewrite !get_pkg_l_eq. cbn [with_pkgs pkgs]. apply get_pkg_l_app.
    + cbn [with_pkgs pkgs]. apply PInj_update with (pk := pkgs s) (i := length (pkgs s)).
      * apply PInjS_iff. exact (ki_pkg_inj _ _ HK).
      * intros j Hj. now apply nth_error_snoc_other.
      * intros x q Hx Px j sl Hsl. rewrite nth_error_app2, Nat.sub_diag in Hx by lia. cbn in Hx.
        injection Hx as <-. cbn in Px. injection Px as <-. now apply (Fn j sl).
  - destruct (nth_error (pkgs s) i) as [sl|] eqn:Sl; [|exact HK]. cbn [fst]. apply Gen; [reflexivity| |].
    + intros id q Q. rewrite get_pkg_l_eq in *. cbn [with_pkgs pkgs]. rewrite get_pkg_l_set_other; auto. intros E.
      destruct (inv_free_pkgs _ _ HI i) as [sl' [Sl' N]]; [rewrite Fp; now left|].
      unfold get_pkg_l in Q. rewrite E, Sl' in Q. destruct (ps_gen sl' =? snd id); congruence.
    + cbn [with_pkgs pkgs]. apply PInj_update with (pk := pkgs s) (i := i).
      * apply PInjS_iff. exact (ki_pkg_inj _ _ HK).
      * intros j Hj. rewrite nth_error_set_nth. apply Nat.eqb_neq in Hj. now rewrite Hj.
      * intros x q Hx Px j sl0 Hsl. rewrite nth_error_set_nth, Nat.eqb_refl in Hx.
        destruct (i <? length (pkgs s)); [|discriminate]. injection Hx as <-. cbn in Px. injection Px as <-.
        now apply (Fn j sl0).
Qed.

Lemma unregister_pkgs s id s' :
  unregister s id = (s', OUnit) ->
  exists sl, nth_error (pkgs s) (fst id) = Some sl /\ ps_gen sl = snd id /\
    pkgs s' = set_nth (pkgs s) (fst id) {| ps_pkg := None; ps_gen := S (ps_gen sl) |}.
Proof.
  unfold unregister. destruct (nth_error (pkgs s) (fst id)) as [sl|] eqn:Sl; [|discriminate].
  destruct (Nat.eqb_spec (ps_gen sl) (snd id)) as [Gen|Gen]; cbn [negb]; [|discriminate].
  destruct (negb _); [discriminate|].
  destruct (remove_satisfied_all _ _) as [s2|] eqn:R; [|discriminate].
  destruct (ps_pkg sl); [|discriminate]. intros [= <-].
  apply remove_satisfied_all_spec in R as (_ & _ & _ & _ & _ & _ & _ & R6 & _).
  cbn [with_maps pkgs] in R6.
  set (victims := nodes_where s2 (fun nd => pkg_eqb (npkg nd) (Some id))).
  destruct (drop_all_rest victims s2) as (_ & _ & _ & S4 & _).
  exists sl. split; [reflexivity|split; [exact Gen|]]. cbn [with_pkgs pkgs]. now rewrite S4, R6.
Qed.

Lemma unregister_kind u s id : Inv u s -> KindInv u s -> KindInv u (fst (unregister s id)).
Proof.
  intros HI HK. destruct (unregister s id) as [s' o] eqn:R. cbn [fst].
  assert (Hs : o <> OUnit -> s' = s).
  { revert R. unfold unregister. destruct (nth_error (pkgs s) (fst id)) as [sl|]; [|now intros [= <- <-]].
    destruct (negb (ps_gen sl =? snd id)); [now intros [= <- <-]|]. destruct (negb _); [now intros [= <- <-]|].
    destruct (remove_satisfied_all _ _); [|now intros [= <- <-]]. destruct (ps_pkg sl); [|now intros [= <- <-]].
    intros [= <- <-] H. now contradiction H. }
  destruct o; try (rewrite Hs by discriminate; exact HK).
  destruct (unregister_frame s id s' R) as (Lv & Nd & _ & _ & _ & _ & Pk).
  destruct (unregister_pkgs s id s' R) as (sl & Sl & Gen & Ps).
  eapply kind_step; eauto.
  - intros m a b G1 G2. assert (Lm : live s' m = true) by (unfold live; now rewrite G2).
    specialize (Nd m Lm). rewrite G1, G2 in Nd. now apply nrel5_nrel4.
  - intros m b G1 G2. assert (Lm : live s' m = true) by (unfold live; now rewrite G2).
    apply Lv in Lm as [Lm _]. unfold live in Lm. rewrite G1 in Lm. discriminate.
  - intros m b id' G2 Np. apply Pk. intros E.
    assert (Lm : live s' m = true) by (unfold live; now rewrite G2).
    pose proof (Nd m Lm) as Nm. apply Lv in Lm as [Lm Npi]. apply live_get in Lm as [a Ga].
    rewrite Ga, G2 in Nm. destruct Nm as (_ & P1 & _).
    assert (Na : npkg a = Some id') by congruence.
    destruct (inv_pkg_live _ _ HI m a id' Ga Na) as [q Q]. unfold get_pkg in Q. rewrite E, Sl in Q.
    destruct (Nat.eqb_spec (ps_gen sl) (snd id')) as [Eg|_]; [|discriminate].
    assert (id' = id) by (destruct id, id'; cbn in *; congruence). subst id'.
    unfold node_pkg_is in Npi. rewrite Ga in Npi.
    assert (pkg_eqb (npkg a) (Some id) = true) by (now apply pkg_eqb_true). congruence.
  - apply PInjS_iff. rewrite Ps. apply PInj_update with (pk := pkgs s) (i := fst id).
    + apply PInjS_iff. exact (ki_pkg_inj _ _ HK).
    + intros j Hj. rewrite nth_error_set_nth. apply Nat.eqb_neq in Hj. now rewrite Hj.
    + intros x q Hx Px. rewrite nth_error_set_nth, Nat.eqb_refl in Hx.
      destruct (fst id <? length (pkgs s)); [|discriminate]. injection Hx as <-. discriminate Px.
Qed.

(** * all operations, all histories *)
Lemma step_kind_inv : forall u s o, Inv u s -> KindInv u s -> KindInv u (fst (step u s o)).
Proof.
  intros u s o HI HK. pose proof (proj1 (Inv_iff u s) HI) as HC. destruct o; cbn [step].
  - now apply register_kind.
  - now apply unregister_kind.
  - eapply kind_step_kd; eauto using define_type_kd.
  - eapply kind_step_kd; eauto using import_kd.
  - eapply kind_step_kd; eauto using instantiate_kd.
  - eapply kind_step_kd; eauto using alias_kd.
  - eapply kind_step_kd; eauto using set_arg_kd.
  - eapply kind_step_kd; eauto using unset_arg_kd.
  - eapply kind_step_kd; eauto using export_kd.
  - eapply kind_step_kd; eauto using unexport_kd.
  - eapply kind_step_kd; eauto using set_name_kd.
  - eapply kind_step_kd; eauto using remove_node_kd.
Qed.

Lemma reach_kind_inv : forall u ops, KindInv u (run u ops).
Proof.
  intros u ops. induction ops as [|o ops IH] using rev_ind.
  - exact (kind_inv_empty u).
  - rewrite run_app. apply step_kind_inv; auto. apply reach_inv.
Qed.

(** * from the invariants to [EncInv] *)
(** a definition is exported under one name only: holds of every reachable graph ([reach_defs_single]) *)
Definition DefsSingle (g : gstate) : Prop :=
  forall nm nm' n, In (nm, n) (exports g) -> In (nm', n) (exports g) -> is_def g n = true -> nm' = nm.

Lemma defs_single_of_def_exp g : DefExp g -> DefsSingle g.
Proof.
  intros H nm nm' n H1 H2 D. unfold is_def in D. destruct (get_node g n) as [nd|] eqn:G; [|discriminate].
  destruct (nk nd) eqn:K; try discriminate. eapply def_exp_single; eauto.
Qed.

Theorem reach_defs_single : forall u ops, DefsSingle (run u ops).
Proof. intros u ops. apply defs_single_of_def_exp, reach_def_exp. Qed.

Lemma def_name_listed e g nm n :
  In (nm, n) (exports g) -> exists nm', In (nm', n) (exports g) /\ def_name e g n = nstr e nm'.
Proof.
  intros Hin. unfold def_name. destruct (find _ (exports g)) as [[nm' n']|] eqn:Fd.
  - apply find_some in Fd as [Hin' E]. cbn in E. apply Nat.eqb_eq in E. subst n'. eauto.
  - exfalso. pose proof (find_none _ _ Fd (nm, n) Hin) as X. cbn in X. rewrite Nat.eqb_refl in X. discriminate.
Qed.

Lemma def_name_single e g nm n :
  DefsSingle g -> In (nm, n) (exports g) -> is_def g n = true -> nstr e nm = def_name e g n.
Proof.
  intros DS Hin Hd. destruct (def_name_listed e g nm n Hin) as (nm' & Hin' & ->).
  now rewrite (DS nm nm' n Hin Hin' Hd).
Qed.

Theorem enc_inv_of_invariants : forall e u g,
  UnivOK e u -> Inv u g -> AliasInv u g -> KindInv u g -> DefsSingle g -> EncInv e u g.
Proof.
  intros e u g UO HI HA HK DS. constructor.
  - exact (uo_inst_sort _ _ UO).
  - intros n nd sat G K. destruct (ki_inst _ _ HK n nd sat G K) as (id & pd & Np & Pd & It).
    unfold pkg_desc in Pd. destruct (get_pkg g id) as [p|]; [|discriminate].
    destruct (uo_pkg_inst _ _ UO p pd Pd) as [ex Ex]. rewrite It. eapply uo_inst_sort; eauto.
  - intros n nd G K. destruct (ki_def _ _ HK n nd G K) as [(t & td & T & It) _]. rewrite It.
    eapply uo_ty_sort; eauto.
  - intros n nd src en sn ex k G K GA Gs U AG. unfold get_alias_source in GA.
    destruct (find _ (incoming g n)) as [ed|] eqn:Fd; [|discriminate].
    apply find_some in Fd as [He Ke]. unfold incoming in He. apply filter_In in He as [He T]. apply Nat.eqb_eq in T.
    destruct (ek ed) as [i|i|] eqn:Ki; try discriminate. destruct HA as [A _].
    destruct (A ed i He Ki) as (sn' & ex' & nd' & nm & G1 & U' & G2 & K2 & P & N).
    rewrite G1, U', N in GA. injection GA as <- <-. rewrite T in G2. rewrite G in G2. injection G2 as <-.
    rewrite G1 in Gs. injection Gs as <-. rewrite U' in U. injection U as <-.
    apply nth_error_In in N.
    rewrite (In_alist_get ex' nm (nitem nd) (uo_exports_nodup _ _ UO _ _ U') N) in AG. injection AG as <-. reflexivity.
  - intros n nd nm G K Ex. apply def_name_single; auto.
    + eapply inv_node_export; eauto.
    + unfold is_def. now rewrite G, K.
  - intros nm n Hin Hd. now apply def_name_single.
  - intros nm n Hin Hd. unfold str_mem. destruct (existsb _ (def_names e g)) eqn:Ex; auto. exfalso.
    apply existsb_exists in Ex as [x [Hx Ex]]. apply str_eqb_eq in Ex. unfold def_names in Hx.
    apply in_map_iff in Hx as [m [Em Hm]]. apply filter_In in Hm as [_ Dm].
    pose proof Dm as Dm'. unfold is_def in Dm'. destruct (get_node g m) as [md|] eqn:Gm; [|discriminate].
    destruct (nk md) eqn:Km; try discriminate. destruct (ki_def _ _ HK m md Gm Km) as [_ Ne].
    destruct (nexport md) as [nm'|] eqn:Ex'; [|congruence].
    pose proof (inv_node_export _ _ HI m md nm' Gm Ex') as Hin'.
    destruct (def_name_listed e g nm' m Hin') as (nm'' & Hin'' & Dn).
    assert (E : nm = nm'') by (apply (uo_names_inj _ _ UO); unfold nstr in *; congruence). subst nm''.
    assert (n = m) by (eapply NoDup_keys_inj; eauto; apply (inv_exports_keys _ _ HI)). subst m. congruence.
  - exact (ki_pkg_inj _ _ HK).
Qed.

Theorem enc_inv_reachable : forall e u ops,
  UnivOK e u -> EncInv e u (run u ops).
Proof.
  intros e u ops UO. apply enc_inv_of_invariants; auto.
  - apply reach_inv.
  - apply reach_alias_inv.
  - apply reach_kind_inv.
  - apply reach_defs_single.
Qed.
