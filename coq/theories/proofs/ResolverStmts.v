(** C04 proofs, part 6: statements -- import naming, export naming, spread export, duplicate names. *)
From Coq Require Import List Arith Bool NArith Lia.
From WacV Require Import Str Token Lexer Semver Names Ast Graph Resolver LangSpec ResolverProofs ResolverNew.
From WacV Require GraphInv.
Import ListNotations.
Local Open Scope nat_scope.

Lemma classic_nodup_N (l : list N) : NoDup l \/ ~ NoDup l.
Proof.
  induction l as [|a l IH]; [left; constructor|].
  destruct IH as [ND|NND]; [|right; intros H; inversion H; auto].
  destruct (in_dec N.eq_dec a l) as [Hi|Hn]; [right; intros H; inversion H; auto|left; now constructor].
Qed.

Section Stmts.
  Variable u : runiverse.
  Variable self_name : str.

  (** ** local names *)
  (** 6b. a name that is already defined is rejected with [DuplicateName], and only then *)
  Theorem register_name_duplicate id n st :
    im_get (rs_scope st) (id_string id) <> None <->
    register_name u id n st = inr (FErr (EDuplicateName (id_string id) (off (id_span id)))).
  Proof.
    unfold register_name, bind at 1. unfold get_scope at 1.
    destruct (im_get (rs_scope st) (id_string id)) as [x|] eqn:E.
    - split; [reflexivity|discriminate].
    - split; [intros X; now contradiction X|].
      unfold bind at 1. unfold put_scope at 1. unfold bind at 1. unfold get_g at 1. cbn [rs_g].
      destruct (get_node (rs_g st) n) as [nd|]; [|discriminate]. destruct (nname nd); [discriminate|].
      unfold bind at 1. unfold gop, bind at 1. unfold get_g at 1. cbn [rs_g].
      destruct (set_name (rs_g st) n (ru_intern u (id_string id))) as [g' o]. unfold bind at 1. unfold put_g at 1.
      unfold ret at 1. destruct o; discriminate.
  Qed.

  (** ** export names *)
  (** the name [export e;] uses: the package path of the instance's type, else the import name, else
      the accessed export name ([LangSpec.export_name_of] on the node's facts) *)
  Theorem infer_export_name_spec item st r st' :
    infer_export_name u item st = inl (r, st') ->
    st' = st /\ exists nd, get_node (rs_g st) item = Some nd /\
      r = match instance_id u (nitem nd) with Some p => Some p | None => node_source u (rs_g st) item end.
  Proof.
    unfold infer_export_name. intros H. apply bind_inl in H as (k & s1 & H1 & H).
    apply kind_of_inl in H1 as (-> & nd & G & ->).
    enough (E : st' = st /\ r = match instance_id u (nitem nd) with Some p => Some p | None => node_source u (rs_g st) item end)
      by (destruct E; split; eauto).
    destruct (instance_id u (nitem nd)) as [i|]; [apply ret_inl in H as [-> ->]; auto|].
    apply bind_inl in H as (g & s2 & H1 & H). apply get_g_inl in H1 as [-> ->].
    unfold node_import_name in H. unfold node_source. rewrite G in *.
    destruct (nk nd); try (apply ret_inl in H as [-> ->]; auto; fail).
    all: destruct (get_alias_source u (rs_g st) item) as [[src nm]|]; apply ret_inl in H as [-> ->]; auto.
  Qed.

  Lemma export_ok (g : gstate) n e g' :
    export_ u g n e = (g', OUnit) ->
    alist_get N.eqb (exports g) e = None /\ u_export_name_ok u e = true /\
    exports g' = exports_renamed g n ++ [(e, n)] /\ get_node g n <> None.
  Proof.
    unfold export_. destruct (alist_get N.eqb (exports g) e); [discriminate|].
    destruct (u_export_name_ok u e); [|discriminate]. cbn [negb]. unfold update_node.
    destruct (get_node g n); [|discriminate]. intros [= <-]. cbn. repeat split; auto. discriminate.
  Qed.

  (** only a type definition is renamed by [export]; any other node keeps its earlier export names *)
  Lemma exports_renamed_nondef (g : gstate) n :
    (forall nd, get_node g n = Some nd -> nk nd <> NDef) -> exports_renamed g n = exports g.
  Proof.
    intros H. unfold exports_renamed. destruct (get_node g n) as [nd|]; auto.
    specialize (H nd eq_refl). destruct (nk nd); auto. now contradiction H.
  Qed.

  (** no alias edge leads to a type definition (every graph built through the API: the target of an
      alias edge is an alias node, C06 [alias_inv_reachable]); boolean, so that it can be decided *)
  Definition alias_nondef_b (g : gstate) : bool :=
    forallb (fun ed => match ek ed with
                       | EAlias _ => match get_node g (etgt ed) with
                                     | Some nd => match nk nd with NDef => false | _ => true end
                                     | None => true
                                     end
                       | _ => true
                       end) (edges g).

  Lemma alias_nondef_spec g :
    alias_nondef_b g = true <->
    forall ed i nd, In ed (edges g) -> ek ed = EAlias i -> get_node g (etgt ed) = Some nd -> nk nd <> NDef.
  Proof.
    unfold alias_nondef_b. rewrite forallb_forall. split.
    - intros H ed i nd Hin K G. specialize (H ed Hin). rewrite K, G in H. intros E. rewrite E in H. discriminate.
    - intros H ed Hin. destruct (ek ed) as [i|j|] eqn:K; auto. destruct (get_node g (etgt ed)) as [nd|] eqn:G; auto.
      specialize (H ed i nd Hin K G). destruct (nk nd); try reflexivity. now contradiction H.
  Qed.

  Lemma alias_nondef_alias g item e g' n :
    nofree g -> alias_nondef_b g = true -> alias u g item e = (g', ONode n) ->
    alias_nondef_b g' = true /\ (forall nd, get_node g' n = Some nd -> nk nd <> NDef).
  Proof.
    intros [F Fp] AN. rewrite alias_nondef_spec in AN. unfold alias.
    destruct (get_node g item) as [nd0|]; [|discriminate].
    destruct (u_inst_exports u (nitem nd0)) as [ex|]; [|discriminate].
    destruct (get_full ex e 0) as [[index kind]|]; [|discriminate].
    destruct (find _ (outgoing g item)) as [ed|] eqn:Fd.
    - intros [= <- <-]. split; [now apply alias_nondef_spec|].
      apply find_some in Fd as [Hin K]. unfold outgoing in Hin. apply filter_In in Hin as [Hin _].
      destruct (ek ed) as [i|j|] eqn:Ke; try discriminate. intros nd G. exact (AN ed i nd Hin Ke G).
    - destruct (add_node g (mk_node NAlias kind (npkg nd0))) as [s1 idx] eqn:A.
      apply add_node_nofree in A as (-> & Hn & _ & He & _); auto. intros [= <- <-].
      assert (Gn : forall k nd, get_node (add_edge s1 {| esrc := item; etgt := length (nodes g); ek := EAlias index |}) k = Some nd ->
                     (k = length (nodes g) /\ nk nd = NAlias) \/ get_node g k = Some nd).
      { intros k nd. unfold get_node. cbn [add_edge nodes]. rewrite Hn.
        destruct (Nat.lt_ge_cases k (length (nodes g))) as [L|L].
        - rewrite nth_error_app1 by exact L. auto.
        - rewrite nth_error_app2 by exact L. destruct (k - length (nodes g)) as [|j] eqn:E.
          + cbn. intros [= <-]. left. split; [lia|reflexivity].
          + cbn. destruct j; discriminate. }
      split.
      + apply alias_nondef_spec. intros ed i nd Hin K G. apply Gn in G as [[_ G]|G]; [congruence|].
        cbn [add_edge edges] in Hin. rewrite He in Hin. destruct Hin as [<-|Hin]; [|exact (AN ed i nd Hin K G)].
        cbn [etgt] in G. exfalso. unfold get_node in G.
        assert (X : nth_error (nodes g) (length (nodes g)) = None) by (apply nth_error_None; lia).
        rewrite X in G. discriminate.
      + intros nd G. apply Gn in G as [[_ G]|G]; [congruence|]. exfalso. unfold get_node in G.
        assert (X : nth_error (nodes g) (length (nodes g)) = None) by (apply nth_error_None; lia).
        rewrite X in G. discriminate.
  Qed.

  Lemma alias_nondef_export g n e g' o :
    alias_nondef_b g = true -> export_ u g n e = (g', o) -> alias_nondef_b g' = true.
  Proof.
    intros AN. unfold export_. destruct (alist_get N.eqb (exports g) e); [now intros [= <- <-]|].
    destruct (negb (u_export_name_ok u e)); [now intros [= <- <-]|]. unfold update_node.
    destruct (get_node g n) as [nd|] eqn:G; [|now intros [= <- <-]]. intros [= <- <-].
    rewrite alias_nondef_spec in *. intros ed i nd' Hin K G'. cbn [with_maps set_node edges] in Hin.
    unfold get_node in G'. cbn [with_maps set_node nodes] in G'.
    change (match nth_error (set_nth (nodes g) n (Some {| nk := nk nd; npkg := npkg nd; nitem := nitem nd; nname := nname nd; nexport := Some e |})) (etgt ed) with
            | Some (Some nd) => Some nd | _ => None end = Some nd') in G'.
    rewrite GraphInv.nth_error_set_nth in G'. destruct (Nat.eqb_spec (etgt ed) n) as [E|E].
    - destruct (n <? length (nodes g)); [|discriminate]. injection G' as <-. cbn [nk].
      rewrite <- E in G. exact (AN ed i nd Hin K G).
    - exact (AN ed i nd' Hin K G').
  Qed.

  (** the local name equal to the export name is a type definition *)
  Definition defines (st : rstate) (nm : str) : bool :=
    match im_get (rs_scope st) nm with
    | Some (n, _) => match get_node (rs_g st) n with Some nd => match nk nd with NDef => true | _ => false end | None => false end
    | None => false
    end.

  Lemma export_item_unfold item nm at_ st :
    (forall n a, im_get (rs_scope st) nm = Some (n, a) -> get_node (rs_g st) n <> None) ->
    export_item u item nm at_ st =
      if defines st nm then inr (FErr (EExportConflict nm at_)) else
      match export_ u (rs_g st) item (ru_intern u nm) with
      | (g', OUnit) => inl (tt, {| rs_g := g'; rs_scope := rs_scope st |})
      | (_, OErr (ExportAlreadyExists _)) => inr (FErr (EDuplicateExternName XExport nm at_))
      | (_, OErr InvalidExportName) => inr (FErr (EInvalidExternName XExport nm at_))
      | (_, OPanic p) => inr (FPanic (RGraph p))
      | (_, _) => inr (FPanic RBadUniverse)
      end.
  Proof.
    intros Live. unfold export_item, defines, bind at 1. unfold get_scope at 1. unfold bind at 1. unfold get_g at 1.
    destruct (im_get (rs_scope st) nm) as [[n a]|] eqn:E.
    - specialize (Live n a eq_refl). destruct (get_node (rs_g st) n) as [nd|]; [|now contradiction Live].
      destruct (nk nd); try reflexivity.
      all: unfold bind at 1, gop, bind at 1; unfold get_g at 1;
        destruct (export_ u (rs_g st) item (ru_intern u nm)) as [g' o]; unfold bind at 1, put_g at 1, ret at 1;
        destruct o as [| | |e|p]; try reflexivity; destruct e; reflexivity.
    - unfold bind at 1, gop, bind at 1; unfold get_g at 1;
        destruct (export_ u (rs_g st) item (ru_intern u nm)) as [g' o]; unfold bind at 1, put_g at 1, ret at 1;
        destruct o as [| | |e|p]; try reflexivity; destruct e; reflexivity.
  Qed.

  (** 6i. An export whose name is already exported is rejected with [DuplicateExternName{export}],
      and only then (a name that is a type definition of the document is [ExportConflict]) *)
  Theorem export_item_conflict item nm at_ st :
    (forall n a, im_get (rs_scope st) nm = Some (n, a) -> get_node (rs_g st) n <> None) ->
    (export_item u item nm at_ st = inr (FErr (EDuplicateExternName XExport nm at_)) <->
     defines st nm = false /\ alist_get N.eqb (exports (rs_g st)) (ru_intern u nm) <> None).
  Proof.
    intros Live. rewrite export_item_unfold by exact Live. destruct (defines st nm); [split; [discriminate|intros [X _]; discriminate]|].
    unfold export_. destruct (alist_get N.eqb (exports (rs_g st)) (ru_intern u nm)) as [m|].
    - split; [intros _; split; [reflexivity|discriminate]|reflexivity].
    - split; [|intros [_ X]; now contradiction X].
      destruct (negb (u_export_name_ok u (ru_intern u nm))); [discriminate|].
      destruct (update_node (rs_g st) item _); discriminate.
  Qed.

  Lemma export_item_inl item nm at_ st st' :
    (forall n a, im_get (rs_scope st) nm = Some (n, a) -> get_node (rs_g st) n <> None) ->
    export_item u item nm at_ st = inl (tt, st') ->
    export_ u (rs_g st) item (ru_intern u nm) = (rs_g st', OUnit) /\ rs_scope st' = rs_scope st.
  Proof.
    intros Live. rewrite export_item_unfold by exact Live. destruct (defines st nm); [discriminate|].
    destruct (export_ u (rs_g st) item (ru_intern u nm)) as [g' o]. destruct o as [| | |e|p]; try discriminate.
    - intros [= <-]. auto.
    - destruct e; discriminate.
  Qed.

  (** every local name denotes a live node *)
  Definition scope_live (st : rstate) : Prop :=
    forall nm n a, im_get (rs_scope st) nm = Some (n, a) -> get_node (rs_g st) n <> None.

  Lemma scope_live_frame st st' : scope_live st -> gframe (rs_g st) (rs_g st') -> rs_scope st' = rs_scope st -> scope_live st'.
  Proof.
    intros SL GF Sc nm n a L. rewrite Sc in L. specialize (SL nm n a L).
    destruct (get_node (rs_g st) n) as [nd|] eqn:G; [|now contradiction SL].
    destruct (gf_nodes _ _ GF n nd G) as (b & G' & _). congruence.
  Qed.

  (** 4. Export names.  [export e;] exports the node of [e] under the inferred name; [export e as n;]
      under [n]; the diagnostic spans start at the expression / at the name. *)
  Theorem export_statement_name e opts st st' :
    nofree (rs_g st) -> scope_live st ->
    export_statement u self_name e opts st = inl (tt, st') ->
    match opts with
    | EONone =>
        exists item s1 nd nm,
          eval_expr u self_name e st = inl (item, s1) /\ get_node (rs_g s1) item = Some nd /\
          match instance_id u (nitem nd) with Some p => Some p | None => node_source u (rs_g s1) item end = Some nm /\
          export_ u (rs_g s1) item (ru_intern u nm) = (rs_g st', OUnit)
    | EORename n =>
        exists item s1,
          eval_expr u self_name e st = inl (item, s1) /\
          export_ u (rs_g s1) item (ru_intern u (extern_name_str n)) = (rs_g st', OUnit)
    | EOSpread _ => True
    end.
  Proof.
    intros NF SL H. unfold export_statement in H. apply bind_inl in H as (item & s1 & H1 & H).
    destruct (mframe_eval_expr u self_name e _ _ _ H1 NF) as [GF Sc].
    pose proof (scope_live_frame _ _ SL GF Sc) as SL1.
    destruct opts as [|sp|n]; auto.
    - apply bind_inl in H as (o & s2 & H2 & H). apply infer_export_name_spec in H2 as (-> & nd & G & ->).
      destruct (match instance_id u (nitem nd) with Some p => Some p | None => node_source u (rs_g s1) item end) as [nm|] eqn:E;
        [|discriminate].
      apply export_item_inl in H as [X _]; [|intros n a; apply SL1]. exists item, s1, nd, nm. auto.
    - apply export_item_inl in H as [X _]; [|intros m a; apply SL1]. exists item, s1. auto.
  Qed.

  (** ** import names *)
  (** "Items imported by a package path use the path as the name of the import"; otherwise the local
      name; [as] renames (an import whose type is a local name takes the package path associated
      with that item's type, if any) *)
  Definition import_name_of (st : rstate) (id : ident) (nm : option extern_name) (t : import_type) (name : str) : Prop :=
    match nm with
    | Some n => name = extern_name_str n
    | None =>
        match t with
        | ITPackage p => name = pp_string p
        | ITFunc _ | ITInterface _ => name = id_string id
        | ITIdent i =>
            exists n a nd, im_get (rs_scope st) (id_string i) = Some (n, a) /\ get_node (rs_g st) n = Some nd /\
              name = match ru_kind_id u (nitem nd) with Some s => s | None => id_string id end
        end
    end.

  Theorem import_statement_name id nm t st st' :
    import_statement u self_name id nm t st = inl (tt, st') ->
    exists name k s1 g2 n,
      import_name_of st id nm t name /\
      import_ u (rs_g s1) (ru_intern u name) (N.to_nat (ru_promote u k)) = (g2, ONode n) /\
      register_name u id n {| rs_g := g2; rs_scope := rs_scope s1 |} = inl (tt, st').
  Proof.
    unfold import_statement. intros H. apply bind_inl in H as ([name at_] & s0 & H0 & H).
    assert (N0 : import_name_of st id nm t name /\ s0 = st).
    { unfold import_name_of. destruct nm as [n|]; [apply ret_inl in H0 as [[= -> ->] ->]; auto|].
      destruct t as [p|f|items|i]; try (apply ret_inl in H0 as [[= -> ->] ->]; auto; fail).
      apply bind_inl in H0 as (n & s1 & H1 & H0). apply local_item_inl in H1 as (-> & a & L).
      apply bind_inl in H0 as (k & s2 & H2 & H0). apply kind_of_inl in H2 as (-> & nd & G & ->).
      destruct (ru_kind_id u (nitem nd)) eqn:KI; apply ret_inl in H0 as [[= -> ->] ->]; split; auto;
        exists n, a, nd; rewrite KI; auto. }
    destruct N0 as [N0 ->]. cbn [fst snd] in H.
    apply bind_inl in H as (k & s1 & H1 & H). apply bind_inl in H as (o & s2 & H2 & H).
    apply gop_inl in H2 as [H2 Sc2]. destruct o as [|n| |e|p]; try discriminate.
    - exists name, k, s1, (rs_g s2), n. split; auto. split; auto. destruct s2 as [g2 sc2]. cbn in *. now subst sc2.
    - destruct e; discriminate.
  Qed.

  (** ** spread exports *)
  (** the names a spread export adds: those not yet exported, in the instance's export order *)
  Definition export_filter (g : gstate) (names : list str) : list str :=
    filter (fun nm => match alist_get N.eqb (exports g) (ru_intern u nm) with Some _ => false | None => true end) names.

  Lemma alist_get_snoc_other {B} (l : list (name * B)) k v k' :
    k' <> k -> alist_get N.eqb (l ++ [(k, v)]) k' = alist_get N.eqb l k'.
  Proof.
    intros Hne. induction l as [|[a b] l IH]; cbn.
    - destruct (N.eqb_spec k k'); congruence.
    - destruct (N.eqb a k'); auto.
  Qed.

  Definition is_instance_with (g : gstate) (item : nat) (ex : list (str * kid)) : Prop :=
    exists nd, get_node g item = Some nd /\ inst_exports u (nitem nd) = Some ex.

  Lemma is_instance_frame g g' item ex : is_instance_with g item ex -> gframe g g' -> is_instance_with g' item ex.
  Proof. intros (nd & G & IE) GF. destruct (gf_nodes _ _ GF item nd G) as (b & Gb & Ib & _). exists b. split; auto. now rewrite Ib. Qed.

  Lemma spread_exports_inl item ea da ex : forall names any st any' st',
    spread_exports u item ea da names any st = inl (any', st') ->
    nofree (rs_g st) -> scope_live st -> NoDup (map (ru_intern u) names) ->
    is_instance_with (rs_g st) item ex -> alias_nondef_b (rs_g st) = true ->
    exists adds : list (name * nat),
      exports (rs_g st') = exports (rs_g st) ++ adds /\
      map fst adds = map (ru_intern u) (export_filter (rs_g st) names) /\
      Forall (fun p => exists nm, fst p = ru_intern u nm /\ alias_witness u item nm (snd p)) adds /\
      any' = (any || negb (is_nil adds)) /\ rs_scope st' = rs_scope st /\ gframe (rs_g st) (rs_g st').
  Proof.
    induction names as [|nm r IH]; intros any st any' st' H NF SL ND II AN.
    - cbn in H. apply ret_inl in H as [-> ->]. exists []. rewrite app_nil_r, orb_false_r.
      split; [reflexivity|]. split; [reflexivity|]. split; [constructor|]. split; [reflexivity|]. split; [reflexivity|now apply gframe_refl].
    - cbn [map] in ND. inversion ND as [|? ? Hnot ND']; subst. cbn [spread_exports] in H.
      apply bind_inl in H as (g & s0 & Hg & H). apply get_g_inl in Hg as [-> ->].
      unfold export_filter. cbn [filter].
      destruct (alist_get N.eqb (exports (rs_g st)) (ru_intern u nm)) as [m|] eqn:AG; [now apply IH|].
      apply bind_inl in H as (a & s1 & H1 & H).
      destruct (mframe_alias_export u item nm ea OpSpread _ _ _ H1 NF) as [GF1 Sc1].
      apply alias_export_inl in H1 as (nd' & ex' & G' & IE' & _ & [(HK' & -> & ->)|(HK' & n & -> & A)]); [discriminate|].
      apply bind_inl in H as ([] & s2 & H2 & H).
      pose proof (scope_live_frame _ _ SL GF1 Sc1) as SL1.
      apply export_item_inl in H2 as [X Sc2]; [|intros k b; apply SL1].
      pose proof (export_gframe u _ _ _ _ _ (gf_free _ _ GF1) X) as GF2.
      destruct (alias_nondef_alias _ _ _ _ _ NF AN A) as [AN1 ND1].
      pose proof (alias_nondef_export _ _ _ _ _ AN1 X) as AN2.
      apply export_ok in X as (_ & _ & EX & _). rewrite (exports_renamed_nondef _ _ ND1) in EX.
      destruct (alias_same_nodes u _ _ _ _ _ NF A) as (_ & _ & EXa & _ & _ & _).
      pose proof (scope_live_frame _ _ SL1 GF2 Sc2) as SL2.
      apply IH in H as (adds & E2 & MF & FA & -> & Sc3 & GF3); auto.
      2:{ exact (gf_free _ _ GF2). }
      2:{ eapply is_instance_frame; [eapply is_instance_frame; [exact II|exact GF1]|exact GF2]. }
      exists ((ru_intern u nm, n) :: adds).
      split; [rewrite E2, EX, EXa, <- app_assoc; reflexivity|].
      split; [|split; [|split; [|split]]].
      + cbn [map fst]. f_equal. rewrite MF. f_equal. unfold export_filter. apply filter_ext_in. intros x Hx.
        rewrite EX, EXa. rewrite alist_get_snoc_other; auto. intros E. apply Hnot. rewrite <- E. now apply in_map.
      + constructor; auto. exists nm. split; auto. exists (rs_g st), (rs_g s1). exact A.
      + cbn. now rewrite orb_true_r.
      + congruence.
      + eapply gframe_trans; [exact GF1|]. eapply gframe_trans; [exact GF2|exact GF3].
  Qed.

  (** 4'. Spread export: every export of the instance whose name is not yet exported is exported
      under its own name, as the alias of that export, in the instance's export order; the
      statement is rejected with [SpreadExportNoEffect] when that adds nothing, and with
      [NotAnInstance{Spread}] when the expression is not an instance. *)
  Theorem export_spread_spec e sp st st' :
    nofree (rs_g st) -> scope_live st ->
    export_statement u self_name e (EOSpread sp) st = inl (tt, st') ->
    exists item s1 ex adds,
      eval_expr u self_name e st = inl (item, s1) /\ is_instance_with (rs_g s1) item ex /\
      (NoDup (map (ru_intern u) (map fst ex)) -> alias_nondef_b (rs_g s1) = true ->
       exports (rs_g st') = exports (rs_g s1) ++ adds /\ adds <> [] /\
       map fst adds = map (ru_intern u) (export_filter (rs_g s1) (map fst ex)) /\
       Forall (fun p => exists nm, fst p = ru_intern u nm /\ alias_witness u item nm (snd p)) adds).
  Proof.
    intros NF SL H. unfold export_statement in H. apply bind_inl in H as (item & s1 & H1 & H).
    destruct (mframe_eval_expr u self_name e _ _ _ H1 NF) as [GF Sc].
    pose proof (scope_live_frame _ _ SL GF Sc) as SL1.
    apply bind_inl in H as (k & s2 & H2 & H). apply kind_of_inl in H2 as (-> & nd & G & ->).
    destruct (inst_exports u (nitem nd)) as [ex|] eqn:IE; [|discriminate].
    apply bind_inl in H as (any & s3 & H3 & H).
    assert (II : is_instance_with (rs_g s1) item ex) by (exists nd; auto).
    destruct (classic_nodup_N (map (ru_intern u) (map fst ex))) as [ND|NND].
    - destruct (alias_nondef_b (rs_g s1)) eqn:AN.
      + eapply spread_exports_inl in H3 as (adds & EX & MF & FA & -> & _); eauto; [|exact (gf_free _ _ GF)].
        cbn [orb] in H. destruct adds as [|a adds]; [discriminate|]. cbn in H. apply ret_inl in H as [_ ->].
        exists item, s1, ex, (a :: adds). split; auto. split; auto. intros _ _. repeat split; auto. discriminate.
      + exists item, s1, ex, []. split; auto. split; auto. intros _ X. congruence.
    - exists item, s1, ex, []. split; auto. split; auto. intros ND. contradiction.
  Qed.
End Stmts.

Section AccessIff.
  Variable u : runiverse.

  (** 6e. an access on something that is not an instance is rejected with [NotAnInstance{Access}] at
      the span of the operand, and only then *)
  Theorem access_not_instance_iff item pe parent st nd :
    get_node (rs_g st) item = Some nd ->
    forall a, eval_postfix u item pe parent st = inr (FErr (ENotAnInstance OpAccess a)) <->
              inst_exports u (nitem nd) = None /\ a = parent.
  Proof.
    intros G a. split.
    - intros H. apply access_spec_err in H as (nd' & G' & X). rewrite G in G'. injection G' as <-.
      destruct (inst_exports u (nitem nd)); [destruct X as [_ X]; discriminate|]. injection X as ->. auto.
    - intros [IE ->]. destruct pe as [sp id|sp s]; cbn [eval_postfix].
      + unfold bind at 1. unfold kind_of, bind at 1. unfold get_g at 1. rewrite G. unfold ret at 1. now rewrite IE.
      + unfold bind at 1. unfold alias_export, bind at 1. unfold kind_of, bind at 1. unfold get_g at 1. rewrite G.
        unfold ret at 1. now rewrite IE.
  Qed.
End AccessIff.
