(** Order facts used by the encoder simulation: what a topological enumeration gives, position
    lemmas, and fuel-independence of the specification's provenance function. *)
From Coq Require Import List Arith Bool NArith Lia.
From WacV Require Import Str Graph Wiring WiringSpec.
Import ListNotations.
Local Open Scope nat_scope.

(** * positions *)
Lemma index_of_app_notin n pre post : ~ In n pre -> index_of n (pre ++ n :: post) = length pre.
Proof.
  induction pre as [|m r IH]; cbn; intros H.
  - now rewrite Nat.eqb_refl.
  - destruct (m =? n) eqn:E; [apply Nat.eqb_eq in E; tauto|]. rewrite IH; auto.
Qed.

Lemma index_of_lt n l : In n l -> index_of n l < length l.
Proof.
  induction l as [|m r IH]; cbn; [tauto|]. intros H.
  destruct (m =? n) eqn:E; [lia|]. apply Nat.eqb_neq in E. destruct H; [congruence|]. apply IH in H. lia.
Qed.

Lemma existsb_eqb_In x l : existsb (Nat.eqb x) l = true <-> In x l.
Proof.
  rewrite existsb_exists. split.
  - intros [y [H E]]. apply Nat.eqb_eq in E. now subst.
  - intros H. exists x. split; auto. apply Nat.eqb_refl.
Qed.

Lemma nodupb_NoDup l : nodupb l = true -> NoDup l.
Proof.
  induction l as [|x r IH]; cbn; intros H; constructor.
  - apply andb_true_iff in H as [H _]. apply negb_true_iff in H. intros I. apply existsb_eqb_In in I. congruence.
  - apply andb_true_iff in H as [_ H]. auto.
Qed.

Lemma NoDup_filter {A} (f : A -> bool) l : NoDup l -> NoDup (filter f l).
Proof.
  induction 1 as [|x l N _ IH]; cbn; [constructor|].
  destruct (f x); auto. constructor; auto. intros I. apply filter_In in I. tauto.
Qed.

Lemma filter_app_mid {A} (f : A -> bool) pre x post :
  f x = true -> filter f (pre ++ x :: post) = filter f pre ++ x :: filter f post.
Proof. intros H. rewrite filter_app. cbn. now rewrite H. Qed.

Section Topo.
  Variable e : wenv.
  Variable u : universe.
  Variable g : gstate.
  Variable ord : list nat.

  Record Topo : Prop := {
    to_nodup : NoDup ord;
    to_live : forall n, In n ord -> live g n = true;
    to_all : forall n, In n (node_ids g) -> In n ord;
    to_edges : forall ed, In ed (edges g) -> index_of (esrc ed) ord < index_of (etgt ed) ord }.

  Lemma topo_orderb_Topo : topo_orderb g ord = true -> Topo.
  Proof.
    unfold topo_orderb. rewrite !andb_true_iff. intros [[[N A] L] E]. constructor.
    - now apply nodupb_NoDup.
    - intros n I. rewrite forallb_forall in L. auto.
    - intros n I. rewrite forallb_forall in A. apply A in I. now apply existsb_eqb_In in I.
    - intros ed I. rewrite forallb_forall in E. apply E in I. unfold precedes in I. now apply Nat.ltb_lt.
  Qed.

  Hypothesis T : Topo.

  Lemma live_lt n : live g n = true -> n < length (nodes g).
  Proof.
    unfold live, get_node. destruct (nth_error (nodes g) n) eqn:E; try discriminate. intros _.
    apply nth_error_Some. congruence.
  Qed.

  Lemma ord_length : length ord <= length (nodes g).
  Proof.
    assert (I : incl ord (seq 0 (length (nodes g)))).
    { intros n H. apply in_seq. split; [lia|]. cbn. apply live_lt. now apply (to_live T). }
    pose proof (NoDup_incl_length (to_nodup T) I) as H. now rewrite seq_length in H.
  Qed.

  (** the source of an alias precedes it *)
  Lemma alias_source_precedes n src en :
    get_alias_source u g n = Some (src, en) -> index_of src ord < index_of n ord.
  Proof.
    unfold get_alias_source.
    destruct (find _ (incoming g n)) as [ed|] eqn:F; try discriminate.
    apply find_some in F as [I _]. unfold incoming in I. apply filter_In in I as [I Tn]. apply Nat.eqb_eq in Tn.
    destruct (ek ed); try discriminate. destruct (get_node g (esrc ed)); try discriminate.
    destruct (u_inst_exports u (nitem n0)); try discriminate. destruct (nth_error l i) as [[nm k]|]; try discriminate.
    intros H. injection H as <- <-. rewrite <- Tn. now apply (to_edges T).
  Qed.

  (** provenance does not depend on the fuel once it exceeds the node's position *)
  Lemma prov_of_stable : forall k n f, index_of n ord < k -> k <= f -> In n ord ->
    prov_of e u g f ord n = prov_of e u g k ord n.
  Proof.
    induction k as [|k IH]; intros n f Hk Hf I; [lia|].
    destruct f as [|f]; [lia|]. cbn.
    destruct (get_node g n) as [nd|]; auto. destruct (nk nd); auto.
    destruct (get_alias_source u g n) as [[src en]|] eqn:A; auto.
    pose proof (alias_source_precedes _ _ _ A) as P.
    assert (Is : In src ord).
    { destruct (in_dec Nat.eq_dec src ord) as [?|N]; auto. exfalso.
      (* a node outside the order has the maximal index: it cannot precede *)
      assert (index_of src ord = length ord).
      { clear -N. induction ord as [|m r IHr]; cbn in *; auto. destruct (m =? src) eqn:E; [apply Nat.eqb_eq in E; tauto|].
        rewrite IHr; auto. }
      pose proof (index_of_lt _ _ I). lia. }
    rewrite (IH src f) by (auto; lia). reflexivity.
  Qed.

  Lemma node_prov_unfold n : In n ord ->
    node_prov e u g ord n = prov_of e u g (S (index_of n ord)) ord n.
  Proof.
    intros I. unfold node_prov. apply prov_of_stable; auto.
    pose proof (index_of_lt _ _ I). pose proof ord_length. lia.
  Qed.

  (** the provenance of an alias node in terms of its source's *)
  Lemma node_prov_alias n nd src en :
    In n ord -> get_node g n = Some nd -> nk nd = NAlias -> get_alias_source u g n = Some (src, en) ->
    In src ord -> node_prov e u g ord n = PAli (node_prov e u g ord src) (nstr e en).
  Proof.
    intros I G K A Is. rewrite (node_prov_unfold n I), (node_prov_unfold src Is).
    pose proof (alias_source_precedes _ _ _ A) as P.
    remember (prov_of e u g (S (index_of src ord)) ord src) as rhs eqn:R.
    cbn [prov_of]. rewrite G, K, A. f_equal. subst rhs. apply prov_of_stable; auto; lia.
  Qed.

  Lemma node_prov_inst n nd sat : get_node g n = Some nd -> nk nd = NInst sat -> node_prov e u g ord n = PInst (rank g ord n).
  Proof. intros G K. unfold node_prov. cbn. now rewrite G, K. Qed.
  Lemma node_prov_def n nd : get_node g n = Some nd -> nk nd = NDef -> node_prov e u g ord n = PExp (def_name e g n).
  Proof. intros G K. unfold node_prov. cbn. now rewrite G, K. Qed.
  Lemma node_prov_import n nd nm : get_node g n = Some nd -> nk nd = NImport nm ->
    node_prov e u g ord n = PImp (canon e u g (nstr e nm)).
  Proof. intros G K. unfold node_prov. cbn. now rewrite G, K. Qed.
End Topo.
