(** [convert_tree_faithful_partial]: on the resource-free fragment, every kind produced by the conversion unfolds
    to exactly the tree the validator entity denotes ([ConvertSpec.spec_tree]).

    Invariant.  Every cache entry denotes its validator identifier, ROBUSTLY: in every collection that [agree]s
    with the current one except on the slots under construction ([O]).  Robustness makes the frame reasoning
    trivial: whatever later steps do (append to the arenas, fill the open slots, reset owners) produces a
    collection related by [agree O], and [agree] is transitive. *)
From Coq Require Import Lia.
From WacV Require Import Str Types CheckerValue CheckerProofs Convert ConvertSpec ConvertProofs ConvertFrame.
Set Warnings "-unused-intro-pattern".

(** * Generic refinement lemmas: a specification at some fuel is matched by a monotone denotation at some fuel *)
Definition mono {B T} (U : nat -> B -> option T) : Prop :=
  forall f f' x y, (f <= f')%nat -> U f x = Some y -> U f' x = Some y.

Definition orel {A B} (R : A -> B -> Prop) (a : option A) (b : option B) : Prop :=
  match a, b with
  | None, None => True
  | Some x, Some y => R x y
  | _, _ => False
  end.

Section Refine.
  Context {A B T : Type}.
  Variable S : A -> option T.
  Variable U : nat -> B -> option T.
  Hypothesis HU : mono U.
  Let R (a : A) (b : B) : Prop := forall tr, S a = Some tr -> exists f', U f' b = Some tr.

  Lemma all_some_refine : forall l1 l2 l, Forall2 R l1 l2 -> all_some (map S l1) = Some l ->
    exists F, all_some (map (U F) l2) = Some l.
  Proof.
    induction l1 as [|a l1 IH]; intros l2 l H; inversion H as [|? b ? l2' Hab Hrest]; subst; cbn [map all_some].
    - intro E. injection E as <-. exists 0%nat. reflexivity.
    - destruct (S a) as [x|] eqn:Ea; [|discriminate].
      destruct (all_some (map S l1)) as [r|] eqn:Er; [|discriminate]. intro E. injection E as <-.
      destruct (Hab _ Ea) as [f1 H1]. destruct (IH _ _ Hrest eq_refl) as [f2 H2].
      exists (Nat.max f1 f2). rewrite (HU f1 _ _ _ (Nat.le_max_l _ _) H1).
      assert (He : ext_some (U f2) (U (Nat.max f1 f2))) by (intros x' y'; apply HU; apply Nat.le_max_r).
      now rewrite (all_some_map_ext _ _ _ _ He H2).
  Qed.

  Lemma omap_refine o1 o2 r : orel R o1 o2 -> omap S o1 = Some r -> exists F, omap (U F) o2 = Some r.
  Proof.
    destruct o1 as [a|], o2 as [b|]; cbn [orel omap]; try contradiction.
    - intros Hab. destruct (S a) as [x|] eqn:Ea; [|discriminate]. intro E. injection E as <-.
      destruct (Hab _ Ea) as [f1 H1]. exists f1. now rewrite H1.
    - intros _ E. exists 0%nat. exact E.
  Qed.

  Lemma map_snd_refine {K} : forall (l1 : list (K * A)) (l2 : list (K * B)) l,
    Forall2 (fun a b => fst a = fst b /\ R (snd a) (snd b)) l1 l2 -> map_snd S l1 = Some l ->
    exists F, map_snd (U F) l2 = Some l.
  Proof.
    unfold map_snd.
    induction l1 as [|[k a] l1 IH]; intros l2 l H; inversion H as [|? [k' b] ? l2' [Hk Hab] Hrest]; subst; cbn [map all_some fst snd] in *.
    - intro E. injection E as <-. exists 0%nat. reflexivity.
    - subst k'. destruct (S a) as [x|] eqn:Ea; [|discriminate].
      match goal with |- context [all_some (map ?F l1)] => destruct (all_some (map F l1)) as [r|] eqn:Er; [|discriminate] end.
      intro E. injection E as <-.
      destruct (Hab _ Ea) as [f1 H1]. destruct (IH _ _ Hrest eq_refl) as [f2 H2].
      exists (Nat.max f1 f2). rewrite (HU f1 _ _ _ (Nat.le_max_l _ _) H1).
      assert (He : ext_some (U f2) (U (Nat.max f1 f2))) by (intros x' y'; apply HU; apply Nat.le_max_r).
      fold (map_snd (U f2) l2') in H2. apply (map_snd_ext _ _ _ _ He) in H2. unfold map_snd in H2. now rewrite H2.
  Qed.
End Refine.

Lemma Forall2_imp {A B} (R1 R2 : A -> B -> Prop) l1 l2 :
  (forall a b, R1 a b -> R2 a b) -> Forall2 R1 l1 l2 -> Forall2 R2 l1 l2.
Proof. intros H. induction 1; constructor; auto. Qed.

Lemma mono_omap {B T} (U : nat -> B -> option T) : mono U -> mono (fun f => omap (U f)).
Proof. intros H f f' x y Hle. apply omap_ext. intros a b. now apply H. Qed.

(** the two halves of a pair of refinements can be given one fuel *)
Lemma mono_unfold_vt t : mono (fun f => unfold_vt f t).
Proof. intros f f' x y. apply unfold_vt_mono. Qed.
Lemma mono_unfold t : mono (fun f => unfold f t).
Proof. intros f f' x y. apply unfold_mono. Qed.

Section Tree.
  Variable g : vgraph.

  (** * What a converted identifier denotes *)
  Definition den_val (t : types) (v : vval) (x : valtype) : Prop :=
    forall fuel tr, spec_vt fuel g v = Some tr -> exists f', unfold_vt f' t x = Some tr.
  Definition den_func (t : types) (v : vid) (i : id) : Prop :=
    forall fuel ft, spec_ft fuel g v = Some ft -> exists f', unfold_func f' t i = Some ft.
  Definition den_ent (t : types) (e : vent) (k : kind) : Prop :=
    forall fuel tr, spec_tree fuel g e = Some tr -> exists f', unfold f' t k = Some tr.
  Definition den_inst (t : types) (v : vid) (i : id) : Prop :=
    forall fuel l, spec_inst (spec_tree fuel g) g v = Some l -> exists f', unfold_inst (unfold f' t) t i = Some l.
  Definition den_comp (t : types) (v : vid) (w : id) : Prop :=
    forall fuel ie, spec_comp (spec_tree fuel g) g v = Some ie -> exists f', unfold_comp (unfold f' t) t w = Some ie.
  Definition den_mod (t : types) (v : vid) (m : id) : Prop :=
    forall mt, spec_mod g v = Some mt -> get_mod t m = Some mt.

  Definition den (t : types) (v : vid) (e : entity) : Prop :=
    match e with
    | EnType (TValue x) => den_val t (WRef v) x
    | EnType (TFunc i) => den_func t v i
    | EnType (TInterface i) => den_inst t v i
    | EnType (TWorld w) => den_comp t v w
    | EnType (TModule m) => den_mod t v m
    | _ => True
    end.

  Definition rob (O : list slot) (t : types) (P : types -> Prop) : Prop := forall t', agree O t t' -> P t'.
  Definition cache_ok (O : list slot) (s : cstate) : Prop :=
    forall v e, nassoc v (cs_cache s) = Some e -> rob O (cs_types s) (fun t' => den t' v e).

  Lemma rob_step O t t1 P : agree O t t1 -> rob O t P -> rob O t1 P.
  Proof. intros A H t' A'. apply H. eapply agree_trans; eassumption. Qed.
  Lemma rob_step_nil O t t1 P : agree [] t t1 -> rob O t P -> rob O t1 P.
  Proof. intro A. apply rob_step. now apply agree_nil. Qed.
  Lemma rob_here O t (P : types -> Prop) : rob O t P -> P t.
  Proof. intro H. apply H. apply agree_refl. Qed.

  Lemma cache_ok_step O s s' :
    cs_cache s' = cs_cache s -> agree O (cs_types s) (cs_types s') -> cache_ok O s -> cache_ok O s'.
  Proof. intros Hc A H v e Hv. rewrite Hc in Hv. eapply rob_step; [exact A | exact (H v e Hv)]. Qed.
  Lemma cache_ok_put O s v e : cache_ok O s -> rob O (cs_types s) (fun t' => den t' v e) -> cache_ok O (cache_put s v e).
  Proof.
    intros H Hd w e'. unfold cache_put. cbn [cs_cache cs_types nassoc].
    destruct (Nat.eqb w v) eqn:E; [|apply H]. apply Nat.eqb_eq in E. subst. intro X. injection X as <-. exact Hd.
  Qed.

  (** the open slots exist; the cache is consistent *)
  Definition pre (O : list slot) (s : cstate) : Prop := slots_ok O (cs_types s) /\ cache_ok O s.
  Lemma pre_step O s s' :
    cs_cache s' = cs_cache s -> agree O (cs_types s) (cs_types s') -> pre O s -> pre O s'.
  Proof. intros Hc A [H1 H2]. split; [eapply slots_ok_agree; eassumption | eapply cache_ok_step; eassumption]. Qed.
  Lemma pre_step_nil O s s' :
    cs_cache s' = cs_cache s -> agree [] (cs_types s) (cs_types s') -> pre O s -> pre O s'.
  Proof. intros Hc A. apply pre_step; [exact Hc | now apply agree_nil]. Qed.
  Lemma pre_put O s v e : pre O s -> rob O (cs_types s) (fun t' => den t' v e) -> pre O (cache_put s v e).
  Proof. intros [H1 H2] Hd. split; [exact H1 | now apply cache_ok_put]. Qed.

  (** * The shape of the correctness statement of every conversion function *)
  Definition fn_ok {R} (F : cstate -> cres (R * cstate)) (D : types -> R -> Prop) : Prop :=
    forall O s r s', pre O s -> F s = COk (r, s') ->
      agree [] (cs_types s) (cs_types s') /\ pre O s' /\ rob O (cs_types s') (fun t' => D t' r).

  Lemma mapM_ok {A B} (f : A -> cstate -> cres (B * cstate)) (D : types -> A -> B -> Prop) :
    (forall a, fn_ok (f a) (fun t' b => D t' a b)) ->
    forall l, fn_ok (mapM f l) (fun t' bs => Forall2 (D t') l bs).
  Proof.
    intros Hf. induction l as [|a l IH]; intros O s r s' Hc H; cbn [mapM] in H.
    - injection H as <- <-. split; [apply agree_refl|]. split; [assumption|]. intros t' _. constructor.
    - inv_bind H as [y s1] H1. inv_bind H as [ys s2] H2. injection H as <- <-.
      destruct (Hf a O s y s1 Hc H1) as [A1 [C1 D1]]. destruct (IH O s1 ys s2 C1 H2) as [A2 [C2 D2]].
      split; [eapply agree_trans; eassumption|]. split; [assumption|].
      intros t' A'. constructor; [|now apply D2]. apply D1. eapply agree_trans; [apply agree_nil; exact A2 | exact A'].
  Qed.
  Lemma optM_ok {A B} (f : A -> cstate -> cres (B * cstate)) (D : types -> A -> B -> Prop) :
    (forall a, fn_ok (f a) (fun t' b => D t' a b)) ->
    forall o, fn_ok (optM f o) (fun t' o' => orel (D t') o o').
  Proof.
    intros Hf [a|] O s r s' Hc H; cbn [optM] in H.
    - inv_bind H as [y s1] H1. injection H as <- <-. destruct (Hf a O s y s1 Hc H1) as [A1 [C1 D1]].
      split; [assumption|]. split; [assumption|]. exact D1.
    - injection H as <- <-. split; [apply agree_refl|]. split; [assumption|]. intros t' _. exact I.
  Qed.
  Lemma named_ok {K A B} (f : A -> cstate -> cres (B * cstate)) (D : types -> A -> B -> Prop) :
    (forall a, fn_ok (f a) (fun t' b => D t' a b)) ->
    forall kv : K * A, fn_ok (named f kv) (fun t' kb => fst kv = fst kb /\ D t' (snd kv) (snd kb)).
  Proof.
    intros Hf kv O s r s' Hc H. unfold named in H. inv_bind H as [y s1] H1. injection H as <- <-.
    destruct (Hf _ O s y s1 Hc H1) as [A1 [C1 D1]]. split; [assumption|]. split; [assumption|].
    intros t' A'. cbn [fst snd]. split; [reflexivity|]. now apply D1.
  Qed.

  (** * Defined types *)
  Lemma mk_def_ok O s d v s' (P : types -> Prop) :
    pre O s -> mk_def d s = COk (v, s') ->
    (forall i t', v = VDefined i -> get_def t' i = Some d -> agree O (cs_types s) t' -> P t') ->
    agree [] (cs_types s) (cs_types s') /\ pre O s' /\ rob O (cs_types s') P.
  Proof.
    intros Hc H HP. unfold mk_def, add_def in H. injection H as <- <-. cbn [cs_types with_types].
    set (t1 := mktypes _ _ _ _ _ _ _).
    assert (A1 : agree [] (cs_types s) t1) by (apply (agree_add_def (cs_types s) d)).
    split; [exact A1|]. split.
    - apply (pre_step_nil O s (with_types s t1)); [reflexivity | exact A1 | exact Hc].
    - intros t' A'. eapply HP; [reflexivity | | eapply agree_trans; [apply agree_nil; exact A1 | exact A']].
      apply (agree_get_def _ _ _ A'). unfold get_def, t1. cbn [t_tag t_defined]. apply lookup_new.
  Qed.

  Lemma den_val_prim t p : den_val t (WPrim p) (VPrim p).
  Proof. intros [|f] tr; [discriminate|]. cbn. intro H. exists 1%nat. exact H. Qed.

  Section DefBody.
    Variable R : vid -> cstate -> cres (valtype * cstate).
    Hypothesis HR : forall d, fn_ok (R d) (fun t' x => den_val t' (WRef d) x).

    Lemma val_body_ok v : fn_ok (val_body R v) (fun t' x => den_val t' v x).
    Proof.
      destruct v as [p|d]; [|apply HR]. intros O s r s' Hc H. cbn [val_body] in H. injection H as <- <-.
      split; [apply agree_refl|]. split; [assumption|]. intros t' _. apply den_val_prim.
    Qed.

    Lemma defined_body_ok d : fn_ok (defined_body R g d) (fun t' x => den_val t' (WRef d) x).
    Proof.
      intros O s r s' Hc H. unfold defined_body in H.
      destruct (nassoc d (cs_cache s)) as [[[ | |x| | | ]|]|] eqn:Ec; try discriminate.
      { (* cache hit *)
        injection H as <- <-. split; [apply agree_refl|]. split; [assumption|]. exact (proj2 Hc _ _ Ec). }
      destruct (node_of g d) as [[nd| | | | | ]|] eqn:En; try discriminate.
      inv_bind H as [v s1] H1. injection H as <- <-.
      (* it suffices to establish the three facts for the state before the cache insertion *)
      assert (X : agree [] (cs_types s) (cs_types s1) /\ pre O s1 /\ rob O (cs_types s1) (fun t' => den_val t' (WRef d) v)).
      2:{ destruct X as [A1 [C1 D1]]. split; [exact A1|]. split; [|exact D1]. apply pre_put; assumption. }
      (* the specification at [WRef d], one step unfolded *)
      assert (SP : forall fuel tr, spec_vt fuel g (WRef d) = Some tr ->
                   exists f, fuel = S f /\ spec_vt_body (spec_vt f g) g (WRef d) = Some tr).
      { intros [|f] tr E; [discriminate|]. exists f. split; [reflexivity | exact E]. }
      destruct nd as [p|fs|cs|x|k x|x n|l|l|l|x|o e|r0|r0|o|o].
      - (* primitive *)
        eapply mk_def_ok; [exact Hc | exact H1|]. intros i t' -> Hg _ fuel tr E.
        destruct (SP _ _ E) as [f [-> E']]. cbn [spec_vt_body] in E'. rewrite En in E'. injection E' as <-.
        exists 2%nat. rewrite unfold_vt_eq. cbn [unfold_vt_body]. rewrite Hg. reflexivity.
      - (* record *)
        inv_bind H1 as [fs' s0] H0.
        destruct (mapM_ok _ _ (named_ok _ _ val_body_ok) fs O s fs' s0 Hc H0) as [A0 [C0 D0]].
        destruct (mk_def_ok O s0 (DRecord fs') v s1 (fun t' => den_val t' (WRef d) v) C0 H1) as [A1 [C1 D1]].
        2:{ split; [eapply agree_trans; eassumption|]. split; assumption. }
        intros i t' -> Hg A' fuel tr E. destruct (SP _ _ E) as [f [-> E']]. cbn [spec_vt_body] in E'. rewrite En in E'.
        destruct (map_snd (spec_vt f g) fs) as [l|] eqn:El; [|discriminate]. injection E' as <-.
        destruct (map_snd_refine (spec_vt f g) (fun f' => unfold_vt f' t') (mono_unfold_vt t') fs fs' l) as [F HF]; [|exact El|].
        { eapply Forall2_imp; [|exact (D0 t' A')]. intros a b [Hk Hd]. split; [exact Hk|]. intros tr'. apply Hd. }
        exists (S F). rewrite unfold_vt_eq. cbn [unfold_vt_body]. rewrite Hg, HF. reflexivity.
      - (* variant *)
        inv_bind H1 as [cs' s0] H0.
        destruct (mapM_ok _ _ (named_ok _ _ (optM_ok _ _ val_body_ok)) cs O s cs' s0 Hc H0) as [A0 [C0 D0]].
        destruct (mk_def_ok O s0 (DVariant cs') v s1 (fun t' => den_val t' (WRef d) v) C0 H1) as [A1 [C1 D1]].
        2:{ split; [eapply agree_trans; eassumption|]. split; assumption. }
        intros i t' -> Hg A' fuel tr E. destruct (SP _ _ E) as [f [-> E']]. cbn [spec_vt_body] in E'. rewrite En in E'.
        destruct (map_snd (omap (spec_vt f g)) cs) as [l|] eqn:El; [|discriminate]. injection E' as <-.
        destruct (map_snd_refine (omap (spec_vt f g)) (fun f' => omap (unfold_vt f' t')) (mono_omap _ (mono_unfold_vt t')) cs cs' l) as [F HF]; [|exact El|].
        { eapply Forall2_imp; [|exact (D0 t' A')]. intros a b [Hk Hd]. split; [exact Hk|]. intros tr' Ho.
          eapply (omap_refine (spec_vt f g) (fun f' => unfold_vt f' t')); [|exact Ho].
          destruct (snd a), (snd b); cbn [orel] in *; try contradiction; [|exact I]. intros tr''. apply Hd. }
        exists (S F). rewrite unfold_vt_eq. cbn [unfold_vt_body]. rewrite Hg, HF. reflexivity.
      - (* list *)
        inv_bind H1 as [x' s0] H0. destruct (val_body_ok x O s x' s0 Hc H0) as [A0 [C0 D0]].
        destruct (mk_def_ok O s0 (DList x') v s1 (fun t' => den_val t' (WRef d) v) C0 H1) as [A1 [C1 D1]].
        2:{ split; [eapply agree_trans; eassumption|]. split; assumption. }
        intros i t' -> Hg A' fuel tr E. destruct (SP _ _ E) as [f [-> E']]. cbn [spec_vt_body] in E'. rewrite En in E'.
        destruct (spec_vt f g x) as [y|] eqn:Ey; [|discriminate]. injection E' as <-.
        destruct (D0 t' A' _ _ Ey) as [F HF]. exists (S F). rewrite unfold_vt_eq. cbn [unfold_vt_body]. rewrite Hg, HF. reflexivity.
      - (* map *) discriminate.
      - (* fixed-size list *)
        inv_bind H1 as [x' s0] H0. destruct (val_body_ok x O s x' s0 Hc H0) as [A0 [C0 D0]].
        destruct (mk_def_ok O s0 (DFsl x' n) v s1 (fun t' => den_val t' (WRef d) v) C0 H1) as [A1 [C1 D1]].
        2:{ split; [eapply agree_trans; eassumption|]. split; assumption. }
        intros i t' -> Hg A' fuel tr E. destruct (SP _ _ E) as [f [-> E']]. cbn [spec_vt_body] in E'. rewrite En in E'.
        destruct (spec_vt f g x) as [y|] eqn:Ey; [|discriminate]. injection E' as <-.
        destruct (D0 t' A' _ _ Ey) as [F HF]. exists (S F). rewrite unfold_vt_eq. cbn [unfold_vt_body]. rewrite Hg, HF. reflexivity.
      - (* tuple *)
        inv_bind H1 as [l' s0] H0. destruct (mapM_ok _ _ val_body_ok l O s l' s0 Hc H0) as [A0 [C0 D0]].
        destruct (mk_def_ok O s0 (DTuple l') v s1 (fun t' => den_val t' (WRef d) v) C0 H1) as [A1 [C1 D1]].
        2:{ split; [eapply agree_trans; eassumption|]. split; assumption. }
        intros i t' -> Hg A' fuel tr E. destruct (SP _ _ E) as [f [-> E']]. cbn [spec_vt_body] in E'. rewrite En in E'.
        destruct (all_some (map (spec_vt f g) l)) as [r|] eqn:El; [|discriminate]. injection E' as <-.
        destruct (all_some_refine (spec_vt f g) (fun f' => unfold_vt f' t') (mono_unfold_vt t') l l' r) as [F HF]; [|exact El|].
        { eapply Forall2_imp; [|exact (D0 t' A')]. intros a b Hd tr'. apply Hd. }
        exists (S F). rewrite unfold_vt_eq. cbn [unfold_vt_body]. rewrite Hg, HF. reflexivity.
      - (* flags *)
        eapply mk_def_ok; [exact Hc | exact H1|]. intros i t' -> Hg _ fuel tr E.
        destruct (SP _ _ E) as [f [-> E']]. cbn [spec_vt_body] in E'. rewrite En in E'. injection E' as <-.
        exists 1%nat. rewrite unfold_vt_eq. cbn [unfold_vt_body]. rewrite Hg. reflexivity.
      - (* enum *)
        eapply mk_def_ok; [exact Hc | exact H1|]. intros i t' -> Hg _ fuel tr E.
        destruct (SP _ _ E) as [f [-> E']]. cbn [spec_vt_body] in E'. rewrite En in E'. injection E' as <-.
        exists 1%nat. rewrite unfold_vt_eq. cbn [unfold_vt_body]. rewrite Hg. reflexivity.
      - (* option *)
        inv_bind H1 as [x' s0] H0. destruct (val_body_ok x O s x' s0 Hc H0) as [A0 [C0 D0]].
        destruct (mk_def_ok O s0 (DOption x') v s1 (fun t' => den_val t' (WRef d) v) C0 H1) as [A1 [C1 D1]].
        2:{ split; [eapply agree_trans; eassumption|]. split; assumption. }
        intros i t' -> Hg A' fuel tr E. destruct (SP _ _ E) as [f [-> E']]. cbn [spec_vt_body] in E'. rewrite En in E'.
        destruct (spec_vt f g x) as [y|] eqn:Ey; [|discriminate]. injection E' as <-.
        destruct (D0 t' A' _ _ Ey) as [F HF]. exists (S F). rewrite unfold_vt_eq. cbn [unfold_vt_body]. rewrite Hg, HF. reflexivity.
      - (* result *)
        inv_bind H1 as [o' s0] H0. inv_bind H1 as [e' s00] H00.
        destruct (optM_ok _ _ val_body_ok o O s o' s0 Hc H0) as [A0 [C0 D0]].
        destruct (optM_ok _ _ val_body_ok e O s0 e' s00 C0 H00) as [A00 [C00 D00]].
        destruct (mk_def_ok O s00 (DResult o' e') v s1 (fun t' => den_val t' (WRef d) v) C00 H1) as [A1 [C1 D1]].
        2:{ split; [eapply agree_trans; [eassumption|eapply agree_trans; eassumption]|]. split; assumption. }
        intros i t' -> Hg A' fuel tr E. destruct (SP _ _ E) as [f [-> E']]. cbn [spec_vt_body] in E'. rewrite En in E'.
        destruct (omap (spec_vt f g) o) as [ro|] eqn:Eo; [|discriminate].
        destruct (omap (spec_vt f g) e) as [re|] eqn:Ee; [|discriminate]. injection E' as <-.
        destruct (omap_refine (spec_vt f g) (fun f' => unfold_vt f' t') o o' ro) as [F1 HF1]; [|exact Eo|].
        { assert (Ao : agree O (cs_types s0) t') by (eapply agree_trans; [apply agree_nil; exact A00 | exact A']).
          specialize (D0 t' Ao). destruct o, o'; cbn [orel] in *; try contradiction; [|exact I]. intros tr'. apply D0. }
        destruct (omap_refine (spec_vt f g) (fun f' => unfold_vt f' t') e e' re) as [F2 HF2]; [|exact Ee|].
        { specialize (D00 t' A'). destruct e, e'; cbn [orel] in *; try contradiction; [|exact I]. intros tr'. apply D00. }
        exists (S (Nat.max F1 F2)). rewrite unfold_vt_eq. cbn [unfold_vt_body]. rewrite Hg.
        rewrite (mono_omap _ (mono_unfold_vt t') F1 _ _ _ (Nat.le_max_l _ _) HF1).
        rewrite (mono_omap _ (mono_unfold_vt t') F2 _ _ _ (Nat.le_max_r _ _) HF2). reflexivity.
      - (* own: outside the resource-free fragment *)
        inv_bind H1 as x0 H0. injection H1 as <- <-. split; [apply agree_refl|]. split; [assumption|].
        intros t' _ fuel tr E. destruct (SP _ _ E) as [f [-> E']]. cbn [spec_vt_body] in E'. rewrite En in E'. discriminate.
      - (* borrow *)
        inv_bind H1 as x0 H0. injection H1 as <- <-. split; [apply agree_refl|]. split; [assumption|].
        intros t' _ fuel tr E. destruct (SP _ _ E) as [f [-> E']]. cbn [spec_vt_body] in E'. rewrite En in E'. discriminate.
      - (* future *)
        inv_bind H1 as [o' s0] H0. destruct (optM_ok _ _ val_body_ok o O s o' s0 Hc H0) as [A0 [C0 D0]].
        destruct (mk_def_ok O s0 (DFuture o') v s1 (fun t' => den_val t' (WRef d) v) C0 H1) as [A1 [C1 D1]].
        2:{ split; [eapply agree_trans; eassumption|]. split; assumption. }
        intros i t' -> Hg A' fuel tr E. destruct (SP _ _ E) as [f [-> E']]. cbn [spec_vt_body] in E'. rewrite En in E'.
        destruct (omap (spec_vt f g) o) as [ro|] eqn:Eo; [|discriminate]. injection E' as <-.
        destruct (omap_refine (spec_vt f g) (fun f' => unfold_vt f' t') o o' ro) as [F1 HF1]; [|exact Eo|].
        { specialize (D0 t' A'). destruct o, o'; cbn [orel] in *; try contradiction; [|exact I]. intros tr'. apply D0. }
        exists (S F1). rewrite unfold_vt_eq. cbn [unfold_vt_body]. rewrite Hg, HF1. reflexivity.
      - (* stream *)
        inv_bind H1 as [o' s0] H0. destruct (optM_ok _ _ val_body_ok o O s o' s0 Hc H0) as [A0 [C0 D0]].
        destruct (mk_def_ok O s0 (DStream o') v s1 (fun t' => den_val t' (WRef d) v) C0 H1) as [A1 [C1 D1]].
        2:{ split; [eapply agree_trans; eassumption|]. split; assumption. }
        intros i t' -> Hg A' fuel tr E. destruct (SP _ _ E) as [f [-> E']]. cbn [spec_vt_body] in E'. rewrite En in E'.
        destruct (omap (spec_vt f g) o) as [ro|] eqn:Eo; [|discriminate]. injection E' as <-.
        destruct (omap_refine (spec_vt f g) (fun f' => unfold_vt f' t') o o' ro) as [F1 HF1]; [|exact Eo|].
        { specialize (D0 t' A'). destruct o, o'; cbn [orel] in *; try contradiction; [|exact I]. intros tr'. apply D0. }
        exists (S F1). rewrite unfold_vt_eq. cbn [unfold_vt_body]. rewrite Hg, HF1. reflexivity.
    Qed.
  End DefBody.

  Lemma c_defined_ok : forall fuel d, fn_ok (c_defined fuel g d) (fun t' x => den_val t' (WRef d) x).
  Proof.
    induction fuel as [|f IH]; intros d; [intros O s r s' _ H; discriminate|].
    cbn [c_defined]. apply defined_body_ok. exact IH.
  Qed.
  Lemma c_val_ok fuel v : fn_ok (c_val fuel g v) (fun t' x => den_val t' v x).
  Proof. unfold c_val. apply val_body_ok. apply c_defined_ok. Qed.

  (** * Function types, module types, resources *)
  Lemma c_func_ok fuel v : fn_ok (c_func fuel g v) (fun t' i => den_func t' v i).
  Proof.
    intros O s r s' Hc H. unfold c_func in H.
    destruct (nassoc v (cs_cache s)) as [[[ |f0| | | | ]|]|] eqn:Ec; try discriminate.
    { injection H as <- <-. split; [apply agree_refl|]. split; [assumption|]. exact (proj2 Hc _ _ Ec). }
    destruct (node_of g v) as [[ |a ps r0| | | | ]|] eqn:En; try discriminate.
    inv_bind H as [ps' s1] H1. inv_bind H as [r' s2] H2.
    destruct (mapM_ok _ _ (named_ok _ _ (c_val_ok fuel)) ps O s ps' s1 Hc H1) as [A1 [C1 D1]].
    destruct (optM_ok _ _ (c_val_ok fuel) r0 O s1 r' s2 C1 H2) as [A2 [C2 D2]].
    unfold add_func in H. injection H as <- <-. cbn [cs_types cache_put with_types].
    set (fi := mkid (t_tag (cs_types s2)) (length (t_funcs (cs_types s2)))).
    set (t3 := mktypes _ _ _ _ _ _ _).
    assert (A3 : agree [] (cs_types s2) t3) by apply (agree_add_func (cs_types s2) (mkfunc ps' r' a)).
    assert (DD : rob O t3 (fun t' => den_func t' v fi)).
    { intros t' A' fuel0 ft E. unfold spec_ft in E. rewrite En in E.
      destruct (map_snd (spec_vt fuel0 g) ps) as [lp|] eqn:Ep; [|discriminate].
      destruct (omap (spec_vt fuel0 g) r0) as [lr|] eqn:Er; [|discriminate]. injection E as <-.
      assert (Hg : get_func t' fi = Some (mkfunc ps' r' a)).
      { apply (agree_get_func _ _ _ A'). unfold get_func, t3, fi. cbn [t_tag t_funcs]. apply lookup_new. }
      assert (A2' : agree O (cs_types s2) t') by (eapply agree_trans; [apply agree_nil; exact A3 | exact A']).
      assert (A1' : agree O (cs_types s1) t') by (eapply agree_trans; [apply agree_nil; exact A2 | exact A2']).
      destruct (map_snd_refine (spec_vt fuel0 g) (fun f' => unfold_vt f' t') (mono_unfold_vt t') ps ps' lp) as [F1 HF1]; [|exact Ep|].
      { eapply Forall2_imp; [|exact (D1 t' A1')]. intros x y [Hk Hd]. split; [exact Hk|]. intros tr'. apply Hd. }
      destruct (omap_refine (spec_vt fuel0 g) (fun f' => unfold_vt f' t') r0 r' lr) as [F2 HF2]; [|exact Er|].
      { specialize (D2 t' A2'). destruct r0, r'; cbn [orel] in *; try contradiction; [|exact I]. intros tr'. apply D2. }
      exists (Nat.max F1 F2). unfold unfold_func. rewrite Hg. cbn [f_params f_result f_async].
      assert (He1 : ext_some (unfold_vt F1 t') (unfold_vt (Nat.max F1 F2) t')) by (intros x y; apply unfold_vt_mono; apply Nat.le_max_l).
      rewrite (map_snd_ext _ _ _ _ He1 HF1).
      rewrite (mono_omap _ (mono_unfold_vt t') F2 _ _ _ (Nat.le_max_r _ _) HF2). reflexivity. }
    split; [eapply agree_trans; [exact A1 | eapply agree_trans; [exact A2 | exact A3]]|].
    split; [|exact DD].
    apply (pre_put O (with_types s2 t3)); [|exact DD].
    apply (pre_step_nil O s2 (with_types s2 t3)); [reflexivity | exact A3 | exact C2].
  Qed.

  Lemma c_module_ok v : fn_ok (c_module g v) (fun t' m => den_mod t' v m).
  Proof.
    intros O s r s' Hc H. unfold c_module in H.
    destruct (nassoc v (cs_cache s)) as [[[ | | | | |m0]|]|] eqn:Ec; try discriminate.
    { injection H as <- <-. split; [apply agree_refl|]. split; [assumption|]. exact (proj2 Hc _ _ Ec). }
    destruct (node_of g v) as [[ | | | | |[mt|]]|] eqn:En; try discriminate.
    unfold add_mod in H. injection H as <- <-. cbn [cs_types cache_put with_types].
    set (mi := mkid (t_tag (cs_types s)) (length (t_modules (cs_types s)))).
    set (t3 := mktypes _ _ _ _ _ _ _).
    assert (A3 : agree [] (cs_types s) t3) by apply (agree_add_mod (cs_types s) mt).
    assert (DD : rob O t3 (fun t' => den_mod t' v mi)).
    { intros t' A' mt' E. unfold spec_mod in E. rewrite En in E. injection E as <-.
      apply (agree_get_mod _ _ _ A'). unfold get_mod, t3, mi. cbn [t_tag t_modules]. apply lookup_new. }
    split; [exact A3|]. split; [|exact DD].
    apply (pre_put O (with_types s t3)); [|exact DD].
    apply (pre_step_nil O s (with_types s t3)); [reflexivity | exact A3 | exact Hc].
  Qed.

  Lemma pre_cons O s s' v e :
    cs_types s' = cs_types s -> cs_cache s' = (v, e) :: cs_cache s ->
    pre O s -> rob O (cs_types s) (fun t' => den t' v e) -> pre O s'.
  Proof.
    intros Ht Hca [H1 H2] Hd. split; [now rewrite Ht|]. intros w e'. rewrite Hca, Ht. cbn [nassoc].
    destruct (Nat.eqb w v) eqn:E; [|apply H2]. apply Nat.eqb_eq in E. subst. intro X. injection X as <-. exact Hd.
  Qed.

  Lemma c_resource_ok hf name v : fn_ok (c_resource hf g name v) (fun _ _ => True).
  Proof.
    intros O s r s' Hc H. unfold c_resource in H.
    destruct (nassoc v (cs_cache s)) as [[|r0]|] eqn:Ec; try discriminate.
    { injection H as <- <-. split; [apply agree_refl|]. split; [assumption|]. intros ? _. exact I. }
    destruct (node_of g v) as [[ | | | |rid| ]|] eqn:En; try discriminate.
    destruct (nassoc rid (cs_resmap s)) as [src|].
    - destruct (find_owner hf g (cs_owners s) v) as [o|]; [|discriminate].
      unfold add_res in H. injection H as <- <-. cbn [cs_types cache_put with_types].
      set (t3 := mktypes _ _ _ _ _ _ _).
      assert (A3 : agree [] (cs_types s) t3) by apply (agree_add_res (cs_types s) _).
      split; [exact A3|]. split; [|intros ? _; exact I].
      apply (pre_put O (with_types s t3)); [|intros ? _; exact I].
      apply (pre_step_nil O s (with_types s t3)); [reflexivity | exact A3 | exact Hc].
    - unfold add_res in H. injection H as <- <-. cbn [cs_types].
      set (t3 := mktypes _ _ _ _ _ _ _).
      assert (A3 : agree [] (cs_types s) t3) by apply (agree_add_res (cs_types s) _).
      split; [exact A3|]. split; [|intros ? _; exact I].
      eapply (pre_cons O (with_types s t3)); [reflexivity | reflexivity | | intros ? _; exact I].
      apply (pre_step_nil O s (with_types s t3)); [reflexivity | exact A3 | exact Hc].
  Qed.

  (** * Steps of the item loops *)
  Lemma remember_owner_frame cr o s :
    cs_types (remember_owner cr o s) = cs_types s /\ cs_cache (remember_owner cr o s) = cs_cache s.
  Proof. unfold remember_owner. destruct (nassoc cr (cs_owners s)); split; reflexivity. Qed.

  Lemma use_or_own_frame hf vn ow name rf cr s s' :
    use_or_own hf g vn ow name rf cr s = COk s' -> agree [] (cs_types s) (cs_types s') /\ cs_cache s' = cs_cache s.
  Proof.
    unfold use_or_own. destruct (find_owner hf g (cs_owners s) rf) as [[[other orig]|]|]; [| |discriminate].
    - intro H. inv_bind H as s1 H1. injection H as <-. cbn [log_site cs_types cs_cache].
      destruct (remember_owner_frame cr (other, orig) s1) as [-> ->].
      destruct other as [i|w]; [|injection H1 as <-; split; [apply agree_refl | reflexivity]].
      destruct (owner_eqb ow (OwIface i)); [injection H1 as <-; split; [apply agree_refl | reflexivity]|].
      destruct ow as [me|me].
      + destruct (upd_if _ _ _) as [t|] eqn:E; [|discriminate]. injection H1 as <-. split; [|reflexivity].
        eapply agree_upd_if; [exact E|]. right. reflexivity.
      + destruct (upd_world _ _ _) as [t|] eqn:E; [|discriminate]. injection H1 as <-. split; [|reflexivity].
        eapply agree_upd_world; [exact E|]. right. intro x. split; reflexivity.
    - destruct (nassoc cr (cs_owners s)); [discriminate|]. intro H. injection H as <-. split; [apply agree_refl | reflexivity].
  Qed.

  Lemma reset_self_owner_frame me k s s' :
    reset_self_owner me k s = COk s' -> agree [] (cs_types s) (cs_types s') /\ cs_cache s' = cs_cache s.
  Proof.
    unfold reset_self_owner.
    destruct k as [[res| | | | | ]| | | | | ]; try (intro H; injection H as <-; split; [apply agree_refl | reflexivity]).
    destruct (get_res (cs_types s) res) as [r|] eqn:Er; [|discriminate].
    destruct (res_alias r) as [[[o|] src]|] eqn:Ea; try (intro H; injection H as <-; split; [apply agree_refl | reflexivity]).
    destruct (id_eqb o me); [|intro H; injection H as <-; split; [apply agree_refl | reflexivity]].
    destruct (upd_res _ _ _) as [t|] eqn:E; [|discriminate]. intro H. injection H as <-. split; [|reflexivity].
    eapply agree_upd_res; [exact E|]. intros x Hx. rewrite Er in Hx. injection Hx as <-. split; [reflexivity|].
    unfold res_source. cbn [res_alias]. now rewrite Ea.
  Qed.

  Lemma get_if_upd t i f t' x : upd_if t i f = Some t' -> get_if t i = Some x -> get_if t' i = Some (f x).
  Proof.
    unfold upd_if. intros H E. rewrite E in H. injection H as <-. unfold get_if in *. cbn [t_tag t_interfaces].
    apply lookup_some in E as [E1 E2]. apply lookup_intro; [exact E1|]. eapply nth_error_set_nth_eq. exact E2.
  Qed.
  Lemma get_world_upd t i f t' x : upd_world t i f = Some t' -> get_world t i = Some x -> get_world t' i = Some (f x).
  Proof.
    unfold upd_world. intros H E. rewrite E in H. injection H as <-. unfold get_world in *. cbn [t_tag t_worlds].
    apply lookup_some in E as [E1 E2]. apply lookup_intro; [exact E1|]. eapply nth_error_set_nth_eq. exact E2.
  Qed.

  Lemma put_if_export_frame me name k s s' x :
    put_if_export me name k s = COk s' -> get_if (cs_types s) me = Some x ->
    agree [(true, id_idx me)] (cs_types s) (cs_types s') /\ cs_cache s' = cs_cache s /\
    exists x', get_if (cs_types s') me = Some x' /\ i_exports x' = i_exports x ++ [(name, k)].
  Proof.
    unfold put_if_export. intros H E. rewrite E in H. destruct (assoc name (i_exports x)); [discriminate|].
    destruct (upd_if _ _ _) as [t|] eqn:Eu; [|discriminate]. injection H as <-. cbn [cs_types with_types cs_cache].
    split; [eapply agree_upd_if; [exact Eu | left; now left]|]. split; [reflexivity|].
    eexists. split; [eapply get_if_upd; eassumption | reflexivity].
  Qed.
  Lemma put_world_import_frame me name k s s' x :
    put_world_import me name k s = COk s' -> get_world (cs_types s) me = Some x ->
    agree [(false, id_idx me)] (cs_types s) (cs_types s') /\ cs_cache s' = cs_cache s /\
    exists x', get_world (cs_types s') me = Some x' /\ w_imports x' = w_imports x ++ [(name, k)] /\ w_exports x' = w_exports x.
  Proof.
    unfold put_world_import. intros H E. rewrite E in H. destruct (assoc name (w_imports x)); [discriminate|].
    destruct (upd_world _ _ _) as [t|] eqn:Eu; [|discriminate]. injection H as <-. cbn [cs_types with_types cs_cache].
    split; [eapply agree_upd_world; [exact Eu | left; now left]|]. split; [reflexivity|].
    eexists. split; [eapply get_world_upd; eassumption | split; reflexivity].
  Qed.
  Lemma put_world_export_frame me name k s s' x :
    put_world_export me name k s = COk s' -> get_world (cs_types s) me = Some x ->
    agree [(false, id_idx me)] (cs_types s) (cs_types s') /\ cs_cache s' = cs_cache s /\
    exists x', get_world (cs_types s') me = Some x' /\ w_imports x' = w_imports x /\ w_exports x' = w_exports x ++ [(name, k)].
  Proof.
    unfold put_world_export. intros H E. rewrite E in H. destruct (assoc name (w_exports x)); [discriminate|].
    destruct (upd_world _ _ _) as [t|] eqn:Eu; [|discriminate]. injection H as <-. cbn [cs_types with_types cs_cache].
    split; [eapply agree_upd_world; [exact Eu | left; now left]|]. split; [reflexivity|].
    eexists. split; [eapply get_world_upd; eassumption | split; reflexivity].
  Qed.
End Tree.
