(** C06: [remove_node] removes exactly the node and its alias/dependency descendants. *)
From Coq Require Import List Arith Bool NArith Lia.
From WacV Require Import Graph GraphInv GraphPrims GraphSteps GraphRemove GraphUnreg GraphTheorems GraphLive
  GraphAcyclic GraphRank GraphAlias.
Import ListNotations.

Definition dstep (s : gstate) (a b : nat) : Prop :=
  exists e, In e (edges s) /\ dep_edge e /\ esrc e = a /\ etgt e = b.

Inductive reach (s : gstate) (a : nat) : nat -> Prop :=
  | reach_refl : reach s a a
  | reach_step b c : reach s a b -> dstep s b c -> reach s a c.

Lemma reach_trans s a b c : reach s a b -> reach s b c -> reach s a c.
Proof. intros H1 H2. induction H2; [exact H1|]. eapply reach_step; eauto. Qed.

Lemma reach_mono s s' a b : (forall e, In e (edges s') -> In e (edges s)) -> reach s' a b -> reach s a b.
Proof.
  intros H R. induction R; [constructor|]. eapply reach_step; eauto.
  destruct H0 as [e [He R']]. exists e. split; auto.
Qed.

(** * every removed node is a descendant *)
Lemma removed_are_descendants u fuel : forall s n s',
  InvC u s -> remove_node_rec fuel s n = inl s' ->
  forall m, live s m = true -> live s' m = false -> reach s n m.
Proof.
  induction fuel as [|f IH]; intros s n s' HI; [discriminate|]. rewrite remove_node_rec_S.
  assert (G : forall l s0 s1, InvC u s0 -> go_list (remove_node_rec f) s0 l = inl s1 ->
              InvC u s1 /\ (forall e, In e (edges s1) -> In e (edges s0)) /\
              forall m, live s0 m = true -> live s1 m = false -> exists d, In d l /\ reach s0 d m).
  { induction l as [|x r IHl]; intros s0 s1 H0; cbn.
    - intros [= <-]. split; [exact H0|split; [auto|]]. intros m L1 L2. congruence.
    - destruct (live s0 x) eqn:Lx.
      + destruct (remove_node_rec f s0 x) as [s2|] eqn:R; [|discriminate]. intros Go.
        pose proof (remove_node_rec_ok u f s0 x H0) as Ok. rewrite R in Ok. destruct Ok as (I2 & _ & _ & Ed).
        destruct (IHl s2 s1 I2 Go) as (J1 & J2 & J3). split; [exact J1|split; [auto|]].
        intros m L1 L2. destruct (live s2 m) eqn:L3.
        * destruct (J3 m L3 L2) as [d [Hd Rd]]. exists d. split; [now right|]. eapply reach_mono; eauto.
        * exists x. split; [now left|]. eapply IH; eauto.
      + intros Go. destruct (IHl s0 s1 H0 Go) as (J1 & J2 & J3). split; [exact J1|split; [auto|]].
        intros m L1 L2. destruct (J3 m L1 L2) as [d [Hd Rd]]. exists d. split; [now right|auto]. }
  destruct (go_list _ s (dependants s n)) as [s1|] eqn:Go; [|discriminate].
  destruct (G _ _ _ HI Go) as (J1 & J2 & J3). intros R m L1 L2.
  destruct (live s1 m) eqn:L3.
  - destruct (get_node s1 n) as [nd|] eqn:Gn.
    + destruct (remove_one_live u s1 n nd J1 Gn) as [s'' [R' (_ & _ & K & _)]]. rewrite R in R'. injection R' as <-.
      destruct (Nat.eq_dec m n) as [->|Hne]; [constructor|]. rewrite (K m Hne) in L2. congruence.
    + rewrite (remove_one_dead u s1 n J1 Gn) in R. discriminate.
  - destruct (J3 m L1 L3) as [d [Hd Rd]]. apply dependants_edge in Hd as [e [He [Es [Et De]]]].
    eapply reach_trans; [|exact Rd]. eapply reach_step; [constructor|]. exists e. auto.
Qed.

(** * every descendant is removed *)
Definition Exact (s cur : gstate) : Prop :=
  forall e, In e (edges s) -> dep_edge e -> live cur (esrc e) = true -> live cur (etgt e) = true -> In e (edges cur).
Definition Closed (s cur : gstate) : Prop :=
  forall e, In e (edges s) -> dep_edge e -> live cur (esrc e) = false -> live cur (etgt e) = false.

Lemma closure_kept u s fuel : forall cur n s',
  InvC u cur -> Exact s cur -> Closed s cur -> remove_node_rec fuel cur n = inl s' ->
  Exact s s' /\ Closed s s'.
Proof.
  induction fuel as [|f IH]; intros cur n s' HI HE HC; [discriminate|]. rewrite remove_node_rec_S.
  assert (G : forall l s0 s1, InvC u s0 -> Exact s s0 -> Closed s s0 -> go_list (remove_node_rec f) s0 l = inl s1 ->
              InvC u s1 /\ Exact s s1 /\ Closed s s1 /\ (forall m, live s1 m = true -> live s0 m = true) /\
              (forall m, In m l -> live s1 m = false)).
  { induction l as [|x r IHl]; intros s0 s1 H0 E0 C0; cbn.
    - intros [= <-]. split; [exact H0|split; [exact E0|split; [exact C0|split; [auto|intros m []]]]].
    - destruct (live s0 x) eqn:Lx.
      + destruct (remove_node_rec f s0 x) as [s2|] eqn:R; [|discriminate]. intros Go.
        pose proof (remove_node_rec_ok u f s0 x H0) as Ok. rewrite R in Ok. destruct Ok as (I2 & Dx & Lv & _).
        destruct (IH _ _ _ H0 E0 C0 R) as [E2 C2].
        destruct (IHl s2 s1 I2 E2 C2 Go) as (J1 & J2 & J3 & J4 & J5).
        split; [exact J1|split; [exact J2|split; [exact J3|split; [auto|]]]].
        intros m [Eq|Hm]; [subst m|auto]. destruct (live s1 x) eqn:L1; auto. apply J4 in L1. congruence.
      + intros Go. destruct (IHl s0 s1 H0 E0 C0 Go) as (J1 & J2 & J3 & J4 & J5).
        split; [exact J1|split; [exact J2|split; [exact J3|split; [auto|]]]].
        intros m [Eq|Hm]; [subst m|auto]. destruct (live s1 x) eqn:L1; auto. apply J4 in L1. congruence. }
  destruct (go_list _ cur (dependants cur n)) as [s1|] eqn:Go; [|discriminate].
  destruct (G _ _ _ HI HE HC Go) as (J1 & J2 & J3 & J4 & J5). intros R.
  destruct (get_node s1 n) as [nd|] eqn:Gn.
  2:{ rewrite (remove_one_dead u s1 n J1 Gn) in R. discriminate. }
  destruct (remove_one_live u s1 n nd J1 Gn) as [s'' [R' (_ & Dn & K & _)]]. rewrite R in R'. injection R' as <-.
  destruct (remove_one_delta s1 n s' R) as (De & _ & _).
  assert (Ln1 : live s1 n = true) by (unfold live; now rewrite Gn).
  split.
  - intros e He Dp L1 L2. rewrite De. apply filter_In.
    assert (S1 : esrc e <> n) by (intros Eq; rewrite Eq in L1; congruence).
    assert (S2 : etgt e <> n) by (intros Eq; rewrite Eq in L2; congruence).
    rewrite (K _ S1) in L1. rewrite (K _ S2) in L2. split; [now apply J2|].
    apply Nat.eqb_neq in S1, S2. now rewrite S1, S2.
  - intros e He Dp L1. destruct (Nat.eq_dec (etgt e) n) as [Et|Et]; [now rewrite Et|]. rewrite (K _ Et).
    destruct (Nat.eq_dec (esrc e) n) as [Es|Es].
    + destruct (live cur (etgt e)) eqn:Lt.
      * apply J5. apply dependants_In; auto. apply HE; auto. rewrite Es. now apply J4.
      * destruct (live s1 (etgt e)) eqn:L2; auto. apply J4 in L2. congruence.
    + rewrite (K _ Es) in L1. now apply J3.
Qed.

Lemma remove_exact u s n s' :
  Inv u s -> remove_node s n = (s', OUnit) ->
  forall m, live s' m = true <-> (live s m = true /\ ~ reach s n m).
Proof.
  intros H R m. apply Inv_iff in H. destruct (remove_node_gone u s n s' H R) as (I' & Gn & Lv & _).
  unfold remove_node in R. destruct (remove_node_rec _ s n) as [s''|] eqn:RR; [|discriminate]. injection R as <-.
  assert (HE : Exact s s) by (intros e He _ _ _; exact He).
  assert (HC : Closed s s).
  { intros e He _ L. destruct (eo_live _ _ (ic_edge _ _ H) e He) as [L1 _]. rewrite <- live_liveb in L1. congruence. }
  destruct (closure_kept u s _ s n s'' H HE HC RR) as [_ C'].
  assert (Hdead : forall x, reach s n x -> live s'' x = false).
  { intros x Rx. induction Rx; [apply Gn|]. destruct H0 as [e [He [De [Es Et]]]]. rewrite <- Et. apply C'; auto.
    now rewrite Es. }
  split.
  - intros L. split; [auto|]. intros Rm. apply Hdead in Rm. congruence.
  - intros [L Nr]. destruct (live s'' m) eqn:L'; auto. exfalso. apply Nr.
    eapply removed_are_descendants; eauto.
Qed.
