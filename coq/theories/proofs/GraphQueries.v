(** C06: the remaining queries ([get_export], [get_args], [list_imports]) as functions of the surviving
    content. *)
From Coq Require Import List Arith Bool NArith Lia.
From WacV Require Import Graph GraphInv GraphPrims GraphSteps GraphRemove GraphUnreg GraphTheorems GraphLive
  GraphAcyclic GraphRank GraphAlias.
Import ListNotations.

Lemma In_alist_get {B} (l : list (name * B)) k v : NoDup (map fst l) -> In (k, v) l -> alist_get N.eqb l k = Some v.
Proof.
  induction l as [|[k' v'] l IH]; cbn; [tauto|]. intros ND [E|H]; inversion ND as [|? ? Hn ND']; subst.
  - injection E as -> ->. now rewrite N.eqb_refl.
  - destruct (N.eqb_spec k' k) as [->|_]; [|auto]. exfalso. apply Hn. apply (in_map fst) in H. exact H.
Qed.

(** the export map: a name leads to a live node that carries... at least the map entry; and the export
    name recorded in a node leads back to the node *)
Lemma exports_reflect u s :
  Inv u s ->
  (forall nm n, alist_get N.eqb (exports s) nm = Some n -> live s n = true) /\
  (forall n nd nm, get_node s n = Some nd -> nexport nd = Some nm -> alist_get N.eqb (exports s) nm = Some n).
Proof.
  intros H. split.
  - intros nm n G. apply alist_get_In in G. eapply inv_exports_live; eauto.
  - intros n nd nm G E. apply In_alist_get; [apply (inv_exports_keys _ _ H)|]. eapply inv_node_export; eauto.
Qed.

(** arguments *)
Lemma get_args_spec u s n nm src :
  Inv u s ->
  (In (nm, src) (get_args u s n) <->
   exists nd sat imps e i k,
     get_node s n = Some nd /\ nk nd = NInst sat /\ inst_imports u s nd = Some imps /\
     In e (edges s) /\ etgt e = n /\ esrc e = src /\ ek e = EArg i /\ nth_error imps i = Some (nm, k) /\
     In i sat /\ live s src = true).
Proof.
  intros H. unfold get_args. split.
  - destruct (get_node s n) as [nd|] eqn:G; [|intros []].
    destruct (nk nd) as [| |sat|] eqn:K, (inst_imports u s nd) as [imps|] eqn:Im; try (intros []; fail).
    rewrite in_flat_map. intros [e [He Hin]].
    unfold incoming in He. apply filter_In in He as [He T]. apply Nat.eqb_eq in T.
    destruct (ek e) as [j|i|] eqn:Ke; try destruct Hin. destruct (nth_error imps i) as [[nm' k]|] eqn:Nt; [|destruct Hin].
    destruct Hin as [[= <- <-]|[]]. exists nd, sat, imps, e, i, k. repeat split; auto.
    + apply (sat_iff_edge u s n nd sat H G K). eauto.
    + apply (inv_edges_live _ _ H e He).
  - intros (nd & sat & imps & e & i & k & G & K & Im & He & T & S & Ke & Nt & _). rewrite G, K, Im.
    apply in_flat_map. exists e. split.
    + unfold incoming. apply filter_In. split; auto. now apply Nat.eqb_eq.
    + rewrite Ke, Nt, S. now left.
Qed.

(** imports: explicit ones are the import nodes, implicit ones the unsatisfied arguments *)
Lemma combine_seq_In {A} (l : list A) : forall a i x, In (i, x) (combine (seq a (length l)) l) <-> a <= i /\ nth_error l (i - a) = Some x.
Proof.
  induction l as [|y l IH]; intros a i x; cbn [length seq combine].
  - split; [intros []|]. intros [_ H]. destruct (i - a); discriminate.
  - cbn [In]. rewrite IH. split.
    + intros [[= <- <-]|[L H]]; [rewrite Nat.sub_diag; auto|]. split; [lia|].
      replace (i - a) with (S (i - S a)) by lia. exact H.
    + intros [L H]. destruct (Nat.eq_dec i a) as [->|Hne].
      * rewrite Nat.sub_diag in H. cbn in H. injection H as ->. now left.
      * right. split; [lia|]. replace (i - a) with (S (i - S a)) in H by lia. exact H.
Qed.

Lemma list_imports_explicit u s nm k n :
  In (nm, k, Some n) (list_imports u s) <-> exists nd, get_node s n = Some nd /\ nk nd = NImport nm /\ nitem nd = k.
Proof.
  unfold list_imports. rewrite in_app_iff, !in_flat_map. split.
  - intros [[m [Hm Hin]]|[m [Hm Hin]]].
    + destruct (get_node s m) as [nd|]; [|destruct Hin].
      destruct (nk nd) as [| |sat|], (inst_imports u s nd) as [imps|]; try (destruct Hin; fail).
      apply in_flat_map in Hin as [p [_ Hp]].
      destruct (existsb _ sat); [destruct Hp|]. destruct Hp as [E|[]]. discriminate.
    + destruct (get_node s m) as [nd|] eqn:G; [|destruct Hin]. destruct (nk nd) eqn:K; try (destruct Hin; fail).
      destruct Hin as [[= <- <- <-]|[]]. eauto.
  - intros [nd [G [K I]]]. right. exists n. split.
    + apply node_ids_live. unfold live. now rewrite G.
    + rewrite G, K, I. now left.
Qed.

Lemma list_imports_implicit u s nm k :
  Inv u s ->
  (In (nm, k, None) (list_imports u s) <->
   exists n nd sat imps i,
     get_node s n = Some nd /\ nk nd = NInst sat /\ inst_imports u s nd = Some imps /\
     nth_error imps i = Some (nm, k) /\ ~ exists e, In e (edges s) /\ etgt e = n /\ ek e = EArg i).
Proof.
  intros H. unfold list_imports. rewrite in_app_iff, !in_flat_map. split.
  - intros [[m [Hm Hin]]|[m [Hm Hin]]].
    + destruct (get_node s m) as [nd|] eqn:G; [|destruct Hin].
      destruct (nk nd) as [| |sat|] eqn:K, (inst_imports u s nd) as [imps|] eqn:Im; try (destruct Hin; fail).
      apply in_flat_map in Hin as [[i [nm' k']] [Hp Hx]].
      cbn [fst snd] in Hx. destruct (existsb (Nat.eqb i) sat) eqn:Ex; [destruct Hx|]. destruct Hx as [[= <- <-]|[]].
      apply combine_seq_In in Hp as [_ Hp]. rewrite Nat.sub_0_r in Hp.
      exists m, nd, sat, imps, i. repeat split; auto. intros He.
      apply (sat_iff_edge u s m nd sat H G K) in He. apply existsb_eqb_notIn in Ex. contradiction.
    + destruct (get_node s m) as [nd|]; [|destruct Hin]. destruct (nk nd); try (destruct Hin; fail).
      destruct Hin as [E|[]]. discriminate.
  - intros (n & nd & sat & imps & i & G & K & Im & Nt & Hno). left. exists n. split.
    + apply node_ids_live. unfold live. now rewrite G.
    + rewrite G, K, Im. apply in_flat_map. exists (i, (nm, k)). split.
      * apply combine_seq_In. rewrite Nat.sub_0_r. split; [lia|auto].
      * cbn [fst snd]. replace (existsb (Nat.eqb i) sat) with false; [now left|].
        symmetry. apply existsb_eqb_notIn. intros Hi. apply Hno. now apply (sat_iff_edge u s n nd sat H G K).
Qed.

(** * converses of some documented errors *)
Lemma import_exists_iff u s nm k n :
  k < length (u_lkinds u) ->
  (snd (import_ u s nm k) = OErr (ImportAlreadyExists n) <-> alist_get N.eqb (imports s) nm = Some n).
Proof.
  intros L. split.
  - intros H. apply import_errors in H as [[n' [[= ->] H]]|[H _]]; [auto|discriminate].
  - intros H. unfold import_. destruct (nth_error (u_lkinds u) k) eqn:E; [now rewrite H|].
    apply nth_error_None in E. lia.
Qed.

Lemma unexport_def_iff s n :
  snd (unexport s n) = OErr MustExportDefinition <-> exists nd, get_node s n = Some nd /\ nk nd = NDef.
Proof.
  split.
  - intros H. now apply unexport_errors in H.
  - intros [nd [G K]]. unfold unexport. now rewrite G, K.
Qed.

Lemma define_type_defined_iff u s nm t :
  t < length (u_tys u) ->
  (snd (define_type u s nm t) = OErr TypeAlreadyDefined <-> exists n, In (t, n) (defined s)).
Proof.
  intros L. split.
  - intros H. apply define_type_errors in H as [td [_ [[_ H]|[[H _]|[[H _]|[H _]]]]]]; auto; discriminate.
  - intros [n H]. unfold define_type. destruct (nth_error (u_tys u) t) eqn:E.
    + replace (existsb (fun p : nat * nat => fst p =? t) (defined s)) with true; auto.
      symmetry. apply existsb_exists. exists (t, n). split; auto. apply Nat.eqb_refl.
    + apply nth_error_None in E. lia.
Qed.
